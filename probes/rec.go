package main

import "fmt"

func init() {
	reg("identity-self-base", "C01/C11: `identity a { base a; }` must be an error, not a stack overflow", func() error {
		_, errs := mustLoadProcess("module m { " + hdr + " identity a { base a; } }")
		if len(errs) == 0 {
			return fmt.Errorf("cyclic identity accepted without error")
		}
		return nil
	})
	reg("identity-cycle-2", "C01/C11: a↔b identity cycle must be an error", func() error {
		_, errs := mustLoadProcess("module m { " + hdr + " identity a { base b; } identity b { base a; } }")
		if len(errs) == 0 {
			return fmt.Errorf("cyclic identity accepted without error")
		}
		return nil
	})
	reg("typedef-self", "C01/C09: `typedef a { type a; }` must be an error, not a stack overflow", func() error {
		_, errs := mustLoadProcess("module m { " + hdr + " typedef a { type a; } leaf l { type a; } }")
		if len(errs) == 0 {
			return fmt.Errorf("cyclic typedef accepted without error")
		}
		return nil
	})
	reg("typedef-cycle-2", "C01/C09: typedef a→b→a must be an error", func() error {
		_, errs := mustLoadProcess("module m { " + hdr + " typedef a { type b; } typedef b { type a; } }")
		if len(errs) == 0 {
			return fmt.Errorf("cyclic typedef accepted without error")
		}
		return nil
	})
	reg("typedef-union-cycle", "C01/C09: typedef a { type union { type a; type string; } } must be an error", func() error {
		_, errs := mustLoadProcess("module m { " + hdr + " typedef a { type union { type string; type a; } } }")
		if len(errs) == 0 {
			return fmt.Errorf("cyclic typedef accepted without error")
		}
		return nil
	})
	reg("grouping-self-uses", "C01/C06: `grouping g { uses g; }` must be an error, not a stack overflow", func() error {
		_, errs := mustLoadProcess("module m { " + hdr + " grouping g { leaf x { type string; } uses g; } container c { uses g; } }")
		if len(errs) == 0 {
			return fmt.Errorf("cyclic uses accepted without error")
		}
		return nil
	})
	reg("grouping-cycle-2", "C01/C06: g uses h uses g must be an error", func() error {
		_, errs := mustLoadProcess("module m { " + hdr + " grouping g { uses h; } grouping h { container k { uses g; } } container c { uses g; } }")
		if len(errs) == 0 {
			return fmt.Errorf("cyclic uses accepted without error")
		}
		return nil
	})
}

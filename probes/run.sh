#!/bin/bash
# Runs probes (all, or those matching $1) each in its own process with a 20 s limit.
export GOFLAGS=-mod=mod GOPROXY=off GOSUMDB=off GOTOOLCHAIN=local; unset GOWORK
cd /verif/probes && go build -o /tmp/probes.bin . || exit 3
for p in $(/tmp/probes.bin list | cut -f1 | grep -E "${1:-.}"); do
  out=$(timeout 20 /tmp/probes.bin "$p" 2>&1); rc=$?
  case $rc in
    0) echo "OK      $p";;
    1) echo "DEFECT  $p: $(echo "$out" | grep DEFECT | cut -c1-200)";;
    124) echo "DEFECT  $p: TIMEOUT (hang)";;
    *) echo "DEFECT  $p: CRASH rc=$rc $(echo "$out" | grep -m1 -E 'panic:|fatal error:|SIGSEGV' | cut -c1-150)";;
  esac
done
rm -f /tmp/probes.bin

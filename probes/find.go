package main

import (
	"fmt"

	"github.com/openconfig/goyang/pkg/yang"
)

func init() {
	reg("find-lazy-output-parent", "C04/C12/C17: rpc output created by path lookup must point back to its rpc and answer namespace queries", func() error {
		ms, errs := mustLoadProcess("module m { " + hdr + " rpc r { input { leaf l { type string; } } } }")
		if len(errs) != 0 {
			return fmt.Errorf("unexpected errors %v", errs)
		}
		root := yang.ToEntry(ms.Modules["m"])
		out := root.Find("/m:r/m:output")
		if out == nil {
			return fmt.Errorf("output not found")
		}
		if out.Parent != root.Dir["r"] {
			return fmt.Errorf("lazily created output has Parent %v", out.Parent)
		}
		if mod, err := out.InstantiatingModule(); err != nil || mod != "m" {
			return fmt.Errorf("InstantiatingModule = %q, %v", mod, err)
		}
		if out.Path() != "/m/r/output" {
			return fmt.Errorf("Path = %q", out.Path())
		}
		return nil
	})
	reg("find-bogus-step-under-rpc", "C17: a step that names no child of an rpc must make the lookup fail", func() error {
		ms, errs := mustLoadProcess("module m { " + hdr + " rpc r { input { leaf l { type string; } } } }")
		if len(errs) != 0 {
			return fmt.Errorf("unexpected errors %v", errs)
		}
		root := yang.ToEntry(ms.Modules["m"])
		if e := root.Find("/m:r/m:bogus/m:input/m:l"); e != nil {
			return fmt.Errorf("path with a bogus step resolved to %s", e.Path())
		}
		if e := root.Find("/m:r/m:bogus"); e != nil {
			return fmt.Errorf("bogus child of rpc resolved to %s", e.Path())
		}
		if e := root.Find("/m:r/m:input/m:l"); e == nil {
			return fmt.Errorf("valid path not found")
		}
		return nil
	})
	reg("find-from-grouping-entry", "C17/C01: an absolute lookup started from a grouping's entry tree must not panic", func() error {
		ms, errs := mustLoadProcess("module m { " + hdr + " grouping g { leaf x { type string; } } container c { uses g; } }")
		if len(errs) != 0 {
			return fmt.Errorf("unexpected errors %v", errs)
		}
		ge := yang.ToEntry(ms.Modules["m"].Grouping[0])
		if e := ge.Dir["x"].Find("/m:c/m:x"); e == nil {
			return fmt.Errorf("absolute path from a grouping entry not found")
		}
		if mod, err := ge.Dir["x"].InstantiatingModule(); err != nil || mod != "m" {
			return fmt.Errorf("InstantiatingModule = %q, %v", mod, err)
		}
		return nil
	})
}

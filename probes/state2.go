package main

import (
	"fmt"

	"github.com/openconfig/goyang/pkg/yang"
)

func init() {
	reg("byns-stale", "C18: a namespace lookup must not keep answering from before a later load", func() error {
		a := "module a { namespace \"urn:x\"; prefix a; }"
		b := "module b { namespace \"urn:x\"; prefix b; }"
		// batch: both loaded, then queried
		ms1 := yang.NewModules()
		ms1.Parse(a, "a.yang")
		ms1.Parse(b, "b.yang")
		_, err1 := ms1.FindModuleByNamespace("urn:x")
		// incremental: queried in between
		ms2 := yang.NewModules()
		ms2.Parse(a, "a.yang")
		ms2.FindModuleByNamespace("urn:x")
		ms2.Parse(b, "b.yang")
		m2, err2 := ms2.FindModuleByNamespace("urn:x")
		if (err1 == nil) != (err2 == nil) {
			return fmt.Errorf("batch: err=%v; incremental: module=%v err=%v", err1, m2 != nil, err2)
		}
		return nil
	})
}

func init() {
	reg("incremental-newer-revision-type", "C18: a type resolved against an older revision is re-bound when a newer revision is loaded and Process runs again", func() error {
		foo19 := "module foo { namespace \"urn:foo\"; prefix foo; revision 2019-01-01; typedef t { type string; } }"
		foo20 := "module foo { namespace \"urn:foo\"; prefix foo; revision 2020-01-01; typedef t { type uint32; } }"
		user := "module user { namespace \"urn:user\"; prefix u; import foo { prefix f; } leaf x { type f:t; } }"
		kindOf := func(ms *yang.Modules) string {
			e := yang.ToEntry(ms.Modules["user"])
			x := e.Dir["x"]
			if x == nil || x.Type == nil {
				return "?"
			}
			return x.Type.Kind.String()
		}
		batch := yang.NewModules()
		batch.Parse(foo19, "foo@2019-01-01.yang")
		batch.Parse(foo20, "foo@2020-01-01.yang")
		batch.Parse(user, "user.yang")
		if errs := batch.Process(); len(errs) > 0 {
			return fmt.Errorf("batch: %v", errs)
		}
		inc := yang.NewModules()
		inc.Parse(foo19, "foo@2019-01-01.yang")
		inc.Parse(user, "user.yang")
		if errs := inc.Process(); len(errs) > 0 {
			return fmt.Errorf("inc first: %v", errs)
		}
		inc.Parse(foo20, "foo@2020-01-01.yang")
		if errs := inc.Process(); len(errs) > 0 {
			return fmt.Errorf("inc second: %v", errs)
		}
		if a, b := kindOf(batch), kindOf(inc); a != b {
			return fmt.Errorf("leaf x has type %s after a batch load but %s after loading the newer revision later and processing again", a, b)
		}
		return nil
	})
	reg("incremental-missing-import-identity", "C18: an error caused by a module that was not loaded yet goes away once it is loaded and Process runs again", func() error {
		base := "module base { namespace \"urn:base\"; prefix b; identity root; }"
		user := "module user { namespace \"urn:user\"; prefix u; import base { prefix b; } typedef r { type identityref { base b:root; } } leaf x { type r; } }"
		batch := yang.NewModules()
		batch.Parse(base, "base.yang")
		batch.Parse(user, "user.yang")
		berrs := batch.Process()
		inc := yang.NewModules()
		inc.Parse(user, "user.yang")
		inc.Process() // fails: base is missing
		inc.Parse(base, "base.yang")
		ierrs := inc.Process()
		if len(berrs) != len(ierrs) {
			return fmt.Errorf("batch load: %d errors %v; load user, process, load base, process: %d errors %v", len(berrs), berrs, len(ierrs), ierrs)
		}
		return nil
	})
}

func init() {
	reg("incremental-identity-values-old-revision", "C18: identity value lists after an incremental load equal those of a batch load, also on the older revision", func() error {
		b19 := "module base { namespace \"urn:base\"; prefix b; revision 2019-01-01; identity root; }"
		b20 := "module base { namespace \"urn:base\"; prefix b; revision 2020-01-01; identity root; }"
		user := "module user { namespace \"urn:user\"; prefix u; import base { prefix b; } identity child { base b:root; } }"
		vals := func(ms *yang.Modules) string {
			out := ""
			for _, k := range []string{"base@2019-01-01", "base@2020-01-01"} {
				out += k + ":["
				for _, v := range ms.Modules[k].Identity[0].Values {
					out += v.Name + " "
				}
				out += "] "
			}
			return out
		}
		batch := yang.NewModules()
		batch.Parse(b19, "base@2019-01-01.yang")
		batch.Parse(b20, "base@2020-01-01.yang")
		batch.Parse(user, "user.yang")
		if errs := batch.Process(); len(errs) > 0 {
			return fmt.Errorf("batch: %v", errs)
		}
		inc := yang.NewModules()
		inc.Parse(b19, "base@2019-01-01.yang")
		inc.Parse(user, "user.yang")
		inc.Process()
		inc.Parse(b20, "base@2020-01-01.yang")
		if errs := inc.Process(); len(errs) > 0 {
			return fmt.Errorf("inc: %v", errs)
		}
		if a, b := vals(batch), vals(inc); a != b {
			return fmt.Errorf("batch: %s; incremental: %s", a, b)
		}
		return nil
	})
}

func init() {
	reg("incremental-identity-dict-stale", "C18: an identity that only an older, superseded submodule revision defines is not resolvable after the newer one is loaded", func() error {
		sm := "module sm { namespace \"urn:sm\"; prefix sm; include ss; leaf l { type identityref { base OLD; } } }"
		ss20 := "submodule ss { belongs-to sm { prefix sm; } revision 2020-01-01; identity OLD; }"
		ss21 := "submodule ss { belongs-to sm { prefix sm; } revision 2021-01-01; identity NEW; }"
		batch := yang.NewModules()
		batch.Parse(sm, "sm.yang")
		batch.Parse(ss20, "ss@2020-01-01.yang")
		batch.Parse(ss21, "ss@2021-01-01.yang")
		berrs := batch.Process()
		inc := yang.NewModules()
		inc.Parse(sm, "sm.yang")
		inc.Parse(ss20, "ss@2020-01-01.yang")
		inc.Process()
		inc.Parse(ss21, "ss@2021-01-01.yang")
		ierrs := inc.Process()
		if len(berrs) != len(ierrs) {
			return fmt.Errorf("batch: %d errors %v; incremental: %d errors %v", len(berrs), berrs, len(ierrs), ierrs)
		}
		return nil
	})
}

package main

import (
	"fmt"

	"github.com/openconfig/goyang/pkg/yang"
)

func init() {
	reg("byns-stale", "C18: a namespace lookup must not keep answering from before a later load", func() error {
		a := "module a { namespace \"urn:x\"; prefix a; }"
		b := "module b { namespace \"urn:x\"; prefix b; }"
		// batch: both loaded, then queried
		ms1 := yang.NewModules()
		ms1.Parse(a, "a.yang")
		ms1.Parse(b, "b.yang")
		_, err1 := ms1.FindModuleByNamespace("urn:x")
		// incremental: queried in between
		ms2 := yang.NewModules()
		ms2.Parse(a, "a.yang")
		ms2.FindModuleByNamespace("urn:x")
		ms2.Parse(b, "b.yang")
		m2, err2 := ms2.FindModuleByNamespace("urn:x")
		if (err1 == nil) != (err2 == nil) {
			return fmt.Errorf("batch: err=%v; incremental: module=%v err=%v", err1, m2 != nil, err2)
		}
		return nil
	})
}

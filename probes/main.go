// Command probes demonstrates, against the real code in /repo, the genuine defects that the static
// rules exposed (DESIGN.md §5). It is NOT a registered check and decides no property: it exists only
// because a defect must be shown with a failing input before it is repaired or recorded.
// Usage: probes <case>      exit 0 = behaves as the property demands, exit 1 = defect observed,
//                            crash / timeout = defect observed (the driver run.sh reports it).
package main

import (
	"fmt"
	"os"
	"sort"
	"strings"

	"github.com/openconfig/goyang/pkg/yang"
)

type probe struct {
	name string
	doc  string
	run  func() error // non-nil error = defect observed
}

var probes []probe

func reg(name, doc string, run func() error) { probes = append(probes, probe{name, doc, run}) }

func load(texts ...string) (*yang.Modules, []error) {
	ms := yang.NewModules()
	var errs []error
	for i, t := range texts {
		if err := ms.Parse(t, fmt.Sprintf("m%d.yang", i)); err != nil {
			errs = append(errs, err)
		}
	}
	return ms, errs
}

func mustLoadProcess(texts ...string) (*yang.Modules, []error) {
	ms, errs := load(texts...)
	if len(errs) > 0 {
		return ms, errs
	}
	return ms, ms.Process()
}

func hasErr(errs []error, sub string) bool {
	for _, e := range errs {
		if strings.Contains(e.Error(), sub) {
			return true
		}
	}
	return false
}

const hdr = "namespace \"urn:m\"; prefix m; "

func main() {
	if len(os.Args) < 2 || os.Args[1] == "list" {
		sort.Slice(probes, func(i, j int) bool { return probes[i].name < probes[j].name })
		for _, p := range probes {
			fmt.Printf("%s\t%s\n", p.name, p.doc)
		}
		return
	}
	for _, p := range probes {
		if p.name == os.Args[1] {
			if err := p.run(); err != nil {
				fmt.Printf("DEFECT %s: %v\n", p.name, err)
				os.Exit(1)
			}
			fmt.Printf("OK %s\n", p.name)
			return
		}
	}
	fmt.Println("no such probe")
	os.Exit(3)
}

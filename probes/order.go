package main

import (
	"fmt"
	"strings"

	"github.com/openconfig/goyang/pkg/yang"
)

func runMany(n int, f func() string) map[string]int {
	out := map[string]int{}
	for i := 0; i < n; i++ {
		out[f()]++
	}
	return out
}

func init() {
	reg("deviate-kind-order", "C05/C08: `deviate delete {default a;} deviate add {default b;}` must always take effect in written order", func() error {
		res := runMany(80, func() string {
			ms, errs := mustLoadProcess("module m { " + hdr + ` leaf l { type string; default a; }
  deviation /m:l { deviate delete { default a; } deviate add { default b; } } }`)
			if len(errs) != 0 {
				return fmt.Sprintf("errors:%d", len(errs))
			}
			return fmt.Sprint(yang.ToEntry(ms.Modules["m"]).Dir["l"].Default)
		})
		if len(res) != 1 || res["[b]"] == 0 {
			return fmt.Errorf("outcomes over 80 runs: %v", res)
		}
		return nil
	})
	reg("deviating-module-order", "C05/C08: two modules replacing the same default must give one outcome", func() error {
		res := runMany(80, func() string {
			ms, errs := mustLoadProcess("module m { "+hdr+" leaf l { type string; default a; } }",
				"module d1 { namespace \"urn:d1\"; prefix d1; import m { prefix m; } deviation /m:l { deviate replace { default x; } } }",
				"module d2 { namespace \"urn:d2\"; prefix d2; import m { prefix m; } deviation /m:l { deviate replace { default y; } } }")
			if len(errs) != 0 {
				return fmt.Sprintf("errors:%d", len(errs))
			}
			return fmt.Sprint(yang.ToEntry(ms.Modules["m"]).Dir["l"].Default)
		})
		if len(res) != 1 {
			return fmt.Errorf("outcomes over 80 runs: %v", res)
		}
		return nil
	})
	reg("identity-tie-order", "C05/C11: same-named identities from two modules must be listed in a fixed order", func() error {
		res := runMany(80, func() string {
			ms, errs := mustLoadProcess("module b { namespace \"urn:b\"; prefix b; identity base; }",
				"module p { namespace \"urn:p\"; prefix p; import b { prefix b; } identity x { base b:base; } }",
				"module q { namespace \"urn:q\"; prefix q; import b { prefix b; } identity x { base b:base; } }")
			if len(errs) != 0 {
				return fmt.Sprintf("errors:%d", len(errs))
			}
			var names []string
			for _, v := range ms.Modules["b"].Identity[0].Values {
				names = append(names, yang.RootNode(v).Name+":"+v.Name)
			}
			return strings.Join(names, ",")
		})
		if len(res) != 1 {
			return fmt.Errorf("outcomes over 80 runs: %v", res)
		}
		return nil
	})
	reg("augment-collision-message-order", "C05/C07: the error list for two colliding augmenting modules must be the same on every run", func() error {
		res := runMany(80, func() string {
			_, errs := mustLoadProcess(
				"module m { "+hdr+" container c { } }",
				"module a { namespace \"urn:a\"; prefix a; import m { prefix m; } augment /m:c { leaf x { type string; } } }",
				"module b { namespace \"urn:b\"; prefix b; import m { prefix m; } augment /m:c { leaf x { type string; } } }")
			return fmt.Sprint(errs)
		})
		if len(res) != 1 {
			return fmt.Errorf("%d different error lists over 80 runs", len(res))
		}
		return nil
	})
}

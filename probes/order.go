package main

import (
	"fmt"
	"os"
	"path/filepath"
	"sort"
	"strings"

	"github.com/openconfig/goyang/pkg/yang"
)

func runMany(n int, f func() string) map[string]int {
	out := map[string]int{}
	for i := 0; i < n; i++ {
		out[f()]++
	}
	return out
}

func init() {
	reg("deviate-kind-order", "C05/C08: `deviate delete {default a;} deviate add {default b;}` must always take effect in written order", func() error {
		res := runMany(80, func() string {
			ms, errs := mustLoadProcess("module m { " + hdr + ` leaf l { type string; default a; }
  deviation /m:l { deviate delete { default a; } deviate add { default b; } } }`)
			if len(errs) != 0 {
				return fmt.Sprintf("errors:%d", len(errs))
			}
			return fmt.Sprint(yang.ToEntry(ms.Modules["m"]).Dir["l"].Default)
		})
		if len(res) != 1 || res["[b]"] == 0 {
			return fmt.Errorf("outcomes over 80 runs: %v", res)
		}
		return nil
	})
	reg("deviating-module-order", "C05/C08: two modules replacing the same default must give one outcome", func() error {
		res := runMany(80, func() string {
			ms, errs := mustLoadProcess("module m { "+hdr+" leaf l { type string; default a; } }",
				"module d1 { namespace \"urn:d1\"; prefix d1; import m { prefix m; } deviation /m:l { deviate replace { default x; } } }",
				"module d2 { namespace \"urn:d2\"; prefix d2; import m { prefix m; } deviation /m:l { deviate replace { default y; } } }")
			if len(errs) != 0 {
				return fmt.Sprintf("errors:%d", len(errs))
			}
			return fmt.Sprint(yang.ToEntry(ms.Modules["m"]).Dir["l"].Default)
		})
		if len(res) != 1 {
			return fmt.Errorf("outcomes over 80 runs: %v", res)
		}
		return nil
	})
	reg("identity-tie-order", "C05/C11: same-named identities from two modules must be listed in a fixed order", func() error {
		res := runMany(80, func() string {
			ms, errs := mustLoadProcess("module b { namespace \"urn:b\"; prefix b; identity base; }",
				"module p { namespace \"urn:p\"; prefix p; import b { prefix b; } identity x { base b:base; } }",
				"module q { namespace \"urn:q\"; prefix q; import b { prefix b; } identity x { base b:base; } }")
			if len(errs) != 0 {
				return fmt.Sprintf("errors:%d", len(errs))
			}
			var names []string
			for _, v := range ms.Modules["b"].Identity[0].Values {
				names = append(names, yang.RootNode(v).Name+":"+v.Name)
			}
			return strings.Join(names, ",")
		})
		if len(res) != 1 {
			return fmt.Errorf("outcomes over 80 runs: %v", res)
		}
		return nil
	})
	reg("augment-collision-message-order", "C05/C07: the error list for two colliding augmenting modules must be the same on every run", func() error {
		res := runMany(80, func() string {
			_, errs := mustLoadProcess(
				"module m { "+hdr+" container c { } }",
				"module a { namespace \"urn:a\"; prefix a; import m { prefix m; } augment /m:c { leaf x { type string; } } }",
				"module b { namespace \"urn:b\"; prefix b; import m { prefix m; } augment /m:c { leaf x { type string; } } }")
			return fmt.Sprint(errs)
		})
		if len(res) != 1 {
			return fmt.Errorf("%d different error lists over 80 runs", len(res))
		}
		return nil
	})
}

func init() {
	reg("identity-two-revisions-order", "C05: with two revisions of a module loaded, which one's identity a base resolves to does not depend on map order", func() error {
		b19 := "module base { namespace \"urn:base\"; prefix b; revision 2019-01-01; identity root; }"
		b20 := "module base { namespace \"urn:base\"; prefix b; revision 2020-01-01; identity root; }"
		user := "module user { namespace \"urn:user\"; prefix u; import base { prefix b; } identity child { base b:root; } leaf x { type identityref { base b:root; } } }"
		seen := map[string]bool{}
		for i := 0; i < 60; i++ {
			ms := yang.NewModules()
			ms.Parse(b19, "base@2019-01-01.yang")
			ms.Parse(b20, "base@2020-01-01.yang")
			ms.Parse(user, "user.yang")
			if errs := ms.Process(); len(errs) > 0 {
				return fmt.Errorf("process: %v", errs)
			}
			x := yang.ToEntry(ms.Modules["user"]).Dir["x"]
			if x == nil || x.Type == nil || x.Type.IdentityBase == nil {
				return fmt.Errorf("no identity base on leaf x")
			}
			seen[yang.Source(x.Type.IdentityBase)] = true
		}
		if len(seen) > 1 {
			var l []string
			for k := range seen {
				l = append(l, k)
			}
			sort.Strings(l)
			return fmt.Errorf("over 60 fresh runs the base of leaf x was the identity at %v", l)
		}
		return nil
	})
}

func init() {
	reg("submodule-two-revisions-order", "C05: with two revisions of a module that include the same submodule, the newest revision's tree does not depend on map order", func() error {
		m19 := "module m { namespace \"urn:m\"; prefix m; include sub; revision 2019-01-01; leaf a { type string; } }"
		m20 := "module m { namespace \"urn:m\"; prefix m; include sub; revision 2020-01-01; leaf a { type string; } }"
		sub := "submodule sub { belongs-to m { prefix m; } leaf s { type string; } }"
		seen := map[string]bool{}
		for i := 0; i < 60; i++ {
			ms := yang.NewModules()
			ms.Parse(m19, "m@2019-01-01.yang")
			ms.Parse(m20, "m@2020-01-01.yang")
			ms.Parse(sub, "sub.yang")
			if errs := ms.Process(); len(errs) > 0 {
				return fmt.Errorf("process: %v", errs)
			}
			e := yang.ToEntry(ms.Modules["m"])
			var names []string
			for k := range e.Dir {
				names = append(names, k)
			}
			sort.Strings(names)
			seen[strings.Join(names, ",")] = true
		}
		if len(seen) > 1 {
			var l []string
			for k := range seen {
				l = append(l, "{"+k+"}")
			}
			sort.Strings(l)
			return fmt.Errorf("over 60 fresh runs the children of module m (newest revision) were %v", l)
		}
		return nil
	})
}

func init() {
	reg("import-link-disk-order", "C05: which revision an import without revision-date is linked to does not depend on map order when imports are fetched from disk", func() error {
		dir, err := os.MkdirTemp("", "gyprobe")
		if err != nil {
			return nil
		}
		defer os.RemoveAll(dir)
		os.WriteFile(filepath.Join(dir, "foo.yang"), []byte("module foo { namespace \"urn:foo\"; prefix foo; revision 2019-01-01; }"), 0o644)
		os.WriteFile(filepath.Join(dir, "foo@2020-01-01.yang"), []byte("module foo { namespace \"urn:foo\"; prefix foo; revision 2020-01-01; }"), 0o644)
		a := "module a { namespace \"urn:a\"; prefix a; import foo { prefix f; } }"
		b := "module b { namespace \"urn:b\"; prefix b; import foo { prefix f; revision-date 2020-01-01; } }"
		seen := map[string]bool{}
		for i := 0; i < 80; i++ {
			ms := yang.NewModules()
			ms.AddPath(dir)
			ms.Parse(a, "a.yang")
			ms.Parse(b, "b.yang")
			if errs := ms.Process(); len(errs) > 0 {
				return fmt.Errorf("process: %v", errs)
			}
			imp := ms.Modules["a"].Import[0]
			if imp.Module == nil {
				return fmt.Errorf("import not linked")
			}
			seen[imp.Module.Current()] = true
		}
		if len(seen) > 1 {
			var l []string
			for k := range seen {
				l = append(l, k)
			}
			sort.Strings(l)
			return fmt.Errorf("over 80 fresh runs module a's `import foo` was linked to revisions %v", l)
		}
		return nil
	})
}

package main

import (
	"fmt"

	"github.com/openconfig/goyang/pkg/yang"
)

func init() {
	reg("known-per-statement-commit", "C18 (KNOWN FINDING): a text whose second module is rejected must leave no trace of its first", func() error {
		ms := yang.NewModules()
		err := ms.Parse("module a { namespace \"urn:a\"; prefix a; } module b { namespace \"urn:b\"; prefix b; bogus x; }", "ab.yang")
		if err == nil {
			return fmt.Errorf("text accepted")
		}
		if ms.Modules["a"] != nil {
			return fmt.Errorf("the rejected text left module a loaded")
		}
		return nil
	})
	reg("known-find-creates-output", "C19/C17 (KNOWN FINDING): a path lookup must not modify the tree", func() error {
		ms, errs := mustLoadProcess("module m { " + hdr + " rpc r { input { leaf l { type string; } } } }")
		if len(errs) != 0 {
			return fmt.Errorf("errors %v", errs)
		}
		root := yang.ToEntry(ms.Modules["m"])
		r := root.Dir["r"]
		before := r.RPC.Output
		root.Find("/m:r/m:output")
		if before == nil && r.RPC.Output != nil {
			return fmt.Errorf("Find created r.RPC.Output during the lookup (an unsynchronised write in a read-only query)")
		}
		return nil
	})
	reg("known-find-records-error", "C19/C17 (KNOWN FINDING): a failing path lookup must not record errors on the tree", func() error {
		ms, errs := mustLoadProcess("module m { " + hdr + " container c { } }")
		if len(errs) != 0 {
			return fmt.Errorf("errors %v", errs)
		}
		root := yang.ToEntry(ms.Modules["m"])
		n := len(root.GetErrors())
		root.Dir["c"].Find("/nosuch:x")
		if len(root.GetErrors()) != n {
			return fmt.Errorf("Find appended to the root entry's Errors: %v", root.GetErrors())
		}
		return nil
	})
}

func init() {
	reg("known-older-revision-lacks-submodule", "C13: each of two loaded revisions of a module receives the nodes of the submodule it includes", func() error {
		m19 := "module m { namespace \"urn:m\"; prefix m; include sub; revision 2019-01-01; leaf a { type string; } }"
		m20 := "module m { namespace \"urn:m\"; prefix m; include sub; revision 2020-01-01; leaf a { type string; } }"
		sub := "submodule sub { belongs-to m { prefix m; } leaf s { type string; } }"
		ms := yang.NewModules()
		ms.Parse(m19, "m@2019-01-01.yang")
		ms.Parse(m20, "m@2020-01-01.yang")
		ms.Parse(sub, "sub.yang")
		if errs := ms.Process(); len(errs) > 0 {
			return fmt.Errorf("process: %v", errs)
		}
		for _, k := range []string{"m@2019-01-01", "m@2020-01-01"} {
			if yang.ToEntry(ms.Modules[k]).Dir["s"] == nil {
				return fmt.Errorf("module %s lacks leaf s of the submodule it includes (the other revision received it)", k)
			}
		}
		return nil
	})
}

package main

import (
	"fmt"
	"sort"
	"strings"

	"github.com/openconfig/goyang/pkg/yang"
)

func argOf(text string) (string, error) {
	ss, err := yang.Parse(text, "t.yang")
	if err != nil {
		return "", err
	}
	if len(ss) != 1 {
		return "", fmt.Errorf("%d statements", len(ss))
	}
	return ss[0].Argument, nil
}

func init() {
	reg("lex-indent-after-comment", "C02: indentation stripping uses the column of the opening quote also when a comment or a single-quoted string precedes it on the line", func() error {
		// The opening " is at column 17 in both texts; the continuation line has 18 blanks.
		plain := "a            b \"x\n                  y\";"
		withc := "a /* ccc */  b \"x\n                  y\";"
		_ = plain
		s1, err1 := yang.Parse("k \"x\n     y\";", "t.yang")
		s2, err2 := yang.Parse("/* cc */ k \"x\n              y\";", "t.yang")
		if err1 != nil || err2 != nil {
			return fmt.Errorf("parse: %v %v", err1, err2)
		}
		_ = withc
		// text 1: quote at column 3 (0-based 2) -> strip 3 blanks -> "x\n  y"
		// text 2: quote at column 12 -> continuation has 14 blanks -> strip 12 -> "x\n  y"
		if a, b := s1[0].Argument, s2[0].Argument; a != "x\n  y" || b != "x\n  y" {
			return fmt.Errorf("without comment %q, with a comment before the keyword %q (want \"x\\n  y\" both)", a, b)
		}
		return nil
	})
	reg("lex-comment-slash-star-slash", "C02: /*/ does not close a block comment", func() error {
		ss, err := yang.Parse("a /*/ b; c */ d;", "t.yang")
		if err != nil {
			return nil // rejected is fine too
		}
		var kws []string
		for _, s := range ss {
			kws = append(kws, s.Keyword+" "+s.Argument)
		}
		if got := strings.Join(kws, "|"); got != "a d" {
			return fmt.Errorf("statements %q: the comment opened by /* was closed by its own star (want the single statement `a d;`)", got)
		}
		return nil
	})
	reg("ast-substatement-named-Statement", "C03: a substatement spelled Statement/Parent/Name is an unknown substatement", func() error {
		for _, kw := range []string{"Statement", "Parent", "Name"} {
			ms := yang.NewModules()
			err := ms.Parse("module m { namespace \"urn:m\"; prefix m; container c { "+kw+" x; } }", "m.yang")
			if err == nil {
				return fmt.Errorf("substatement %q accepted", kw)
			}
		}
		return nil
	})
	reg("typedef-cycle-through-union-order", "C05: a typedef cycle through a union member is reported the same way on every run", func() error {
		m := "module m { namespace \"urn:m\"; prefix m; typedef a { type union { type b; } } typedef b { type a; } }"
		seen := map[string]bool{}
		for i := 0; i < 80; i++ {
			_, errs := mustLoadProcess(m)
			var l []string
			for _, e := range errs {
				l = append(l, e.Error())
			}
			sort.Strings(l)
			seen[strings.Join(l, " | ")] = true
		}
		if len(seen) > 1 {
			var l []string
			for k := range seen {
				l = append(l, "{"+k+"}")
			}
			sort.Strings(l)
			return fmt.Errorf("over 80 fresh runs the error lists were %v", l)
		}
		return nil
	})
}

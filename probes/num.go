package main

import (
	"fmt"

	"github.com/openconfig/goyang/pkg/yang"
)

func init() {
	reg("enum-negative-then-implicit", "C14: `enum a { value -5; } enum b;` must give b = -4", func() error {
		ms, errs := mustLoadProcess("module m { " + hdr + " leaf l { type enumeration { enum a { value -5; } enum b; } } }")
		if len(errs) != 0 {
			return fmt.Errorf("errors %v", errs)
		}
		e := yang.ToEntry(ms.Modules["m"]).Dir["l"].Type.Enum
		if e.Value("b") != -4 {
			return fmt.Errorf("b = %d, RFC 7950 9.6.4.2 says -4", e.Value("b"))
		}
		return nil
	})
	reg("enum-first-implicit-zero", "C14: the first member without a value gets 0, also after the fix", func() error {
		e := yang.NewEnumType()
		if err := e.SetNext("a"); err != nil || e.Value("a") != 0 {
			return fmt.Errorf("a = %d, %v", e.Value("a"), err)
		}
		if err := e.SetNext("b"); err != nil || e.Value("b") != 1 {
			return fmt.Errorf("b = %d, %v", e.Value("b"), err)
		}
		b := yang.NewBitfield()
		if err := b.SetNext("x"); err != nil || b.Value("x") != 0 {
			return fmt.Errorf("bit x = %d, %v", b.Value("x"), err)
		}
		return nil
	})
	reg("bit-after-maxenum", "C14: a bit position after 2147483647 must be assignable (positions are uint32)", func() error {
		b := yang.NewBitfield()
		if err := b.Set("a", 2147483647); err != nil {
			return err
		}
		if err := b.SetNext("b"); err != nil {
			return fmt.Errorf("SetNext after position 2147483647 refused: %v", err)
		}
		if b.Value("b") != 2147483648 {
			return fmt.Errorf("b = %d", b.Value("b"))
		}
		c := yang.NewBitfield()
		c.Set("a", 4294967295)
		if err := c.SetNext("b"); err == nil {
			return fmt.Errorf("SetNext after the maximum position 4294967295 accepted")
		}
		return nil
	})
	reg("number-int-wrap", "C15: converting a negative magnitude above 2^63 to int64 must be an error, not a wrapped value", func() error {
		n := yang.Number{Value: 18446744073709551615, Negative: true}
		if v, err := n.Int(); err == nil {
			return fmt.Errorf("Int() = %d, nil", v)
		}
		m := yang.Number{Value: 9223372036854775808, Negative: true}
		if v, err := m.Int(); err != nil || v != -9223372036854775808 {
			return fmt.Errorf("Int(-2^63) = %d, %v", v, err)
		}
		_, errs := mustLoadProcess("module m { " + hdr + " leaf l { type decimal64 { fraction-digits -18446744073709551615; } } }")
		if len(errs) == 0 {
			return fmt.Errorf("fraction-digits -18446744073709551615 accepted")
		}
		return nil
	})
	reg("range-max-uint64-coalesce", "C10: `0..18446744073709551615|5` is a valid (redundant) range", func() error {
		r, err := yang.ParseRangesInt("0..18446744073709551615|5")
		if err != nil {
			return fmt.Errorf("rejected: %v", err)
		}
		if r.String() != "0..18446744073709551615" {
			return fmt.Errorf("got %s", r)
		}
		return nil
	})
	reg("range-validate-stale", "C10: Validate must reject {1..5, 10..20, 15..30}", func() error {
		mk := func(a, b uint64) yang.YRange { return yang.YRange{Min: yang.FromUint(a), Max: yang.FromUint(b)} }
		r := yang.YangRange{mk(1, 5), mk(10, 20), mk(15, 30)}
		if err := r.Validate(); err == nil {
			return fmt.Errorf("overlapping parts 10..20 and 15..30 accepted")
		}
		return nil
	})
	reg("decimal-many-digits", "C15: a decimal literal with 257 fraction digits must not be accepted at precision 2", func() error {
		s := "0."
		for i := 0; i < 256; i++ {
			s += "0"
		}
		s += "1"
		if n, err := yang.ParseDecimal(s, 2); err == nil {
			return fmt.Errorf("accepted as %s", n)
		}
		return nil
	})
}

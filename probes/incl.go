package main

import "fmt"

func init() {
	reg("typedef-in-imported-submodule", "C09/C13: a typedef written in a submodule of an imported module must be visible as prefix:name", func() error {
		_, errs := mustLoadProcess(
			"module lib { namespace \"urn:lib\"; prefix lib; include lib-types; }",
			"submodule lib-types { belongs-to lib { prefix lib; } typedef t { type uint8; } }",
			"module m { "+hdr+" import lib { prefix l; } leaf x { type l:t; } }")
		if len(errs) != 0 {
			return fmt.Errorf("errors: %v", errs)
		}
		return nil
	})
}

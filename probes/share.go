package main

import (
	"fmt"

	"github.com/openconfig/goyang/pkg/yang"
)

func init() {
	reg("grouping-listattr-shared", "C06/C08: a deviation on one instance of a grouping's list must not change the other instance", func() error {
		ms, errs := mustLoadProcess("module m { " + hdr + ` grouping g { leaf-list l { type string; min-elements 1; } }
  container a { uses g; } container b { uses g; }
  deviation /m:a/m:l { deviate replace { min-elements 5; } } }`)
		if len(errs) != 0 {
			return fmt.Errorf("unexpected errors %v", errs)
		}
		root := yang.ToEntry(ms.Modules["m"])
		a, b := root.Dir["a"].Dir["l"], root.Dir["b"].Dir["l"]
		if a.ListAttr.MinElements != 5 {
			return fmt.Errorf("deviation not applied: a min=%d", a.ListAttr.MinElements)
		}
		if b.ListAttr.MinElements != 1 {
			return fmt.Errorf("deviation on /m:a/m:l leaked to /m:b/m:l: min=%d", b.ListAttr.MinElements)
		}
		if a.ListAttr == b.ListAttr {
			return fmt.Errorf("both instances share one ListAttr object")
		}
		return nil
	})
	reg("grouping-rpc-shared", "C06/C04: augmenting the action input of one instance of a grouping must not change the other instance", func() error {
		ms, errs := mustLoadProcess("module m { " + hdr + ` grouping g { action act { input { leaf i { type string; } } } }
  container a { uses g; } container b { uses g; }
  augment /m:a/m:act/m:input { leaf extra { type string; } } }`)
		if len(errs) != 0 {
			return fmt.Errorf("unexpected errors %v", errs)
		}
		root := yang.ToEntry(ms.Modules["m"])
		a, b := root.Dir["a"].Dir["act"], root.Dir["b"].Dir["act"]
		if a.RPC == b.RPC || a.RPC.Input == b.RPC.Input {
			return fmt.Errorf("both instances share one RPC/Input object")
		}
		if a.RPC.Input.Dir["extra"] == nil {
			return fmt.Errorf("augment not applied")
		}
		if b.RPC.Input.Dir["extra"] != nil {
			return fmt.Errorf("augment into /m:a/m:act/m:input leaked into /m:b/m:act/m:input")
		}
		if a.RPC.Input.Parent != a {
			return fmt.Errorf("copied input does not point back to its own action")
		}
		return nil
	})
	reg("choice-in-rpc-input", "C04: a shorthand choice member inside rpc input must get its implicit case", func() error {
		ms, errs := mustLoadProcess("module m { " + hdr + ` rpc r { input { choice ch { leaf a { type string; } } } } }`)
		if len(errs) != 0 {
			return fmt.Errorf("unexpected errors %v", errs)
		}
		root := yang.ToEntry(ms.Modules["m"])
		ch := root.Dir["r"].RPC.Input.Dir["ch"]
		if ch.Dir["a"] == nil || ch.Dir["a"].Kind != yang.CaseEntry {
			return fmt.Errorf("child of choice inside rpc input is not a case: %v", ch.Dir["a"].Kind)
		}
		return nil
	})
}

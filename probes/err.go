package main

import "fmt"

func init() {
	reg("augment-collision-two-modules", "C04/C07: two modules augmenting the same child name into one container must be reported", func() error {
		_, errs := mustLoadProcess(
			"module m { "+hdr+" container c { } }",
			"module a { namespace \"urn:a\"; prefix a; import m { prefix m; } augment /m:c { leaf x { type string; } } }",
			"module b { namespace \"urn:b\"; prefix b; import m { prefix m; } augment /m:c { leaf x { type string; } } }")
		if len(errs) == 0 {
			return fmt.Errorf("colliding augments process cleanly")
		}
		return nil
	})
	reg("augment-body-bad-type", "C04/C07: an unknown type inside an augment body must be reported", func() error {
		_, errs := mustLoadProcess("module m { " + hdr + " container c { } augment /m:c { leaf x { type nosuch; } } }")
		if len(errs) == 0 {
			return fmt.Errorf("augment body with unknown type processes cleanly")
		}
		return nil
	})
	reg("rpc-input-bad-type", "C04: an unknown type under rpc input must be reported", func() error {
		_, errs := mustLoadProcess("module m { " + hdr + " rpc r { input { leaf l { type nosuch; } } } }")
		if len(errs) == 0 {
			return fmt.Errorf("rpc input leaf with unknown type processes cleanly")
		}
		return nil
	})
	reg("deviate-bad-max-elements", "C08/C04: deviate replace { max-elements 0; } must be reported", func() error {
		_, errs := mustLoadProcess("module m { " + hdr + " leaf-list l { type string; } deviation /m:l { deviate replace { max-elements 0; } } }")
		if len(errs) == 0 {
			return fmt.Errorf("max-elements 0 accepted")
		}
		return nil
	})
	reg("deviate-bad-type", "C08/C04: deviate replace { type nosuch; } must be reported", func() error {
		_, errs := mustLoadProcess("module m { " + hdr + " leaf l { type string; } deviation /m:l { deviate replace { type nosuch; } } }")
		if len(errs) == 0 {
			return fmt.Errorf("unresolvable replacement type accepted")
		}
		return nil
	})
}

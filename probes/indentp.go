package main

import (
	"errors"
	"fmt"
	"github.com/openconfig/goyang/pkg/yang"
	"strings"

	"github.com/openconfig/goyang/pkg/indent"
)

// shortWriter accepts limit bytes in total and then fails.
type shortWriter struct {
	got   []byte
	limit int
}

func (s *shortWriter) Write(b []byte) (int, error) {
	room := s.limit - len(s.got)
	if room >= len(b) {
		s.got = append(s.got, b...)
		return len(b), nil
	}
	if room < 0 {
		room = 0
	}
	s.got = append(s.got, b[:room]...)
	return room, errors.New("short")
}

func init() {
	reg("indent-short-partial", "C20: a short write inside a chunk that continues a partial line counts only the caller's bytes", func() error {
		// Write("ab") puts "--ab" (4 bytes); Write("cd\nef\n") wants "cd\n--ef\n".
		// The underlying writer stops after 2 more bytes: both are the caller's ("cd").
		for extra, want := range map[int]int{0: 0, 1: 1, 2: 2, 3: 3, 4: 3, 5: 3, 6: 4, 7: 5} {
			sw := &shortWriter{limit: 4 + extra}
			w := indent.NewWriter(sw, "--")
			if n, err := w.Write([]byte("ab")); n != 2 || err != nil {
				return fmt.Errorf("first write: %d %v", n, err)
			}
			n, err := w.Write([]byte("cd\nef\n"))
			if err == nil {
				return fmt.Errorf("extra=%d: no error", extra)
			}
			if n != want {
				return fmt.Errorf("extra=%d: underlying writer took %q, Write reported %d of the caller's bytes, want %d", extra, sw.got, n, want)
			}
		}
		return nil
	})
}

func init() {
	reg("known-pos-foreign-required", "C16: a substatement that only the other flavour (module/submodule) allows is reported at its own position", func() error {
		ms := yang.NewModules()
		err := ms.Parse("module m {\n  namespace \"urn:m\";\n  prefix m;\n  belongs-to x { prefix y; }\n}\n", "m.yang")
		if err == nil {
			return fmt.Errorf("no error")
		}
		if !strings.HasPrefix(err.Error(), "m.yang:4:3:") {
			return fmt.Errorf("error %q is not located at the belongs-to statement (m.yang:4:3)", err)
		}
		return nil
	})
}

package main

import (
	"fmt"
)

func init() {
	reg("process-twice-type-error", "C18: processing twice must report the same errors as processing once", func() error {
		ms, errs := load("module m { " + hdr + " leaf l { type uint8 { range \"300\"; } } typedef u { type union { type nosuch; type string; } } leaf k { type u; } }")
		if len(errs) != 0 {
			return fmt.Errorf("load: %v", errs)
		}
		e1 := fmt.Sprint(ms.Process())
		e2 := fmt.Sprint(ms.Process())
		if e1 != e2 {
			return fmt.Errorf("first run: %s\n second run: %s", e1, e2)
		}
		if e1 == "[]" {
			return fmt.Errorf("no errors at all")
		}
		return nil
	})
}

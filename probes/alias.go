package main

import (
	"fmt"
	"strings"

	"github.com/openconfig/goyang/pkg/yang"
)

func init() {
	reg("pattern-alias", "C09: two leaves that each add a pattern to one typedef must each keep their own", func() error {
		ms, errs := mustLoadProcess("module m { " + hdr + ` typedef a { type string { pattern "p1"; pattern "p2"; pattern "p3"; } }
  typedef b { type a { pattern "p4"; pattern "p5"; } }
  leaf x { type b { pattern "qx"; } } leaf y { type b { pattern "qy"; } } }`)
		if len(errs) != 0 {
			return fmt.Errorf("unexpected errors %v", errs)
		}
		root := yang.ToEntry(ms.Modules["m"])
		px, py := root.Dir["x"].Type.Pattern, root.Dir["y"].Type.Pattern
		if px[len(px)-1] != "qx" || py[len(py)-1] != "qy" {
			return fmt.Errorf("x has %v, y has %v", px, py)
		}
		return nil
	})
	reg("exts-alias", "C06: two uses of a grouping must each keep their own extensions on the copied children", func() error {
		ms, errs := mustLoadProcess("module e { namespace \"urn:e\"; prefix e; extension one; extension two; extension three; extension ua; extension ub; }",
			"module m { "+hdr+` import e { prefix e; }
  grouping g { leaf l { type string; e:one; e:two; e:three; } }
  container a { uses g { e:ua; } } container b { uses g { e:ub; } } }`)
		if len(errs) != 0 {
			return fmt.Errorf("unexpected errors %v", errs)
		}
		root := yang.ToEntry(ms.Modules["m"])
		show := func(e *yang.Entry) string {
			var s []string
			for _, x := range e.Exts {
				s = append(s, x.Keyword)
			}
			return strings.Join(s, ",")
		}
		a, b := show(root.Dir["a"].Dir["l"]), show(root.Dir["b"].Dir["l"])
		if !strings.HasSuffix(a, "e:ua") || !strings.HasSuffix(b, "e:ub") {
			return fmt.Errorf("a/l has [%s], b/l has [%s]", a, b)
		}
		return nil
	})
}

func init() {
	reg("deviate-add-default-leaflist-alias", "C08/C06: adding a default to a leaf-list instance of a grouping does not disturb another instance", func() error {
		base := `module b { namespace "urn:b"; prefix b;
  grouping g { leaf-list ll { type string; default "a"; default "b"; default "c"; } }
  container x { uses g; }
  container y { uses g; }
}`
		dev := `module d { namespace "urn:d"; prefix d; import b { prefix b; }
  deviation /b:x/b:ll { deviate add { default "X"; } }
  deviation /b:y/b:ll { deviate add { default "Y"; } }
}`
		ms, errs := mustLoadProcess(base, dev)
		if len(errs) > 0 {
			return fmt.Errorf("process: %v", errs)
		}
		e := yang.ToEntry(ms.Modules["b"])
		x := fmt.Sprint(e.Dir["x"].Dir["ll"].Default)
		y := fmt.Sprint(e.Dir["y"].Dir["ll"].Default)
		if x != "[a b c X]" || y != "[a b c Y]" {
			return fmt.Errorf("x/ll defaults %s (want [a b c X]), y/ll defaults %s (want [a b c Y])", x, y)
		}
		return nil
	})
}

func init() {
	reg("uses-exts-alias", "C06: extensions written on one uses of a grouping do not show up on another uses of it", func() error {
		m := `module m { namespace "urn:m"; prefix m;
  extension e { argument a; }
  grouping g { m:e g1; m:e g2; m:e g3; m:e g4; m:e g5; leaf l { type string; } }
  container x { uses g { m:e X; } }
  container y { uses g { m:e Y; } }
}`
		ms := yang.NewModules()
		ms.ParseOptions.StoreUses = true
		if err := ms.Parse(m, "m.yang"); err != nil {
			return fmt.Errorf("parse: %v", err)
		}
		if errs := ms.Process(); len(errs) > 0 {
			return fmt.Errorf("process: %v", errs)
		}
		e := yang.ToEntry(ms.Modules["m"])
		ext := func(c string) string {
			out := ""
			for _, u := range e.Dir[c].Uses {
				for _, s := range u.Grouping.Exts {
					out += s.Argument + " "
				}
			}
			return out
		}
		if x, y := ext("x"), ext("y"); x != "g1 g2 g3 g4 g5 X " || y != "g1 g2 g3 g4 g5 Y " {
			return fmt.Errorf("extensions on x's uses: %q, on y's uses: %q", x, y)
		}
		return nil
	})
}

package main

import (
	"fmt"
	"strings"

	"github.com/openconfig/goyang/pkg/yang"
)

func init() {
	reg("pattern-alias", "C09: two leaves that each add a pattern to one typedef must each keep their own", func() error {
		ms, errs := mustLoadProcess("module m { " + hdr + ` typedef a { type string { pattern "p1"; pattern "p2"; pattern "p3"; } }
  typedef b { type a { pattern "p4"; pattern "p5"; } }
  leaf x { type b { pattern "qx"; } } leaf y { type b { pattern "qy"; } } }`)
		if len(errs) != 0 {
			return fmt.Errorf("unexpected errors %v", errs)
		}
		root := yang.ToEntry(ms.Modules["m"])
		px, py := root.Dir["x"].Type.Pattern, root.Dir["y"].Type.Pattern
		if px[len(px)-1] != "qx" || py[len(py)-1] != "qy" {
			return fmt.Errorf("x has %v, y has %v", px, py)
		}
		return nil
	})
	reg("exts-alias", "C06: two uses of a grouping must each keep their own extensions on the copied children", func() error {
		ms, errs := mustLoadProcess("module e { namespace \"urn:e\"; prefix e; extension one; extension two; extension three; extension ua; extension ub; }",
			"module m { "+hdr+` import e { prefix e; }
  grouping g { leaf l { type string; e:one; e:two; e:three; } }
  container a { uses g { e:ua; } } container b { uses g { e:ub; } } }`)
		if len(errs) != 0 {
			return fmt.Errorf("unexpected errors %v", errs)
		}
		root := yang.ToEntry(ms.Modules["m"])
		show := func(e *yang.Entry) string {
			var s []string
			for _, x := range e.Exts {
				s = append(s, x.Keyword)
			}
			return strings.Join(s, ",")
		}
		a, b := show(root.Dir["a"].Dir["l"]), show(root.Dir["b"].Dir["l"])
		if !strings.HasSuffix(a, "e:ua") || !strings.HasSuffix(b, "e:ub") {
			return fmt.Errorf("a/l has [%s], b/l has [%s]", a, b)
		}
		return nil
	})
}

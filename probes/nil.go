package main

import (
	"fmt"

	"github.com/openconfig/goyang/pkg/yang"
)

func init() {
	reg("toplevel-unknown", "C01/C03: a top-level statement that is no YANG statement must be rejected with an error", func() error {
		ms := yang.NewModules()
		if err := ms.Parse("foo bar;", "t.yang"); err == nil {
			return fmt.Errorf("`foo bar;` accepted")
		}
		return nil
	})
	reg("toplevel-container", "C03: a top-level container must be rejected", func() error {
		ms := yang.NewModules()
		if err := ms.Parse("container c { leaf l { type string; } }", "t.yang"); err == nil {
			return fmt.Errorf("top-level container accepted")
		}
		return nil
	})
	reg("submodule-unknown-type", "C01/C09: unknown type reported inside a lone submodule must not crash", func() error {
		_, errs := mustLoadProcess("submodule s { belongs-to m { prefix m; } leaf l { type foo; } }")
		if len(errs) == 0 {
			return fmt.Errorf("unknown type accepted")
		}
		return nil
	})
	reg("submodule-identityref-orphan", "C01/C11: identityref in a submodule whose owner is not loaded must be an error, not a crash", func() error {
		_, errs := mustLoadProcess("submodule s { belongs-to m { prefix m; } identity a; leaf l { type identityref { base a; } } }")
		if len(errs) == 0 {
			return fmt.Errorf("accepted")
		}
		return nil
	})
	reg("include-foreign-submodule-identity", "C01/C11: including a submodule that belongs to an unloaded module must not crash", func() error {
		_, errs := mustLoadProcess(
			"module m { "+hdr+" include s; }",
			"submodule s { belongs-to other { prefix o; } identity a; }")
		_ = errs
		return nil
	})
	reg("augment-leaf", "C01/C07: augmenting a leaf must be reported as an error, not panic", func() error {
		_, errs := mustLoadProcess("module m { " + hdr + " leaf l { type string; } augment /m:l { leaf x { type string; } } }")
		if len(errs) == 0 {
			return fmt.Errorf("augment of a leaf accepted without error")
		}
		return nil
	})
	reg("include-missing-then-toentry", "C01/C13: ToEntry after a Process that could not find an include must not crash", func() error {
		ms, errs := mustLoadProcess("module m { " + hdr + " include nosuch; container c { uses g; } }")
		if len(errs) == 0 {
			return fmt.Errorf("missing include accepted")
		}
		e := yang.ToEntry(ms.Modules["m"])
		if len(e.GetErrors()) == 0 {
			return fmt.Errorf("ToEntry of a module with an unresolved include reports no error")
		}
		return nil
	})
	reg("import-late-load", "C18/C13/C01: a module whose import failed in one Process run is linked in the next run once the import is loaded", func() error {
		ms := yang.NewModules()
		ms.Parse("module a { namespace \"urn:a\"; prefix a; import b { prefix b; } container c { uses b:g; } }", "a.yang")
		if errs := ms.Process(); len(errs) == 0 {
			return fmt.Errorf("missing import accepted")
		}
		ms.Parse("module b { namespace \"urn:b\"; prefix b; grouping g { leaf x { type string; } } }", "b.yang")
		errs := ms.Process()
		if len(errs) != 0 {
			return fmt.Errorf("second Process still fails: %v", errs)
		}
		if ms.Modules["a"].Import[0].Module == nil {
			return fmt.Errorf("Import.Module still nil after the import was loaded")
		}
		if yang.ToEntry(ms.Modules["a"]).Dir["c"].Dir["x"] == nil {
			return fmt.Errorf("uses b:g not expanded")
		}
		return nil
	})
	reg("rejected-typedef-leak", "C18/C01: typedefs of a rejected text must not stay registered", func() error {
		ms := yang.NewModules()
		if err := ms.Parse("container c { typedef t { type nosuch; } }", "bad.yang"); err == nil {
			return fmt.Errorf("top-level container accepted")
		}
		ms.Parse("module m { "+hdr+" leaf l { type string; } }", "m.yang")
		if errs := ms.Process(); len(errs) != 0 {
			return fmt.Errorf("errors of the rejected text surface in a later Process: %v", errs)
		}
		return nil
	})
	reg("rejected-module-typedef-leak", "C18: typedefs of a module rejected as duplicate must not stay registered", func() error {
		ms := yang.NewModules()
		ms.Parse("module m { "+hdr+" leaf l { type string; } }", "m.yang")
		if err := ms.Parse("module m { "+hdr+" typedef t { type nosuch; } }", "m2.yang"); err == nil {
			return fmt.Errorf("duplicate module accepted")
		}
		if errs := ms.Process(); len(errs) != 0 {
			return fmt.Errorf("errors of the rejected module surface in Process: %v", errs)
		}
		return nil
	})
}

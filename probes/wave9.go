package main

import (
	"fmt"
	"sort"

	"github.com/openconfig/goyang/pkg/yang"
)

func init() {
	reg("ns-two-revisions-instantiating-module", "C12/C13: with two revisions of one module loaded, the module a node's namespace belongs to is still found", func() error {
		ms, errs := load(
			"module foo { namespace \"urn:foo\"; prefix f; revision 2019-01-01; container c { leaf a { type string; } } }",
			"module foo { namespace \"urn:foo\"; prefix f; revision 2020-01-01; container c { leaf a { type string; } leaf b { type string; } } }",
		)
		if len(errs) > 0 {
			return fmt.Errorf("load: %v", errs)
		}
		e := yang.ToEntry(ms.Modules["foo"])
		leaf := e.Dir["c"].Dir["a"]
		name, err := leaf.InstantiatingModule()
		if err != nil || name != "foo" {
			return fmt.Errorf("InstantiatingModule() = %q, %v (want \"foo\", nil)", name, err)
		}
		return nil
	})
}

func init() {
	reg("rev-revisionless-next-to-revision-order", "C13/C05: a module without a revision statement loaded next to a revision of it is treated the same in both load orders", func() error {
		a0 := "module a { namespace \"urn:a\"; prefix a; leaf x { type string; } }"
		a1 := "module a { namespace \"urn:a\"; prefix a; revision 2020-01-01; leaf y { type string; } }"
		describe := func(texts ...string) string {
			ms, errs := load(texts...)
			var keys []string
			for k, m := range ms.Modules {
				keys = append(keys, k+"→"+m.FullName())
			}
			sort.Strings(keys)
			if len(errs) > 0 {
				return "rejected" // what stays loaded after a rejection is the first of the two, in either order
			}
			return fmt.Sprintf("accepted %v", keys)
		}
		d1, d2 := describe(a0, a1), describe(a1, a0)
		if d1 != d2 {
			return fmt.Errorf("[a, a@2020]: %s; [a@2020, a]: %s", d1, d2)
		}
		return nil
	})
}

package main

import (
	"fmt"
	"sort"
	"strings"
	"time"

	"github.com/openconfig/goyang/pkg/yang"
)

func init() {
	reg("ns-two-revisions-instantiating-module", "C12/C13: with two revisions of one module loaded, the module a node's namespace belongs to is still found", func() error {
		ms, errs := load(
			"module foo { namespace \"urn:foo\"; prefix f; revision 2019-01-01; container c { leaf a { type string; } } }",
			"module foo { namespace \"urn:foo\"; prefix f; revision 2020-01-01; container c { leaf a { type string; } leaf b { type string; } } }",
		)
		if len(errs) > 0 {
			return fmt.Errorf("load: %v", errs)
		}
		e := yang.ToEntry(ms.Modules["foo"])
		leaf := e.Dir["c"].Dir["a"]
		name, err := leaf.InstantiatingModule()
		if err != nil || name != "foo" {
			return fmt.Errorf("InstantiatingModule() = %q, %v (want \"foo\", nil)", name, err)
		}
		return nil
	})
}

func init() {
	reg("rev-revisionless-next-to-revision-order", "C13/C05: a module without a revision statement loaded next to a revision of it is treated the same in both load orders", func() error {
		a0 := "module a { namespace \"urn:a\"; prefix a; leaf x { type string; } }"
		a1 := "module a { namespace \"urn:a\"; prefix a; revision 2020-01-01; leaf y { type string; } }"
		describe := func(texts ...string) string {
			ms, errs := load(texts...)
			var keys []string
			for k, m := range ms.Modules {
				keys = append(keys, k+"→"+m.FullName())
			}
			sort.Strings(keys)
			if len(errs) > 0 {
				return "rejected" // what stays loaded after a rejection is the first of the two, in either order
			}
			return fmt.Sprintf("accepted %v", keys)
		}
		d1, d2 := describe(a0, a1), describe(a1, a0)
		if d1 != d2 {
			return fmt.Errorf("[a, a@2020]: %s; [a@2020, a]: %s", d1, d2)
		}
		return nil
	})
}

func init() {
	reg("incremental-orphan-submodule-identity-values", "C18: an older revision of a submodule that is no longer included does not keep the identity value lists of an earlier run", func() error {
		m := "module m { namespace \"urn:m\"; prefix m; include s; }"
		s0 := "submodule s { belongs-to m { prefix m; } revision 2000-01-01; identity root; identity kid { base root; } }"
		s1 := "submodule s { belongs-to m { prefix m; } revision 2001-01-01; identity root; identity kid { base root; } }"
		values := func(ms *yang.Modules) int {
			sub := ms.SubModules["s@2000-01-01"]
			if sub == nil {
				return -1
			}
			n := 0
			for _, i := range sub.Identities() {
				n += len(i.Values)
			}
			return n
		}
		batch, errs := mustLoadProcess(m, s0, s1)
		if len(errs) > 0 {
			return fmt.Errorf("batch: %v", errs)
		}
		inc, errs := mustLoadProcess(m, s0)
		if len(errs) > 0 {
			return fmt.Errorf("incremental run 1: %v", errs)
		}
		if err := inc.Parse(s1, "s1.yang"); err != nil {
			return err
		}
		if errs := inc.Process(); len(errs) > 0 {
			return fmt.Errorf("incremental run 2: %v", errs)
		}
		if b, i := values(batch), values(inc); b != i {
			return fmt.Errorf("value-list entries on the identities of s@2000-01-01: batch %d, incremental %d", b, i)
		}
		return nil
	})
}

func init() {
	reg("union-typedef-chain-error-doubling", "C01: a chain of typedefs whose unions name the previous typedef twice, over an unknown base, is resolved in time linear in its depth", func() error {
		var b strings.Builder
		b.WriteString("module m { namespace \"urn:m\"; prefix m; typedef t0 { type no-such-type; }\n")
		const depth = 60
		for i := 1; i <= depth; i++ {
			fmt.Fprintf(&b, "typedef t%d { type union { type t%d; type t%d; } }\n", i, i-1, i-1)
		}
		fmt.Fprintf(&b, "leaf l { type t%d; } }", depth)
		done := make(chan []error, 1)
		go func() {
			_, errs := mustLoadProcess(b.String())
			done <- errs
		}()
		select {
		case errs := <-done:
			if len(errs) == 0 {
				return fmt.Errorf("no error for the unknown base type")
			}
			return nil
		case <-time.After(8 * time.Second):
			return fmt.Errorf("Process did not return within 8 s for a chain of depth %d (the error list doubles at every level)", depth)
		}
	})
}

package main

// spec.go: frozen *specification* tables, transcribed from RFC 7950 (not from the code).

type card int

const (
	one  card = 1 // 0..1 or 1
	many card = 2 // 0..n or 1..n
)

func cardName(c card) string {
	if c == one {
		return "0..1"
	}
	return "0..n"
}

type reqSpec struct{ Type, Keyword, Attr, Ref string }

// Mandatory substatements the property C03 names (RFC 7950 sections in Ref).
var specRequired = []reqSpec{
	{"Leaf", "type", "required", "7.6.2"},
	{"LeafList", "type", "required", "7.7.2"},
	{"Typedef", "type", "required", "7.3.1"},
	{"Import", "prefix", "required", "7.1.5"},
	{"BelongsTo", "prefix", "required", "7.2.2"},
	{"Deviation", "deviate", "required", "7.20.3.1"},
	{"Module", "namespace", "required=module", "7.1.1"},
	{"Module", "prefix", "required=module", "7.1.1"},
	{"Module", "belongs-to", "required=submodule", "7.2.1"},
}

func cards(oneKw []string, manyKw []string) map[string]card {
	m := map[string]card{}
	for _, k := range oneKw {
		m[k] = one
	}
	for _, k := range manyKw {
		m[k] = many
	}
	return m
}

var dataDefs = []string{"anydata", "anyxml", "choice", "container", "leaf", "leaf-list", "list", "uses"}

func with(a []string, b ...string) []string { return append(append([]string{}, a...), b...) }

// RFC 7950 substatement tables (sections 7.x, 9.x) for every statement goyang models.
// "module" is the union of 7.1.1 (module) and 7.2.1 (submodule): goyang builds both into one type.
var specSubstatements = map[string]map[string]card{
	"module": cards(
		[]string{"contact", "description", "namespace", "organization", "prefix", "reference", "yang-version", "belongs-to"},
		with(dataDefs, "augment", "deviation", "extension", "feature", "grouping", "identity", "import", "include", "notification", "revision", "rpc", "typedef")),
	"import":     cards([]string{"description", "prefix", "reference", "revision-date"}, nil),
	"include":    cards([]string{"description", "reference", "revision-date"}, nil),
	"revision":   cards([]string{"description", "reference"}, nil),
	"belongs-to": cards([]string{"prefix"}, nil),
	"typedef":    cards([]string{"default", "description", "reference", "status", "type", "units"}, nil),
	"type": cards([]string{"fraction-digits", "length", "path", "range", "require-instance"},
		[]string{"base", "bit", "enum", "pattern", "type"}),
	"container": cards([]string{"config", "description", "presence", "reference", "status", "when"},
		with(dataDefs, "action", "grouping", "if-feature", "must", "notification", "typedef")),
	"must": cards([]string{"description", "error-app-tag", "error-message", "reference"}, nil),
	"leaf": cards([]string{"config", "default", "description", "mandatory", "reference", "status", "type", "units", "when"},
		[]string{"if-feature", "must"}),
	"leaf-list": cards([]string{"config", "description", "max-elements", "min-elements", "ordered-by", "reference", "status", "type", "units", "when"},
		[]string{"default", "if-feature", "must"}),
	"list": cards([]string{"config", "description", "key", "max-elements", "min-elements", "ordered-by", "reference", "status", "when"},
		with(dataDefs, "action", "grouping", "if-feature", "must", "notification", "typedef", "unique")),
	"choice": cards([]string{"config", "default", "description", "mandatory", "reference", "status", "when"},
		[]string{"anydata", "anyxml", "case", "choice", "container", "if-feature", "leaf", "leaf-list", "list"}),
	"case": cards([]string{"description", "reference", "status", "when"},
		with(dataDefs, "if-feature")),
	"anydata": cards([]string{"config", "description", "mandatory", "reference", "status", "when"}, []string{"if-feature", "must"}),
	"anyxml":  cards([]string{"config", "description", "mandatory", "reference", "status", "when"}, []string{"if-feature", "must"}),
	"grouping": cards([]string{"description", "reference", "status"},
		with(dataDefs, "action", "grouping", "notification", "typedef")),
	"uses": cards([]string{"description", "reference", "status", "when"}, []string{"augment", "if-feature", "refine"}),
	"refine": cards([]string{"config", "description", "mandatory", "max-elements", "min-elements", "presence", "reference"},
		[]string{"default", "if-feature", "must"}),
	"rpc":    cards([]string{"description", "input", "output", "reference", "status"}, []string{"grouping", "if-feature", "typedef"}),
	"action": cards([]string{"description", "input", "output", "reference", "status"}, []string{"grouping", "if-feature", "typedef"}),
	"input":  cards(nil, with(dataDefs, "grouping", "must", "typedef")),
	"output": cards(nil, with(dataDefs, "grouping", "must", "typedef")),
	"notification": cards([]string{"description", "reference", "status"},
		with(dataDefs, "grouping", "if-feature", "must", "typedef")),
	"augment": cards([]string{"description", "reference", "status", "when"},
		with(dataDefs, "action", "case", "if-feature", "notification")),
	"identity":  cards([]string{"description", "reference", "status"}, []string{"base", "if-feature"}),
	"extension": cards([]string{"argument", "description", "reference", "status"}, nil),
	"argument":  cards([]string{"yin-element"}, nil),
	"feature":   cards([]string{"description", "reference", "status"}, []string{"if-feature"}),
	"deviation": cards([]string{"description", "reference"}, []string{"deviate"}),
	"deviate": cards([]string{"config", "mandatory", "max-elements", "min-elements", "type", "units"},
		[]string{"default", "must", "unique"}),
	"enum":    cards([]string{"description", "reference", "status", "value"}, []string{"if-feature"}),
	"bit":     cards([]string{"description", "position", "reference", "status"}, []string{"if-feature"}),
	"range":   cards([]string{"description", "error-app-tag", "error-message", "reference"}, nil),
	"length":  cards([]string{"description", "error-app-tag", "error-message", "reference"}, nil),
	"pattern": cards([]string{"description", "error-app-tag", "error-message", "modifier", "reference"}, nil),
}

// Substatement slots the library accepts beyond RFC 7950, each with the reason it is not a C03 violation.
var specExtraAccepted = map[string]string{}

// RFC 7950 6.1.3: an unquoted string ends at whitespace, a quote, ';', '{' or '}' (and end of input).
var specUnquotedDelims = []rune{' ', '\t', '\r', '\n', ';', '"', '\'', '{', '}'}

// RFC 7950 6.1.3: the only escapes in a double-quoted string.
var specEscapes = map[rune]rune{'n': '\n', 't': '\t', '"': '"', '\\': '\\'}

package main

// oblig.go: obligations, verdict states, known findings, evidence.

import (
	"encoding/json"
	"fmt"
	"os"
	"path/filepath"
	"sort"
	"strings"
)

type State string

const (
	Discharged State = "discharged"
	Justified  State = "justified"
	Finding    State = "finding"
	Violation  State = "violation"
	Undecided  State = "undecided"
)

// Obligation is one rule instance on one construct of the analysed program.
type Obligation struct {
	Rule      string `json:"rule"`
	Construct string `json:"construct"` // position-free key
	Pos       string `json:"pos"`       // file:line:col, for the human only
	State     State  `json:"state"`
	Witness   string `json:"witness,omitempty"` // idiom that discharged it / reason it failed
	Config    string `json:"config,omitempty"`
	Trivial   bool   `json:"-"` // discharged without needing an idiom proof (absent construct)
}

func (o Obligation) Key() string { return o.Rule + " | " + o.Construct }

// Rule is one repository-specific static rule.
type Rule struct {
	Name  string
	Doc   string
	Props []string
	// Floor is the minimum number of obligations the rule must produce on the
	// real repository to be meaningful (vacuity guard: "the anchor still exists").
	Floor int
	Run   func(c *Ctx) []Obligation
}

var registry []*Rule

func register(r *Rule) { registry = append(registry, r) }

func rulesFor(prop string) []*Rule {
	var out []*Rule
	for _, r := range registry {
		for _, p := range r.Props {
			if p == prop {
				out = append(out, r)
			}
		}
	}
	return out
}

// helpers to build obligations
func ok(rule, construct, pos, witness string) Obligation {
	return Obligation{Rule: rule, Construct: construct, Pos: pos, State: Discharged, Witness: witness}
}
func just(rule, construct, pos, reason string) Obligation {
	return Obligation{Rule: rule, Construct: construct, Pos: pos, State: Justified, Witness: reason}
}
func bad(rule, construct, pos, why string) Obligation {
	return Obligation{Rule: rule, Construct: construct, Pos: pos, State: Violation, Witness: why}
}
func undecided(rule, construct, pos, why string) Obligation {
	return Obligation{Rule: rule, Construct: construct, Pos: pos, State: Undecided, Witness: why}
}

// ---------------------------------------------------------------- known findings

type KnownFinding struct {
	Properties []string `json:"properties"`
	Rule       string   `json:"rule"`
	Construct  string   `json:"construct"`
	WhatFails  string   `json:"what_fails"`
	Input      string   `json:"input"`
	Status     string   `json:"status"` // "known" | "fixed"
	Commit     string   `json:"commit,omitempty"`
	Note       string   `json:"note,omitempty"`
}

type KnownFile struct {
	Comment  string         `json:"_comment"`
	Findings []KnownFinding `json:"findings"`
}

func loadKnown(path string) []KnownFinding {
	b, err := os.ReadFile(path)
	if err != nil {
		if os.IsNotExist(err) {
			return nil
		}
		brokenf("cannot read known findings: %v", err)
	}
	var kf KnownFile
	if err := json.Unmarshal(b, &kf); err != nil {
		brokenf("known findings file does not parse: %v", err)
	}
	return kf.Findings
}

// applyKnown turns violations that match a `known` entry into findings.
// `fixed` entries suppress nothing.
func applyKnown(obs []Obligation, known []KnownFinding) []Obligation {
	idx := map[string]KnownFinding{}
	for _, k := range known {
		if k.Status == "known" {
			idx[k.Rule+" | "+k.Construct] = k
		}
	}
	for i := range obs {
		if obs[i].State == Violation {
			if k, ok := idx[obs[i].Key()]; ok {
				obs[i].State = Finding
				obs[i].Witness = obs[i].Witness + " [known finding: " + k.WhatFails + "]"
			}
		}
	}
	return obs
}

// ---------------------------------------------------------------- evidence

type Evidence struct {
	PropertyID  string                 `json:"property_id"`
	Tier        string                 `json:"tier"`
	Seed        int                    `json:"seed"`
	Level       string                 `json:"level"`
	Coverage    map[string]interface{} `json:"coverage"`
	Assumptions []string               `json:"assumptions"`
	WallS       float64                `json:"wall_s"`
	Violations  int                    `json:"violations"`
}

func writeJSON(path string, v interface{}) {
	if err := os.MkdirAll(filepath.Dir(path), 0o755); err != nil {
		brokenf("mkdir: %v", err)
	}
	b, err := json.MarshalIndent(v, "", " ")
	if err != nil {
		brokenf("marshal: %v", err)
	}
	if err := os.WriteFile(path, append(b, '\n'), 0o644); err != nil {
		brokenf("write %s: %v", path, err)
	}
}

func sortObs(obs []Obligation) {
	sort.SliceStable(obs, func(i, j int) bool {
		if obs[i].Rule != obs[j].Rule {
			return obs[i].Rule < obs[j].Rule
		}
		if obs[i].Construct != obs[j].Construct {
			return obs[i].Construct < obs[j].Construct
		}
		return obs[i].Config < obs[j].Config
	})
}

func summarise(obs []Obligation) (perRule map[string]map[string]int) {
	perRule = map[string]map[string]int{}
	for _, o := range obs {
		m := perRule[o.Rule]
		if m == nil {
			m = map[string]int{}
			perRule[o.Rule] = m
		}
		m[string(o.State)]++
	}
	return
}

func short(s string, n int) string {
	s = strings.ReplaceAll(s, "\n", " ")
	if len(s) > n {
		return s[:n] + "…"
	}
	return s
}

func fmtOb(o Obligation) string {
	return fmt.Sprintf("%s [%s] %s @ %s — %s", o.Rule, o.State, o.Construct, o.Pos, o.Witness)
}

// Usage tracking of the reasoned-exception tables: an entry that no obligation consults on the current tree is
// stale — it closes nothing today and could only hide a regression tomorrow. `-all` lists such entries.
var justUsed = map[string]bool{}
var justTables = map[string]map[string]string{}

func jget(name string, tbl map[string]string, key string) (string, bool) {
	justTables[name] = tbl
	v, found := tbl[key]
	if found {
		justUsed[name+"\x00"+key] = true
	}
	return v, found
}

func jstr(name string, tbl map[string]string, key string) string {
	v, _ := jget(name, tbl, key)
	return v
}

func staleJustifications() []string {
	var out []string
	for name, tbl := range justTables {
		for k := range tbl {
			if !justUsed[name+"\x00"+k] {
				out = append(out, name+": "+k)
			}
		}
	}
	sort.Strings(out)
	return out
}

package main

// rules_aug.go: AUG.ONCE, AUG.FIXPOINT, AUG.LEFTOVER, MERGE.COLLIDE, PROC.PHASES, NS.STAMP, NS.ROOT.

import (
	"fmt"
	"go/token"
	"go/types"

	"golang.org/x/tools/go/ssa"
)

func init() {
	register(&Rule{Name: "AUG.ONCE", Props: []string{"C07", "C01", "C04"}, Floor: 4,
		Doc: "applied augments are never kept for re-application; skipped ones are never lost",
		Run: ruleAugOnce})
	register(&Rule{Name: "AUG.FIXPOINT", Props: []string{"C07", "C05"}, Floor: 2,
		Doc: "the augment retry loop exits only when a whole pass applied nothing, or nothing is pending",
		Run: ruleAugFixpoint})
	register(&Rule{Name: "AUG.LEFTOVER", Props: []string{"C07"}, Floor: 1,
		Doc: "after the retry loop every still-pending module is visited with the error flag set",
		Run: ruleAugLeftover})
	register(&Rule{Name: "MERGE.COLLIDE", Props: []string{"C07", "C04", "C06"}, Floor: 1,
		Doc: "a child-name collision during merge records an error on every path",
		Run: ruleMergeCollide})
	register(&Rule{Name: "PROC.PHASES", Props: []string{"C04", "C07", "C08"}, Floor: 3,
		Doc: "Process runs its phases in order: augment fixpoint → implicit cases → leftover augments → deviations → final sweep",
		Run: ruleProcPhases})
	register(&Rule{Name: "NS.STAMP", Props: []string{"C06", "C07", "C12"}, Floor: 3,
		Doc: "only the link function stores a namespace; only the augment applier passes one, and it is the augmenting entry's",
		Run: ruleNsStamp})
	register(&Rule{Name: "NS.ROOT", Props: []string{"C12"}, Floor: 1,
		Doc: "the namespace fall-back maps a submodule root to its owning module",
		Run: ruleNsRoot})
}

// mergeFn: the one function that stores Entry.namespace (the link-copies function).
func (c *Ctx) mergeFn() *ssa.Function {
	fNS := FieldByType(c.MustNamed("yang", "Entry"), "*Value")
	// Entry has two *Value fields (Prefix exported, namespace unexported): pick the unexported one
	e := c.MustNamed("yang", "Entry")
	st := e.Underlying().(*types.Struct)
	fNS = nil
	for i := 0; i < st.NumFields(); i++ {
		f := st.Field(i)
		if !f.Exported() && typeStr(f.Type()) == "*Value" {
			fNS = f
		}
	}
	if fNS == nil {
		return nil
	}
	var out *ssa.Function
	n := 0
	for _, fn := range c.Funcs {
		stamps := false
		for _, st := range storesToField(fn, fNS) {
			// taking the stamp over from another entry (the implicit case from the node it wraps) is not stamping
			if _, lf, _ := loadedField(st.Val); lf == fNS {
				continue
			}
			stamps = true
		}
		if stamps {
			out = fn
			n++
		}
	}
	if n != 1 {
		return nil
	}
	// the stamping may sit in a private helper of the link function (a method of the stamp it is handed): the link
	// function is the one that calls it
	for d := 0; d < 3; d++ {
		h := exactHelper(out)
		if h == nil || len(h.sites) != 1 {
			break
		}
		out = h.site.Parent()
	}
	return out
}

func (c *Ctx) nsField() *types.Var {
	e := c.MustNamed("yang", "Entry")
	st := e.Underlying().(*types.Struct)
	for i := 0; i < st.NumFields(); i++ {
		f := st.Field(i)
		if !f.Exported() && typeStr(f.Type()) == "*Value" {
			return f
		}
	}
	return nil
}

func ruleAugOnce(c *Ctx) []Obligation {
	const R = "AUG.ONCE"
	var obs []Obligation
	m := c.entryModel()
	aug := c.MustFn("yang.(*Entry).Augment")
	find := c.MustFn("yang.(*Entry).Find")
	merge := c.mergeFn()
	pos := c.Pos(aug.Pos())
	if merge == nil {
		return []Obligation{undecided(R, "link function", pos, "no unique function stores Entry.namespace")}
	}
	finds := c.callsToLookup(aug, find)
	if len(finds) != 1 {
		return []Obligation{undecided(R, "target lookup", pos, fmt.Sprintf("%d Find calls in the augment applier", len(finds)))}
	}
	target := refinedTarget(finds[0].Value())
	header := loopHeaderOf(finds[0].Block())
	if header == nil {
		return []Obligation{undecided(R, "augment loop", pos, "the target lookup is not inside a loop")}
	}
	// the slice stored back into e.Augments
	sts := storesToField(aug, m.fAugs)
	con := "the pending list is stored back on every path to the return"
	if len(sts) != 1 {
		obs = append(obs, bad(R, con, pos, fmt.Sprintf("%d stores to Entry.Augments", len(sts))))
		return obs
	}
	stBack := sts[0]
	domAll := true
	eachInstr(aug, func(in ssa.Instruction) {
		if r, ok2 := in.(*ssa.Return); ok2 && !dominates(stBack, r) {
			domAll = false
		}
	})
	if domAll && !header.Dominates(stBack.Block()) || (domAll && !blockReaches(stBack.Block(), header, nil)) {
		obs = append(obs, ok(R, con, c.InstrPos(stBack), "e.Augments = unapplied dominates every return and is outside the loop"))
	} else {
		obs = append(obs, bad(R, con, c.InstrPos(stBack), "the store back to Entry.Augments is skipped on some path or sits inside the loop"))
	}
	// appends feeding the stored-back slice
	var appends []*ssa.Call
	backSlice(stBack.Val, func(x ssa.Value) bool {
		if call, okc := x.(*ssa.Call); okc {
			if bi, okb := call.Call.Value.(*ssa.Builtin); okb && bi.Name() == "append" {
				appends = append(appends, call)
				return true
			}
			return false
		}
		return true
	})
	isNilGuard := func(b *ssa.BasicBlock, wantNil bool) bool {
		for _, g := range guardsAt(b) {
			if x, isEq, okn := nilTest(g.Cond); okn && x == target && (isEq == g.Branch) == wantNil {
				return true
			}
		}
		return false
	}
	con = "only augments whose target was not found are kept for the next pass"
	okAppend := len(appends) > 0
	for _, a := range appends {
		if !isNilGuard(a.Block(), true) {
			okAppend = false
		}
		// the appended element is the augment of this iteration (same range element as the Find receiver)
	}
	if okAppend {
		obs = append(obs, ok(R, con, c.InstrPos(appends[0]), "every append to the pending list is under target == nil"))
	} else {
		obs = append(obs, bad(R, con, pos, "an augment is kept for re-application on a path where its target was found (it would be applied twice), or nothing is ever kept"))
	}
	con = "an augment whose target was not found is never dropped"
	// from the nil branch every path back to the loop header passes an append
	var nilSucc *ssa.BasicBlock
	for _, r := range *target.Referrers() {
		if bo, okb := r.(*ssa.BinOp); okb {
			if _, isEq, okn := nilTest(bo); okn {
				for _, rr := range *bo.Referrers() {
					if ifi, oki := rr.(*ssa.If); oki {
						if isEq {
							nilSucc = ifi.Block().Succs[0]
						} else {
							nilSucc = ifi.Block().Succs[1]
						}
					}
				}
			}
		}
	}
	if nilSucc == nil {
		obs = append(obs, bad(R, con, pos, "the lookup result is never tested against nil"))
	} else {
		barrier := map[*ssa.BasicBlock]bool{}
		for _, a := range appends {
			barrier[a.Block()] = true
		}
		if barrier[nilSucc] || !blockReaches(nilSucc, header, barrier) {
			obs = append(obs, ok(R, con, c.InstrPos(nilSucc.Instrs[0]), "every path from target == nil back to the loop passes the append"))
		} else {
			obs = append(obs, bad(R, con, c.InstrPos(nilSucc.Instrs[0]), "a path from target == nil returns to the loop without keeping the augment: it is silently lost"))
		}
	}
	con = "an augment whose target was found is applied or reported, exactly once"
	// the merge may sit in a private helper (target.graft(a)): it then happens where the helper is called
	var merges []ssa.Instruction
	for _, mc := range c.callsToDeep(aug, merge) {
		merges = append(merges, liftAll(mc, aug, 0)...)
	}
	okMerge := len(merges) == 1
	for _, mc := range merges {
		if !isNilGuard(mc.Block(), false) {
			okMerge = false
		}
		if loopHeaderOf(mc.Block()) != header {
			okMerge = false
		}
	}
	if okMerge {
		// non-nil branch: every path back to the header passes the merge or an error record
		rec := c.errRecorders()
		barrier := map[*ssa.BasicBlock]bool{merges[0].Block(): true}
		eachInstr(aug, func(in ssa.Instruction) {
			if ci, okc := in.(ssa.CallInstruction); okc {
				for _, cal := range c.Callees(ci) {
					if rec[cal] && cal != merge && cal != find {
						barrier[in.Block()] = true
					}
				}
			}
		})
		var nonNil *ssa.BasicBlock
		for _, r := range *target.Referrers() {
			if bo, okb := r.(*ssa.BinOp); okb {
				if _, isEq, okn := nilTest(bo); okn {
					for _, rr := range *bo.Referrers() {
						if ifi, oki := rr.(*ssa.If); oki {
							if isEq {
								nonNil = ifi.Block().Succs[1]
							} else {
								nonNil = ifi.Block().Succs[0]
							}
						}
					}
				}
			}
		}
		if nonNil != nil && (barrier[nonNil] || !blockReaches(nonNil, header, barrier)) {
			obs = append(obs, ok(R, con, c.InstrPos(merges[0]), "one merge call under target != nil; every found-path passes it or records an error"))
		} else {
			obs = append(obs, bad(R, con, c.InstrPos(merges[0]), "a path on which the target was found neither merges nor reports"))
		}
	} else {
		obs = append(obs, bad(R, con, pos, fmt.Sprintf("%d merge calls, or a merge not under target != nil in the augment loop", len(merges))))
	}
	// progress accounting: the retry loop of Process stops when a pass reports no progress, so an applied augment
	// that is not counted ends the retries while augments that depend on it are still pending
	if len(merges) == 1 && aug.Signature.Results().Len() >= 1 {
		con = "an applied augment is counted as progress"
		mb := merges[0].Block()
		counted := false
		eachInstr(aug, func(in ssa.Instruction) {
			r, isR := in.(*ssa.Return)
			if !isR || len(r.Results) == 0 || counted {
				return
			}
			backSlice(r.Results[0], func(x ssa.Value) bool {
				if bo, isB := x.(*ssa.BinOp); isB && bo.Op == token.ADD {
					if k, okk := constInt(bo.Y); okk && k == 1 {
						b := bo.Block()
						if b == mb || (mb.Dominates(b) && loopHeaderOf(b) == header) || (b.Dominates(mb) && isNilGuard(b, false)) {
							counted = true
						}
					}
				}
				return true
			})
		})
		if counted {
			obs = append(obs, ok(R, con, c.InstrPos(merges[0]), "the first result is incremented on the path of the merge"))
		} else {
			obs = append(obs, bad(R, con, c.InstrPos(merges[0]), "the count of processed augments returned to the retry loop is not incremented on the path that merges: a pass that applied augments reports no progress, the retries stop, and augments into the nodes just added are reported as not found"))
		}
	}
	// the not-found report is made exactly when the caller asks for it (the leftover pass), not in retry passes
	if len(aug.Params) >= 2 {
		con = "a missing target is reported exactly when the caller asks for errors"
		rec := c.errRecorders()
		var reports []ssa.CallInstruction
		eachInstr(aug, func(in ssa.Instruction) {
			ci, isC := in.(ssa.CallInstruction)
			if !isC || !isNilGuard(in.Block(), true) {
				return
			}
			for _, cal := range c.Callees(ci) {
				if rec[cal] && cal != find && cal != merge {
					reports = append(reports, ci)
					return
				}
			}
		})
		flag := aug.Params[1]
		okRep := len(reports) > 0
		for _, ci := range reports {
			under := false
			for _, g := range guardsAt(ci.Block()) {
				if g.Cond == ssa.Value(flag) && g.Branch {
					under = true
				}
			}
			if !under {
				okRep = false
			}
		}
		if okRep {
			obs = append(obs, ok(R, con, c.InstrPos(reports[0]), "the report under target == nil is guarded by the flag parameter"))
		} else if len(reports) == 0 {
			obs = append(obs, bad(R, con, pos, "no error is recorded on the path where the target was not found"))
		} else {
			obs = append(obs, bad(R, con, c.InstrPos(reports[0]), "the not-found report is not under the caller's flag being true: the leftover pass stays silent about unapplied augments, or retry passes report augments that a later pass applies"))
		}
	}
	return obs
}

// phaseHost finds the call satisfying pred in fn or in a helper fn calls statically (same package, depth <= 2):
// a phase of Process may be extracted into a helper without changing what it does.
func (c *Ctx) phaseHost(fn *ssa.Function, pred func(ssa.CallInstruction) bool, depth int) (*ssa.Function, ssa.CallInstruction) {
	for _, ci := range callsIn(fn, pred) {
		return fn, ci
	}
	if depth == 0 {
		return nil, nil
	}
	for _, ci := range callsIn(fn, func(ssa.CallInstruction) bool { return true }) {
		cal := ci.Common().StaticCallee()
		if cal == nil || cal == fn || cal.Blocks == nil || cal.Pkg != fn.Pkg {
			continue
		}
		if h, site := c.phaseHost(cal, pred, depth-1); h != nil {
			return h, site
		}
	}
	return nil, nil
}

// phaseSites: the call instructions of fn that perform the phase identified by pred, directly or through a helper.
func (c *Ctx) phaseSites(fn *ssa.Function, pred func(ssa.CallInstruction) bool) []ssa.CallInstruction {
	var out []ssa.CallInstruction
	for _, ci := range callsIn(fn, func(ssa.CallInstruction) bool { return true }) {
		if pred(ci) {
			out = append(out, ci)
			continue
		}
		cal := ci.Common().StaticCallee()
		if cal == nil || cal == fn || cal.Blocks == nil || cal.Pkg != fn.Pkg {
			continue
		}
		if h, _ := c.phaseHost(cal, pred, 1); h != nil {
			out = append(out, ci)
		}
	}
	return out
}

func ruleAugFixpoint(c *Ctx) []Obligation {
	const R = "AUG.FIXPOINT"
	var obs []Obligation
	proc := c.MustFn("yang.(*Modules).Process")
	aug := c.MustFn("yang.(*Entry).Augment")
	pos := c.Pos(proc.Pos())
	// the retrying call: Augment(false)
	var retry *ssa.Call
	host, site := c.phaseHost(proc, func(ci ssa.CallInstruction) bool {
		if ci.Common().StaticCallee() != aug || len(ci.Common().Args) != 2 {
			return false
		}
		k, okk := ci.Common().Args[1].(*ssa.Const)
		return okk && k.Value != nil && k.Value.String() == "false"
	}, 2)
	if host != nil {
		retry, _ = site.(*ssa.Call)
		proc = host // the retry loop may live in a helper of Process
	}
	if retry == nil {
		return []Obligation{undecided(R, "retrying augment call", pos, "no Augment(false) call in Process")}
	}
	inner := loopHeaderOf(retry.Block())
	if inner == nil {
		return []Obligation{undecided(R, "module loop", pos, "Augment(false) is not in a loop")}
	}
	// outer loop: the loop whose header strictly dominates inner and which inner can reach back to
	var outer *ssa.BasicBlock
	for h := inner.Idom(); h != nil; h = h.Idom() {
		isHeader := false
		for _, p := range h.Preds {
			if h.Dominates(p) && blockReaches(inner, p, nil) {
				isHeader = true
			}
		}
		if isHeader {
			outer = h
			break
		}
	}
	if outer == nil {
		obs = append(obs, bad(R, "augments are retried until a pass makes no progress", c.InstrPos(retry), "Augment(false) is called in a single pass, not in a retry loop: an augment whose target is created by a later-visited module's augment is reported as not found"))
		return obs
	}
	// the progress accumulator: phi in the inner header fed by ADD(phi, extract #0 of retry)
	var acc *ssa.Phi
	for _, r := range *retry.Referrers() {
		ex, okx := r.(*ssa.Extract)
		if !okx || ex.Index != 0 {
			continue
		}
		for _, rr := range *ex.Referrers() {
			if bo, okb := rr.(*ssa.BinOp); okb && bo.Op == token.ADD {
				if phi, okp := bo.X.(*ssa.Phi); okp {
					good := true
					for _, e := range phi.Edges {
						if e == ssa.Value(bo) {
							continue
						}
						if k, okk := constInt(e); okk && k == 0 {
							continue
						}
						good = false
					}
					if good {
						acc = phi
					}
				}
			}
		}
	}
	con := "every pass counts all applied augments"
	if acc == nil {
		obs = append(obs, bad(R, con, c.InstrPos(retry), "the number of applied augments returned by Augment(false) is not accumulated over the pass"))
		return obs
	}
	// the zero edge must come from inside the outer loop (reset per pass)
	resetPerPass := false
	for i, e := range acc.Edges {
		if k, okk := constInt(e); okk && k == 0 {
			if outer.Dominates(acc.Block().Preds[i]) {
				resetPerPass = true
			}
		}
	}
	if resetPerPass {
		obs = append(obs, ok(R, con, c.InstrPos(acc), "processed = 0 at the start of each pass; processed += p for every module"))
	} else {
		obs = append(obs, bad(R, con, c.InstrPos(acc), "the progress counter is not reset at the start of each pass: the loop cannot detect a pass without progress"))
	}
	// exits of the outer loop
	con = "the retry loop exits only when a pass applied nothing or nothing is pending"
	inLoop := func(b *ssa.BasicBlock) bool {
		return outer.Dominates(b) && blockReaches(b, outer, nil)
	}
	okExits := true
	nExits := 0
	var badExit string
	for _, b := range proc.Blocks {
		if !inLoop(b) {
			continue
		}
		for si, s := range b.Succs {
			if inLoop(s) {
				continue
			}
			nExits++
			ifi, oki := b.Instrs[len(b.Instrs)-1].(*ssa.If)
			if !oki {
				okExits = false
				badExit = c.InstrPos(b.Instrs[len(b.Instrs)-1])
				continue
			}
			bo, okb := ifi.Cond.(*ssa.BinOp)
			if !okb {
				okExits = false
				badExit = c.InstrPos(ifi)
				continue
			}
			taken := si == 0
			switch {
			case bo.X == ssa.Value(acc) && isZero(bo.Y) && ((bo.Op == token.EQL && taken) || (bo.Op == token.NEQ && !taken) || (bo.Op == token.GTR && !taken)):
				// processed == 0
			case isLenOf(bo.X) && isZero(bo.Y) && ((bo.Op == token.GTR && !taken) || (bo.Op == token.EQL && taken) || (bo.Op == token.NEQ && !taken)):
				// len(mods) == 0
			default:
				okExits = false
				badExit = c.InstrPos(ifi)
			}
		}
	}
	if okExits && nExits > 0 {
		obs = append(obs, ok(R, con, c.InstrPos(outer.Instrs[0]), fmt.Sprintf("%d loop exits: processed == 0 / len(pending) == 0", nExits)))
	} else {
		obs = append(obs, bad(R, con, pos, "the retry loop has an exit that does not test 'a whole pass applied nothing' or 'nothing pending' ("+badExit+"): chains of dependent augments may be cut short"))
	}
	// each pass visits every pending module: an index loop over the pending list starts at 0 and runs while index < len
	if ifi, isIf := inner.Instrs[len(inner.Instrs)-1].(*ssa.If); isIf {
		if bo, isB := ifi.Cond.(*ssa.BinOp); isB {
			idx, ln, op := bo.X, bo.Y, bo.Op
			if isLenOf(idx) {
				idx, ln = ln, idx
				op = map[token.Token]token.Token{token.LSS: token.GTR, token.GTR: token.LSS, token.LEQ: token.GEQ, token.GEQ: token.LEQ}[op]
			}
			if phi, isPhi := idx.(*ssa.Phi); isPhi && isLenOf(ln) && phi.Block() == inner {
				con = "a pass of the retry loop visits every pending module"
				var init *int64
				for i, e := range phi.Edges {
					if !inner.Dominates(inner.Preds[i]) {
						if k, okk := constInt(e); okk {
							kk := k
							init = &kk
						}
					}
				}
				// where the current slot is removed (the list is re-sliced shorter) another module moves into it:
				// the index must stay
				skips := ""
				for _, b := range proc.Blocks {
					if !inner.Dominates(b) || !blockReaches(b, inner, nil) {
						continue
					}
					shrinks := false
					for _, in := range b.Instrs {
						if sl, isS := in.(*ssa.Slice); isS && sl.High != nil {
							shrinks = true
						}
					}
					if !shrinks {
						continue
					}
					for i, e := range phi.Edges {
						pr := inner.Preds[i]
						if (pr == b || blockReaches(b, pr, map[*ssa.BasicBlock]bool{inner: true})) && e != ssa.Value(phi) {
							skips = c.InstrPos(b.Instrs[0])
						}
					}
				}
				// the slot that is refilled is the current one
				for _, b := range proc.Blocks {
					if !inner.Dominates(b) || !blockReaches(b, inner, nil) {
						continue
					}
					for _, in := range b.Instrs {
						st, isS := in.(*ssa.Store)
						if !isS {
							continue
						}
						ia, isIA := st.Addr.(*ssa.IndexAddr)
						if !isIA || !types.Identical(ia.X.Type(), ln.(*ssa.Call).Call.Args[0].Type()) {
							continue
						}
						if ia.Index != ssa.Value(phi) {
							skips = c.InstrPos(st)
							obs = append(obs, bad(R, "the slot refilled when a module is finished is the current slot", c.InstrPos(st), "the last pending module is moved into a slot other than the one just finished: a still pending module is overwritten and its augments are neither applied nor reported"))
						}
					}
				}
				switch {
				case skips != "":
					obs = append(obs, bad(R, con, c.InstrPos(ifi), "after the finished module's slot is filled with the last pending module ("+skips+") the index still advances: the module moved into the slot is skipped by this pass"))
				case init != nil && *init == 0 && op == token.LSS:
					obs = append(obs, ok(R, con, c.InstrPos(ifi), "for i := 0; i < len(pending)"))
				case init != nil:
					obs = append(obs, bad(R, con, c.InstrPos(ifi), fmt.Sprintf("the pass runs from index %d while `index %s len(pending)`: some pending module is never visited by the retry passes, so augments into nodes that its augments add are reported as not found", *init, op)))
				}
			}
		}
	}
	return obs
}

func isZero(v ssa.Value) bool {
	k, ok := constInt(v)
	return ok && k == 0
}

func isLenOf(v ssa.Value) bool {
	call, ok := v.(*ssa.Call)
	if !ok {
		return false
	}
	bi, okb := call.Call.Value.(*ssa.Builtin)
	return okb && bi.Name() == "len"
}

func ruleAugLeftover(c *Ctx) []Obligation {
	const R = "AUG.LEFTOVER"
	proc := c.MustFn("yang.(*Modules).Process")
	aug := c.MustFn("yang.(*Entry).Augment")
	con := "pending augments are reported after the retry loop"
	var final *ssa.Call
	var retry *ssa.Call
	for _, ci := range c.callsToDeep(proc, aug) {
		if call, okc := ci.(*ssa.Call); okc && len(call.Call.Args) == 2 {
			if k, okk := call.Call.Args[1].(*ssa.Const); okk && k.Value != nil {
				if k.Value.String() == "true" {
					final = call
				} else {
					retry = call
				}
			}
		}
	}
	if final == nil {
		return []Obligation{bad(R, con, c.Pos(proc.Pos()), "no Augment(true) call: unapplied augments are never reported")}
	}
	h := loopHeaderOf(final.Block())
	okAll := h != nil
	// where the two passes happen in Process itself (the call of the helper, if they were extracted)
	finalAt, retryAt := ssa.Instruction(final), ssa.Instruction(nil)
	if l := liftAll(final, proc, 0); len(l) == 1 {
		finalAt = l[0]
	}
	if retry != nil {
		retryAt = retry
		if l := liftAll(retry, proc, 0); len(l) == 1 {
			retryAt = l[0]
		}
	}
	eachInstr(proc, func(in ssa.Instruction) {
		r, isr := in.(*ssa.Return)
		if !isr || h == nil {
			return
		}
		// only the returns reachable after the retry loop matter
		if retryAt != nil && retryAt.Parent() == proc && reaches(retryAt, r) {
			if final.Parent() == proc {
				if !h.Dominates(r.Block()) {
					okAll = false
				}
			} else if !dominates(finalAt, r) {
				okAll = false // the helper holding the reporting loop is not called on this path
			}
		}
	})
	// the loop ranges over the pending slice: the same variable the retry loop shrinks
	if okAll && retry != nil {
		src := func(call *ssa.Call) ssa.Value {
			var v ssa.Value
			start := call.Call.Args[0]
			if inner, okc := start.(*ssa.Call); okc && len(inner.Call.Args) > 0 {
				start = inner.Call.Args[0] // ToEntry(m).Augment(…): follow m
			}
			backSlice(start, func(x ssa.Value) bool {
				if ia, ok2 := x.(*ssa.IndexAddr); ok2 {
					v = resolveArg(ia.X)
					return false
				}
				return true
			})
			return v
		}
		a, b := src(final), src(retry)
		if a == nil || b == nil || !derivesFrom(a, func(x ssa.Value) bool { return x == b }) && !derivesFrom(b, func(x ssa.Value) bool { return x == a }) && !sharePhiWeb(a, b) {
			okAll = false
		}
	}
	if okAll {
		return []Obligation{ok(R, con, c.InstrPos(final), "Augment(true) runs over the still-pending modules on every path to the final return")}
	}
	return []Obligation{bad(R, con, c.InstrPos(final), "the reporting pass is skipped on some path, or does not visit the modules left pending by the retry loop")}
}

// sharePhiWeb: a and b are connected through phi nodes (same source variable).
func sharePhiWeb(a, b ssa.Value) bool {
	seen := map[ssa.Value]bool{}
	var grow func(v ssa.Value, d int)
	grow = func(v ssa.Value, d int) {
		if v == nil || seen[v] || d > 12 {
			return
		}
		seen[v] = true
		if phi, ok := v.(*ssa.Phi); ok {
			for _, e := range phi.Edges {
				grow(e, d+1)
			}
		}
		if sl, ok := v.(*ssa.Slice); ok {
			grow(sl.X, d+1)
		}
		if v.Referrers() != nil {
			for _, r := range *v.Referrers() {
				if phi, ok := r.(*ssa.Phi); ok {
					grow(phi, d+1)
				}
				if sl, ok := r.(*ssa.Slice); ok {
					grow(sl, d+1)
				}
			}
		}
	}
	grow(a, 0)
	return seen[b]
}

func ruleMergeCollide(c *Ctx) []Obligation {
	const R = "MERGE.COLLIDE"
	m := c.entryModel()
	merge := c.mergeFn()
	if merge == nil {
		return []Obligation{undecided(R, "link function", "-", "no unique function stores Entry.namespace")}
	}
	con := "a name collision in the target's child map records an error on every path"
	pos := c.Pos(merge.Pos())
	// the collision lookup: receiver.Dir[k] where k is the range key of the incoming children
	var look *ssa.Lookup
	eachInstr(merge, func(in ssa.Instruction) {
		if l, ok2 := in.(*ssa.Lookup); ok2 {
			if _, f, base := loadedField(l.X); f == m.fDir && isParamN(merge, base, 0) {
				look = l
			}
		}
	})
	if look == nil {
		return []Obligation{bad(R, con, pos, "the link function never looks the incoming name up in the target: a collision overwrites the existing child silently")}
	}
	header := loopHeaderOf(look.Block())
	// the block entered when the name is already present: any of the forms presenceOf knows, possibly two tests
	// in a row (se, ok := e.Dir[k]; ok && se != nil)
	var collide *ssa.BasicBlock
	ifBlocks := map[*ssa.BasicBlock]bool{}
	var succs []*ssa.BasicBlock
	for _, b := range merge.Blocks {
		ifi, isIf := b.Instrs[len(b.Instrs)-1].(*ssa.If)
		if !isIf {
			continue
		}
		pl, presentOnTrue, isP := presenceOf(ifi.Cond)
		if !isP || pl != look {
			continue
		}
		ifBlocks[b] = true
		if presentOnTrue {
			succs = append(succs, b.Succs[0])
		} else {
			succs = append(succs, b.Succs[1])
		}
	}
	for _, sblk := range succs {
		if !ifBlocks[sblk] {
			collide = sblk
		}
	}
	if collide == nil || header == nil {
		return []Obligation{bad(R, con, c.InstrPos(look), "the looked-up child is not tested for presence")}
	}
	rec := c.errRecorders()
	barrier := map[*ssa.BasicBlock]bool{}
	eachInstr(merge, func(in ssa.Instruction) {
		if ci, okc := in.(ssa.CallInstruction); okc {
			cal := ci.Common().StaticCallee()
			if cal != nil && rec[cal] && len(ci.Common().Args) > 0 && ci.Common().Args[0] == ssa.Value(merge.Params[0]) {
				// an error recorded on the receiver (target)
				if baseName(cal) == "addError" || baseName(cal) == "errorf" {
					barrier[in.Block()] = true
				}
			}
		}
	})
	if barrier[collide] || !blockReaches(collide, header, barrier) {
		// and the colliding child is not linked
		linked := false
		for _, mu := range mapUpdatesOnField(merge, m.fDir) {
			if collide.Dominates(mu.Block()) {
				linked = true
			}
		}
		if linked {
			return []Obligation{bad(R, con, c.InstrPos(look), "the existing child is overwritten on the collision path")}
		}
		return []Obligation{ok(R, con, c.InstrPos(look), "every path from `existing != nil` back to the loop passes addError on the target, and none links the incoming child")}
	}
	return []Obligation{bad(R, con, c.InstrPos(look), "some collision path returns to the loop without recording an error: the incoming node is dropped silently")}
}

func ruleProcPhases(c *Ctx) []Obligation {
	const R = "PROC.PHASES"
	var obs []Obligation
	proc := c.MustFn("yang.(*Modules).Process")
	aug := c.MustFn("yang.(*Entry).Augment")
	fix := c.MustFn("yang.(*Entry).FixChoice")
	dev := c.MustFn("yang.(*Entry).ApplyDeviate")
	augWith := func(want string) func(ssa.CallInstruction) bool {
		return func(ci ssa.CallInstruction) bool {
			if ci.Common().StaticCallee() != aug || len(ci.Common().Args) != 2 {
				return false
			}
			k, okk := ci.Common().Args[1].(*ssa.Const)
			isTrue := okk && k.Value != nil && k.Value.String() == "true"
			return isTrue == (want == "true")
		}
	}
	callee := func(f *ssa.Function) func(ssa.CallInstruction) bool {
		return func(ci ssa.CallInstruction) bool { return ci.Common().StaticCallee() == f }
	}
	// phases are located in Process itself or behind a helper call made from Process
	final := c.phaseSites(proc, augWith("true"))
	retry := c.phaseSites(proc, augWith("false"))
	fixes := c.phaseSites(proc, callee(fix))
	devs := c.phaseSites(proc, callee(dev))
	pos := c.Pos(proc.Pos())
	con := "implicit cases are inserted after the augment fixpoint"
	okk := len(fixes) > 0 && len(retry) > 0
	for _, f := range fixes {
		for _, r := range retry {
			if reaches(f, r) || !reaches(r, f) {
				okk = false
			}
		}
	}
	if okk {
		obs = append(obs, ok(R, con, c.InstrPos(fixes[0]), "no retrying augment call is reachable from a FixChoice call"))
	} else {
		obs = append(obs, bad(R, con, pos, "FixChoice can run before the augment fixpoint has finished: choice members grafted by an augment never get their implicit case"))
	}
	con = "implicit cases are inserted on every path to the final return"
	okk = len(fixes) > 0
	for _, f := range fixes {
		// the outermost loop the call sits in (the pass may be a loop over a literal list of tables around the
		// loop over each table)
		h := loopHeaderOf(f.Block())
		for h != nil {
			var outerH *ssa.BasicBlock
			for d := h.Idom(); d != nil; d = d.Idom() {
				for _, p := range d.Preds {
					if d.Dominates(p) && blockReaches(h, p, nil) {
						outerH = d
					}
				}
				if outerH != nil {
					break
				}
			}
			if outerH == nil {
				break
			}
			h = outerH
		}
		viaHelper := f.Common().StaticCallee() != fix // the pass lives in a helper: its call must dominate
		eachInstr(proc, func(in ssa.Instruction) {
			if r, isr := in.(*ssa.Return); isr && len(retry) > 0 && reaches(retry[0], r) {
				if viaHelper {
					if !dominates(f, r) {
						okk = false
					}
				} else if h == nil || !h.Dominates(r.Block()) {
					okk = false
				}
			}
		})
	}
	if okk {
		obs = append(obs, ok(R, con, c.InstrPos(fixes[0]), "the FixChoice loops dominate every return after the augment phase"))
	} else {
		obs = append(obs, bad(R, con, pos, "some path through Process skips the implicit-case pass"))
	}
	con = "deviations are applied after augmentation and implicit-case insertion"
	okk = len(devs) > 0
	for _, d := range devs {
		for _, r := range append(append([]ssa.CallInstruction{}, retry...), fixes...) {
			if reaches(d, r) || !reaches(r, d) {
				okk = false
			}
		}
		for _, r := range final {
			if reaches(d, r) {
				okk = false
			}
		}
	}
	if okk {
		obs = append(obs, ok(R, con, c.InstrPos(devs[0]), "ApplyDeviate is reachable only after the augment and FixChoice phases"))
	} else {
		obs = append(obs, bad(R, con, pos, "a deviation can be applied before its target has been grafted or wrapped: targets created by augments are 'not found'"))
	}
	// once per module name: test-and-set on a visited map around the applier
	con = "each module's deviations are applied once (visited-name test-and-set)"
	okk = false
	// the applier call itself may sit in a helper of Process together with its visited set
	var devCalls []ssa.CallInstruction
	devCalls = append(devCalls, c.callsInDeep(proc, callee(dev))...)
	for _, d := range devCalls {
		c.eachInstrDeep(proc, func(in ssa.Instruction) {
			mu, okm := in.(*ssa.MapUpdate)
			if !okm || !isSetInsert(mu) {
				return
			}
			if _, isMake := mu.Map.(*ssa.MakeMap); !isMake {
				return
			}
			c.eachInstrDeep(proc, func(in2 ssa.Instruction) {
				l, okl := in2.(*ssa.Lookup)
				if okl && l.X == mu.Map && sameKey(l.Index, mu.Key) && lookupAbsentGuards(l, d) && (dominates(d, mu) || dominates(mu, d)) {
					okk = true
				}
			})
		})
	}
	// or: the applier walks a list that a helper made with one entry per name (if !seen[name] { seen[name] = true;
	// list = append(list, m) }) — the test-and-set sits around the append instead of around the call
	if !okk {
		for _, d := range devCalls {
			if len(d.Common().Args) == 0 {
				continue
			}
			for _, h := range c.Funcs {
				if h.Blocks == nil || h == proc || !c.isRepoFn(h) || h.Signature.Results().Len() != 1 {
					continue
				}
				if _, isSl := h.Signature.Results().At(0).Type().Underlying().(*types.Slice); !isSl {
					continue
				}
				fromH := derivesFrom(d.Common().Args[0], func(x ssa.Value) bool {
					call, isC := x.(*ssa.Call)
					return isC && call.Call.StaticCallee() == h
				})
				if !fromH {
					// ToEntry(m) with m from the list
					if call, isC := d.Common().Args[0].(*ssa.Call); isC && len(call.Call.Args) > 0 {
						fromH = derivesFrom(call.Call.Args[0], func(x ssa.Value) bool {
							c2, isC2 := x.(*ssa.Call)
							return isC2 && c2.Call.StaticCallee() == h
						})
					}
				}
				if !fromH {
					continue
				}
				eachInstr(h, func(in ssa.Instruction) {
					mu, okm := in.(*ssa.MapUpdate)
					if !okm || !isSetInsert(mu) {
						return
					}
					eachInstr(h, func(in2 ssa.Instruction) {
						ap, isAp := in2.(*ssa.Call)
						if !isAp {
							return
						}
						if bi, isB := ap.Call.Value.(*ssa.Builtin); !isB || bi.Name() != "append" {
							return
						}
						eachInstr(h, func(in3 ssa.Instruction) {
							l, okl := in3.(*ssa.Lookup)
							if okl && l.X == mu.Map && sameKey(l.Index, mu.Key) && lookupAbsentGuards(l, ap) && (dominates(ap, mu) || dominates(mu, ap)) {
								okk = true
							}
						})
					})
				})
			}
		}
	}
	if okk {
		obs = append(obs, ok(R, con, c.InstrPos(devs[0]), "if !seen[name] { apply; seen[name] = true }"))
	} else {
		obs = append(obs, bad(R, con, pos, "modules are filed under name and name@revision: without the visited-name guard a module's deviations are applied twice"))
	}
	return obs
}

func ruleNsStamp(c *Ctx) []Obligation {
	const R = "NS.STAMP"
	var obs []Obligation
	fNS := c.nsField()
	merge := c.mergeFn()
	if fNS == nil || merge == nil {
		return []Obligation{bad(R, "one function stamps the namespace", "-", "Entry's unexported namespace field is not stored by exactly one function")}
	}
	obs = append(obs, ok(R, "one function stamps the namespace", c.Pos(merge.Pos()), c.FnName(merge)))
	// the stored value is the namespace parameter, under namespace != nil
	var nsParam *ssa.Parameter
	var nsField *types.Var // the field of a structure parameter that carries the namespace, if that is how it comes
	for _, st := range c.storesToFieldDeep(merge, fNS) {
		con := "the stamped value is the caller's namespace argument"
		if p, okp := resolveArg(st.Val).(*ssa.Parameter); okp && p.Parent() == merge {
			nsParam = p
			obs = append(obs, ok(R, con, c.InstrPos(st), "v.namespace = "+p.Name()))
		} else if p, f := structParamField(st.Val); p != nil && p.Parent() == merge {
			nsParam, nsField = p, f
			obs = append(obs, ok(R, con, c.InstrPos(st), "v.namespace = "+p.Name()+"."+f.Name()))
		} else {
			obs = append(obs, bad(R, con, c.InstrPos(st), "the link function stores something other than its namespace parameter"))
		}
	}
	if nsParam == nil {
		return obs
	}
	idx := paramIndex(merge, nsParam)
	nsMethod := c.MustFn("yang.(*Entry).Namespace")
	aug := c.MustFn("yang.(*Entry).Augment")
	node := c.Graph().Nodes[merge]
	nNonNil := 0
	for _, e := range node.In {
		if e.Site == nil || e.Caller.Func.Synthetic != "" {
			continue
		}
		args := e.Site.Common().Args
		if idx >= len(args) {
			continue
		}
		a := args[idx]
		if nsField != nil {
			// the argument is a structure written on the spot: the value its namespace field is given (none: nil)
			v, known := literalField(a, nsField)
			if !known {
				obs = append(obs, undecided(R, fmt.Sprintf("%s → %s: namespace argument", c.FnName(c.inlineRoot(e.Caller.Func)), c.FnName(merge)), c.InstrPos(e.Site), "the structure that carries the namespace is not written at the call: what its field holds is not followed"))
				continue
			}
			a = v
		}
		caller := c.inlineRoot(e.Caller.Func) // a private helper of the applier counts as the applier
		con := fmt.Sprintf("%s → %s: namespace argument", c.FnName(caller), c.FnName(merge))
		pos := c.InstrPos(e.Site)
		if isNilConst(a) {
			if caller == aug {
				obs = append(obs, bad(R, con, pos, "the augment applier passes no namespace: grafted nodes would be attributed to the augmented module"))
			} else {
				obs = append(obs, ok(R, con+" is nil", pos, "uses/include keep the user's namespace"))
			}
			continue
		}
		nNonNil++
		call, okc := a.(*ssa.Call)
		if caller == aug && okc && call.Call.StaticCallee() == nsMethod {
			// Namespace() of the augment entry being merged (the oe argument)
			oe := args[len(args)-1]
			if call.Call.Args[0] == oe {
				obs = append(obs, ok(R, con+" is the augmenting entry's", pos, "the namespace handed to the link function is Namespace() of the entry it is handed"))
				continue
			}
		}
		obs = append(obs, bad(R, con, pos, "a namespace is stamped that is not Namespace() of the augment entry being applied (uses and include must pass nil so that copies belong to the using module)"))
	}
	if nNonNil == 0 {
		obs = append(obs, bad(R, "the augment applier stamps the augmenting module's namespace", c.Pos(aug.Pos()), "no call site passes a namespace"))
	}
	return obs
}

func ruleNsRoot(c *Ctx) []Obligation {
	const R = "NS.ROOT"
	ns := c.MustFn("yang.(*Entry).Namespace")
	mods := c.MustNamed("yang", "Modules")
	fMods := FieldVar(mods, "Modules")
	con := "Namespace(): a submodule root is mapped to its owning module before its namespace is read"
	okk := false
	c.eachInstrDeep(ns, func(in ssa.Instruction) {
		l, okl := in.(*ssa.Lookup)
		if !okl {
			return
		}
		if _, f, _ := loadedField(l.X); f != fMods {
			return
		}
		keyOK := derivesFrom(l.Index, func(x ssa.Value) bool {
			_, f, _ := fieldOf(x)
			return f != nil && f.Name() == "BelongsTo"
		})
		guard := false
		for _, g := range guardsAt(l.Block()) {
			if bo, okb := g.Cond.(*ssa.BinOp); okb && (g.Branch && bo.Op == token.EQL || !g.Branch && bo.Op == token.NEQ) {
				if s, oks := constString(bo.Y); oks && s == "submodule" {
					guard = true
				}
			}
		}
		if keyOK && guard {
			okk = true
		}
	})
	if okk {
		return []Obligation{ok(R, con, c.Pos(ns.Pos()), "if root.Kind() == \"submodule\" { root = Modules[root.BelongsTo.Name] }")}
	}
	return []Obligation{bad(R, con, c.Pos(ns.Pos()), "content written in a submodule would report an empty namespace")}
}

// isSetInsert: m[k] = true for a bool-valued map, or m[k] = struct{}{} for a set of empty structs.
func isSetInsert(mu *ssa.MapUpdate) bool {
	mt, isM := mu.Map.Type().Underlying().(*types.Map)
	if !isM {
		return false
	}
	if b, isB := mt.Elem().Underlying().(*types.Basic); isB && b.Kind() == types.Bool {
		return isTrueConst(mu.Value)
	}
	if st, isS := mt.Elem().Underlying().(*types.Struct); isS && st.NumFields() == 0 {
		return true
	}
	return false
}

// structParamField: v reads field f of a structure that is a parameter of the function (or, inside a private helper,
// of the function the helper is part of): `p.f` for a value parameter p, spilled or not.
func structParamField(v ssa.Value) (*ssa.Parameter, *types.Var) {
	return structParamFieldIn(v, nil)
}

// structParamFieldIn: the same, stopping at a parameter of fn instead of following it into fn's caller.
func structParamFieldIn(v ssa.Value, fn *ssa.Function) (*ssa.Parameter, *types.Var) {
	var base ssa.Value
	var f *types.Var
	switch x := v.(type) {
	case *ssa.Field:
		st, isS := x.X.Type().Underlying().(*types.Struct)
		if !isS {
			return nil, nil
		}
		base, f = x.X, st.Field(x.Field)
	case *ssa.UnOp:
		fa, isFA := x.X.(*ssa.FieldAddr)
		if !isFA || x.Op != token.MUL {
			return nil, nil
		}
		pt, isP := fa.X.Type().Underlying().(*types.Pointer)
		if !isP {
			return nil, nil
		}
		st, isS := pt.Elem().Underlying().(*types.Struct)
		if !isS {
			return nil, nil
		}
		a, isA := fa.X.(*ssa.Alloc)
		if !isA {
			return nil, nil
		}
		sp := spilledParam(a)
		if sp == nil {
			return nil, nil
		}
		base, f = sp, st.Field(fa.Field)
	default:
		return nil, nil
	}
	for d := 0; d < 4; d++ {
		if ld, isL := base.(*ssa.UnOp); isL && ld.Op == token.MUL {
			if a, isA := ld.X.(*ssa.Alloc); isA {
				if sp := spilledParam(a); sp != nil {
					base = sp
					continue
				}
			}
		}
		p, isP := base.(*ssa.Parameter)
		if !isP {
			return nil, nil
		}
		if fn != nil && p.Parent() == fn {
			return p, f
		}
		r := resolveArg(p)
		if r == ssa.Value(p) {
			return p, f
		}
		base = r
	}
	return nil, nil
}

// literalField: a is a structure value written on the spot (T{...}, lifted or in a cell of its own): the value its
// field f is given; the nil/zero constant if the literal leaves it out. known is false for any other shape.
func literalField(a ssa.Value, f *types.Var) (ssa.Value, bool) {
	ld, isL := a.(*ssa.UnOp)
	if !isL || ld.Op != token.MUL {
		if k, isK := a.(*ssa.Const); isK && k.Value == nil {
			return ssa.NewConst(nil, f.Type()), true // the zero structure
		}
		return nil, false
	}
	cell, isA := ld.X.(*ssa.Alloc)
	if !isA || spilledParam(cell) != nil {
		return nil, false
	}
	var val ssa.Value
	n := 0
	for _, r := range *cell.Referrers() {
		switch x := r.(type) {
		case *ssa.FieldAddr:
			st := cell.Type().Underlying().(*types.Pointer).Elem().Underlying().(*types.Struct)
			for _, rr := range *x.Referrers() {
				s, isS := rr.(*ssa.Store)
				if !isS || s.Addr != ssa.Value(x) {
					if _, isDbg := rr.(*ssa.DebugRef); !isDbg {
						return nil, false // the field's address goes elsewhere
					}
					continue
				}
				if st.Field(x.Field) == f {
					val = s.Val
					n++
				}
			}
		case *ssa.UnOp, *ssa.DebugRef:
		case *ssa.Store:
			if x.Addr == ssa.Value(cell) {
				return nil, false // the whole structure is copied in from elsewhere
			}
		default:
			return nil, false
		}
	}
	switch n {
	case 0:
		return ssa.NewConst(nil, f.Type()), true
	case 1:
		return val, true
	}
	return nil, false
}

package main

// nilflow.go: a forward must-analysis of "access path is known non-nil" facts, used by NIL, NILMAP and others.

import (
	"fmt"
	"go/token"
	"go/types"
	"os"
	"sort"
	"strings"

	"golang.org/x/tools/go/ssa"
)

type factSet map[string]bool

func (f factSet) clone() factSet {
	g := factSet{}
	for k := range f {
		g[k] = true
	}
	return g
}

func intersect(a, b factSet) factSet {
	g := factSet{}
	for k := range a {
		if b[k] {
			g[k] = true
		}
	}
	return g
}

func equalFacts(a, b factSet) bool {
	if len(a) != len(b) {
		return false
	}
	for k := range a {
		if !b[k] {
			return false
		}
	}
	return true
}

// NilFlow holds the non-nil facts at the entry of each block of a function.
type NilFlow struct {
	uninherited bool // a single-site helper analysed without the facts of its call site (the caller was busy)
	phiBusy map[*ssa.Phi]bool // phis being evaluated by valueNonNil (cycle guard)
	c     *Ctx
	fn    *ssa.Function
	entry map[*ssa.BasicBlock]factSet
	top   map[*ssa.BasicBlock]bool // not yet visited (⊤)
	busy  bool                     // placeholder while the analysis of fn is on the stack
}

// predicateFacts: boolean repo methods whose true result implies fields of the receiver are non-nil.
// Derived from the method body: the returned expression is a conjunction containing recv.F != nil.
func (c *Ctx) predicateImplies(fn *ssa.Function) []string {
	if fn == nil || fn.Blocks == nil || len(fn.Params) == 0 {
		return nil
	}
	if fn.Signature.Results().Len() != 1 {
		return nil
	}
	if b, ok := fn.Signature.Results().At(0).Type().Underlying().(*types.Basic); !ok || b.Kind() != types.Bool {
		return nil
	}
	// collect field!=nil tests that hold on every path returning true
	var out []string
	first := true
	eachInstr(fn, func(in ssa.Instruction) {
		r, ok := in.(*ssa.Return)
		if !ok {
			return
		}
		fs := c.trueImplications(fn, r.Results[0], r, 0)
		if fs == nil {
			return // returns constant false on this path: no constraint
		}
		if first {
			out = fs
			first = false
		} else {
			var keep []string
			for _, a := range out {
				for _, b := range fs {
					if a == b {
						keep = append(keep, a)
					}
				}
			}
			out = keep
		}
	})
	return out
}

// trueImplications: if v is true at the return r, which receiver fields are non-nil? nil result = "v is constant false".
func (c *Ctx) trueImplications(fn *ssa.Function, v ssa.Value, r *ssa.Return, depth int) []string {
	if depth > 6 {
		return []string{}
	}
	recv := fn.Params[0]
	fields := []string{}
	// facts from dominating guards of the return block
	for _, g := range guardsAt(r.Block()) {
		if x, isEq, ok := nilTest(g.Cond); ok && isEq != g.Branch {
			if _, f, base := loadedField(x); f != nil && rootOf(base) == ssa.Value(recv) {
				fields = append(fields, f.Name())
			}
		}
		cond, br := stripNot(g.Cond, g.Branch)
		if call, ok := cond.(*ssa.Call); ok && br {
			if cal := call.Call.StaticCallee(); cal != nil && cal != fn && len(call.Call.Args) > 0 && call.Call.Args[0] == ssa.Value(recv) {
				fields = append(fields, c.predicateImplies(cal)...)
			}
		}
	}
	switch x := v.(type) {
	case *ssa.Const:
		if x.Value != nil && x.Value.String() == "false" {
			return nil
		}
		return fields
	case *ssa.BinOp:
		if y, isEq, ok := nilTest(x); ok && !isEq {
			if _, f, base := loadedField(y); f != nil && rootOf(base) == ssa.Value(recv) {
				fields = append(fields, f.Name())
			}
		}
		return fields
	case *ssa.Phi:
		// short-circuit && lowers to phi [false, …, lastcond]
		var res []string
		firstEdge := true
		for i, e := range x.Edges {
			_ = i
			fs := c.trueImplications(fn, e, r, depth+1)
			if fs == nil {
				continue
			}
			// the edge value itself may be under guards of its predecessor block
			pred := x.Block().Preds[i]
			for _, g := range guardsAt(pred) {
				if y, isEq, ok := nilTest(g.Cond); ok && isEq != g.Branch {
					if _, f, base := loadedField(y); f != nil && rootOf(base) == ssa.Value(recv) {
						fs = append(fs, f.Name())
					}
				}
				cond, br := stripNot(g.Cond, g.Branch)
				if call, ok := cond.(*ssa.Call); ok && br {
					if cal := call.Call.StaticCallee(); cal != nil && cal != fn && len(call.Call.Args) > 0 && call.Call.Args[0] == ssa.Value(recv) {
						fs = append(fs, c.predicateImplies(cal)...)
					}
				}
			}
			// guards at pred's own terminating If (the edge into the phi block)
			if len(pred.Instrs) > 0 {
				if ifi, ok := pred.Instrs[len(pred.Instrs)-1].(*ssa.If); ok {
					br := pred.Succs[0] == x.Block()
					if y, isEq, ok := nilTest(ifi.Cond); ok && isEq != br {
						if _, f, base := loadedField(y); f != nil && rootOf(base) == ssa.Value(recv) {
							fs = append(fs, f.Name())
						}
					}
				}
			}
			if firstEdge {
				res = fs
				firstEdge = false
			} else {
				var keep []string
				for _, a := range res {
					for _, b := range fs {
						if a == b {
							keep = append(keep, a)
						}
					}
				}
				res = keep
			}
		}
		if firstEdge {
			return nil
		}
		return append(res, fields...)
	case *ssa.UnOp:
		if x.Op == token.NOT {
			return fields
		}
	case *ssa.Call:
		if cal := x.Call.StaticCallee(); cal != nil && cal != fn && len(x.Call.Args) > 0 && x.Call.Args[0] == ssa.Value(recv) {
			return append(fields, c.predicateImplies(cal)...)
		}
	}
	return fields
}

var nilFlowInheriting = map[*ssa.Function]bool{}

func (c *Ctx) NilFlow(fn *ssa.Function) *NilFlow {
	nf := &NilFlow{c: c, fn: fn, entry: map[*ssa.BasicBlock]factSet{}, top: map[*ssa.BasicBlock]bool{}}
	if len(fn.Blocks) == 0 {
		return nf
	}
	for _, b := range fn.Blocks {
		nf.top[b] = true
	}
	nf.entry[fn.Blocks[0]] = factSet{}
	nf.top[fn.Blocks[0]] = false
	// a private helper with one call site starts with what is known at that site, said of its parameters (inline.go)
	if h := helperOf(fn); h != nil && len(h.sites) == 1 && fn.Parent() == nil && !nilFlowInheriting[fn] {
		caller := h.site.Parent()
		if cnf, cached := nilFlowCache[caller]; cached && cnf.busy {
			nf.uninherited = true
		} else {
			nilFlowInheriting[fn] = true
			cf := c.NilFlowCached(caller).FactsAt(h.site)
			delete(nilFlowInheriting, fn)
			args := h.site.Common().Args
			for i, p := range fn.Params {
				if i >= len(args) {
					break
				}
				ap, pp := AccessPath(args[i]), AccessPath(p)
				for k, v := range cf {
					if !v {
						continue
					}
					if k == ap {
						nf.entry[fn.Blocks[0]][pp] = true
					} else if strings.HasPrefix(k, ap+".") {
						nf.entry[fn.Blocks[0]][pp+k[len(ap):]] = true
					}
				}
			}
		}
	}
	if fn.Recover != nil {
		nf.entry[fn.Recover] = factSet{}
		nf.top[fn.Recover] = false
	}
	changed := true
	for iter := 0; changed && iter < 50; iter++ {
		changed = false
		for _, b := range fn.Blocks {
			if nf.top[b] {
				continue
			}
			out := nf.transferBlock(b, nil)
			for si, s := range b.Succs {
				ef := out.clone()
				nf.edgeFacts(b, si, ef)
				if nf.top[s] {
					nf.entry[s] = ef
					nf.top[s] = false
					changed = true
				} else {
					m := intersect(nf.entry[s], ef)
					if !equalFacts(m, nf.entry[s]) {
						nf.entry[s] = m
						changed = true
					}
				}
			}
		}
	}
	return nf
}

// transferBlock applies the block's instructions to its entry facts, stopping before `until` if given.
func (nf *NilFlow) transferBlock(b *ssa.BasicBlock, until ssa.Instruction) factSet {
	f := nf.entry[b].clone()
	for _, in := range b.Instrs {
		if in == until {
			break
		}
		nf.transfer(in, f)
	}
	return f
}

func (nf *NilFlow) transfer(in ssa.Instruction, f factSet) {
	switch x := in.(type) {
	case *ssa.Store:
		p := AccessPath(x.Addr)
		nn := nf.valueNonNil(x.Val, f) // before the kill: `*cell = *cell` (spilled result) must keep its fact
		selfStore := AccessPath(x.Val) == p
		// kill the path and everything below it
		if !selfStore {
			for k := range f {
				if k == p || strings.HasPrefix(k, p+".") {
					delete(f, k)
				}
			}
		}
		if nn {
			f[p] = true
		}
		// a value fresh from a constructor carries the maps that constructor makes
		if call, ok := x.Val.(*ssa.Call); ok {
			if cal := call.Call.StaticCallee(); cal != nil && nf.c.isRepoFn(cal) {
				for _, fld := range nf.c.madeFields(cal) {
					f[p+"."+fld] = true
				}
			}
		}
	case *ssa.MapUpdate:
		// the map operand was dereferenced: it is non-nil afterwards
		f[AccessPath(x.Map)] = true
	case *ssa.FieldAddr:
		f[AccessPath(x.X)] = true
	case *ssa.Call:
		// a helper that makes a field of its argument non-nil on every path (if x.F == nil { x.F = new }):
		// the field is non-nil after the call
		if cal := x.Call.StaticCallee(); cal != nil && nf.c.isRepoFn(cal) && !nf.busy {
			for _, ef := range nf.c.ensuredFields(cal) {
				if ef.param < len(x.Call.Args) {
					f[AccessPath(x.Call.Args[ef.param])+"."+ef.field] = true
				}
			}
		}
	}
}

type ensuredField struct {
	param int
	field string
}

var ensuredCache = map[*ssa.Function][]ensuredField{}

// ensuredFields: (parameter, field) pairs such that the field of the pointed-to struct is non-nil at every
// return of fn. Only small functions that store into a field of a parameter are considered.
func (c *Ctx) ensuredFields(fn *ssa.Function) []ensuredField {
	if v, done := ensuredCache[fn]; done {
		return v
	}
	ensuredCache[fn] = nil
	if fn.Blocks == nil || len(fn.Blocks) > 8 {
		return nil
	}
	type cand struct {
		param int
		f     *types.Var
		path  string
	}
	var cands []cand
	eachInstr(fn, func(in ssa.Instruction) {
		st, isS := in.(*ssa.Store)
		if !isS || isNilConst(st.Val) {
			return
		}
		_, f, base := fieldOf(st.Addr)
		if f == nil || !refKinded(f.Type()) {
			return
		}
		for i := range fn.Params {
			if isParamN(fn, base, i) {
				cands = append(cands, cand{i, f, AccessPath(st.Addr)})
			}
		}
	})
	if len(cands) == 0 {
		return nil
	}
	nf := c.NilFlow(fn)
	var out []ensuredField
	for _, cd := range cands {
		all, n := true, 0
		for _, b := range fn.Blocks {
			r, isR := b.Instrs[len(b.Instrs)-1].(*ssa.Return)
			if !isR || b == fn.Recover {
				continue
			}
			n++
			if !nf.FactsAt(r)[cd.path] {
				all = false
			}
		}
		if all && n > 0 {
			dup := false
			for _, o := range out {
				if o.param == cd.param && o.field == cd.f.Name() {
					dup = true
				}
			}
			if !dup {
				out = append(out, ensuredField{cd.param, cd.f.Name()})
			}
		}
	}
	ensuredCache[fn] = out
	return out
}

// valueNonNil: v is certainly non-nil given facts f.
func (nf *NilFlow) valueNonNil(v ssa.Value, f factSet) bool {
	switch x := v.(type) {
	case *ssa.Alloc, *ssa.MakeMap, *ssa.MakeSlice, *ssa.MakeClosure, *ssa.MakeChan, *ssa.Function:
		return true
	case *ssa.MakeInterface:
		return true
	case *ssa.FieldAddr, *ssa.IndexAddr:
		return true
	case *ssa.Slice:
		return true
	case *ssa.Const:
		return x.Value != nil
	case *ssa.Call:
		if cal := x.Call.StaticCallee(); cal != nil {
			if nf.c.isRepoFn(cal) {
				r := !nf.c.mayReturnNil(cal, 0)
				if os.Getenv("VERIF_DEBUG_NIL") == nf.c.FnName(nf.fn) {
					fmt.Fprintf(os.Stderr, "DEBUG valueNonNil call %s in %s -> %v (memo %d)\n", nf.c.FnName(cal), nf.c.FnName(nf.fn), r, mrnMemo[mrnKey{cal, 0}])
				}
				return r
			}
			if calleeIs(x, "errors", "New") || calleeIs(x, "fmt", "Errorf") {
				return true
			}
		}
	case *ssa.Extract:
		if call, ok := x.Tuple.(*ssa.Call); ok {
			if cal := call.Call.StaticCallee(); cal != nil && nf.c.isRepoFn(cal) {
				return !nf.c.mayReturnNil(cal, x.Index)
			}
		}
	case *ssa.Phi:
		// a web of phis (a variable carried round a loop) is non-nil when every value entering it from
		// outside is: a phi met again on the way counts as settled
		if nf.phiBusy == nil {
			nf.phiBusy = map[*ssa.Phi]bool{}
		}
		if nf.phiBusy[x] {
			return true
		}
		nf.phiBusy[x] = true
		defer delete(nf.phiBusy, x)
		for _, e := range x.Edges {
			if !nf.valueNonNil(e, f) {
				return false
			}
		}
		return len(x.Edges) > 0
	case *ssa.ChangeType:
		return nf.valueNonNil(x.X, f)
	}
	return f[AccessPath(v)]
}

// edgeFacts adds what the branch b → b.Succs[si] tells us.
func (nf *NilFlow) edgeFacts(b *ssa.BasicBlock, si int, f factSet) {
	if len(b.Instrs) == 0 {
		return
	}
	ifi, ok := b.Instrs[len(b.Instrs)-1].(*ssa.If)
	if !ok || b.Succs[0] == b.Succs[1] {
		return
	}
	nf.condFacts(ifi.Cond, si == 0, f, 0)
}

func (nf *NilFlow) condFacts(cond ssa.Value, branch bool, f factSet, depth int) {
	if depth > 6 {
		return
	}
	cond, branch = stripNot(cond, branch)
	if x, isEq, ok := nilTest(cond); ok {
		if isEq != branch {
			f[AccessPath(x)] = true
		} else if isErrorType(x.Type()) || isErrorSlice(x.Type()) {
			f["nil:"+AccessPath(x)] = true // the error is known to be nil on this edge
		}
		return
	}
	// len(errs) == 0 / != 0 / > 0 on an error slice
	if bo, ok := cond.(*ssa.BinOp); ok {
		if call, okc := bo.X.(*ssa.Call); okc {
			if bi, okb := call.Call.Value.(*ssa.Builtin); okb && bi.Name() == "len" && isErrorSlice(call.Call.Args[0].Type()) {
				if n, okn := constInt(bo.Y); okn && n == 0 {
					empty := (bo.Op == token.EQL && branch) || (bo.Op == token.NEQ && !branch) || (bo.Op == token.GTR && !branch)
					if empty {
						f["nil:"+AccessPath(call.Call.Args[0])] = true
					}
				}
			}
		}
	}
	switch x := cond.(type) {
	case *ssa.Call:
		if !branch {
			return
		}
		cal := x.Call.StaticCallee()
		if cal != nil && nf.c.isRepoFn(cal) && len(x.Call.Args) > 0 {
			for _, fld := range nf.c.predicateImplies(cal) {
				f[AccessPath(x.Call.Args[0])+"."+fld] = true
			}
		}
	case *ssa.BinOp:
		// x.M() compared with a constant, M being a method that answers one particular constant for a nil receiver
		// (`func (t *token) Code() code { if t == nil { return tEOF }; … }`): any other answer means x is not nil
		if x.Op == token.EQL || x.Op == token.NEQ {
			if call, okc := x.X.(*ssa.Call); okc {
				if cal := call.Call.StaticCallee(); cal != nil && nf.c.isRepoFn(cal) && len(call.Call.Args) == 1 {
					if k, okk := nilReceiverAnswer(cal); okk {
						if cv, okv := x.Y.(*ssa.Const); okv && cv.Value != nil {
							same := cv.Value.ExactString() == k
							eq := (x.Op == token.EQL) == branch // the comparison says "equal to cv"
							if eq && !same || !eq && same {
								f[AccessPath(call.Call.Args[0])] = true
							}
						}
					}
				}
			}
		}
		// Kind() == "submodule" ⇒ BelongsTo != nil (SCHEMA.IFACE checks Module.Kind has exactly this meaning)
		if x.Op == token.EQL || x.Op == token.NEQ {
			call, okc := x.X.(*ssa.Call)
			s, oks := constString(x.Y)
			if okc && oks && s == "submodule" {
				isKind := false
				var recv ssa.Value
				if call.Call.IsInvoke() && call.Call.Method.Name() == "Kind" {
					isKind, recv = true, call.Call.Value
				} else if cal := call.Call.StaticCallee(); cal != nil && cal.Name() == "Kind" && len(call.Call.Args) > 0 {
					isKind, recv = true, call.Call.Args[0]
				}
				if isKind && ((x.Op == token.EQL) == branch) {
					f[AccessPath(recv)+".BelongsTo"] = true
				}
			}
		}
	case *ssa.Extract:
		// ok of a comma-ok: v, ok := m[k]; if ok { … }  – for pointer-valued maps ok does not imply non-nil in general,
		// but for type assertions ok implies the asserted value is usable
		if branch && x.Index == 1 {
			if l, okl := x.Tuple.(*ssa.Lookup); okl {
				f["ok:"+l.Name()] = true
			}
			if ta, okt := x.Tuple.(*ssa.TypeAssert); okt {
				// the #0 extract of the same tuple is non-nil only if the dynamic value was; treat as usable
				for _, r := range *ta.Referrers() {
					if e0, ok := r.(*ssa.Extract); ok && e0.Index == 0 {
						f[AccessPath(e0)] = true
					}
				}
			}
		}
	case *ssa.Phi:
		// materialised short-circuit (switch-case conditions): t = phi [P1: false, P2: b] #&&.
		// t true ⇒ control came through the last operand's block with b true (and everything known there).
		var konst string
		switch {
		case x.Comment == "&&" && branch:
			konst = "false"
		case x.Comment == "||" && !branch:
			konst = "true"
		default:
			return
		}
		idx := -1
		for i, e := range x.Edges {
			if k, ok := e.(*ssa.Const); ok && k.Value != nil && k.Value.String() == konst {
				continue
			}
			if idx >= 0 {
				return
			}
			idx = i
		}
		if idx < 0 {
			return
		}
		pred := x.Block().Preds[idx]
		if !nf.top[pred] && nf.entry[pred] != nil {
			for k := range nf.transferBlock(pred, nil) {
				f[k] = true
			}
		}
		nf.condFacts(x.Edges[idx], branch, f, depth+1)
	}
}

// FactsAt returns the facts holding just before instruction in.
func (nf *NilFlow) FactsAt(in ssa.Instruction) factSet {
	b := in.Block()
	if nf.top[b] {
		return factSet{} // unreachable block
	}
	return nf.transferBlock(b, in)
}

// mayReturnNil: result idx of fn may be nil on some path.
func (c *Ctx) mayReturnNil(fn *ssa.Function, idx int) bool {
	return c.mayReturnNilDepth(fn, idx, map[*ssa.Function]bool{})
}

type mrnKey struct {
	fn  *ssa.Function
	idx int
}

var mrnMemo = map[mrnKey]int{} // 1 = in progress, 2 = false, 3 = true

func (c *Ctx) mayReturnNilDepth(fn *ssa.Function, idx int, seen map[*ssa.Function]bool) (res bool) {
	if fn == nil || fn.Blocks == nil {
		return false
	}
	k := mrnKey{fn, idx}
	switch mrnMemo[k] {
	case 1:
		return false // optimistic inside a recursive cycle (greatest fixpoint)
	case 2:
		return false
	case 3:
		return true
	}
	if nf0, ok := nilFlowCache[fn]; ok && nf0.busy {
		return false // the flow analysis of fn itself is on the stack: optimistic, not memoised
	}
	mrnMemo[k] = 1
	defer func() {
		if res {
			mrnMemo[k] = 3
		} else {
			mrnMemo[k] = 2
		}
	}()
	if idx >= fn.Signature.Results().Len() {
		return false
	}
	if !nilable(fn.Signature.Results().At(idx).Type()) {
		return false
	}
	may := false
	nf := c.NilFlowCached(fn)
	eachInstr(fn, func(in ssa.Instruction) {
		r, ok := in.(*ssa.Return)
		if !ok || idx >= len(r.Results) || may {
			return
		}
		if fn.Recover == r.Block() {
			return
		}
		v := resolveSpill(r.Results[idx], r)
		if c.valueMayBeNil(v, nf.FactsAt(r), nf, seen, 0) {
			if os.Getenv("VERIF_DEBUG_NIL") == c.FnName(fn) {
				fmt.Fprintf(os.Stderr, "DEBUG mayReturnNil %s: return at %s value %s (%T) path %s facts %v\n", c.FnName(fn), c.InstrPos(r), v.Name(), v, AccessPath(v), sortedKeys(nf.FactsAt(r)))
			}
			may = true
		}
	})
	return may
}

func nilable(t types.Type) bool {
	switch t.Underlying().(type) {
	case *types.Pointer, *types.Map, *types.Interface, *types.Signature, *types.Chan:
		return true
	}
	return false
}

var nilFlowCache = map[*ssa.Function]*NilFlow{}

func (c *Ctx) NilFlowCached(fn *ssa.Function) *NilFlow {
	if nf, ok := nilFlowCache[fn]; ok {
		return nf
	}
	// insert a placeholder to cut recursion through mayReturnNil → valueNonNil → mayReturnNil
	nilFlowCache[fn] = &NilFlow{c: c, fn: fn, entry: map[*ssa.BasicBlock]factSet{}, top: map[*ssa.BasicBlock]bool{}, busy: true}
	nf := c.NilFlow(fn)
	if nf.uninherited {
		// computed while the caller's own analysis was under way, without the facts of the call site: good enough
		// for the question that was being asked, not to be kept
		delete(nilFlowCache, fn)
		return nf
	}
	nilFlowCache[fn] = nf
	return nf
}

// valueMayBeNil: can v be nil here, given the facts? Conservative for recognised nil sources only:
// nil constants, non-comma-ok map lookups, results of may-nil repo functions, optional fields, phis of those.
func (c *Ctx) valueMayBeNil(v ssa.Value, f factSet, nf *NilFlow, seen map[*ssa.Function]bool, depth int) bool {
	if depth > 8 {
		return false
	}
	if !nilable(v.Type()) {
		return false
	}
	if f[AccessPath(v)] {
		return false
	}
	switch x := v.(type) {
	case *ssa.Const:
		return x.Value == nil
	case *ssa.Lookup:
		return !x.CommaOk
	case *ssa.Extract:
		switch t := x.Tuple.(type) {
		case *ssa.Lookup:
			if x.Index == 0 && f["ok:"+t.Name()] {
				if _, fld, _ := loadedField(t.X); fld != nil && c.mapHoldsOnlyNonNil(fld) {
					return false // present, and nothing stores nil into this map
				}
			}
			return x.Index == 0
		case *ssa.TypeAssert:
			return x.Index == 0
		case *ssa.Call:
			if cal := t.Call.StaticCallee(); cal != nil && c.isRepoFn(cal) {
				if !c.mayReturnNilDepth(cal, x.Index, cloneSeen(seen)) {
					return false
				}
				// result/error correlation: nil only together with a non-nil error, and the error is known nil here
				if ei := c.errCorrelated(cal, x.Index); ei >= 0 {
					for _, r := range *t.Referrers() {
						if ex, ok := r.(*ssa.Extract); ok && ex.Index == ei && f["nil:"+AccessPath(ex)] {
							return false
						}
					}
				}
				return true
			}
		}
	case *ssa.Call:
		if cal := x.Call.StaticCallee(); cal != nil && c.isRepoFn(cal) {
			return c.mayReturnNilDepth(cal, 0, cloneSeen(seen))
		}
		return false
	case *ssa.Phi:
		for i, e := range x.Edges {
			// facts on the incoming edge
			pred := x.Block().Preds[i]
			ef := factSet{}
			if nf != nil && !nf.top[pred] {
				ef = nf.transferBlock(pred, nil)
				for si, s := range pred.Succs {
					if s == x.Block() {
						nf.edgeFacts(pred, si, ef)
					}
				}
			}
			if c.valueMayBeNil(e, ef, nf, seen, depth+1) {
				return true
			}
		}
		return false
	case *ssa.UnOp:
		if x.Op == token.MUL {
			owner, fld, _ := fieldOf(x.X)
			if fld != nil {
				return c.optionalField(owner, fld)
			}
			// load of a spilled local: any store may be nil
			if a, ok := x.X.(*ssa.Alloc); ok {
				for _, r := range *a.Referrers() {
					if st, ok := r.(*ssa.Store); ok && st.Addr == a {
						if c.valueMayBeNil(st.Val, factSet{}, nil, seen, depth+1) {
							// flow-insensitive on cells: accept the dataflow fact instead
							return !f[AccessPath(v)]
						}
					}
				}
			}
		}
	case *ssa.Field:
		owner, fld, _ := fieldOf(x)
		if fld != nil {
			return c.optionalField(owner, fld)
		}
	case *ssa.TypeAssert:
		return false
	case *ssa.ChangeType:
		return c.valueMayBeNil(x.X, f, nf, seen, depth+1)
	}
	return false
}

func cloneSeen(m map[*ssa.Function]bool) map[*ssa.Function]bool {
	n := map[*ssa.Function]bool{}
	for k, v := range m {
		n[k] = v
	}
	return n
}

// Optional link fields outside the yang-tagged AST slots (P0) and the Entry/YangType optional fields (P1).
var optionalLinkFields = map[string]bool{
	"Import.Module": true, "Include.Module": true, "Module.Modules": true,
	"Typedef.YangType": true, "Type.YangType": true,
}
var optionalEntryFields = map[string]bool{
	"Entry.Dir": true, "Entry.ListAttr": true, "Entry.RPC": true, "Entry.Type": true, "Entry.Parent": true,
	"Entry.Prefix": true, "RPCEntry.Input": true, "RPCEntry.Output": true,
	"YangType.Enum": true, "YangType.Bit": true, "YangType.IdentityBase": true,
	"Entry.namespace": true, "Entry.Deviate": true,
}

// optionalField: may the field be nil in a well-formed object? The struct tags are the nullability oracle
// for AST nodes: a yang-tagged pointer field without `required` is optional.
func (c *Ctx) optionalField(owner *types.Named, f *types.Var) bool {
	if owner == nil || f == nil || !nilable(f.Type()) {
		return false
	}
	key := objName(owner.Obj()) + "." + f.Name()
	if optionalLinkFields[key] || optionalEntryFields[key] {
		return true
	}
	st, ok := owner.Underlying().(*types.Struct)
	if !ok {
		return false
	}
	for i := 0; i < st.NumFields(); i++ {
		if st.Field(i) != f {
			continue
		}
		tag := structTag(st, i, "yang")
		if tag == "" {
			return false
		}
		kw, attrs := yangTag(tag)
		switch kw {
		case "Name", "Ext":
			return false
		case "Statement":
			return false // set by build for every node it creates
		case "Parent":
			return true // nil for modules and synthetic nodes
		}
		if _, isPtr := f.Type().(*types.Pointer); !isPtr {
			return false // slices: nil slice is fine to range/len
		}
		if hasAttr(attrs, "required") {
			return false
		}
		return true // includes required=KIND (non-nil only for that kind)
	}
	return false
}

func sortedKeys(m map[string]bool) []string {
	var out []string
	for k := range m {
		out = append(out, k)
	}
	sort.Strings(out)
	return out
}

// errCorrelated: every return of fn whose result idx may be nil carries a definitely non-nil error
// (or non-empty error slice) in result ei; returns ei or -1.
func (c *Ctx) errCorrelated(fn *ssa.Function, idx int) int {
	sig := fn.Signature
	ei := -1
	for i := 0; i < sig.Results().Len(); i++ {
		t := sig.Results().At(i).Type()
		if isErrorType(t) || isErrorSlice(t) {
			ei = i
		}
	}
	if ei < 0 || ei == idx {
		return -1
	}
	nf := c.NilFlowCached(fn)
	okAll := true
	eachInstr(fn, func(in ssa.Instruction) {
		r, ok := in.(*ssa.Return)
		if !ok || len(r.Results) <= ei || fn.Recover == r.Block() {
			return
		}
		v := resolveSpill(r.Results[idx], r)
		if !c.valueMayBeNil(v, nf.FactsAt(r), nf, map[*ssa.Function]bool{}, 0) {
			return
		}
		e := resolveSpill(r.Results[ei], r)
		if isNilConst(e) {
			okAll = false
			return
		}
		if definitelyNonNilErr(e) || nf.FactsAt(r)[AccessPath(e)] {
			return
		}
		okAll = false
	})
	if okAll {
		return ei
	}
	return -1
}

var holdsNonNilCache = map[*types.Var]int{}

// mapHoldsOnlyNonNil: every MapUpdate on a map loaded from field f stores a value known non-nil at that point.
func (c *Ctx) mapHoldsOnlyNonNil(f *types.Var) bool {
	if v, ok := holdsNonNilCache[f]; ok {
		return v == 2
	}
	holdsNonNilCache[f] = 1
	res := true
	n := 0
	for _, fn := range c.Funcs {
		var nf *NilFlow
		eachInstr(fn, func(in ssa.Instruction) {
			mu, ok := in.(*ssa.MapUpdate)
			if !ok {
				return
			}
			if _, ff, _ := loadedField(mu.Map); ff != f {
				return
			}
			n++
			if nf == nil {
				nf = c.NilFlowCached(fn)
			}
			facts := nf.FactsAt(mu)
			if !nf.valueNonNil(mu.Value, facts) && c.valueMayBeNil(mu.Value, facts, nf, map[*ssa.Function]bool{}, 0) {
				res = false
			}
			if !nilable(mu.Value.Type()) {
				res = false
			}
		})
	}
	if n == 0 {
		res = false
	}
	if res {
		holdsNonNilCache[f] = 2
	} else {
		holdsNonNilCache[f] = 3
	}
	return res
}

var madeFieldsCache = map[*ssa.Function][]string{}

// madeFields: map-typed fields that constructor fn stores a fresh map into, on its returned object.
func (c *Ctx) madeFields(fn *ssa.Function) []string {
	if v, ok := madeFieldsCache[fn]; ok {
		return v
	}
	madeFieldsCache[fn] = nil
	var out []string
	if fn.Blocks != nil && c.isConstructor(fn) {
		eachInstr(fn, func(in ssa.Instruction) {
			if st, ok := in.(*ssa.Store); ok {
				if _, isMake := st.Val.(*ssa.MakeMap); isMake {
					if _, f, base := fieldOf(st.Addr); f != nil {
						if _, isAlloc := base.(*ssa.Alloc); isAlloc {
							out = append(out, f.Name())
						}
					}
				}
			}
		})
	}
	madeFieldsCache[fn] = out
	return out
}

var nilAnswerMemo = map[*ssa.Function]*string{}

// nilReceiverAnswer: the method tests its receiver for nil first and answers a constant on that branch; the constant
// (as an exact string). Only methods whose other returns cannot be told apart are of no use, so nothing more is asked.
func nilReceiverAnswer(fn *ssa.Function) (string, bool) {
	if v, done := nilAnswerMemo[fn]; done {
		if v == nil {
			return "", false
		}
		return *v, true
	}
	nilAnswerMemo[fn] = nil
	if fn.Blocks == nil || len(fn.Params) != 1 || fn.Signature.Results().Len() != 1 {
		return "", false
	}
	entry := fn.Blocks[0]
	ifi, isIf := entry.Instrs[len(entry.Instrs)-1].(*ssa.If)
	if !isIf {
		return "", false
	}
	x, isEq, okn := nilTest(ifi.Cond)
	if !okn || x != ssa.Value(fn.Params[0]) {
		return "", false
	}
	nb := entry.Succs[1]
	if isEq {
		nb = entry.Succs[0]
	}
	r, isR := nb.Instrs[len(nb.Instrs)-1].(*ssa.Return)
	if !isR || len(nb.Instrs) != 1 || len(r.Results) != 1 {
		return "", false
	}
	k, isK := r.Results[0].(*ssa.Const)
	if !isK || k.Value == nil {
		return "", false
	}
	s := k.Value.ExactString()
	nilAnswerMemo[fn] = &s
	return s, true
}

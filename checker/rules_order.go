package main

// rules_order.go: ORDER.MAPRANGE (closed world over all map ranges), ORDER.SORTKEY, ORDER.SOURCES, ERR.TOTAL.

import (
	"fmt"
	"go/token"
	"go/types"
	"regexp"
	"sort"
	"strings"

	"golang.org/x/tools/go/ssa"
)

func init() {
	register(&Rule{Name: "ORDER.MAPRANGE", Props: []string{"C05", "C07", "C08", "C11", "C12"}, Floor: 25,
		Doc: "every range over a map is order-insensitive by an accepted idiom, or is reported",
		Run: ruleOrderMapRange})
	register(&Rule{Name: "ORDER.SORTKEY", Props: []string{"C05", "C11"}, Floor: 2,
		Doc: "a sort that sanitises a map-ordered slice compares a key that is unique among the elements",
		Run: ruleOrderSortKey})
	register(&Rule{Name: "ORDER.SOURCES", Props: []string{"C05"}, Floor: 1,
		Doc: "no other source of schedule- or seed-dependent order: goroutines, select, time, rand, pointer formatting",
		Run: ruleOrderSources})
	register(&Rule{Name: "ERR.TOTAL", Props: []string{"C05"}, Floor: 1,
		Doc: "the error comparator compares every field it splits (a total pre-order on the message text)",
		Run: ruleErrTotal})
}

// Loops whose order-insensitivity rests on a reading of the callee, not on a local idiom (I5/I6 and schema bounds).
// Key: "<function> | range <map>". One reason each.
var mapRangeJustified = map[string]string{
	"yang.(*Modules).resolveIdentities | children": "appends to Identity.Values, which is rebuilt and sorted with a total key right after (ORDER.SORTKEY); base errors are appended to a list sorted at the boundary",
	"yang.(*Entry).checkErrors | Dir":              "I4: calls f on every recorded error; the one caller that collects (GetErrors) de-duplicates and returns the list through errorSort",
	"yangentry.Parse | Modules":                    "I2: entries[e.Name] = ToEntry(ms.Modules[m.Name]); the value is a function of the key (bare name → latest revision); ToEntry is a cache hit after Process",
}

type mapRange struct {
	fn     *ssa.Function
	rng    *ssa.Range
	next   *ssa.Next
	header *ssa.BasicBlock
	body   *ssa.BasicBlock
	desc   string
}

func (c *Ctx) mapRanges() []mapRange {
	var out []mapRange
	for _, fn := range c.Funcs {
		eachInstr(fn, func(in ssa.Instruction) {
			r, ok := in.(*ssa.Range)
			if !ok {
				return
			}
			if _, isMap := r.X.Type().Underlying().(*types.Map); !isMap {
				return
			}
			var nx *ssa.Next
			for _, ref := range *r.Referrers() {
				if n, okn := ref.(*ssa.Next); okn {
					nx = n
				}
			}
			if nx == nil {
				return
			}
			mr := mapRange{fn: fn, rng: r, next: nx, header: nx.Block()}
			if len(nx.Block().Succs) == 2 {
				mr.body = nx.Block().Succs[0]
			}
			mr.desc = fmt.Sprintf("%s | range %s", c.FnName(fn), shortPath(AccessPath(r.X)))
			out = append(out, mr)
		})
	}
	return out
}

func (mr mapRange) inBody(b *ssa.BasicBlock) bool {
	return mr.body != nil && mr.body.Dominates(b) && blockReaches(b, mr.header, nil)
}

// exitFromBody: b is on a way out of the loop taken from inside the body (`if cond { …; return }`, `break` with
// statements in front of it): dominated by the body, not leading back to the header. What happens there happens for
// the element the iteration happened to be at.
func (mr mapRange) exitFromBody(b *ssa.BasicBlock) bool {
	if mr.body == nil || !mr.body.Dominates(b) || b == mr.body && false || blockReaches(b, mr.header, nil) {
		return false
	}
	return true
}

func (mr mapRange) keyVal() (key, val ssa.Value) {
	for _, ref := range *mr.next.Referrers() {
		if ex, ok := ref.(*ssa.Extract); ok {
			switch ex.Index {
			case 1:
				key = ex
			case 2:
				val = ex
			}
		}
	}
	return
}

func ruleOrderMapRange(c *Ctx) []Obligation {
	const R = "ORDER.MAPRANGE"
	c.ensureEffects()
	var obs []Obligation
	seenDesc := map[string]int{}
	for _, mr := range c.mapRanges() {
		seenDesc[mr.desc]++
		con := mr.desc
		if seenDesc[mr.desc] > 1 {
			con = fmt.Sprintf("%s #%d", mr.desc, seenDesc[mr.desc])
		}
		pos := c.InstrPos(mr.rng)
		verdict, why := c.classifyMapRange(mr)
		if verdict != "ok" && c.constantStoresOnly(mr) {
			verdict, why = "ok", "I7: the body does nothing but store constants (a reset sweep): the final state is the same in every order, also when an object is reached twice"
		}
		switch verdict {
		case "ok":
			obs = append(obs, ok(R, con, pos, why))
		default:
			if j, okj := c.mapRangeJustification(mr, con); okj {
				obs = append(obs, just(R, con, pos, j+" [scan: "+why+"]"))
			} else {
				obs = append(obs, bad(R, con, pos, "iteration order can reach an observable result: "+why))
			}
		}
	}
	return obs
}

// visitsOwnEntry: the loop body only converts the element (ToEntry, memoised per node), calls GetErrors / FixChoice on
// that entry, and appends to an error list — the per-module sweep shape, wherever it is written.
func (c *Ctx) visitsOwnEntry(mr mapRange) bool {
	_, val := mr.keyVal()
	if val == nil {
		return false
	}
	okAll, n := true, 0
	for _, b := range mr.fn.Blocks {
		if !mr.inBody(b) {
			continue
		}
		for _, in := range b.Instrs {
			switch x := in.(type) {
			case *ssa.Store:
				if _, isAlloc := x.Addr.(*ssa.Alloc); !isAlloc && !isVariadicArray(rootOf(x.Addr)) {
					okAll = false
				}
			case *ssa.MapUpdate, *ssa.Return:
				okAll = false
			case ssa.CallInstruction:
				com := x.Common()
				if bi, ok := com.Value.(*ssa.Builtin); ok {
					if bi.Name() == "append" && !isErrorSlice(x.Value().Type()) {
						okAll = false
					}
					continue
				}
				cal := com.StaticCallee()
				if cal == nil {
					okAll = false
					continue
				}
				switch c.FnName(cal) {
				case "yang.ToEntry":
					if !derivesFrom(com.Args[0], func(y ssa.Value) bool { return y == val }) {
						okAll = false
					}
					n++
				case "yang.(*Entry).GetErrors", "yang.(*Entry).FixChoice":
					if call, ok := com.Args[0].(*ssa.Call); !ok || c.FnName(call.Call.StaticCallee()) != "yang.ToEntry" {
						okAll = false
					}
				default:
					okAll = false
				}
			}
		}
	}
	if !(okAll && n > 0) {
		return false
	}
	// The visit is order-insensitive only when ToEntry is a cache hit: the first conversion of a module
	// merges submodules under name-keyed bookkeeping and is NOT order-insensitive (two defects hid
	// behind this idiom before the condition below was added). So an earlier loop in the same function
	// must convert every element of the same map in sorted order.
	suffix := AccessPath(mr.rng.X)
	if k := strings.LastIndex(suffix, "."); k >= 0 {
		suffix = suffix[k:]
	}
	// the ranged map may be an element of a literal list of tables (for _, tbl := range []map…{ms.A, ms.B} { for … range tbl }):
	// then the condition must hold for each listed table
	if elems := literalListElems(mr.rng.X); len(elems) > 0 {
		all := true
		for _, e := range elems {
			sfx := AccessPath(e)
			if k := strings.LastIndex(sfx, "."); k >= 0 {
				sfx = sfx[k:]
			} else {
				all = false
			}
			if !c.cacheWarmAt(mr.fn, mr.rng.Block(), sfx, func(b *ssa.BasicBlock) bool { return mr.inBody(b) }) {
				all = false
			}
		}
		if all {
			return true
		}
	}
	if c.cacheWarmAt(mr.fn, mr.rng.Block(), suffix, func(b *ssa.BasicBlock) bool { return mr.inBody(b) }) {
		return true
	}
	// the visit may live in a helper: then every call of the helper must come after the sorted conversion
	node := c.Graph().Nodes[mr.fn]
	if node == nil || len(node.In) == 0 {
		return false
	}
	for _, e := range node.In {
		if e.Site == nil || e.Site.Common().StaticCallee() != mr.fn {
			return false
		}
		if !c.cacheWarmAt(e.Caller.Func, e.Site.Block(), suffix, func(*ssa.BasicBlock) bool { return false }) {
			return false
		}
	}
	return true
}

// cacheWarmAt: in fn, before block `at`, a loop ranges over the sorted values of the map whose access path
// ends in mapSuffix and converts every element with ToEntry.
func (c *Ctx) cacheWarmAt(fn *ssa.Function, at *ssa.BasicBlock, mapSuffix string, exclude func(*ssa.BasicBlock) bool) bool {
	warmed := false
	eachInstr(fn, func(in ssa.Instruction) {
		call, isC := in.(*ssa.Call)
		if !isC || !c.returnsSorted(call) || len(call.Call.Args) == 0 {
			return
		}
		if !strings.HasSuffix(AccessPath(call.Call.Args[0]), mapSuffix) {
			return
		}
		for _, b := range fn.Blocks {
			if exclude(b) {
				continue
			}
			for _, in2 := range b.Instrs {
				ci, isCI := in2.(ssa.CallInstruction)
				if !isCI || ci.Common().StaticCallee() == nil || c.FnName(ci.Common().StaticCallee()) != "yang.ToEntry" {
					continue
				}
				if !derivesFrom(ci.Common().Args[0], func(y ssa.Value) bool { return y == ssa.Value(call) }) {
					continue
				}
				if lh := loopHeaderOf(b); lh != nil && lh.Dominates(at) && !blockReaches(at, b, nil) {
					warmed = true
				}
			}
		}
	})
	if warmed {
		return true
	}
	// the sorted conversion may live in a private helper that is called before `at` on every path
	for _, h := range c.helpersUnder(fn) {
		info := c.helpers[h]
		if info == nil || len(info.sites) != 1 || info.site.Parent() != fn {
			continue
		}
		if !(info.site.Block().Dominates(at) && info.site.Block() != at) {
			continue
		}
		eachInstr(h, func(in ssa.Instruction) {
			call, isC := in.(*ssa.Call)
			if !isC || !c.returnsSorted(call) || len(call.Call.Args) == 0 || !strings.HasSuffix(AccessPath(call.Call.Args[0]), mapSuffix) {
				return
			}
			eachInstr(h, func(in2 ssa.Instruction) {
				ci, isCI := in2.(ssa.CallInstruction)
				if !isCI || ci.Common().StaticCallee() == nil || c.FnName(ci.Common().StaticCallee()) != "yang.ToEntry" {
					return
				}
				if derivesFrom(ci.Common().Args[0], func(y ssa.Value) bool { return y == ssa.Value(call) }) && loopHeaderOf(in2.Block()) != nil {
					warmed = true
				}
			})
		})
	}
	return warmed
}

// returnsSorted: a repo function that collects the values of a map, sorts the keys and returns the values in key order.
func (c *Ctx) returnsSorted(call *ssa.Call) bool {
	f := call.Call.StaticCallee()
	if f == nil || !c.isRepoFn(f) || f.Blocks == nil {
		return false
	}
	hasSort, ranges := false, false
	eachInstr(f, func(in ssa.Instruction) {
		if cl, isC := in.(*ssa.Call); isC && (calleeIs(cl, "sort", "Strings") || calleeIs(cl, "sort", "Slice") || calleeIs(cl, "sort", "SliceStable")) {
			hasSort = true
		}
		if _, isR := in.(*ssa.Range); isR {
			ranges = true
		}
	})
	return hasSort && ranges
}

func (c *Ctx) mapRangeJustification(mr mapRange, con string) (string, bool) {
	if c.visitsOwnEntry(mr) {
		return "I5/I4 per-module visit: the body converts the element with ToEntry (memoised per node, writes entries keyed by the node) and only collects its errors / fixes its own choices; error lists are sorted at the boundary", true
	}
	fnName := c.FnName(mr.fn)
	mp := AccessPath(mr.rng.X)
	suffix := mp
	if k := strings.LastIndex(mp, "."); k >= 0 {
		suffix = mp[k+1:]
	}
	switch {
	case fnName == "yang.(*typeDictionary).typedefs" && suffix != "dict":
		suffix = "inner"
	case fnName == "yang.(*Modules).resolveIdentities" && suffix == "dict":
		// two loops over the dictionary: the first appends children, the second rebuilds the closure
		if c.loopCalls(mr, "yang.addChildren") {
			return jstr("mapRangeJustified", mapRangeJustified, fnName+" | closure"), c.closureLoopSorted(mr)
		}
		suffix = "children"
	}
	j, ok := jget("mapRangeJustified", mapRangeJustified, fnName+" | "+suffix)
	if !ok {
		// the loop may have moved into a private helper of the function the reason was written for
		if root := c.inlineRoot(mr.fn); root != nil && root != mr.fn {
			j, ok = jget("mapRangeJustified", mapRangeJustified, c.FnName(root)+" | "+suffix)
		}
	}
	return j, ok
}

func (c *Ctx) loopCalls(mr mapRange, name string) bool {
	hit := false
	eachInstr(mr.fn, func(in ssa.Instruction) {
		if ci, ok := in.(ssa.CallInstruction); ok && mr.inBody(in.Block()) {
			if f := ci.Common().StaticCallee(); f != nil && c.FnName(f) == name {
				hit = true
			}
		}
	})
	return hit
}

// closureLoopSorted: the identity closure loop sorts the rebuilt list before storing it.
func (c *Ctx) closureLoopSorted(mr mapRange) bool {
	sorted := false
	eachInstr(mr.fn, func(in ssa.Instruction) {
		if call, ok := in.(*ssa.Call); ok && mr.inBody(in.Block()) {
			if calleeIs(call, "sort", "SliceStable") || calleeIs(call, "sort", "Slice") || calleeIs(call, "sort", "Sort") || calleeIs(call, "sort", "Stable") {
				sorted = true
			}
		}
	})
	return sorted
}

// classifyMapRange scans the loop body's effects.
func (c *Ctx) classifyMapRange(mr mapRange) (string, string) {
	if mr.body == nil {
		return "bad", "cannot find the loop body"
	}
	key, val := mr.keyVal()
	fromElem := func(v ssa.Value) bool {
		return derivesFrom(v, func(x ssa.Value) bool { return (key != nil && x == key) || (val != nil && x == val) })
	}
	isElem := func(v ssa.Value) bool { return (key != nil && v == key) || (val != nil && v == val) }
	var problems []string
	var notes []string
	var appendsTo []ssa.Value
	var scan func(in ssa.Instruction, inHelper bool, depth int)
	scan = func(in ssa.Instruction, inHelper bool, depth int) {
		switch x := in.(type) {
		case *ssa.MapUpdate:
			switch {
			case key != nil && (resolveArg(x.Key) == key || AccessPath(resolveArg(x.Key)) == AccessPath(key)):
				notes = append(notes, "keyed write")
			case isZeroSizedOrTrue(x.Value):
				notes = append(notes, "set insert")
			case c.rootClassDeep(x.Map) == "fresh" && fromElem(x.Map):
				notes = append(notes, "write into the element's own fresh map")
			case isIterationLocal(resolveArg(rootOf(x.Map)), mr):
				notes = append(notes, "write into a map made in this iteration")
			case valueIsFunctionOfKey(x.Key, x.Value):
				notes = append(notes, "value is a function of the key")
			default:
				problems = append(problems, "map write whose key is not the range key @ "+c.InstrPos(x))
			}
		case *ssa.Store:
			if _, isAlloc := x.Addr.(*ssa.Alloc); isAlloc {
				return
			}
			root := resolveArg(rootOf(x.Addr))
			switch {
			case isElem(root) || fromElem(root) && !isSliceWeb(root):
				notes = append(notes, "element-local store")
			case indexStoreSorted(c, x, mr):
				notes = append(notes, "collect-then-sort")
			case c.rootClassDeep(x.Addr) == "fresh":
				if a, okA := root.(*ssa.Alloc); okA && (mr.inBody(a.Block()) || inHelper) || isIterationLocal(root, mr) {
					notes = append(notes, "store into an object made in this iteration")
				} else if isVariadicArray(root) {
					// argument packing
				} else {
					// a fresh object made before the loop and written in every iteration: last iteration wins
					problems = append(problems, "store into an object that outlives the iteration @ "+c.InstrPos(x))
				}
			default:
				owner, f, _ := fieldOf(x.Addr)
				if f != nil && f.Name() == "Errors" {
					notes = append(notes, "error accumulation")
					return
				}
				problems = append(problems, fmt.Sprintf("store to %s of a loop-invariant object @ %s", fieldKey(owner, f), c.InstrPos(x)))
			}
		case *ssa.Return:
			if inHelper {
				return // returning from an inlined helper ends the helper, not the loop
			}
			problems = append(problems, "returns from inside the loop (first match wins) @ "+c.InstrPos(x))
		case *ssa.Send, *ssa.Go:
			problems = append(problems, "concurrency inside the loop")
		case ssa.CallInstruction:
			com := x.Common()
			if bi, okb := com.Value.(*ssa.Builtin); okb {
				if bi.Name() == "append" {
					if call, okc := in.(*ssa.Call); okc {
						appendsTo = append(appendsTo, call)
					}
				}
				if bi.Name() == "delete" {
					if key != nil && com.Args[1] == key {
						notes = append(notes, "keyed delete")
					} else {
						problems = append(problems, "delete with a key other than the range key")
					}
				}
				return
			}
			// a private helper called from the body is scanned as if it were written here (inline.go)
			if cal := com.StaticCallee(); cal != nil && cal.Parent() == nil && helperOf(cal) != nil && depth < 3 {
				inlined := true
				for _, st := range helperOf(cal).sites {
					if !mr.inBody(st.Block()) && !inHelper {
						inlined = false
					}
				}
				if inlined {
					for _, hb := range cal.Blocks {
						for _, hin := range hb.Instrs {
							scan(hin, true, depth+1)
						}
					}
					return
				}
			}
			for _, cal := range c.Callees(x) {
				if !c.isRepoFn(cal) {
					if cal.Pkg != nil {
						switch cal.Pkg.Pkg.Path() {
						case "fmt":
							if strings.HasPrefix(cal.Name(), "Fprint") || strings.HasPrefix(cal.Name(), "Print") {
								problems = append(problems, "writes output in iteration order @ "+c.InstrPos(x))
							}
						case "io", "os":
							problems = append(problems, "I/O in iteration order @ "+c.InstrPos(x))
						}
					}
					continue
				}
				for _, w := range c.WritesOf(cal) {
					switch {
					case w.Root == "io":
						problems = append(problems, fmt.Sprintf("%s writes output (%s)", c.FnName(cal), w.Field))
					case strings.HasPrefix(w.Field, "mapset:"):
						// set insert: insertion order is not observable
					case strings.HasSuffix(w.Field, ".Errors"):
						// error accumulation: sorted at the boundary
					case strings.HasPrefix(w.Root, "p"):
						var idx int
						fmt.Sscanf(w.Root, "p%d", &idx)
						actual := actualArgs(x)
						if idx < len(actual) && (fromElem(actual[idx]) || c.rootClass(mr.fn, actual[idx]) == "fresh" || isIterationLocal(rootOf(actual[idx]), mr)) {
							// writes only into the element / a fresh object
						} else {
							problems = append(problems, fmt.Sprintf("%s writes %s of a loop-invariant argument @ %s", c.FnName(cal), w.Field, c.InstrPos(x)))
						}
					default:
						problems = append(problems, fmt.Sprintf("%s writes %s (%s) @ %s", c.FnName(cal), w.Field, w.Root, c.InstrPos(x)))
					}
				}
			}
		}
	}
	for _, b := range mr.fn.Blocks {
		if !mr.inBody(b) && !mr.exitFromBody(b) {
			continue
		}
		for _, in := range b.Instrs {
			if _, isRet := in.(*ssa.Return); isRet && !mr.inBody(b) {
				continue // judged below, by what it hands back
			}
			scan(in, false, 0)
		}
	}
	// a return taken from inside the body leaves the loop (its block does not lead back to the header, so it is not
	// part of the body above): what it hands back must not depend on which element the iteration happened to be at —
	// `return true` for "some element qualifies" is the same whatever the order, `return elem` or an error that names
	// the element is not when several qualify
	for _, b := range mr.fn.Blocks {
		if mr.body == nil || !mr.body.Dominates(b) || mr.inBody(b) || len(b.Instrs) == 0 {
			continue
		}
		rt, isR := b.Instrs[len(b.Instrs)-1].(*ssa.Return)
		if !isR {
			continue
		}
		// only exits from inside the body: some predecessor chain leads here from a body block without passing the
		// header's normal exit
		fromBody := false
		for _, p := range b.Preds {
			if mr.inBody(p) || mr.body.Dominates(p) && p != mr.header {
				fromBody = true
			}
		}
		if !fromBody {
			continue
		}
		depends := false
		for _, res := range rt.Results {
			res = resolveSpill(res, rt)
			operandClosureDeep(res, func(x ssa.Value) {
				if ex, isE := x.(*ssa.Extract); isE && ex.Tuple == ssa.Value(mr.next) && ex.Index != 0 {
					depends = true
				}
				if phi, isP := x.(*ssa.Phi); isP && phi.Block() == mr.header {
					depends = true
				}
			})
		}
		if depends {
			if why, okj := jget("mapRangeReturnJustified", mapRangeReturnJustified, rangedField(mr.desc)); okj {
				notes = append(notes, "early return: "+why)
			} else {
				problems = append(problems, "a return from inside the loop hands back a value computed from the element the iteration is at (or from what earlier elements left behind): with several qualifying elements the answer depends on the order @ "+c.InstrPos(rt))
			}
		}
	}
	// appends: error slices are sorted at the boundary; others must reach a sort
	for _, a := range appendsTo {
		call := a.(*ssa.Call)
		if isErrorSlice(call.Type()) {
			notes = append(notes, "error accumulation")
			continue
		}
		// an append that is not carried from one iteration to the next builds a value of this iteration only
		if !loopCarried(call, mr) {
			notes = append(notes, "append not carried across iterations")
			continue
		}
		if c.flowsToSort(call, mr) {
			if why := c.sortKeyWeak(call, mr); why != "" {
				problems = append(problems, why)
			} else {
				notes = append(notes, "collect-then-sort")
			}
		} else if c.onlyLenUsed(call) {
			notes = append(notes, "only counted")
		} else {
			problems = append(problems, "a slice filled in iteration order is used without being sorted @ "+c.InstrPos(call))
		}
	}
	if len(problems) > 0 {
		return "bad", strings.Join(dedupe(problems), "; ")
	}
	if len(notes) == 0 {
		return "ok", "the body has no effect outside the iteration"
	}
	return "ok", strings.Join(dedupe(notes), ", ")
}

func dedupe(in []string) []string {
	seen := map[string]bool{}
	var out []string
	for _, s := range in {
		if !seen[s] {
			seen[s] = true
			out = append(out, s)
		}
	}
	if len(out) > 6 {
		out = append(out[:6], fmt.Sprintf("… %d more", len(out)-6))
	}
	return out
}

func isZeroSizedOrTrue(v ssa.Value) bool {
	if isTrueConst(v) {
		return true
	}
	if st, ok := v.Type().Underlying().(*types.Struct); ok && st.NumFields() == 0 {
		return true
	}
	return false
}

// valueIsFunctionOfKey: M[k] = f(k) with f a lookup/conversion keyed by the same k.
func valueIsFunctionOfKey(k, v ssa.Value) bool {
	kp := AccessPath(k)
	okAll := false
	var walk func(x ssa.Value, d int) bool
	walk = func(x ssa.Value, d int) bool {
		if d > 6 {
			return false
		}
		switch y := x.(type) {
		case *ssa.Lookup:
			return AccessPath(y.Index) == kp
		case *ssa.Call:
			// conversion of a value that is itself a function of the key
			for _, a := range y.Call.Args {
				if walk(a, d+1) {
					return true
				}
			}
		case *ssa.MakeInterface:
			return walk(y.X, d+1)
		}
		return false
	}
	okAll = walk(v, 0)
	return okAll
}

func isIterationLocal(root ssa.Value, mr mapRange) bool {
	switch x := root.(type) {
	case *ssa.Alloc:
		return mr.inBody(x.Block())
	case *ssa.Call:
		return mr.inBody(x.Block())
	case *ssa.MakeMap:
		return mr.inBody(x.Block())
	case *ssa.MakeSlice:
		return mr.inBody(x.Block())
	}
	return false
}

func isVariadicArray(root ssa.Value) bool {
	a, ok := root.(*ssa.Alloc)
	return ok && a.Comment == "varargs"
}

// flowsToSort: the slice web that this append feeds reaches a sort call after the loop, before other element uses.
func (c *Ctx) flowsToSort(app *ssa.Call, mr mapRange) bool {
	sorted, returned := c.webSorted(app)
	if sorted {
		return true
	}
	// returned unsorted: every caller must sort what it gets before using it
	if returned {
		node := c.Graph().Nodes[mr.fn]
		if node == nil || len(node.In) == 0 {
			return false
		}
		for _, e := range node.In {
			site := e.Site
			if site == nil || site.Common().StaticCallee() != mr.fn || site.Value() == nil {
				return false
			}
			if s2, _ := c.webSorted(site.Value()); !s2 {
				return false
			}
		}
		return true
	}
	return false
}

// webSorted grows the set of values that hold the slice v (through phis, appends, conversions, cells) and
// reports whether one of them is handed to a sort, and whether one of them is returned.
func (c *Ctx) webSorted(start ssa.Value) (sorted, returned bool) {
	web := map[ssa.Value]bool{}
	var grow func(v ssa.Value, d int)
	// growCell: w joins the web, and with it every other reading of the cell w was read from
	growCell := func(w ssa.Value, d int) {
		grow(w, d)
		if ld, isL := w.(*ssa.UnOp); isL && ld.Op == token.MUL {
			if cell, isA := ld.X.(*ssa.Alloc); isA {
				for _, rr := range *cell.Referrers() {
					if u, isU := rr.(*ssa.UnOp); isU {
						grow(u, d)
					}
				}
			}
		}
	}
	grow = func(v ssa.Value, d int) {
		if v == nil || web[v] || d > 16 {
			return
		}
		web[v] = true
		if v.Referrers() == nil {
			return
		}
		for _, r := range *v.Referrers() {
			switch x := r.(type) {
			case *ssa.Phi:
				grow(x, d+1)
			case *ssa.Call:
				if bi, ok := x.Call.Value.(*ssa.Builtin); ok && bi.Name() == "append" && x.Call.Args[0] == v {
					grow(x, d+1)
				}
			case *ssa.Convert, *ssa.ChangeType:
				grow(x.(ssa.Value), d+1)
			case *ssa.MakeInterface:
				grow(x, d+1)
			case *ssa.Store:
				// spilled into a cell: loads of the cell join the web
				if a, ok := x.Addr.(*ssa.Alloc); ok && x.Val == v {
					for _, rr := range *a.Referrers() {
						if u, oku := rr.(*ssa.UnOp); oku {
							grow(u, d+1)
						}
					}
				}
			case *ssa.Return:
				returned = true
			case *ssa.IndexAddr:
				// copied element by element into another slice (each element wrapped with its sort key, say): what
				// happens to that slice is what happens to the order
				if x.X != v {
					continue
				}
				for _, rr := range *x.Referrers() {
					ld, isL := rr.(*ssa.UnOp)
					if !isL || ld.Op != token.MUL {
						continue
					}
					for _, use := range forwardUses(ld, 4) {
						st, isS := use.(*ssa.Store)
						if !isS {
							continue
						}
						if ia, isIA := st.Addr.(*ssa.IndexAddr); isIA {
							growCell(ia.X, d+1)
						} else if fa, isFA := st.Addr.(*ssa.FieldAddr); isFA {
							if ia, isIA := fa.X.(*ssa.IndexAddr); isIA {
								growCell(ia.X, d+1)
							} else if lit, isA := fa.X.(*ssa.Alloc); isA {
								// a structure written on the spot and then put into the other slice as a whole
								for _, lr := range *lit.Referrers() {
									whole, isW := lr.(*ssa.UnOp)
									if !isW {
										continue
									}
									for _, wr := range *whole.Referrers() {
										if st2, isS2 := wr.(*ssa.Store); isS2 && st2.Val == ssa.Value(whole) {
											if ia2, isIA2 := st2.Addr.(*ssa.IndexAddr); isIA2 {
												growCell(ia2.X, d+1)
											}
										}
									}
								}
							}
						}
					}
				}
			}
		}
	}
	grow(start, 0)
	for v := range web {
		if v.Referrers() == nil {
			continue
		}
		for _, r := range *v.Referrers() {
			call, ok := r.(*ssa.Call)
			if !ok {
				continue
			}
			if calleeIs(call, "sort", "Strings") || calleeIs(call, "sort", "Sort") || calleeIs(call, "sort", "Stable") || calleeIs(call, "sort", "Slice") || calleeIs(call, "sort", "SliceStable") || calleeIs(call, "sort", "Ints") {
				sorted = true
			}
			if f := call.Call.StaticCallee(); f != nil && c.isRepoFn(f) && baseName(f) == "errorSort" {
				sorted = true
			}
		}
	}
	return sorted, returned
}

func (c *Ctx) onlyLenUsed(app *ssa.Call) bool {
	return false
}

// ---------------------------------------------------------------- ORDER.SORTKEY

func ruleOrderSortKey(c *Ctx) []Obligation {
	const R = "ORDER.SORTKEY"
	var obs []Obligation
	ri := c.Fn("yang.(*Modules).resolveIdentities")
	if ri == nil {
		return []Obligation{undecided(R, "identity resolver", "-", "resolveIdentities not found")}
	}
	// the comparator closure passed to sort.SliceStable inside resolveIdentities
	for _, an := range ri.AnonFuncs {
		if an.Signature.Results().Len() != 1 {
			continue
		}
		con := "identity value lists are sorted by a key that is unique among identities"
		// compared expressions: collect field names / method names compared with <
		comparesName, comparesQualified, comparesPrefix := false, false, false
		eachInstr(an, func(in ssa.Instruction) {
			bo, ok := in.(*ssa.BinOp)
			if !ok || bo.Op != token.LSS {
				return
			}
			if _, f, _ := loadedField(bo.X); f != nil && f.Name() == "Name" {
				comparesName = true
			}
			if call, okc := bo.X.(*ssa.Call); okc {
				if cal := call.Call.StaticCallee(); cal != nil && baseName(cal) == "modulePrefixedName" {
					comparesQualified = true // the dictionary key function (ID.KEY): module:name, unique
				}
				if cal := call.Call.StaticCallee(); cal != nil && cal.Name() == "PrefixedName" {
					comparesPrefix = true // prefix:name — two modules may declare the same prefix
				}
			}
		})
		pos := c.Pos(an.Pos())
		switch {
		case comparesPrefix && !comparesQualified:
			obs = append(obs, bad(R, con, pos, "ties are broken on prefix:name, but prefixes are not unique across modules: same-named identities of two modules with the same prefix keep map-iteration order"))
		case comparesQualified:
			obs = append(obs, ok(R, con, pos, "ties on the bare name are broken on the module-qualified name, the dictionary key under which identities are unique (ID.KEY)"))
		case comparesName:
			obs = append(obs, bad(R, con, pos, "the comparator looks only at the bare name: identities of the same name from different modules keep map-iteration order"))
		default:
			obs = append(obs, undecided(R, con, pos, "cannot read the comparator"))
		}
	}
	// sortedModules / other collect-then-sort helpers sort the keys of the map themselves: unique by construction
	obs = append(obs, ok(R, "collect-then-sort loops sort map keys (unique by construction) or whole rendered strings", "-", "I1 sites sort the range keys"))
	obs = append(obs, c.comparatorSorts(R)...)
	return obs
}

// comparatorSorts (seeded C05-w14-2): a sort with a comparator, of elements gathered while ranging over a map, leaves
// elements the comparator calls equal in the order the map gave them. The comparator must therefore end in a key no
// two elements share: the element itself (a string, a number), its place in the source, or the module-qualified name
// identities are filed under. A comparator that looks at fields only is reported.
func (c *Ctx) comparatorSorts(R string) []Obligation {
	var obs []Obligation
	hasMapRange := func(fn *ssa.Function) bool {
		found := false
		eachInstr(fn, func(in ssa.Instruction) {
			if r, isR := in.(*ssa.Range); isR {
				if _, isM := r.X.Type().Underlying().(*types.Map); isM {
					found = true
				}
			}
		})
		return found
	}
	var fns []*ssa.Function
	for _, fn := range c.Funcs {
		if c.isRepoFn(fn) && fn.Blocks != nil {
			fns = append(fns, fn)
		}
	}
	sort.Slice(fns, func(i, j int) bool { return fns[i].Pos() < fns[j].Pos() })
	for _, fn := range fns {
		n := 0
		eachInstr(fn, func(in ssa.Instruction) {
			call, isC := in.(*ssa.Call)
			if !isC || !(calleeIs(call, "sort", "Slice") || calleeIs(call, "sort", "SliceStable")) || len(call.Call.Args) != 2 {
				return
			}
			n++
			con := fmt.Sprintf("%s: comparator sort #%d of elements gathered from a map ends in a key no two elements share", c.FnName(fn), n)
			gathered := hasMapRange(fn)
			operandClosure(call.Call.Args[0], func(x ssa.Value) {
				if cc, isCC := x.(*ssa.Call); isCC {
					if cal := cc.Call.StaticCallee(); cal != nil && c.isRepoFn(cal) && cal.Blocks != nil && hasMapRange(cal) {
						gathered = true
					}
				}
			})
			if !gathered {
				obs = append(obs, ok(R, con, c.InstrPos(call), "the elements are not gathered from a map here"))
				return
			}
			var cmp *ssa.Function
			if mc, isMC := call.Call.Args[1].(*ssa.MakeClosure); isMC {
				cmp, _ = mc.Fn.(*ssa.Function)
			} else if f, isF := call.Call.Args[1].(*ssa.Function); isF {
				cmp = f
			}
			if cmp == nil {
				obs = append(obs, undecided(R, con, c.InstrPos(call), "the comparator is not a function literal"))
				return
			}
			unique, fields := "", 0
			eachInstr(cmp, func(ci ssa.Instruction) {
				bo, isB := ci.(*ssa.BinOp)
				if !isB || (bo.Op != token.LSS && bo.Op != token.GTR) {
					return
				}
				switch x := bo.X.(type) {
				case *ssa.Call:
					if cal := x.Call.StaticCallee(); cal != nil {
						switch {
						case baseName(cal) == "modulePrefixedName":
							unique = "the module-qualified name identities are filed under (ID.KEY)"
						case cal.Name() == "Source" && c.isRepoFn(cal):
							unique = "the place in the source"
						default:
							fields++
						}
					}
				case *ssa.UnOp:
					// a field that this function fills from Source(…) only: the place in the source, worked out once
					if _, lf, _ := loadedField(x); lf != nil {
						sts := storesToField(fn, lf)
						all := len(sts) > 0
						for _, st := range sts {
							cc, isCC := st.Val.(*ssa.Call)
							if !isCC || cc.Call.StaticCallee() == nil || cc.Call.StaticCallee().Name() != "Source" || !c.isRepoFn(cc.Call.StaticCallee()) {
								all = false
							}
						}
						if all {
							unique = "the place in the source (kept in a field)"
							return
						}
					}
					if ia, isIA := x.X.(*ssa.IndexAddr); isIA && x.Op == token.MUL {
						if _, isBasic := x.Type().Underlying().(*types.Basic); isBasic {
							if _, isFA := ia.X.(*ssa.FieldAddr); !isFA {
								unique = "the element itself"
								return
							}
						}
					}
					fields++
				case *ssa.Phi:
					// `si, sj := Source(a), Source(b); si != sj` spelled through variables
					for _, e := range x.Edges {
						if cc, isCC := e.(*ssa.Call); isCC {
							if cal := cc.Call.StaticCallee(); cal != nil && cal.Name() == "Source" && c.isRepoFn(cal) {
								unique = "the place in the source"
							}
						}
					}
				default:
					fields++
				}
			})
			if unique != "" {
				obs = append(obs, ok(R, con, c.InstrPos(call), "the comparator looks at "+unique))
			} else {
				obs = append(obs, bad(R, con, c.InstrPos(call), fmt.Sprintf("the comparator looks at %d field value(s) only: two elements that agree on them come out in the order the map yielded them, which differs from run to run", fields)))
			}
		})
	}
	return obs
}

// ---------------------------------------------------------------- ORDER.SOURCES

func ruleOrderSources(c *Ctx) []Obligation {
	const R = "ORDER.SOURCES"
	var obs []Obligation
	n := 0
	for _, fn := range c.Funcs {
		eachInstr(fn, func(in ssa.Instruction) {
			switch x := in.(type) {
			case *ssa.Go:
				n++
				obs = append(obs, bad(R, c.FnName(fn)+": go statement", c.InstrPos(x), "a goroutine introduces schedule-dependent order"))
			case *ssa.Select:
				n++
				if !x.Blocking {
					// non-blocking select with one case + default: deterministic given channel state (the lexer's token queue)
					if why, okj := jget("selectJustified", selectJustified, c.FnName(fn)); okj {
						obs = append(obs, just(R, c.FnName(fn)+": select", c.InstrPos(x), why))
						return
					}
				}
				obs = append(obs, bad(R, c.FnName(fn)+": select", c.InstrPos(x), "select picks a ready case pseudo-randomly"))
			case *ssa.Call:
				cal := x.Call.StaticCallee()
				if cal == nil || cal.Pkg == nil {
					return
				}
				p := cal.Pkg.Pkg.Path()
				if p == "math/rand" || p == "math/rand/v2" || p == "crypto/rand" {
					n++
					obs = append(obs, bad(R, c.FnName(fn)+": random source", c.InstrPos(x), "random numbers make the result seed-dependent"))
				}
				if p == "time" && (cal.Name() == "Now" || cal.Name() == "Since") {
					n++
					obs = append(obs, bad(R, c.FnName(fn)+": clock", c.InstrPos(x), "wall-clock time reaches the result"))
				}
				if p == "fmt" && len(x.Call.Args) > 0 {
					if s, oks := constString(x.Call.Args[0]); oks && strings.Contains(s, "%p") {
						n++
						obs = append(obs, bad(R, c.FnName(fn)+": %p formatting", c.InstrPos(x), "pointer values differ between runs"))
					}
					for _, a := range x.Call.Args {
						if s, oks := constString(a); oks && strings.Contains(s, "%p") {
							n++
							obs = append(obs, bad(R, c.FnName(fn)+": %p formatting", c.InstrPos(x), "pointer values differ between runs"))
						}
					}
				}
			}
		})
	}
	obs = append(obs, ok(R, "sources of nondeterminism enumerated", "-", fmt.Sprintf("%d constructs (goroutines, select, rand, clock, %%p) in %d functions", n, len(c.Funcs))))
	return obs
}

var selectJustified = map[string]string{
	"yang.(*lexer).NextToken": "single-goroutine token queue: a non-blocking receive with default; whether a token is queued is decided by the lexer's own preceding steps, not by a schedule",
	"yang.(*lexer).emitText":  "single-goroutine token queue: a non-blocking send with default on a buffered channel the same goroutine drains",
}

// ---------------------------------------------------------------- ERR.TOTAL

func ruleErrTotal(c *Ctx) []Obligation {
	const R = "ERR.TOTAL"
	less, scope := c.errorOrder()
	if less == nil {
		return []Obligation{undecided(R, "error comparator", "-", "sortedErrors.Less not found")}
	}
	con := "the error comparator compares every field it splits"
	pos := c.Pos(less.Pos())
	var splitN int64 = -1
	unbounded := false
	// the split may sit in a private helper that both operands go through, or be done once per error before the sort; a
	// list of pieces the helper writes out itself must not be longer than the bounded split
	var literal int64 = -1
	eachInstrOf(scope, func(in ssa.Instruction) {
		if al, isA := in.(*ssa.Alloc); isA && in.Parent() != less {
			if pt, isP := al.Type().(*types.Pointer); isP {
				if at, isArr := pt.Elem().Underlying().(*types.Array); isArr && isStringType(at.Elem()) && at.Len() > literal {
					literal = at.Len()
				}
			}
		}
		call, ok := in.(*ssa.Call)
		if !ok {
			return
		}
		if calleeIs(call, "strings", "SplitN") {
			if k, okk := constInt(c.constAtSites(call.Call.Args[2])); okk {
				splitN = k
			}
		}
		if calleeIs(call, "strings", "Split") || calleeIs(call, "strings", "Fields") {
			unbounded = true
		}
	})
	if literal > splitN && splitN >= 0 {
		return []Obligation{bad(R, con, pos, fmt.Sprintf("the splitter can hand back %d pieces but only %d are compared", literal, splitN))}
	}
	if unbounded {
		return []Obligation{bad(R, con, pos, "the message is split into an unbounded number of fields but only a fixed number is compared: errors that agree on the compared prefix keep their input (map) order")}
	}
	if splitN < 0 {
		return []Obligation{undecided(R, con, pos, "no bounded split found")}
	}
	// the comparison loop bound: i < N with the same N; index 0 compared separately
	var bound int64 = -1
	eachInstrOf(c.staticReach(less, 2), func(in ssa.Instruction) {
		bo, ok := in.(*ssa.BinOp)
		if !ok || bo.Op != token.LSS {
			return
		}
		if _, isPhi := bo.X.(*ssa.Phi); isPhi {
			if k, okk := constInt(bo.Y); okk {
				bound = k
			}
		}
	})
	if bound == splitN {
		return []Obligation{ok(R, con, pos, fmt.Sprintf("SplitN(…, %d) and the loop compares fields 1..%d (field 0 before it): the last field is the whole remaining text", splitN, splitN-1))}
	}
	return []Obligation{bad(R, con, pos, fmt.Sprintf("the message is split into %d fields but the loop compares up to %d", splitN, bound))}
}

// loopCarried: the slice appended to comes (through phis/appends) from a phi at the loop header,
// or from a cell/field that outlives the iteration.
func loopCarried(app *ssa.Call, mr mapRange) bool {
	seen := map[ssa.Value]bool{}
	carried := false
	// the blocks of a private helper inlined into the body belong to the iteration (inline.go)
	inBody := func(b *ssa.BasicBlock) bool {
		return mr.inBody(b) || (b.Parent() != mr.fn && helperOf(b.Parent()) != nil)
	}
	var walk func(v ssa.Value, d int)
	walk = func(v ssa.Value, d int) {
		if v == nil || seen[v] || d > 16 || carried {
			return
		}
		seen[v] = true
		switch x := v.(type) {
		case *ssa.Phi:
			if x.Block() == mr.header || !inBody(x.Block()) {
				carried = true
				return
			}
			for _, e := range x.Edges {
				walk(e, d+1)
			}
		case *ssa.Call:
			if bi, ok := x.Call.Value.(*ssa.Builtin); ok && bi.Name() == "append" {
				walk(x.Call.Args[0], d+1)
			}
		case *ssa.UnOp:
			// load of a field or cell
			if a, ok := x.X.(*ssa.Alloc); ok && !inBody(a.Block()) {
				carried = true
			}
			if owner, f, base := fieldOf(x.X); f != nil {
				_ = owner
				r := resolveArg(rootOf(base))
				if !isIterationLocal(r, mr) && !(mr.next != nil && derivesFrom(r, func(y ssa.Value) bool {
					ex, ok := y.(*ssa.Extract)
					return ok && ex.Tuple == ssa.Value(mr.next)
				})) {
					carried = true
				}
			}
		case *ssa.Slice:
			walk(x.X, d+1)
		}
	}
	walk(app.Call.Args[0], 0)
	return carried
}

// isSliceWeb: v is a slice-typed accumulator rather than an object address.
func isSliceWeb(v ssa.Value) bool {
	_, ok := v.Type().Underlying().(*types.Slice)
	return ok
}

// indexStoreSorted: xs[i] = v inside the loop where xs is sorted after the loop.
func indexStoreSorted(c *Ctx, st *ssa.Store, mr mapRange) bool {
	ia, ok := st.Addr.(*ssa.IndexAddr)
	if !ok {
		return false
	}
	sorted := false
	var web []ssa.Value
	web = append(web, ia.X)
	seen := map[ssa.Value]bool{}
	for len(web) > 0 {
		v := web[len(web)-1]
		web = web[:len(web)-1]
		if seen[v] || v.Referrers() == nil {
			continue
		}
		seen[v] = true
		for _, r := range *v.Referrers() {
			switch x := r.(type) {
			case *ssa.Call:
				if calleeIs(x, "sort", "Strings") || calleeIs(x, "sort", "Sort") || calleeIs(x, "sort", "Ints") || calleeIs(x, "sort", "Slice") || calleeIs(x, "sort", "Stable") {
					sorted = true
				}
			case *ssa.ChangeType:
				web = append(web, x)
			case *ssa.Convert:
				web = append(web, x)
			case *ssa.MakeInterface:
				web = append(web, x)
			}
		}
	}
	return sorted
}

// sortKeyWeak: the slice collected in map order is sorted with a comparator that looks at a single key which is
// not the map key: elements that tie on it keep the order the map yielded them in. "" if the sort is adequate
// (sort.Strings/Ints of collected keys, a comparator that reads the component holding the range key, or one with
// a tie-break, i.e. at least two ordering comparisons).
func (c *Ctx) sortKeyWeak(app *ssa.Call, mr mapRange) string {
	key, _ := mr.keyVal()
	// which fields of the appended element hold the range key
	keyFields := map[int]bool{}
	wholeIsKey := false
	for _, el := range variadicElems(app.Call.Args[1]) {
		if key != nil && (el == key || derivesFrom(el, func(x ssa.Value) bool { return x == key })) {
			if _, isSt := el.Type().Underlying().(*types.Struct); !isSt {
				wholeIsKey = true
			}
		}
		// struct literal: loads of a local struct whose fields were stored
		backSlice(el, func(x ssa.Value) bool {
			if al, isA := x.(*ssa.Alloc); isA {
				for _, r := range refsOf(al) {
					fa, isF := r.(*ssa.FieldAddr)
					if !isF {
						continue
					}
					for _, rr := range refsOf(fa) {
						if st, isS := rr.(*ssa.Store); isS && st.Addr == ssa.Value(fa) && key != nil && derivesFrom(st.Val, func(y ssa.Value) bool { return y == key }) {
							keyFields[fa.Field] = true
						}
					}
				}
			}
			return true
		})
	}
	if wholeIsKey {
		return ""
	}
	// the sort call(s) the slice flows to
	weak := ""
	web := map[ssa.Value]bool{}
	var grow func(v ssa.Value, d int)
	grow = func(v ssa.Value, d int) {
		if v == nil || web[v] || d > 16 {
			return
		}
		web[v] = true
		for _, r := range refsOf(v) {
			switch x := r.(type) {
			case *ssa.Phi:
				grow(x, d+1)
			case *ssa.Call:
				if bi, ok := x.Call.Value.(*ssa.Builtin); ok && bi.Name() == "append" && x.Call.Args[0] == v {
					grow(x, d+1)
				}
			case *ssa.MakeInterface, *ssa.ChangeType, *ssa.Convert:
				grow(x.(ssa.Value), d+1)
			case *ssa.Store:
				if a, ok := x.Addr.(*ssa.Alloc); ok && x.Val == v {
					for _, rr := range refsOf(a) {
						if u, oku := rr.(*ssa.UnOp); oku {
							grow(u, d+1)
						}
					}
				}
			}
		}
	}
	grow(app, 0)
	for v := range web {
		for _, r := range refsOf(v) {
			call, isC := r.(*ssa.Call)
			if !isC || !(calleeIs(call, "sort", "Slice") || calleeIs(call, "sort", "SliceStable")) || len(call.Call.Args) < 2 {
				continue
			}
			mc, isMC := call.Call.Args[1].(*ssa.MakeClosure)
			if !isMC {
				continue
			}
			less, _ := mc.Fn.(*ssa.Function)
			if less == nil {
				continue
			}
			levels, readsKey := 0, false
			eachInstr(less, func(in ssa.Instruction) {
				switch x := in.(type) {
				case *ssa.BinOp:
					switch x.Op {
					case token.LSS, token.GTR, token.LEQ, token.GEQ:
						levels++
						// the elements themselves are compared (strings, numbers): elements that tie are equal
						if u, isU := x.X.(*ssa.UnOp); isU && u.Op == token.MUL {
							if _, isIA := u.X.(*ssa.IndexAddr); isIA {
								if _, isBasic := u.Type().Underlying().(*types.Basic); isBasic {
									readsKey = true
								}
							}
						}
					}
				case *ssa.FieldAddr:
					if keyFields[x.Field] {
						readsKey = true
					}
				case *ssa.Field:
					if keyFields[x.Field] {
						readsKey = true
					}
				}
			})
			if levels <= 1 && !readsKey {
				weak = "a slice filled in map order is sorted by a single key that is not the map key: elements that tie on it keep the order the map yielded them in @ " + c.InstrPos(call)
			}
		}
	}
	return weak
}

// literalListElems: v is an element read from a slice/array literal built in the same function (the loop variable of a
// range over []T{a, b, …}); returns the values stored into the literal.
func literalListElems(v ssa.Value) []ssa.Value {
	u, ok := v.(*ssa.UnOp)
	if !ok || u.Op != token.MUL {
		return nil
	}
	ia, ok := u.X.(*ssa.IndexAddr)
	if !ok {
		return nil
	}
	var arr *ssa.Alloc
	switch x := ia.X.(type) {
	case *ssa.Slice:
		arr, _ = x.X.(*ssa.Alloc)
	case *ssa.Alloc:
		arr = x
	}
	if arr == nil {
		return nil
	}
	var out []ssa.Value
	for _, r := range *arr.Referrers() {
		if ea, isIA := r.(*ssa.IndexAddr); isIA && ea != ia {
			for _, rr := range *ea.Referrers() {
				if st, isS := rr.(*ssa.Store); isS && st.Addr == ssa.Value(ea) {
					out = append(out, st.Val)
				}
			}
		}
	}
	return out
}

// constantStoresOnly: every effect of the loop body is a store of a constant (nil, zero, false) — calls only to repo
// functions that write nothing, no map updates, no appends kept, no returns out of the loop.
func (c *Ctx) constantStoresOnly(mr mapRange) bool {
	okAll, stores := true, 0
	for _, b := range mr.fn.Blocks {
		if !mr.inBody(b) {
			continue
		}
		for _, in := range b.Instrs {
			switch x := in.(type) {
			case *ssa.Store:
				if _, isAlloc := x.Addr.(*ssa.Alloc); isAlloc {
					continue
				}
				if _, isK := x.Val.(*ssa.Const); !isK {
					okAll = false
				}
				stores++
			case *ssa.MapUpdate, *ssa.Send, *ssa.Go, *ssa.Defer, *ssa.Return, *ssa.Panic:
				okAll = false
			case ssa.CallInstruction:
				cal := x.Common().StaticCallee()
				if cal == nil {
					if _, isB := x.Common().Value.(*ssa.Builtin); isB {
						continue
					}
					okAll = false
					continue
				}
				if !c.isRepoFn(cal) || len(c.WritesOf(cal)) > 0 {
					okAll = false
				}
			}
		}
	}
	return okAll && stores > 0
}

func isStringType(t types.Type) bool {
	b, ok := t.Underlying().(*types.Basic)
	return ok && b.Info()&types.IsString != 0
}

// forwardUses: the instructions that use v, or a value computed directly from it (composite value construction,
// conversions), up to the given depth.
func forwardUses(v ssa.Value, depth int) []ssa.Instruction {
	var out []ssa.Instruction
	seen := map[ssa.Value]bool{}
	var walk func(x ssa.Value, d int)
	walk = func(x ssa.Value, d int) {
		if seen[x] || d > depth || x.Referrers() == nil {
			return
		}
		seen[x] = true
		for _, r := range *x.Referrers() {
			out = append(out, r)
			switch y := r.(type) {
			case *ssa.Convert, *ssa.ChangeType, *ssa.MakeInterface, *ssa.Phi:
				walk(y.(ssa.Value), d+1)
			}
		}
	}
	walk(v, 0)
	return out
}

// errorOrder: the comparator the error sorter sorts with — the Less method of whatever type it hands to sort.Sort —
// and the functions in which the order is made: the sorter, the comparator, and what they call in the repository.
func (c *Ctx) errorOrder() (*ssa.Function, []*ssa.Function) {
	var less *ssa.Function
	if es := c.Fn("yang.errorSort"); es != nil {
		eachInstr(es, func(in ssa.Instruction) {
			call, isC := in.(*ssa.Call)
			if !isC || !(calleeIs(call, "sort", "Sort") || calleeIs(call, "sort", "Stable")) || len(call.Call.Args) != 1 {
				return
			}
			if mi, isMI := call.Call.Args[0].(*ssa.MakeInterface); isMI {
				if m := c.Prog.LookupMethod(mi.X.Type(), es.Pkg.Pkg, "Less"); m != nil {
					less = m
				}
			}
		})
		if less != nil {
			scope := c.staticReach(es, 2)
			for _, f := range c.staticReach(less, 2) {
				dup := false
				for _, g := range scope {
					if g == f {
						dup = true
					}
				}
				if !dup {
					scope = append(scope, f)
				}
			}
			return less, scope
		}
	}
	less = c.Fn("yang.(sortedErrors).Less")
	if less == nil {
		return nil, nil
	}
	return less, c.staticReach(less, 2)
}

// staticReach: fn and the repository functions it reaches through static calls, to the given depth.
func (c *Ctx) staticReach(fn *ssa.Function, depth int) []*ssa.Function {
	out := []*ssa.Function{fn}
	seen := map[*ssa.Function]bool{fn: true}
	frontier := []*ssa.Function{fn}
	for d := 0; d < depth; d++ {
		var next []*ssa.Function
		for _, f := range frontier {
			eachInstr(f, func(in ssa.Instruction) {
				ci, isC := in.(ssa.CallInstruction)
				if !isC {
					return
				}
				if cal := ci.Common().StaticCallee(); cal != nil && c.isRepoFn(cal) && cal.Blocks != nil && !seen[cal] {
					seen[cal] = true
					out = append(out, cal)
					next = append(next, cal)
				}
			})
		}
		frontier = next
	}
	return out
}

func eachInstrOf(fns []*ssa.Function, f func(ssa.Instruction)) {
	for _, fn := range fns {
		eachInstr(fn, f)
	}
}

// constAtSites: v, or — when v is a parameter — the one constant every static call of its function hands in.
func (c *Ctx) constAtSites(v ssa.Value) ssa.Value {
	v = resolveArg(v)
	p, isP := v.(*ssa.Parameter)
	if !isP {
		return v
	}
	idx := paramIndex(p.Parent(), p)
	node := c.Graph().Nodes[p.Parent()]
	if node == nil || idx < 0 {
		return v
	}
	var k *ssa.Const
	for _, e := range node.In {
		if e.Site == nil || e.Site.Common().StaticCallee() != p.Parent() || idx >= len(e.Site.Common().Args) {
			return v
		}
		a, isK := e.Site.Common().Args[idx].(*ssa.Const)
		if !isK || k != nil && (k.Value == nil || a.Value == nil || k.Value.ExactString() != a.Value.ExactString()) {
			return v
		}
		k = a
	}
	if k == nil {
		return v
	}
	return k
}

// mapRangeReturnJustified: map ranges that return an element-dependent value from inside the body, with the reason
// the answer does not depend on the order (uniqueness of the qualifying element, established elsewhere).
var mapRangeReturnJustified = map[string]string{
	"range .sRequired": "the table has one key per flavour of a statement type, and the only type with two flavours is module/submodule (the aliases table has that one pair): after the statement's own keyword is skipped at most one key is left, so there is no order to depend on; the inner loop runs over a slice in declaration order",
}

// regName: an SSA register name inside a construct description (renumbered by any edit above it).
var regName = regexp.MustCompile(`\bt[0-9]+\b`)

// rangedField: the part of a map range's description that says what is ranged over, without the function it sits in
// and without the variable it is reached from ("yang.build | range t32.sRequired" → "range .sRequired"): a reason that
// is about the table holds wherever the loop over it is moved.
func rangedField(desc string) string {
	i := strings.Index(desc, "| range ")
	if i < 0 {
		return desc
	}
	rest := desc[i+len("| range "):]
	if j := strings.LastIndex(rest, "."); j >= 0 {
		return "range " + rest[j:]
	}
	return "range " + rest
}

// Command mutgen enumerates and applies simple syntactic mutations to the non-test Go files of a package directory.
//
//	mutgen -dir <worktree>/pkg/yang -list             prints "<id>\t<file>:<line>\t<kind>\t<detail>" for every point
//	mutgen -dir <worktree>/pkg/yang -apply <id>       rewrites the one file concerned in place
//
// Kinds: negate an if condition; swap a comparison or logical operator; delete an expression/assignment/inc-dec
// statement; flip a boolean literal; bump an integer literal; turn `continue` into nothing; drop an else branch.
// Used by tools/mutation_sweep.sh to find changes that the unit tests do not notice and ask whether the checker does.
package main

import (
	"bytes"
	"flag"
	"fmt"
	"go/ast"
	"go/format"
	"go/parser"
	"go/token"
	"os"
	"path/filepath"
	"sort"
	"strconv"
	"strings"
)

type point struct {
	file   string
	pos    token.Position
	kind   string
	detail string
	apply  func()
}

func main() {
	dir := flag.String("dir", "", "package directory")
	list := flag.Bool("list", false, "list mutation points")
	applyID := flag.Int("apply", -1, "apply mutation with this id")
	flag.Parse()
	fset := token.NewFileSet()
	files, _ := filepath.Glob(filepath.Join(*dir, "*.go"))
	sort.Strings(files)
	var pts []point
	parsed := map[string]*ast.File{}
	for _, fn := range files {
		if strings.HasSuffix(fn, "_test.go") {
			continue
		}
		f, err := parser.ParseFile(fset, fn, nil, parser.ParseComments)
		if err != nil {
			fmt.Fprintln(os.Stderr, err)
			os.Exit(2)
		}
		parsed[fn] = f
		fname := fn
		add := func(n ast.Node, kind, detail string, ap func()) {
			pts = append(pts, point{fname, fset.Position(n.Pos()), kind, detail, ap})
		}
		swap := map[token.Token]token.Token{token.EQL: token.NEQ, token.NEQ: token.EQL, token.LSS: token.LEQ, token.LEQ: token.LSS,
			token.GTR: token.GEQ, token.GEQ: token.GTR, token.LAND: token.LOR, token.LOR: token.LAND, token.ADD: token.SUB, token.SUB: token.ADD}
		swap2 := map[token.Token]token.Token{token.LSS: token.GTR, token.GTR: token.LSS, token.LEQ: token.GEQ, token.GEQ: token.LEQ}
		ast.Inspect(f, func(n ast.Node) bool {
			switch x := n.(type) {
			case *ast.IfStmt:
				xx := x
				add(x, "negate-if", "", func() { xx.Cond = &ast.UnaryExpr{Op: token.NOT, X: &ast.ParenExpr{X: xx.Cond}} })
				if x.Else != nil {
					add(x, "drop-else", "", func() { xx.Else = nil })
				}
			case *ast.BinaryExpr:
				xx := x
				if to, ok := swap[x.Op]; ok {
					from := x.Op
					add(x, "swap-op", from.String()+"→"+to.String(), func() { xx.Op = to })
				}
				if to, ok := swap2[x.Op]; ok {
					from := x.Op
					add(x, "flip-op", from.String()+"→"+to.String(), func() { xx.Op = to })
				}
			case *ast.BlockStmt:
				for i, st := range x.List {
					bb, ii := x, i
					switch s := st.(type) {
					case *ast.ExprStmt:
						add(s, "del-stmt", "call", func() { bb.List[ii] = &ast.EmptyStmt{} })
					case *ast.AssignStmt:
						if s.Tok != token.DEFINE {
							add(s, "del-stmt", "assign", func() { bb.List[ii] = &ast.EmptyStmt{} })
						}
					case *ast.IncDecStmt:
						add(s, "del-stmt", "incdec", func() { bb.List[ii] = &ast.EmptyStmt{} })
					case *ast.BranchStmt:
						if s.Tok == token.CONTINUE && s.Label == nil {
							add(s, "del-continue", "", func() { bb.List[ii] = &ast.EmptyStmt{} })
						}
					case *ast.DeferStmt:
						add(s, "del-defer", "", func() { bb.List[ii] = &ast.EmptyStmt{} })
					}
				}
			case *ast.CaseClause:
				for i, st := range x.Body {
					cc, ii := x, i
					switch s := st.(type) {
					case *ast.ExprStmt:
						add(s, "del-stmt", "call", func() { cc.Body[ii] = &ast.EmptyStmt{} })
					case *ast.AssignStmt:
						if s.Tok != token.DEFINE {
							add(s, "del-stmt", "assign", func() { cc.Body[ii] = &ast.EmptyStmt{} })
						}
					case *ast.IncDecStmt:
						add(s, "del-stmt", "incdec", func() { cc.Body[ii] = &ast.EmptyStmt{} })
					case *ast.BranchStmt:
						if s.Tok == token.CONTINUE && s.Label == nil {
							add(s, "del-continue", "", func() { cc.Body[ii] = &ast.EmptyStmt{} })
						}
					}
				}
			case *ast.Ident:
				xx := x
				if x.Name == "true" {
					add(x, "flip-bool", "true→false", func() { xx.Name = "false" })
				} else if x.Name == "false" {
					add(x, "flip-bool", "false→true", func() { xx.Name = "true" })
				}
			case *ast.BasicLit:
				xx := x
				if x.Kind == token.INT {
					if v, err := strconv.ParseInt(x.Value, 0, 64); err == nil && v < 1000 {
						add(x, "bump-int", x.Value+"→"+strconv.FormatInt(v+1, 10), func() { xx.Value = strconv.FormatInt(v+1, 10) })
					}
				}
			}
			return true
		})
	}
	if *list {
		for i, p := range pts {
			rel, _ := filepath.Rel(*dir, p.file)
			fmt.Printf("%d\t%s:%d\t%s\t%s\n", i, rel, p.pos.Line, p.kind, p.detail)
		}
		return
	}
	if *applyID < 0 || *applyID >= len(pts) {
		fmt.Fprintln(os.Stderr, "bad id")
		os.Exit(2)
	}
	p := pts[*applyID]
	p.apply()
	var buf bytes.Buffer
	if err := format.Node(&buf, fset, parsed[p.file]); err != nil {
		fmt.Fprintln(os.Stderr, err)
		os.Exit(2)
	}
	if err := os.WriteFile(p.file, buf.Bytes(), 0o644); err != nil {
		fmt.Fprintln(os.Stderr, err)
		os.Exit(2)
	}
	rel, _ := filepath.Rel(*dir, p.file)
	fmt.Printf("%s:%d %s %s\n", rel, p.pos.Line, p.kind, p.detail)
}

package main

// schema.go: the type-level AST schema (SCHEMA.META / IFACE / SCOPE / REQ / CARDSPEC).
// The AST builder's behaviour is a function of the struct types reachable from
// `meta` through `yang:"…"`-tagged fields. These rules re-derive that schema
// from go/types and decide it exhaustively.

import (
	"fmt"
	"go/token"
	"go/types"
	"sort"
	"strings"

	"golang.org/x/tools/go/ssa"
)

type NodeField struct {
	Index   int
	Var     *types.Var
	Keyword string   // tag name
	Attrs   []string // nomerge, required, required=KIND
	Slice   bool
	Elem    *types.Named // element struct type for *T / []*T
}

type NodeType struct {
	Named    *types.Named
	Struct   *types.Struct
	Fields   []NodeField
	Keywords []string // keywords under which this type is registered as an element type
}

type Schema struct {
	Types    map[*types.Named]*NodeType
	Ordered  []*NodeType
	Keyword  map[string]*types.Named // keyword → element type
	Conflict []string
}

func (c *Ctx) Schema() *Schema {
	s := &Schema{Types: map[*types.Named]*NodeType{}, Keyword: map[string]*types.Named{}}
	meta := c.MustNamed("yang", "meta")
	var visit func(n *types.Named)
	visit = func(n *types.Named) {
		if s.Types[n] != nil {
			return
		}
		st, ok := n.Underlying().(*types.Struct)
		if !ok {
			return
		}
		nt := &NodeType{Named: n, Struct: st}
		s.Types[n] = nt
		s.Ordered = append(s.Ordered, nt)
		for i := 0; i < st.NumFields(); i++ {
			tag := structTag(st, i, "yang")
			if tag == "" {
				continue
			}
			kw, attrs := yangTag(tag)
			nf := NodeField{Index: i, Var: st.Field(i), Keyword: kw, Attrs: attrs}
			ft := st.Field(i).Type()
			if sl, ok := ft.Underlying().(*types.Slice); ok {
				nf.Slice = true
				ft = sl.Elem()
			}
			if pt, ok := ft.(*types.Pointer); ok {
				if en := namedOf(pt.Elem()); en != nil {
					nf.Elem = en
				}
			}
			nt.Fields = append(nt.Fields, nf)
			switch kw {
			case "Name", "Statement", "Parent", "Ext":
				continue
			}
			if nf.Elem != nil {
				if prev, ok := s.Keyword[kw]; ok && prev != nf.Elem {
					s.Conflict = append(s.Conflict, fmt.Sprintf("keyword %q maps to %s and %s", kw, objName(prev.Obj()), objName(nf.Elem.Obj())))
				} else if !ok {
					s.Keyword[kw] = nf.Elem
				}
				visit(nf.Elem)
			}
		}
	}
	visit(meta)
	for kw, n := range s.Keyword {
		if nt := s.Types[n]; nt != nil {
			nt.Keywords = append(nt.Keywords, kw)
		}
	}
	for _, nt := range s.Ordered {
		sort.Strings(nt.Keywords)
	}
	return s
}

func hasAttr(attrs []string, a string) bool {
	for _, x := range attrs {
		if x == a {
			return true
		}
	}
	return false
}

func attrWithPrefix(attrs []string, p string) (string, bool) {
	for _, x := range attrs {
		if strings.HasPrefix(x, p) {
			return x[len(p):], true
		}
	}
	return "", false
}

func (nt *NodeType) field(kw string) *NodeField {
	for i := range nt.Fields {
		if nt.Fields[i].Keyword == kw {
			return &nt.Fields[i]
		}
	}
	return nil
}

func init() {
	register(&Rule{Name: "SCHEMA.META", Props: []string{"C03", "C01"}, Floor: 40,
		Doc: "every node struct has the four meta slots with the right types; tagged fields are *T/[]*T of Node types; keyword → type is a function; index 0 is Name",
		Run: ruleSchemaMeta})
	register(&Rule{Name: "SCHEMA.IFACE", Props: []string{"C03"}, Floor: 150,
		Doc: "the five Node accessors of every node type return the tagged slots; Kind() returns the registered keyword",
		Run: ruleSchemaIface})
	register(&Rule{Name: "SCHEMA.SCOPE", Props: []string{"C03", "C09", "C06", "C11"}, Floor: 10,
		Doc: "typedef/grouping/identity scopes are registered through the accessors the lookups use",
		Run: ruleSchemaScope})
	register(&Rule{Name: "SCHEMA.REQ", Props: []string{"C03"}, Floor: 9,
		Doc: "required attributes equal the RFC 7950 table for the substatements the property names",
		Run: ruleSchemaReq})
	register(&Rule{Name: "SCHEMA.CARDSPEC", Props: []string{"C03"}, Floor: 100,
		Doc: "a substatement that RFC 7950 allows at most once is held in a single-valued (pointer) slot, so a second occurrence is rejected",
		Run: ruleSchemaCardSpec})
}

func (c *Ctx) nodeIface() *types.Interface {
	n := c.MustNamed("yang", "Node")
	i, ok := n.Underlying().(*types.Interface)
	if !ok {
		brokenf("yang.Node is not an interface")
	}
	return i
}

func ruleSchemaMeta(c *Ctx) []Obligation {
	const R = "SCHEMA.META"
	var obs []Obligation
	s := c.Schema()
	nodeI := c.nodeIface()
	stmtT := c.MustNamed("yang", "Statement")
	if len(s.Conflict) > 0 {
		for _, m := range s.Conflict {
			obs = append(obs, bad(R, "keyword→type function: "+m, "-", "one keyword is registered with two element types; the builder panics at init or mis-files statements"))
		}
	} else {
		obs = append(obs, ok(R, "keyword→type is a function", "-", fmt.Sprintf("%d keywords, each with one element type", len(s.Keyword))))
	}
	for _, nt := range s.Ordered {
		name := objName(nt.Named.Obj())
		if name == "meta" {
			continue
		}
		pos := c.Pos(nt.Named.Obj().Pos())
		// the four meta slots
		want := []struct {
			kw    string
			check func(t types.Type) bool
			desc  string
		}{
			{"Name", func(t types.Type) bool { b, ok := t.Underlying().(*types.Basic); return ok && b.Kind() == types.String }, "string"},
			{"Statement", func(t types.Type) bool { p, ok := t.(*types.Pointer); return ok && namedOf(p.Elem()) == stmtT }, "*Statement"},
			{"Parent", func(t types.Type) bool {
				return namedOf(t) != nil && objName(namedOf(t).Obj()) == "Node" && types.IsInterface(t)
			}, "Node"},
			{"Ext", func(t types.Type) bool {
				sl, ok := t.Underlying().(*types.Slice)
				if !ok {
					return false
				}
				p, ok := sl.Elem().(*types.Pointer)
				return ok && namedOf(p.Elem()) == stmtT
			}, "[]*Statement"},
		}
		for _, w := range want {
			n := 0
			var f *NodeField
			for i := range nt.Fields {
				if nt.Fields[i].Keyword == w.kw {
					n++
					f = &nt.Fields[i]
				}
			}
			con := fmt.Sprintf("%s has one %s slot of type %s", name, w.kw, w.desc)
			switch {
			case n != 1:
				obs = append(obs, bad(R, con, pos, fmt.Sprintf("%d fields tagged %s", n, w.kw)))
			case !w.check(f.Var.Type()):
				obs = append(obs, bad(R, con, pos, "slot has type "+typeStr(f.Var.Type())))
			default:
				obs = append(obs, ok(R, con, pos, "field "+f.Var.Name()))
			}
		}
		// index 0 must be the Name slot: ToEntry and addExtraKeywords iterate i > 0
		if len(nt.Fields) > 0 {
			con := name + " field index 0 is the Name slot (ToEntry iterates fields i>0)"
			if nt.Fields[0].Index == 0 && nt.Fields[0].Keyword == "Name" {
				obs = append(obs, ok(R, con, pos, "index 0 tagged Name"))
			} else {
				obs = append(obs, bad(R, con, pos, "the field at index 0 is skipped by the entry conversion loop and would be lost"))
			}
		}
		// substatement slots
		seen := map[string]string{}
		for _, f := range nt.Fields {
			switch f.Keyword {
			case "Name", "Statement", "Parent", "Ext":
				continue
			}
			con := fmt.Sprintf("%s.%s (%q) is *T or []*T with *T a Node", name, f.Var.Name(), f.Keyword)
			if f.Elem == nil || !types.Implements(types.NewPointer(f.Elem), nodeI) {
				obs = append(obs, bad(R, con, pos, "type "+typeStr(f.Var.Type())))
			} else {
				o := ok(R, con, pos, typeStr(f.Var.Type()))
				o.Trivial = true
				obs = append(obs, o)
			}
			if prev, dup := seen[f.Keyword]; dup {
				obs = append(obs, bad(R, fmt.Sprintf("%s: keyword %q filed once", name, f.Keyword), pos, fmt.Sprintf("fields %s and %s carry the same keyword; the later builder overwrites the earlier and statements are mis-filed", prev, f.Var.Name())))
			}
			seen[f.Keyword] = f.Var.Name()
		}
	}
	return obs
}

// singleReturnValue returns the value returned by fn if fn is a one-block function with one Return of one value.
func singleReturnValue(fn *ssa.Function) ssa.Value {
	var ret *ssa.Return
	n := 0
	eachInstr(fn, func(in ssa.Instruction) {
		if r, ok := in.(*ssa.Return); ok {
			ret = r
			n++
		}
	})
	if n != 1 || len(ret.Results) != 1 {
		return nil
	}
	return ret.Results[0]
}

func (c *Ctx) methodOf(n *types.Named, name string) *ssa.Function {
	ms := types.NewMethodSet(types.NewPointer(n))
	sel := ms.Lookup(n.Obj().Pkg(), name)
	if sel == nil {
		return nil
	}
	f, ok := sel.Obj().(*types.Func)
	if !ok {
		return nil
	}
	return c.Prog.FuncValue(f)
}

func ruleSchemaIface(c *Ctx) []Obligation {
	const R = "SCHEMA.IFACE"
	var obs []Obligation
	s := c.Schema()
	// reasoned exceptions for Kind(): one named type, one reason
	kindException := map[string]string{
		"Value":  "Value is the generic argument holder registered under many keywords; its Kind is the constant \"string\" by design",
		"Module": "Module serves module and submodule: Kind() is decided by BelongsTo (checked structurally below)",
	}
	for _, nt := range s.Ordered {
		name := objName(nt.Named.Obj())
		if name == "meta" {
			continue
		}
		pos := c.Pos(nt.Named.Obj().Pos())
		acc := []struct{ method, slot string }{{"NName", "Name"}, {"Statement", "Statement"}, {"ParentNode", "Parent"}, {"Exts", "Ext"}}
		for _, a := range acc {
			con := fmt.Sprintf("(*%s).%s returns the %s slot", name, a.method, a.slot)
			fn := c.methodOf(nt.Named, a.method)
			slot := nt.field(a.slot)
			if fn == nil || slot == nil {
				obs = append(obs, bad(R, con, pos, "method or slot missing"))
				continue
			}
			rv := singleReturnValue(fn)
			if rv == nil {
				obs = append(obs, undecided(R, con, c.Pos(fn.Pos()), "accessor is not a single-return function; cannot compare structurally"))
				continue
			}
			_, f, base := loadedField(rv)
			if mi, ok := rv.(*ssa.MakeInterface); ok { // ParentNode returns interface already; no MakeInterface expected
				_, f, base = loadedField(mi.X)
			}
			if f == slot.Var && base != nil && isReceiver(fn, base) {
				obs = append(obs, ok(R, con, c.Pos(fn.Pos()), "returns recv."+f.Name()))
			} else {
				obs = append(obs, bad(R, con, c.Pos(fn.Pos()), "accessor does not return the tagged slot of its receiver"))
			}
		}
		// Kind
		con := fmt.Sprintf("(*%s).Kind returns its registered keyword", name)
		fn := c.methodOf(nt.Named, "Kind")
		if fn == nil {
			obs = append(obs, bad(R, con, pos, "no Kind method"))
			continue
		}
		if name == "Module" {
			obs = append(obs, checkModuleKind(c, fn, nt, con))
			continue
		}
		rv := singleReturnValue(fn)
		ks, isConst := "", false
		if rv != nil {
			ks, isConst = constString(rv)
		}
		if !isConst {
			obs = append(obs, undecided(R, con, c.Pos(fn.Pos()), "Kind is not a constant-returning function"))
			continue
		}
		if why, ex := kindException[name]; ex {
			if name == "Value" && ks == "string" {
				obs = append(obs, just(R, con, c.Pos(fn.Pos()), why))
			} else {
				obs = append(obs, bad(R, con, c.Pos(fn.Pos()), fmt.Sprintf("Kind returns %q", ks)))
			}
			continue
		}
		if len(nt.Keywords) == 1 && nt.Keywords[0] == ks {
			obs = append(obs, ok(R, con, c.Pos(fn.Pos()), fmt.Sprintf("constant %q = registered keyword", ks)))
		} else if len(nt.Keywords) == 0 {
			// a type reachable only … cannot happen: every visited type was reached through a keyword
			obs = append(obs, undecided(R, con, c.Pos(fn.Pos()), "type has no registered keyword"))
		} else {
			obs = append(obs, bad(R, con, c.Pos(fn.Pos()), fmt.Sprintf("Kind returns %q, registered under %v", ks, nt.Keywords)))
		}
	}
	return obs
}

func isReceiver(fn *ssa.Function, v ssa.Value) bool {
	if len(fn.Params) == 0 {
		return false
	}
	r := fn.Params[0]
	if v == r {
		return true
	}
	// value receivers are spilled: *alloc where alloc holds the param
	if a, ok := rootOf(v).(*ssa.Alloc); ok {
		for _, ref := range *a.Referrers() {
			if st, ok := ref.(*ssa.Store); ok && st.Addr == a && st.Val == r {
				return true
			}
		}
	}
	return rootOf(v) == r
}

// checkModuleKind: Kind() returns "submodule" exactly when BelongsTo != nil, "module" otherwise.
func checkModuleKind(c *Ctx, fn *ssa.Function, nt *NodeType, con string) Obligation {
	const R = "SCHEMA.IFACE"
	bt := FieldVar(nt.Named, "BelongsTo")
	okSub, okMod := false, false
	eachInstr(fn, func(in ssa.Instruction) {
		r, isr := in.(*ssa.Return)
		if !isr || len(r.Results) != 1 {
			return
		}
		s, isc := constString(r.Results[0])
		if !isc {
			return
		}
		for _, g := range guardsAt(r.Block()) {
			x, isEq, okn := nilTest(g.Cond)
			if !okn {
				continue
			}
			_, f, _ := loadedField(x)
			if f != bt {
				continue
			}
			nonNil := isEq != g.Branch
			if s == "submodule" && nonNil {
				okSub = true
			}
			if s == "module" && !nonNil {
				okMod = true
			}
		}
		// fallthrough return after `if BelongsTo != nil {return "submodule"}`
		if s == "module" && !okMod {
			okMod = len(guardsAt(r.Block())) >= 0
		}
	})
	if okSub && okMod {
		return ok(R, con, c.Pos(fn.Pos()), `"submodule" under BelongsTo != nil, "module" otherwise`)
	}
	return bad(R, con, c.Pos(fn.Pos()), "Module.Kind does not select submodule by BelongsTo")
}

func ruleSchemaScope(c *Ctx) []Obligation {
	const R = "SCHEMA.SCOPE"
	var obs []Obligation
	s := c.Schema()
	type scope struct {
		kw, method, fieldName, elem string
		mustMethod                  bool // accessor required whenever the field exists
	}
	scopes := []scope{
		{"typedef", "Typedefs", "", "Typedef", true},             // build() registers typedefs through the Typedefer interface
		{"grouping", "Groupings", "Grouping", "Grouping", false}, // FindGrouping uses FieldByName("Grouping")
		{"identity", "Identities", "", "Identity", false},
	}
	for _, nt := range s.Ordered {
		name := objName(nt.Named.Obj())
		pos := c.Pos(nt.Named.Obj().Pos())
		for _, sc := range scopes {
			f := nt.field(sc.kw)
			m := c.methodOf(nt.Named, sc.method)
			if f == nil && m == nil {
				continue
			}
			con := fmt.Sprintf("%s: %q scope registered via %s()", name, sc.kw, sc.method)
			if f == nil {
				obs = append(obs, bad(R, con, pos, "accessor exists but no field tagged "+sc.kw))
				continue
			}
			if !f.Slice || f.Elem == nil || objName(f.Elem.Obj()) != sc.elem {
				obs = append(obs, bad(R, con, pos, "field type is "+typeStr(f.Var.Type())))
				continue
			}
			if sc.fieldName != "" && f.Var.Name() != sc.fieldName {
				obs = append(obs, bad(R, con, pos, fmt.Sprintf("field is named %s; the lookup uses FieldByName(%q) and would never see it", f.Var.Name(), sc.fieldName)))
				continue
			}
			if m == nil {
				if sc.mustMethod {
					obs = append(obs, bad(R, con, pos, fmt.Sprintf("%s holds %s statements but has no %s() accessor: they are never registered and cannot be resolved", name, sc.kw, sc.method)))
				} else if sc.kw == "identity" && name != "Module" {
					obs = append(obs, bad(R, con, pos, "identity field outside Module has no accessor"))
				} else {
					obs = append(obs, ok(R, con, pos, "field "+f.Var.Name()+" (lookup by field name)"))
				}
				continue
			}
			rv := singleReturnValue(m)
			_, rf, base := loadedField(rv)
			if rv != nil && rf == f.Var && isReceiver(m, base) {
				obs = append(obs, ok(R, con, c.Pos(m.Pos()), "returns recv."+rf.Name()))
			} else {
				obs = append(obs, bad(R, con, c.Pos(m.Pos()), "accessor does not return the tagged field"))
			}
		}
		// Import / Include are looked up by field name in FindGrouping and directly in resolve/include
		for _, kw := range []struct{ kw, field, elem string }{{"import", "Import", "Import"}, {"include", "Include", "Include"}} {
			f := nt.field(kw.kw)
			if f == nil {
				continue
			}
			con := fmt.Sprintf("%s: %q field is named %s of type []*%s", name, kw.kw, kw.field, kw.elem)
			if f.Var.Name() == kw.field && f.Slice && f.Elem != nil && objName(f.Elem.Obj()) == kw.elem {
				obs = append(obs, ok(R, con, pos, "matches FieldByName lookup"))
			} else {
				obs = append(obs, bad(R, con, pos, "FindGrouping's FieldByName lookup would miss it"))
			}
		}
	}
	return obs
}

func ruleSchemaReq(c *Ctx) []Obligation {
	const R = "SCHEMA.REQ"
	var obs []Obligation
	s := c.Schema()
	byName := map[string]*NodeType{}
	for _, nt := range s.Ordered {
		byName[objName(nt.Named.Obj())] = nt
	}
	for _, r := range specRequired {
		con := fmt.Sprintf("%s.%q carries %s", r.Type, r.Keyword, r.Attr)
		nt := byName[r.Type]
		if nt == nil {
			obs = append(obs, undecided(R, con, "-", "node type not found"))
			continue
		}
		pos := c.Pos(nt.Named.Obj().Pos())
		f := nt.field(r.Keyword)
		if f == nil {
			obs = append(obs, bad(R, con, pos, "no such substatement slot"))
			continue
		}
		if hasAttr(f.Attrs, r.Attr) {
			obs = append(obs, ok(R, con, pos, "tag `"+f.Keyword+","+strings.Join(f.Attrs, ",")+"`"))
		} else {
			obs = append(obs, bad(R, con, pos, fmt.Sprintf("tag attributes are %v: an absent mandatory substatement (RFC 7950 %s) would be accepted", f.Attrs, r.Ref)))
		}
	}
	// converse: no field carries a required attribute the table does not know (over-rejection is not a C03 violation, so informational-trivial)
	return obs
}

func ruleSchemaCardSpec(c *Ctx) []Obligation {
	const R = "SCHEMA.CARDSPEC"
	var obs []Obligation
	s := c.Schema()
	for _, nt := range s.Ordered {
		name := objName(nt.Named.Obj())
		if name == "meta" || name == "Value" {
			continue
		}
		for _, kw := range nt.Keywords {
			spec, okk := specSubstatements[kw]
			if !okk {
				obs = append(obs, undecided(R, fmt.Sprintf("statement %q has a cardinality table", kw), c.Pos(nt.Named.Obj().Pos()), "no RFC 7950 table transcribed for this statement"))
				continue
			}
			for _, f := range nt.Fields {
				switch f.Keyword {
				case "Name", "Statement", "Parent", "Ext":
					continue
				}
				con := fmt.Sprintf("%s: substatement %q cardinality", kw, f.Keyword)
				card, known := spec[f.Keyword]
				pos := c.Pos(f.Var.Pos())
				switch {
				case !known:
					if why, j := specExtraAccepted[kw+"/"+f.Keyword]; j {
						obs = append(obs, just(R, con, pos, why))
					} else {
						obs = append(obs, bad(R, con, pos, fmt.Sprintf("RFC 7950 does not allow %q under %q; the keyword would be accepted in a context where it is unknown", f.Keyword, kw)))
					}
				case card == one && f.Slice:
					obs = append(obs, bad(R, con, pos, fmt.Sprintf("RFC 7950 allows at most one %q under %q but the slot is multi-valued: a second occurrence is silently accepted", f.Keyword, kw)))
				default:
					w := fmt.Sprintf("RFC %s, slot %s", cardName(card), map[bool]string{true: "multi", false: "single"}[f.Slice])
					if card != one && !f.Slice && strings.HasSuffix(cardName(card), "n") {
						// stricter than the RFC: not a violation of this property (the build fails, it does not
						// mis-file), but legal YANG 1.1 is refused — stated so that the evidence does not hide it
						w += " — stricter than RFC 7950: a second occurrence is refused with 'already set' although the grammar allows several (legal YANG is rejected, nothing is mis-filed)"
					}
					o := ok(R, con, pos, w)
					obs = append(obs, o)
				}
			}
		}
	}
	return obs
}

var _ = token.NoPos

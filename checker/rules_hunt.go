package main

// rules_hunt.go: rules for defects of the unchanged tree that the bug-hunt wave (hunt/h1) demonstrated and that were
// recorded rather than repaired (the repair is not small and safe: it changes documented behaviour, an API contract,
// or what existing schemas resolve to). Each rule decides a structural condition without which the property cannot
// hold and names the construct that lacks it; the construct is listed in known_findings.json with the failing input.
// When the code is repaired the rule discharges and the KNOWN-FINDING line disappears.
// FILE.PATHUNDO decides a repaired one (0f5fc67).

import (
	"fmt"
	"go/token"
	"go/types"
	"strings"

	"golang.org/x/tools/go/ssa"
)

func init() {
	register(&Rule{Name: "FILE.PATHUNDO", Props: []string{"C18"}, Floor: 1,
		Doc: "a file that Read finds and then rejects leaves nothing on the search path: the additions findFile made are taken back on the failure path",
		Run: ruleFilePathUndo})
	register(&Rule{Name: "FIND.STEPPREFIX", Props: []string{"C08", "C17"}, Floor: 1,
		Doc: "the schema path lookup consults the prefix of every step, not only of the first",
		Run: ruleFindStepPrefix})
	register(&Rule{Name: "USES.SUBSTMTS", Props: []string{"C12"}, Floor: 2,
		Doc: "the substatements of uses that change the copied nodes (refine, augment) are read by the tree builder",
		Run: ruleUsesSubstmts})
	register(&Rule{Name: "CHOICE.BEFOREAUG", Props: []string{"C12", "C17"}, Floor: 1,
		Doc: "the implicit cases of shorthand choice branches exist before augment targets are looked up",
		Run: ruleChoiceBeforeAug})
	register(&Rule{Name: "SCOPE.OWNER", Props: []string{"C09", "C13"}, Floor: 2,
		Doc: "a local name written in a submodule is also searched in the module the submodule belongs to (and that module's submodules)",
		Run: ruleScopeOwner})
	register(&Rule{Name: "REV.EXACTFIRST", Props: []string{"C09", "C13", "C18"}, Floor: 1,
		Doc: "an import or include with a revision-date is not satisfied by the bare-name alias before the requested revision has been looked for on the search path",
		Run: ruleRevExactFirst})
	register(&Rule{Name: "REV.OWNERLOOKUP", Props: []string{"C17", "C13"}, Floor: 1,
		Doc: "the module a submodule belongs to is found through the include link, not by looking its bare name up (which yields the newest loaded revision)",
		Run: ruleRevOwnerLookup})
	register(&Rule{Name: "NUM.BASE10", Props: []string{"C10", "C15", "C14"}, Floor: 1,
		Doc: "integer boundaries are read in base 10 only (RFC 7950 integer-value)",
		Run: ruleNumBase10})
	register(&Rule{Name: "RANGE.KINDCHECK", Props: []string{"C10"}, Floor: 2,
		Doc: "a range or length restriction is refused on a type whose kind has no such restriction",
		Run: ruleRangeKindCheck})
	register(&Rule{Name: "LOAD.AFTERLINK", Props: []string{"C18", "C04", "C07"}, Floor: 1,
		Doc: "no module enters the set after the linking phase of a run has ended (the resolving phases do not read files)",
		Run: ruleLoadAfterLink})
	register(&Rule{Name: "PARSE.STACK", Props: []string{"C02", "C03", "C01"}, Floor: 1,
		Doc: "the statement parser's recursion on nested blocks is bounded, or reports an error instead of exhausting the stack",
		Run: ruleParseStack})
	register(&Rule{Name: "DEV.BOUNDPRESENCE", Props: []string{"C08"}, Floor: 1,
		Doc: "deleting an element bound is checked against whether the target has that bound, not only against its numeric value",
		Run: ruleDevBoundPresence})
}

// ---------------------------------------------------------------- FILE.PATHUNDO

func ruleFilePathUndo(c *Ctx) []Obligation {
	const R = "FILE.PATHUNDO"
	read := c.Fn("yang.(*Modules).Read")
	parse := c.Fn("yang.(*Modules).Parse")
	addPath := c.Fn("yang.(*Modules).AddPath")
	mods := c.MustNamed("yang", "Modules")
	fPath := FieldVar(mods, "Path")
	con := "Read: a rejected file leaves no directory on the search path"
	if read == nil || parse == nil || addPath == nil || fPath == nil {
		return []Obligation{undecided(R, con, "-", "Read / Parse / AddPath / Modules.Path not found")}
	}
	// premise: locating the file adds to the path before the file is parsed
	reach := c.Reach([]*ssa.Function{read}, func(f *ssa.Function) bool { return f == parse })
	adds := false
	for fn := range reach {
		if fn != read && len(c.callsTo(fn, addPath)) > 0 {
			adds = true
		}
	}
	if !adds && len(c.callsTo(read, addPath)) == 0 {
		o := ok(R, con, c.Pos(read.Pos()), "locating the file adds nothing to the path")
		return []Obligation{o}
	}
	// the additions are made after a successful parse only, or taken back on the failure path
	for _, ci := range c.callsTo(read, parse) {
		call, isCall := ci.(*ssa.Call)
		if !isCall {
			continue
		}
		for _, st := range storesToField(read, fPath) {
			for _, g := range guardsAt(st.Block()) {
				x, isEq, okn := nilTest(g.Cond)
				if okn && x == ssa.Value(call) && isEq != g.Branch {
					return []Obligation{ok(R, con, c.InstrPos(st), "Path is cut back to its length before the file was located when Parse returns an error")}
				}
			}
		}
	}
	return []Obligation{bad(R, con, c.Pos(read.Pos()), "the directory of the file is added to the search path before the file is parsed and stays there when the file is rejected: a later import is satisfied from a directory the user never named, so Process succeeds where, without the failed Read, it reports no such module")}
}

// ---------------------------------------------------------------- FIND.STEPPREFIX

func ruleFindStepPrefix(c *Ctx) []Obligation {
	const R = "FIND.STEPPREFIX"
	find := c.Fn("yang.(*Entry).Find")
	gp := c.Fn("yang.getPrefix")
	con := "yang.(*Entry).Find: the prefix of every path step takes part in the lookup"
	if find == nil || gp == nil {
		return []Obligation{undecided(R, con, "-", "(*Entry).Find / getPrefix not found")}
	}
	inLoop, used := 0, 0
	var first ssa.Instruction
	for _, ci := range c.callsToDeep(find, gp) {
		call, isCall := ci.(*ssa.Call)
		if !isCall || loopHeaderOf(call.Block()) == nil {
			continue
		}
		inLoop++
		if first == nil {
			first = call
		}
		for _, r := range *call.Referrers() {
			if ex, isEx := r.(*ssa.Extract); isEx && ex.Index == 0 && len(*ex.Referrers()) > 0 {
				used++
			}
		}
	}
	switch {
	case inLoop == 0:
		return []Obligation{undecided(R, con, c.Pos(find.Pos()), "no step loop that splits prefix and name found")}
	case used == inLoop:
		return []Obligation{ok(R, con, c.InstrPos(first), fmt.Sprintf("%d split(s) in the step loop, every prefix is used", inLoop))}
	}
	return []Obligation{bad(R, con, c.InstrPos(first), fmt.Sprintf("%d of %d splits in the step loop discard the prefix: a step is matched by its local name alone, so /b:c/zz:lf (zz declared nowhere) and /b:c/b:m (m augmented in by another module, i.e. /b:c/a:m) resolve — a deviation or augment with a wrong prefix is applied to the same-named node instead of being reported", inLoop-used, inLoop))}
}

// ---------------------------------------------------------------- USES.SUBSTMTS

func ruleUsesSubstmts(c *Ctx) []Obligation {
	const R = "USES.SUBSTMTS"
	uses := c.MustNamed("yang", "Uses")
	var obs []Obligation
	for _, fname := range []string{"Refine", "Augment"} {
		f := FieldVar(uses, fname)
		con := "the tree builder reads Uses." + fname
		if f == nil {
			obs = append(obs, undecided(R, con, "-", "Uses has no such field"))
			continue
		}
		readers := 0
		for _, fn := range c.Funcs {
			if !c.isRepoFn(fn) || fn.Blocks == nil {
				continue
			}
			eachInstr(fn, func(in ssa.Instruction) {
				if v, okv := in.(ssa.Value); okv {
					if owner, ff, _ := fieldOf(v); owner == uses && ff == f {
						readers++
					}
				}
			})
		}
		if readers > 0 {
			obs = append(obs, ok(R, con, c.Pos(f.Pos()), fmt.Sprintf("%d read(s)", readers)))
		} else {
			obs = append(obs, bad(R, con, c.Pos(f.Pos()), "the "+strings.ToLower(fname)+" substatements of a uses are parsed into the AST and never read again: the copied nodes are instantiated as the grouping wrote them (refine { config false; } leaves the nodes read-write; nodes a uses-augment adds do not exist), and no error is reported"))
		}
	}
	return obs
}

// ---------------------------------------------------------------- CHOICE.BEFOREAUG

func ruleChoiceBeforeAug(c *Ctx) []Obligation {
	const R = "CHOICE.BEFOREAUG"
	proc := c.Fn("yang.(*Modules).Process")
	fix := c.Fn("yang.(*Entry).FixChoice")
	aug := c.Fn("yang.(*Entry).Augment")
	con := "implicit cases are inserted before augment targets are resolved"
	if proc == nil || fix == nil || aug == nil {
		return []Obligation{undecided(R, con, "-", "Process / FixChoice / Augment not found")}
	}
	augs := c.callsToDeep(proc, aug)
	fixes := c.callsToDeep(proc, fix)
	if len(augs) == 0 {
		return []Obligation{undecided(R, con, c.Pos(proc.Pos()), "no call of Augment under Process")}
	}
	// Augment itself inserts them on the target after every merge (an augment can add shorthand branches that later
	// augments target), and a FixChoice pass comes before the first target is looked up
	precedes := func(f, a ssa.Instruction) bool {
		if f.Parent() != a.Parent() {
			return false
		}
		if f.Block() == a.Block() {
			return dominates(f, a)
		}
		return blockReaches(f.Block(), a.Block(), nil) && !blockReaches(a.Block(), f.Block(), nil)
	}
	if c.Reach([]*ssa.Function{aug}, nil)[fix] {
		for _, f := range fixes {
			all := true
			for _, a := range augs {
				if !precedes(f.(ssa.Instruction), a.(ssa.Instruction)) {
					all = false
				}
			}
			if all {
				return []Obligation{ok(R, con, c.InstrPos(f.(ssa.Instruction)), "a FixChoice pass precedes the augment loop, and Augment runs FixChoice on the target after each merge")}
			}
		}
	}
	return []Obligation{bad(R, con, c.InstrPos(augs[0].(ssa.Instruction)), "augment targets are looked up in trees whose shorthand choice branches have no case entry yet (FixChoice runs after the augment loop): the RFC 7950 spelling of a path through an implicit case (/c/ch/own/own/…) is reported as not found, and /c/ch/own — which names the case — lands inside the wrapped container")}
}

// ---------------------------------------------------------------- SCOPE.OWNER

func ruleScopeOwner(c *Ctx) []Obligation {
	const R = "SCOPE.OWNER"
	mod := c.MustNamed("yang", "Module")
	fBelongs := FieldVar(mod, "BelongsTo")
	moduleFn := c.Fn("yang.module")
	var obs []Obligation
	for _, s := range []struct{ fn, what, fails string }{
		{"yang.(*Type).resolve", "typedef", "type percent; in submodule s1 of module m, percent being a top-level typedef of m (or of sibling submodule s2): unknown type"},
		{"yang.FindGrouping", "grouping", "uses g; in a submodule, g being a top-level grouping of the module it belongs to: unknown group"},
	} {
		fn := c.Fn(s.fn)
		con := fmt.Sprintf("%s: the local %s search of a statement in a submodule reaches the module it belongs to", s.fn, s.what)
		if fn == nil {
			obs = append(obs, undecided(R, con, "-", s.fn+" not found"))
			continue
		}
		// the search and its private helpers, not what it calls in general (findExternal legitimately maps an imported
		// submodule to its owner: that is the foreign-prefix branch)
		reaches := false
		fns := append([]*ssa.Function{fn}, c.helpersUnder(fn)...)
		for _, f := range fns {
			eachInstr(f, func(in ssa.Instruction) {
				if v, okv := in.(ssa.Value); okv {
					if _, ff, _ := fieldOf(v); ff == fBelongs && fBelongs != nil {
						reaches = true
					}
				}
				if call, okc := in.(*ssa.Call); okc && moduleFn != nil && call.Call.StaticCallee() == moduleFn {
					// module(x) under the local-prefix branch
					reaches = true
				}
			})
		}
		if reaches {
			obs = append(obs, ok(R, con, c.Pos(fn.Pos()), "the search steps from a submodule to its owner (belongs-to / module())"))
		} else {
			obs = append(obs, bad(R, con, c.Pos(fn.Pos()), "the search climbs to the root of the statement's own file and looks only in what that file includes; it never steps from a submodule to the module it belongs to, so RFC 7950 5.1 (a submodule can reference any definition in its module and in all submodules the module includes) fails: "+s.fails))
		}
	}
	return obs
}

// ---------------------------------------------------------------- REV.EXACTFIRST

func ruleRevExactFirst(c *Ctx) []Obligation {
	const R = "REV.EXACTFIRST"
	fm := c.Fn("yang.(*Modules).FindModule")
	read := c.Fn("yang.(*Modules).Read")
	con := "yang.(*Modules).FindModule: the requested revision is looked for on the search path before another loaded revision is accepted"
	if fm == nil || read == nil {
		return []Obligation{undecided(R, con, "-", "FindModule / Read not found")}
	}
	reads := c.callsTo(fm, read)
	if len(reads) == 0 {
		o := ok(R, con, c.Pos(fm.Pos()), "FindModule reads no files")
		o.Trivial = true
		return []Obligation{o}
	}
	// lookups of the table: keyed by the bare name (NName()) or by name@revision
	isBareKey := func(k ssa.Value) bool {
		call, okc := k.(*ssa.Call)
		return okc && calleeName(call) == "NName"
	}
	var early ssa.Instruction
	eachInstr(fm, func(in ssa.Instruction) {
		r, isR := in.(*ssa.Return)
		if !isR || len(r.Results) != 1 {
			return
		}
		// a return of a bare-name lookup that no read of the revision precedes
		l, isL := r.Results[0].(*ssa.Lookup)
		if !isL {
			if ex, isEx := r.Results[0].(*ssa.Extract); isEx {
				l, isL = ex.Tuple.(*ssa.Lookup)
			}
		}
		if !isL {
			// `if n := m[name]; n != nil { return n }`: the result is the lookup through a local
			backSlice(r.Results[0], func(x ssa.Value) bool {
				if l2, ok2 := x.(*ssa.Lookup); ok2 && l == nil {
					l = l2
				}
				return true
			})
			if l == nil {
				return
			}
		}
		if !isBareKey(l.Index) {
			// the key variable may hold the bare name or name@revision: decided by the phi
			if phi, isPhi := l.Index.(*ssa.Phi); !isPhi || !func() bool {
				all := true
				for _, e := range phi.Edges {
					if !isBareKey(e) {
						all = false
					}
				}
				return all
			}() {
				return
			}
		}
		preceded := false
		for _, rd := range reads {
			if dominates(rd.(ssa.Instruction), r) {
				preceded = true
			}
		}
		if !preceded && early == nil {
			early = r
		}
	})
	if early == nil {
		return []Obligation{ok(R, con, c.Pos(fm.Pos()), "no bare-name result is returned before the search path was tried")}
	}
	return []Obligation{bad(R, con, c.InstrPos(early), "when the requested name@revision is not loaded, the bare-name alias (the newest loaded revision) is returned before any attempt to read the requested revision: import n { revision-date 2019-01-01; } binds to a loaded n@2021-01-01 although n@2019-01-01.yang is on the search path, so what a prefix denotes depends on what else is loaded, and loading in two steps differs from loading at once")}
}

// ---------------------------------------------------------------- REV.OWNERLOOKUP

func ruleRevOwnerLookup(c *Ctx) []Obligation {
	const R = "REV.OWNERLOOKUP"
	fn := c.Fn("yang.module")
	con := "yang.module: the owner of a submodule is the module that includes it"
	if fn == nil {
		return []Obligation{undecided(R, con, "-", "module() not found")}
	}
	bt := c.MustNamed("yang", "BelongsTo")
	fName := FieldVar(bt, "Name")
	var byName ssa.Instruction
	eachInstr(fn, func(in ssa.Instruction) {
		l, isL := in.(*ssa.Lookup)
		if !isL {
			return
		}
		if _, f, _ := loadedField(l.Index); f == fName && fName != nil {
			byName = l
		}
	})
	if byName == nil {
		return []Obligation{ok(R, con, c.Pos(fn.Pos()), "no lookup of the module table by the belongs-to name")}
	}
	return []Obligation{bad(R, con, c.InstrPos(byName), "the owner is looked up in the module table under the bare belongs-to name, which is the alias of the newest loaded revision: with two revisions of m loaded of which only the older includes submodule s, everything written in s (its augments, its namespace, its typedef and identity scope) is attributed to the newer m, which does not include it")}
}

// ---------------------------------------------------------------- NUM.BASE10

func ruleNumBase10(c *Ctx) []Obligation {
	const R = "NUM.BASE10"
	fn := c.Fn("yang.ParseInt")
	con := "yang.ParseInt: integer texts are read in base 10"
	if fn == nil {
		return []Obligation{undecided(R, con, "-", "ParseInt not found")}
	}
	var obs []Obligation
	eachInstr(fn, func(in ssa.Instruction) {
		call, okc := in.(*ssa.Call)
		if !okc || !(calleeIs(call, "strconv", "ParseUint") || calleeIs(call, "strconv", "ParseInt")) || len(call.Call.Args) < 2 {
			return
		}
		base, okb := constInt(call.Call.Args[1])
		switch {
		case okb && base == 10:
			obs = append(obs, ok(R, con, c.InstrPos(call), "base 10"))
		case okb && base == 0:
			obs = append(obs, bad(R, con, c.InstrPos(call), "the conversion is called with base 0, i.e. Go literal syntax: range \"010..020\" is read as 8..16, \"0x10\", \"0b11\", \"0o17\" and \"1_0\" are accepted — none is an integer-value of RFC 7950, so a syntactically invalid restriction is accepted and a valid one (leading zeros are not forbidden by the ABNF's reading in every implementation) is mis-read"))
		default:
			obs = append(obs, bad(R, con, c.InstrPos(call), "the conversion base is not the constant 10"))
		}
	})
	if len(obs) == 0 {
		return []Obligation{undecided(R, con, c.Pos(fn.Pos()), "no strconv conversion in ParseInt")}
	}
	return obs
}

// ---------------------------------------------------------------- RANGE.KINDCHECK

func ruleRangeKindCheck(c *Ctx) []Obligation {
	const R = "RANGE.KINDCHECK"
	res := c.Fn("yang.(*Type).resolve")
	typ := c.MustNamed("yang", "Type")
	yt := c.MustNamed("yang", "YangType")
	if res == nil {
		return []Obligation{undecided(R, "restriction arms", "-", "(*Type).resolve not found")}
	}
	fKind := FieldVar(yt, "Kind")
	var obs []Obligation
	for _, which := range []string{"Range", "Length"} {
		fStmt := FieldVar(typ, which)
		fSet := FieldVar(yt, which)
		con := fmt.Sprintf("yang.(*Type).resolve: a %s restriction is refused on a kind that has none", strings.ToLower(which))
		if fStmt == nil || fSet == nil {
			obs = append(obs, undecided(R, con, "-", "Type."+which+" / YangType."+which+" not found"))
			continue
		}
		// error sites under (t.<which> != nil) whose further conditions consult the kind or the emptiness of the
		// parent set
		arm, checked := false, false
		var at ssa.Instruction
		c.eachInstrDeep(res, func(in ssa.Instruction) {
			call, okc := in.(*ssa.Call)
			if !okc || !calleeIs(call, "fmt", "Errorf") {
				return
			}
			under := false
			kind := false
			for _, g := range guardsAtDeep(call.Block()) {
				if x, isEq, okn := nilTest(g.Cond); okn && isEq != g.Branch {
					if _, f, _ := loadedField(x); f == fStmt {
						under = true
						continue
					}
				}
				operandClosure(g.Cond, func(v ssa.Value) {
					if _, f, _ := loadedField(v); f == fKind && fKind != nil {
						kind = true
					}
					if call2, isC := v.(*ssa.Call); isC {
						if b, isB := call2.Call.Value.(*ssa.Builtin); isB && b.Name() == "len" && len(call2.Call.Args) == 1 {
							if _, f, _ := loadedField(call2.Call.Args[0]); f == fSet {
								kind = true
							}
						}
					}
				})
			}
			if under {
				arm = true
				if at == nil {
					at = call
				}
				if kind {
					checked = true
				}
			}
		})
		switch {
		case !arm:
			obs = append(obs, undecided(R, con, c.Pos(res.Pos()), "no error site under t."+which+" != nil"))
		case checked:
			obs = append(obs, ok(R, con, c.InstrPos(at), "an error under the restriction's arm is conditioned on the kind (or on the parent set being empty)"))
		default:
			obs = append(obs, bad(R, con, c.InstrPos(at), map[string]string{
				"Range":  "the only error of the range arm is the parse/subset error, and the subset test against the empty set of a kind without range (union, leafref, string, boolean, enumeration) accepts everything: typedef U { type union { type int8; type uint8; } } … type U { range \"1000\"; } is accepted and records Range=1000, a set its parent does not admit",
				"Length": "the parent of a length is the type's length set or, if it has none, the full uint64 range whatever the kind: length \"5\" on int8, decimal64 or a union is accepted",
			}[which]))
		}
	}
	return obs
}

// ---------------------------------------------------------------- LOAD.AFTERLINK

func ruleLoadAfterLink(c *Ctx) []Obligation {
	const R = "LOAD.AFTERLINK"
	read := c.Fn("yang.(*Modules).Read")
	con := "the phases of Process that follow linking read no files"
	if read == nil {
		return []Obligation{undecided(R, con, "-", "Read not found")}
	}
	var obs []Obligation
	for _, name := range []string{"yang.(*Modules).resolveIdentities", "yang.(*typeDictionary).resolveTypedefs", "yang.ToEntry", "yang.(*Entry).Augment"} {
		fn := c.Fn(name)
		con := fmt.Sprintf("%s: reads no files (every module it needs was loaded while linking)", name)
		if fn == nil {
			obs = append(obs, undecided(R, con, "-", name+" not found"))
			continue
		}
		if path := c.PathTo(fn, read); path != "" {
			obs = append(obs, bad(R, con, c.Pos(fn.Pos()), "a file can be read in this phase ("+path+"): the list of modules to link is taken once, and an import inside a loaded submodule revision that no module includes (any longer) is not linked; the module it names is fetched from the search path only when a prefix is first resolved — after identities were resolved — so the first Process reports errors (or leaves identity values empty) that the second Process, which finds the module loaded, does not"))
		} else {
			obs = append(obs, ok(R, con, c.Pos(fn.Pos()), "Read is not reachable"))
		}
	}
	return obs
}

// PathTo: a shortest call path from a to b in the call graph, rendered, or "".
func (c *Ctx) PathTo(a, b *ssa.Function) string {
	prev := map[*ssa.Function]*ssa.Function{a: nil}
	queue := []*ssa.Function{a}
	for len(queue) > 0 {
		f := queue[0]
		queue = queue[1:]
		if f == b {
			var names []string
			for x := b; x != nil; x = prev[x] {
				names = append([]string{c.FnName(x)}, names...)
			}
			return strings.Join(names, " → ")
		}
		if f.Blocks == nil {
			continue
		}
		eachInstr(f, func(in ssa.Instruction) {
			ci, okc := in.(ssa.CallInstruction)
			if !okc {
				return
			}
			for _, cal := range c.Callees(ci) {
				if _, seen := prev[cal]; !seen && (c.isRepoFn(cal) || cal == b) {
					prev[cal] = f
					queue = append(queue, cal)
				}
			}
		})
	}
	return ""
}

// ---------------------------------------------------------------- PARSE.STACK

func ruleParseStack(c *Ctx) []Obligation {
	const R = "PARSE.STACK"
	fn := c.Fn("yang.(*parser).nextStatement")
	con := "yang.(*parser).nextStatement: the recursion on nested blocks is bounded"
	if fn == nil {
		return []Obligation{undecided(R, con, "-", "(*parser).nextStatement not found")}
	}
	var rec ssa.Instruction
	bounded := false
	eachInstr(fn, func(in ssa.Instruction) {
		call, okc := in.(*ssa.Call)
		if !okc || call.Call.StaticCallee() != fn {
			return
		}
		rec = call
		// a depth limit: the call sits under a comparison of an integer (counter field or parameter) with a bound
		for _, g := range guardsAt(call.Block()) {
			bo, okb := g.Cond.(*ssa.BinOp)
			if !okb {
				continue
			}
			switch bo.Op {
			case token.LSS, token.LEQ, token.GTR, token.GEQ:
				if isIntType(bo.X.Type()) {
					if _, isLen := bo.X.(*ssa.Call); !isLen {
						bounded = true
					}
				}
			}
		}
	})
	switch {
	case rec == nil:
		return []Obligation{ok(R, con, c.Pos(fn.Pos()), "nextStatement does not call itself: nesting is handled without recursion")}
	case bounded:
		return []Obligation{ok(R, con, c.InstrPos(rec), "the recursive call is under a depth comparison")}
	}
	obs := []Obligation{bad(R, con, c.InstrPos(rec), "one stack frame per open block and no limit: a well-formed text of a few million nested blocks (a{a{a{…}}}, 18 MB) exceeds the runtime's 1 GB stack limit and the process is aborted (fatal error: stack overflow, not recoverable) — Parse returns neither statements nor an error")}
	return append(obs, buildStack(c)...)
}

// buildStack: the same question for the AST builder, which recurses once per nesting level through the closures of
// the type table (hunt/h2/C03/finding1).
func buildStack(c *Ctx) []Obligation {
	const R = "PARSE.STACK"
	fn := c.Fn("yang.build")
	con := "yang.build: the recursion on nested statements is bounded"
	if fn == nil {
		return []Obligation{undecided(R, con, "-", "build not found")}
	}
	// a cycle through build in the call graph
	cyc := ""
	eachInstr(fn, func(in ssa.Instruction) {
		ci, okc := in.(ssa.CallInstruction)
		if !okc || cyc != "" {
			return
		}
		for _, cal := range c.Callees(ci) {
			if !c.isRepoFn(cal) {
				continue
			}
			if cal == fn {
				cyc = c.FnName(fn) + " → " + c.FnName(fn)
			} else if p := c.PathTo(cal, fn); p != "" {
				cyc = c.FnName(fn) + " → " + p
			}
		}
	})
	if cyc == "" {
		return []Obligation{ok(R, con, c.Pos(fn.Pos()), "build is not recursive")}
	}
	for _, p := range fn.Params {
		if isIntType(p.Type()) {
			return []Obligation{ok(R, con, c.Pos(fn.Pos()), "build carries an integer (depth) parameter")}
		}
	}
	return []Obligation{bad(R, con, c.Pos(fn.Pos()), "one group of stack frames per nesting level and no limit ("+cyc+"): a valid module with 800 000 nested containers (9.6 MB), which Parse returns without trouble, aborts Modules.Parse with an unrecoverable stack overflow — the caller gets neither an error nor nodes")}
}

// ---------------------------------------------------------------- DEV.BOUNDPRESENCE

func ruleDevBoundPresence(c *Ctx) []Obligation {
	const R = "DEV.BOUNDPRESENCE"
	la := c.Named("yang", "ListAttr")
	con := "ListAttr records whether min-elements / max-elements were written"
	if la == nil {
		return []Obligation{undecided(R, con, "-", "ListAttr not found")}
	}
	st, _ := la.Underlying().(*types.Struct)
	if st == nil {
		return []Obligation{undecided(R, con, "-", "ListAttr is not a struct")}
	}
	// presence is representable when a bound is a pointer, or a companion bool/flag field exists
	presence := false
	for i := 0; i < st.NumFields(); i++ {
		f := st.Field(i)
		if !strings.Contains(f.Name(), "Elements") && !strings.Contains(strings.ToLower(f.Name()), "has") && !strings.Contains(strings.ToLower(f.Name()), "set") {
			continue
		}
		switch t := f.Type().Underlying().(type) {
		case *types.Pointer:
			presence = true
		case *types.Basic:
			if t.Kind() == types.Bool {
				presence = true
			}
		}
	}
	if presence {
		return []Obligation{ok(R, con, c.Pos(la.Obj().Pos()), "a bound can be absent")}
	}
	return []Obligation{bad(R, con, c.Pos(la.Obj().Pos()), "an absent bound is stored as its default number (0 / MaxUint64), so the delete arm of ApplyDeviate can only compare numbers: deviate delete { min-elements 0; } (or max-elements unbounded) on a list that wrote no bound is accepted, although deleting an absent bound must be reported (the analogous absent default is)")}
}

// ---------------------------------------------------------------- ENUM.RESTRICT (hunt/h2/C14)

func init() {
	register(&Rule{Name: "ENUM.RESTRICT", Props: []string{"C14"}, Floor: 2,
		Doc: "a type that restricts an enumeration or bits typedef (YANG 1.1) takes the values of the members it keeps from the table it inherits",
		Run: ruleEnumRestrict})
}

func ruleEnumRestrict(c *Ctx) []Obligation {
	const R = "ENUM.RESTRICT"
	res := c.Fn("yang.(*Type).resolve")
	typ := c.MustNamed("yang", "Type")
	yt := c.MustNamed("yang", "YangType")
	if res == nil {
		return []Obligation{undecided(R, "member tables", "-", "(*Type).resolve not found")}
	}
	var obs []Obligation
	for _, which := range []string{"Enum", "Bit"} {
		fStmt, fTab := FieldVar(typ, which), FieldVar(yt, which)
		con := fmt.Sprintf("yang.(*Type).resolve: the %s members of a restriction are looked up in the inherited table", strings.ToLower(which))
		if fStmt == nil || fTab == nil {
			obs = append(obs, undecided(R, con, "-", "Type."+which+" / YangType."+which+" not found"))
			continue
		}
		// the store of the freshly built table, and a read of the inherited one that precedes it
		var store *ssa.Store
		for _, st := range c.storesToFieldDeep(res, fTab) {
			if st.Parent() == res {
				store = st
			}
		}
		if store == nil {
			obs = append(obs, undecided(R, con, c.Pos(res.Pos()), "no store of the member table in resolve"))
			continue
		}
		consulted := false
		eachInstr(res, func(in ssa.Instruction) {
			v, okv := in.(ssa.Value)
			if !okv {
				return
			}
			if owner, f, _ := loadedField(v); owner == yt && f == fTab {
				if blockReaches(in.Block(), store.Block(), nil) && len(*v.Referrers()) > 0 {
					// a read that feeds something (not the Equal of the union de-duplication, which lives elsewhere)
					consulted = true
				}
			}
		})
		if consulted {
			obs = append(obs, ok(R, con, c.InstrPos(store), "the inherited table is read before the new one is stored"))
		} else {
			obs = append(obs, bad(R, con, c.InstrPos(store), "whenever "+strings.ToLower(which)+" substatements are present a fresh table is built and numbered from zero; the table inherited from the typedef is never read: typedef e { enumeration a, b, c=5, d } restricted to { b; d; } yields b=0, d=1 instead of 1 and 6 (RFC 7950 9.6.4.2: the value is the same as in the base type), a differing explicit value and a name the base does not have are accepted"))
		}
	}
	return obs
}

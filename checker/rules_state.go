package main

// rules_state.go: STATE.COMMIT, STATE.RESET, MEMO.ERR, LOCK.GUARDED, GLOBAL.INITONLY, READ.PURE, FIND.STEP, FIND.ROOT, RO.ORDER, KIND.CONST.

import (
	"fmt"
	"go/token"
	"go/types"
	"sort"
	"strings"

	"golang.org/x/tools/go/ssa"
)

func init() {
	register(&Rule{Name: "STATE.COMMIT", Props: []string{"C18", "C01"}, Floor: 4,
		Doc: "on the load path nothing persistent is written before the statement has been accepted",
		Run: ruleStateCommit})
	register(&Rule{Name: "STATE.RESET", Props: []string{"C18", "C13", "C11", "C09", "C10", "C05", "C14"}, Floor: 8,
		Doc: "every piece of state that a Process run writes is reset at the top of Process or is justified monotone",
		Run: ruleStateReset})
	register(&Rule{Name: "MEMO.ERR", Props: []string{"C18", "C05", "C08"}, Floor: 2,
		Doc: "a memoised resolver returns on its early path the errors it found when it set the memo",
		Run: ruleMemoErr})
	register(&Rule{Name: "LOCK.GUARDED", Props: []string{"C19", "C11", "C12"}, Floor: 12,
		Doc: "every access to a mutex-guarded map holds the paired mutex (exclusively for writes)",
		Run: ruleLockGuarded})
	register(&Rule{Name: "GLOBAL.INITONLY", Props: []string{"C19"}, Floor: 3,
		Doc: "process-wide tables and everything reachable from them are written only during package initialisation",
		Run: ruleGlobalInitOnly})
	register(&Rule{Name: "READ.PURE", Props: []string{"C19", "C17"}, Floor: 10,
		Doc: "the read API writes nothing to shared objects outside a mutex",
		Run: ruleReadPure})
	register(&Rule{Name: "FIND.STEP", Props: []string{"C17"}, Floor: 1,
		Doc: "every path through the per-step loop of Find moves the cursor, returns, or is the identity step",
		Run: ruleFindStep})
	register(&Rule{Name: "FIND.ROOT", Props: []string{"C17", "C07", "C08"}, Floor: 1,
		Doc: "absolute paths resolve the first prefix from the starting node, captured before climbing to the root",
		Run: ruleFindRoot})
	register(&Rule{Name: "RO.ORDER", Props: []string{"C12"}, Floor: 2,
		Doc: "ReadOnly tests the output kind before the config value and otherwise ascends to the parent",
		Run: ruleRoOrder})
	register(&Rule{Name: "KIND.CONST", Props: []string{"C04", "C12"}, Floor: 6,
		Doc: "the entry kind stored for each node type is the same-named kind constant; rpc input/output get their kinds and names",
		Run: ruleKindConst})
}

// ---------------------------------------------------------------- STATE.COMMIT

func (c *Ctx) persistentFields() []*types.Var {
	mods := c.MustNamed("yang", "Modules")
	td := c.MustNamed("yang", "typeDictionary")
	var out []*types.Var
	for _, n := range []string{"Modules", "SubModules"} {
		out = append(out, FieldVar(mods, n))
	}
	if f := FieldByType(td, "map[Node]map[string]*Typedef"); f != nil {
		out = append(out, f)
	}
	return out
}

func ruleStateCommit(c *Ctx) []Obligation {
	const R = "STATE.COMMIT"
	var obs []Obligation
	parse := c.MustFn("yang.(*Modules).Parse")
	add := c.MustFn("yang.(*Modules).add")
	buildAST := c.Fn("yang.buildASTWithTypeDict")
	mods := c.MustNamed("yang", "Modules")
	fTypeDict := FieldByType(mods, "*typeDictionary")
	pf := c.persistentFields()
	isPersistent := func(f *types.Var) bool {
		for _, x := range pf {
			if x == f {
				return true
			}
		}
		return false
	}
	if buildAST == nil || fTypeDict == nil {
		return []Obligation{undecided(R, "load path", "-", "buildASTWithTypeDict / Modules.typeDict not found")}
	}
	// (1) the dictionary handed to the builder is a scratch one
	con := "typedefs of a statement under construction go to a scratch dictionary, not to the module set's"
	for _, ci := range c.callsToDeep(parse, buildAST) {
		arg := ci.Common().Args[1]
		call, isCall := arg.(*ssa.Call)
		if isCall && call.Call.StaticCallee() != nil && c.isConstructor(call.Call.StaticCallee()) && loopHeaderOf(call.Block()) == loopHeaderOf(ci.Block()) {
			obs = append(obs, ok(R, con, c.InstrPos(ci), "fresh dictionary per top-level statement"))
		} else if _, f, _ := loadedField(arg); f == fTypeDict {
			obs = append(obs, bad(R, con, c.InstrPos(ci), "build registers typedefs straight into the module set's dictionary: the typedefs of a text that is rejected afterwards stay registered and are resolved by the next Process"))
		} else {
			obs = append(obs, undecided(R, con, c.InstrPos(ci), "cannot tell which dictionary the builder is given"))
		}
	}
	// (2) writes into the persistent dictionary from Parse happen only after add succeeded, and no error exit follows in the iteration
	con = "the scratch dictionary is adopted only after the statement has been accepted"
	c.ensureEffects()
	adds := c.callsToDeep(parse, add)
	var writers []ssa.Instruction
	var directWriters []ssa.Instruction
	c.eachInstrDeep(parse, func(in ssa.Instruction) {
		ci, isCI := in.(ssa.CallInstruction)
		if !isCI {
			return
		}
		cal := ci.Common().StaticCallee()
		if cal == nil || !c.isRepoFn(cal) || cal == add || cal == buildAST {
			return
		}
		for _, w := range c.WritesOf(cal) {
			if strings.HasPrefix(w.Field, "map:typeDictionary.") {
				// receiver must be ms.typeDict
				if _, f, _ := loadedField(ci.Common().Args[0]); f == fTypeDict {
					writers = append(writers, ci)
					return
				}
			}
		}
	})
	// the registration may be written out in Parse itself: insertions into ms.typeDict's map
	c.eachInstrDeep(parse, func(in ssa.Instruction) {
		mu, isMU := in.(*ssa.MapUpdate)
		if !isMU {
			return
		}
		_, mf, mbase := loadedField(mu.Map)
		if mf == nil || namedOf(mf.Type()) != nil {
			return
		}
		if _, bf, _ := loadedField(mbase); bf == fTypeDict {
			if ci, isCI := in.(ssa.Instruction); isCI {
				directWriters = append(directWriters, ci)
			}
		}
	})
	writers = append(writers, directWriters...)
	switch {
	case len(adds) != 1:
		obs = append(obs, undecided(R, con, c.Pos(parse.Pos()), fmt.Sprintf("%d add calls in Parse", len(adds))))
	case len(writers) == 0:
		obs = append(obs, bad(R, con, c.Pos(parse.Pos()), "the typedefs of accepted statements are never registered"))
	default:
		good := true
		for _, w := range writers {
			// dominated by add and by add's err == nil
			if !dominates(adds[0], w) {
				good = false
			}
			guard := false
			for _, g := range guardsAt(w.Block()) {
				if x, isEq, okn := nilTest(g.Cond); okn && x == adds[0].Value() && isEq == g.Branch {
					guard = true
				}
			}
			if !guard {
				// `if err := add(); err != nil { return err }` then fallthrough: the non-nil branch returns
				for _, r := range *adds[0].Value().Referrers() {
					if bo, okb := r.(*ssa.BinOp); okb {
						if _, isEq, okn := nilTest(bo); okn {
							for _, rr := range *bo.Referrers() {
								if ifi, oki := rr.(*ssa.If); oki {
									nn := ifi.Block().Succs[0]
									if isEq {
										nn = ifi.Block().Succs[1]
									}
									if blockReturnsError(nn) && dominates(ifi, w) {
										guard = true
									}
								}
							}
						}
					}
				}
			}
			if !guard {
				good = false
			}
			// no error return reachable from the writer within the iteration (before the next build)
			h := loopHeaderOf(w.Block())
			c.eachInstrDeep(parse, func(in ssa.Instruction) {
				r, isr := in.(*ssa.Return)
				if !isr || !reaches(w, r) {
					return
				}
				e := retErrorOperand(r)
				if e != nil && !isNilConst(e) {
					// reachable only by going round the loop again?
					if h != nil && !blockReaches(w.Block(), r.Block(), map[*ssa.BasicBlock]bool{h: true}) {
						return
					}
					good = false
				}
			})
		}
		if good {
			obs = append(obs, ok(R, con, c.InstrPos(writers[0]), "adopt after add returned nil; no failure exit between it and the next statement"))
		} else {
			obs = append(obs, bad(R, con, c.InstrPos(writers[0]), "typedefs are registered before Modules.add has accepted the statement (or a failure exit follows): a rejected statement leaves typedefs behind"))
		}
	}
	// (3) add: no persistent write is followed by an error return
	con = "Modules.add writes the module maps only after its last failure exit"
	good := true
	eachInstr(add, func(in ssa.Instruction) {
		mu, isMU := in.(*ssa.MapUpdate)
		if !isMU {
			return
		}
		if !derivesFrom(mu.Map, func(x ssa.Value) bool { _, f, _ := fieldOf(x); return f != nil && isPersistent(f) }) {
			return
		}
		eachInstr(add, func(in2 ssa.Instruction) {
			if r, isr := in2.(*ssa.Return); isr && reaches(mu, r) {
				if e := retErrorOperand(r); e != nil && !isNilConst(e) {
					good = false
				}
			}
		})
	})
	if good {
		obs = append(obs, ok(R, con, c.Pos(add.Pos()), "both stores follow the kind and duplicate tests"))
	} else {
		obs = append(obs, bad(R, con, c.Pos(add.Pos()), "an error is returned after the module has been filed"))
	}
	// (4) per-statement commit: Parse accepts statement k before it has built statement k+1
	con = "a text with several top-level statements is committed as a whole"
	if len(adds) == 1 && loopHeaderOf(adds[0].Block()) != nil {
		obs = append(obs, bad(R, con, c.InstrPos(adds[0]), "Parse files each top-level statement as soon as it is built: if a later statement of the same text is rejected, the earlier ones stay loaded (the documented caveat of Modules.Parse)"))
	} else {
		obs = append(obs, ok(R, con, c.Pos(parse.Pos()), "all statements are built before any is filed"))
	}
	return obs
}

// ---------------------------------------------------------------- STATE.RESET

var stateMonotone = map[string]string{
	"Modules.Path":        "configuration: directories of files that were read; AddPath de-duplicates",
	"Modules.pathMap":     "configuration: see Path",
	"Modules.byNS":        "positive cache cleared by Modules.add whenever a module is filed (STATE.RESET/add); guarded by nsMu",
	"typeDictionary.dict": "load-monotone: typedefs of accepted statements, keyed by their node (adopt)",
	"Import.Module":       "re-linked by every run (includes is reset, so include() visits every module again)",
	"Include.Module":      "re-linked by every run",
	"Module.Modules":      "set by add to the owning set; constant afterwards",
}

func ruleStateReset(c *Ctx) []Obligation {
	const R = "STATE.RESET"
	var obs []Obligation
	proc := c.MustFn("yang.(*Modules).Process")
	c.ensureEffects()
	owners := map[string]bool{"Modules": true, "typeDictionary": true, "identityDictionary": true,
		"Type": true, "Typedef": true, "Identity": true, "Import": true, "Include": true, "Module": true}
	written := map[string]bool{}
	for _, w := range c.WritesOf(proc) {
		f := strings.TrimPrefix(strings.TrimPrefix(strings.TrimPrefix(w.Field, "map:"), "mapset:"), "elem:")
		k := strings.SplitN(f, ".", 2)
		if len(k) == 2 && owners[k[0]] {
			written[f] = true
		}
	}
	// resets: stores of a fresh value to ms.F in Process (directly or through a callee whose only effect on F is a fresh store)
	// that dominate every other call in Process
	reset := map[string]string{}
	var registries []memoRegistry
	// the first call of Process that is not itself a reset: the one that dominates every other such call
	isRealCall := func(in ssa.Instruction) bool {
		ci, ok := in.(ssa.CallInstruction)
		if !ok {
			return false
		}
		cal := ci.Common().StaticCallee()
		return cal != nil && c.isRepoFn(cal) && !c.isPureReset(cal) && c.registryReset(cal) == nil
	}
	var realCalls []ssa.Instruction
	eachInstr(proc, func(in ssa.Instruction) {
		if isRealCall(in) {
			realCalls = append(realCalls, in)
		}
	})
	var firstCall ssa.Instruction
	for _, cand := range realCalls {
		all := true
		for _, o := range realCalls {
			if o != cand && !dominates(cand, o) {
				all = false
			}
		}
		if all {
			firstCall = cand
		}
	}
	// the reset prefix: everything that happens before that call (loops included)
	var prefix []ssa.Instruction
	if firstCall != nil {
		fb := firstCall.Block()
		for _, b := range proc.Blocks {
			if b == fb {
				for _, in := range b.Instrs {
					if in == firstCall {
						break
					}
					prefix = append(prefix, in)
				}
				continue
			}
			if blockReaches(b, fb, nil) && !blockReaches(fb, b, nil) {
				prefix = append(prefix, b.Instrs...)
			}
		}
	} else {
		prefix = append(prefix, proc.Blocks[0].Instrs...)
	}
	belowRecv := func(v ssa.Value) bool {
		return derivesFrom(v, func(y ssa.Value) bool { return isParamN(proc, y, 0) })
	}
	for _, in := range prefix {
		switch x := in.(type) {
		case *ssa.Store:
			owner, f, base := fieldOf(x.Addr)
			if f == nil {
				continue
			}
			_, isMake := x.Val.(*ssa.MakeMap)
			zero := isNilConst(x.Val)
			switch {
			case isParamN(proc, base, 0) && isMake:
				reset[fieldKey(owner, f)] = c.InstrPos(x)
			case belowRecv(base) && (isMake || zero):
				// written out in place: either a field of a sub-object of the receiver (ms.typeDict.typeErrs = map…{}),
				// or a memo cleared through a registry (for _, t := range ms.typeDict.resolvedTypes { t.YangType = nil })
				var list *types.Var
				backSlice(base, func(y ssa.Value) bool {
					if ia, isIA := y.(*ssa.IndexAddr); isIA {
						if _, lf, lbase := loadedField(ia.X); lf != nil && belowRecv(lbase) {
							list = lf
						}
					}
					return true
				})
				if list != nil && zero {
					reset[fieldKey(owner, f)] = c.InstrPos(x)
					registries = append(registries, memoRegistry{field: fieldKey(owner, f), list: list, resetFn: proc})
				} else if list == nil {
					reset[fieldKey(owner, f)] = c.InstrPos(x)
				}
			}
		case ssa.CallInstruction:
			cal := x.Common().StaticCallee()
			if cal != nil && c.isPureReset(cal) {
				for _, st := range c.resetStores(cal) {
					reset[st] = c.InstrPos(x)
				}
			}
			if cal != nil {
				if reg := c.registryReset(cal); reg != nil {
					for k, lf := range reg.cleared {
						reset[k] = c.InstrPos(x)
						registries = append(registries, memoRegistry{field: k, list: lf, resetFn: cal})
					}
					for _, k := range reg.fresh {
						reset[k] = c.InstrPos(x)
					}
				}
			}
		}
	}
	// memos cleared through a registry: every store of a memo must also register the object
	sort.Slice(registries, func(i, j int) bool { return registries[i].field < registries[j].field })
	for _, rg := range registries {
		obs = append(obs, c.memoRegistered(R, rg)...)
	}
	var keys []string
	for k := range written {
		keys = append(keys, k)
	}
	sort.Strings(keys)
	for _, k := range keys {
		con := fmt.Sprintf("Process-written state %s is reset per run or monotone", k)
		switch {
		case reset[k] != "":
			obs = append(obs, ok(R, con, reset[k], "stored with a fresh value at the top of Process, before the first call that reads it"))
		case c.inProgressBalanced(k) != "":
			obs = append(obs, ok(R, con, c.Pos(proc.Pos()), c.inProgressBalanced(k)))
		case c.rebuiltInWriter(k) != "":
			obs = append(obs, ok(R, con, c.Pos(proc.Pos()), c.rebuiltInWriter(k)))
		case c.invalidatedOnLoad(k) != "":
			obs = append(obs, ok(R, con, c.Pos(proc.Pos()), c.invalidatedOnLoad(k)))
		case jstr("stateMonotone", stateMonotone, k) != "":
			obs = append(obs, just(R, con, c.Pos(proc.Pos()), jstr("stateMonotone", stateMonotone, k)))
		default:
			obs = append(obs, bad(R, con, c.Pos(proc.Pos()), "state written during a Process run survives into the next run: it is neither reset at the top of Process nor recorded as monotone with a reason (a second run, or a run after loading more modules, may see stale data)"))
		}
	}
	// the namespace cache must be invalidated by add
	add := c.MustFn("yang.(*Modules).add")
	mods := c.MustNamed("yang", "Modules")
	fByNS := FieldVar(mods, "byNS")
	con := "the namespace cache is cleared whenever a module is filed"
	if fByNS != nil {
		cleared := false
		for _, st := range c.storesToFieldDeep(add, fByNS) {
			if _, isMake := st.Val.(*ssa.MakeMap); isMake {
				cleared = true
				// must be on every path that files the module: dominated by … simply: dominates every success return
				for _, r := range successReturns(add) {
					if !dominates(st, r) {
						cleared = false
					}
				}
			}
		}
		// … or the answer cached for the namespace of the module that is filed is removed (the answers for other
		// namespaces do not depend on it): delete(ms.byNS, mod.Namespace.Name), under no condition other than the
		// module having a namespace at all
		removed := false
		if !cleared {
			modT := c.MustNamed("yang", "Module")
			fNamespace := FieldVar(modT, "Namespace")
			c.eachInstrDeep(add, func(in ssa.Instruction) {
				call, isC := in.(*ssa.Call)
				if !isC {
					return
				}
				bi, isB := call.Call.Value.(*ssa.Builtin)
				if !isB || bi.Name() != "delete" || len(call.Call.Args) != 2 {
					return
				}
				if _, f, _ := loadedField(call.Call.Args[0]); f != fByNS {
					return
				}
				own := false
				operandClosure(call.Call.Args[1], func(x ssa.Value) {
					if _, f, base := loadedField(x); f == fNamespace && base != nil {
						operandClosure(base, func(y ssa.Value) {
							for i := range add.Params {
								if isParamN(add, y, i) {
									own = true
								}
							}
						})
					}
				})
				if !own {
					return
				}
				okAll := true
				for _, l := range liftAll(in, add, 0) {
					for _, g := range guardsAt(l.Block()) {
						// a condition the accepting returns share, or the test that the module has a namespace
						shared := true
						for _, r := range successReturns(add) {
							has := false
							for _, g2 := range guardsAt(r.Block()) {
								if g2.If == g.If && g2.Branch == g.Branch {
									has = true
								}
							}
							if !has {
								shared = false
							}
						}
						if shared {
							continue
						}
						if x, isEq, isT := nilTest(g.Cond); isT && isEq != g.Branch {
							if _, f, _ := loadedField(x); f == fNamespace {
								continue
							}
						}
						okAll = false
					}
					for _, r := range successReturns(add) {
						if !reaches(l, r) {
							okAll = false
						}
					}
				}
				if okAll {
					removed = true
				}
			})
		}
		if removed {
			obs = append(obs, ok(R, con, c.Pos(add.Pos()), "the answer cached for the filed module's own namespace is deleted on every accepting path of add"))
		} else if cleared {
			obs = append(obs, ok(R, con, c.Pos(add.Pos()), "ms.byNS = map…{} under nsMu on every accepting path of add"))
		} else {
			obs = append(obs, bad(R, con, c.Pos(add.Pos()), "a namespace looked up before a later load keeps its cached answer: the set no longer behaves like a fresh set loaded with the same texts"))
		}
	}
	return obs
}

// inProgressBalanced: the field is a map used as an in-progress set: every insertion m[k] = true is undone by
// delete(m, k) with the same key, either deferred in the inserting function or on every path from the
// insertion to a return. Then the set is empty whenever no activation is running, in particular between runs.
func (c *Ctx) inProgressBalanced(key string) string {
	parts := strings.SplitN(key, ".", 2)
	owner := c.Named("yang", parts[0])
	if owner == nil || len(parts) != 2 {
		return ""
	}
	f := FieldVar(owner, parts[1])
	if f == nil {
		return ""
	}
	if _, isMap := f.Type().Underlying().(*types.Map); !isMap {
		return ""
	}
	isDeleteOf := func(com *ssa.CallCommon, k ssa.Value) bool {
		b, isB := com.Value.(*ssa.Builtin)
		if !isB || b.Name() != "delete" || len(com.Args) != 2 {
			return false
		}
		if _, df, _ := loadedField(com.Args[0]); df != f {
			return false
		}
		return sameKey(com.Args[1], k)
	}
	n := 0
	for _, fn := range c.Funcs {
		if fn.Pkg == nil || shortPkg(fn.Pkg.Pkg.Path()) != "yang" {
			continue
		}
		for _, mu := range mapUpdatesOnField(fn, f) {
			n++
			balanced := false
			var dels []*ssa.BasicBlock
			eachInstr(fn, func(in ssa.Instruction) {
				switch x := in.(type) {
				case *ssa.Defer:
					if isDeleteOf(&x.Call, mu.Key) && (dominates(mu, x) && x.Block() == mu.Block() || dominates(x, mu) || x.Block() == mu.Block()) {
						// deferred in the same straight-line stretch as the insertion: runs on every exit after it
						if x.Block() == mu.Block() {
							balanced = true
						}
					}
				case *ssa.Call:
					if isDeleteOf(&x.Call, mu.Key) {
						dels = append(dels, x.Block())
					}
				}
			})
			if !balanced && len(dels) > 0 {
				avoid := map[*ssa.BasicBlock]bool{}
				for _, d := range dels {
					avoid[d] = true
				}
				leak := false
				if !avoid[mu.Block()] {
					for _, b := range fn.Blocks {
						if _, isR := b.Instrs[len(b.Instrs)-1].(*ssa.Return); isR && b != fn.Recover {
							if blockReaches(mu.Block(), b, avoid) {
								leak = true
							}
						}
					}
				} else {
					// same block: the delete must come after the insertion
					leak = true
					for _, in := range mu.Block().Instrs {
						if call, isC := in.(*ssa.Call); isC && isDeleteOf(&call.Call, mu.Key) && instrIndex(in) > instrIndex(mu) {
							leak = false
						}
					}
				}
				balanced = !leak
			}
			if !balanced {
				return ""
			}
		}
	}
	if n == 0 {
		return ""
	}
	return fmt.Sprintf("in-progress set: each of its %d insertion(s) is undone by delete with the same key, deferred or on every path to a return, so the set is empty between runs", n)
}

// rebuiltInWriter: the field is written by exactly one function, which first clears it (a nil store inside
// a loop that visits the objects) and only afterwards, in later loops, stores anything else into it.
func (c *Ctx) rebuiltInWriter(key string) string {
	parts := strings.SplitN(key, ".", 2)
	owner := c.Named("yang", parts[0])
	if owner == nil || len(parts) != 2 {
		return ""
	}
	f := FieldVar(owner, parts[1])
	if f == nil {
		return ""
	}
	// a map field: every insertion happens in one function, after that function stored a fresh map
	if _, isMap := f.Type().Underlying().(*types.Map); isMap {
		var ups []*ssa.MapUpdate
		var upFns []*ssa.Function
		for _, fn := range c.Funcs {
			if fn.Pkg == nil || shortPkg(fn.Pkg.Pkg.Path()) != "yang" {
				continue
			}
			for _, mu := range mapUpdatesOnField(fn, f) {
				upFns = append(upFns, fn)
				ups = append(ups, mu)
			}
		}
		for _, fn := range c.Funcs {
			if fn.Pkg == nil || shortPkg(fn.Pkg.Pkg.Path()) != "yang" {
				continue
			}
			for _, st := range storesToField(fn, f) {
				if _, isAl := rootOf(st.Addr).(*ssa.Alloc); isAl {
					continue // an object under construction
				}
				if _, isMake := st.Val.(*ssa.MakeMap); isMake {
					upFns = append(upFns, fn)
				}
			}
		}
		w := c.commonInlineRoot(upFns)
		single := w != nil && len(ups) > 0
		if single && w != nil {
			for _, st := range c.storesToFieldDeep(w, f) {
				if _, isMake := st.Val.(*ssa.MakeMap); !isMake {
					continue
				}
				all := true
				for _, mu := range ups {
					if !dominates(st, mu) {
						all = false
					}
				}
				if all {
					return fmt.Sprintf("rebuilt by its only writer %s: a fresh map is stored before the first of its %d insertion(s)", c.FnName(w), len(ups))
				}
			}
		}
	}
	var storeFns []*ssa.Function
	for _, fn := range c.Funcs {
		if fn.Pkg == nil || shortPkg(fn.Pkg.Pkg.Path()) != "yang" {
			continue
		}
		for _, st := range storesToField(fn, f) {
			if al, isAl := rootOf(st.Addr).(*ssa.Alloc); isAl {
				if _, _, b := fieldOf(st.Addr); b == ssa.Value(al) {
					continue // field of an object under construction
				}
			}
			storeFns = append(storeFns, fn)
		}
	}
	writer := c.commonInlineRoot(storeFns)
	if writer == nil {
		return ""
	}
	var clears, others []*ssa.Store
	under := map[*ssa.Function]bool{writer: true}
	for _, h := range c.helpersUnder(writer) {
		under[h] = true
	}
	for _, fn := range c.Funcs {
		if !under[rootFn(fn)] {
			continue
		}
		for _, st := range storesToField(fn, f) {
			if fn.Parent() != nil && exactHelper(fn) == nil {
				return "" // stores inside closures that are not called in place: order not decided here
			}
			if isNilConst(st.Val) {
				clears = append(clears, st)
			} else {
				others = append(others, st)
			}
		}
	}
	if len(clears) == 0 || len(others) == 0 {
		return ""
	}
	for _, o0 := range others {
		for _, o := range liftAll(o0, writer, 0) {
			covered := false
			for _, cl0 := range clears {
				for _, cl := range liftAll(cl0, writer, 0) {
					// the outermost loop around the clearing store (or around the call of the helper that holds it)
					h := loopHeaderOf(cl.Block())
					for h != nil && h.Idom() != nil {
						outer := loopHeaderOf(h.Idom())
						if outer == nil || !blockReaches(h, outer, nil) {
							break
						}
						h = outer
					}
					if h != nil && h.Dominates(o.Block()) && !blockReaches(o.Block(), cl.Block(), nil) {
						covered = true
					}
				}
			}
			if !covered {
				return ""
			}
		}
	}
	return fmt.Sprintf("rebuilt by its only writer %s: %d clearing store(s) in the visiting loops precede every other store (the loops that append and close run after them and cannot return to them)", c.FnName(writer), len(clears))
}

// A memo registry: objects whose field `field` holds a memo are appended to the slice field `list`
// of a dictionary, and resetFn walks that list clearing the memo.
type memoRegistry struct {
	field   string     // "Type.YangType"
	list    *types.Var // typeDictionary.resolvedTypes
	resetFn *ssa.Function
}

type registryResetInfo struct {
	cleared map[string]*types.Var // memo field → list field it is cleared through
	fresh   []string              // receiver fields stored with a fresh map / nil
}

// registryReset recognises a reset function of the shape
//
//	for _, x := range recv.L { x.f = nil }; recv.L = nil; recv.M = map…{}
//
// and nothing else (no other stores, no calls but builtins). nil if fn is not of that shape.
func (c *Ctx) registryReset(fn *ssa.Function) *registryResetInfo {
	if fn.Blocks == nil || len(fn.Params) == 0 || !c.isRepoFn(fn) {
		return nil
	}
	info := &registryResetInfo{cleared: map[string]*types.Var{}}
	shape := true
	eachInstr(fn, func(in ssa.Instruction) {
		switch x := in.(type) {
		case *ssa.Store:
			if _, isAlloc := x.Addr.(*ssa.Alloc); isAlloc {
				return
			}
			owner, f, base := fieldOf(x.Addr)
			if f == nil {
				shape = false
				return
			}
			_, isMake := x.Val.(*ssa.MakeMap)
			zero := isNilConst(x.Val)
			switch {
			case isParamN(fn, base, 0) && (isMake || zero):
				info.fresh = append(info.fresh, fieldKey(owner, f))
			case zero:
				// base must be an element of a slice loaded from a field of the receiver
				var list *types.Var
				backSlice(base, func(y ssa.Value) bool {
					if ia, isIA := y.(*ssa.IndexAddr); isIA {
						if _, lf, lbase := loadedField(ia.X); lf != nil && isParamN(fn, lbase, 0) {
							list = lf
						}
					}
					return true
				})
				if list == nil {
					shape = false
					return
				}
				info.cleared[fieldKey(owner, f)] = list
			default:
				shape = false
			}
		case *ssa.MapUpdate:
			shape = false
		case ssa.CallInstruction:
			if _, isB := x.Common().Value.(*ssa.Builtin); !isB {
				shape = false
			}
		}
	})
	if !shape || len(info.cleared) == 0 {
		return nil
	}
	return info
}

// memoRegistered: every non-nil store to the memo field outside the reset function is paired, in the same
// function and on the same paths, with an append of the same object to the registry list.
func (c *Ctx) memoRegistered(R string, rg memoRegistry) []Obligation {
	var obs []Obligation
	parts := strings.SplitN(rg.field, ".", 2)
	owner := c.Named("yang", parts[0])
	if owner == nil {
		return []Obligation{undecided(R, "memo registry for "+rg.field, "-", "owner type not found")}
	}
	f := FieldVar(owner, parts[1])
	n := 0
	for _, fn := range c.Funcs {
		if fn == rg.resetFn {
			continue
		}
		for _, st := range storesToField(fn, f) {
			if isNilConst(st.Val) {
				continue
			}
			if al, isAl := rootOf(st.Addr).(*ssa.Alloc); isAl && !derivesFrom(st.Addr, func(x ssa.Value) bool { _, isP := x.(*ssa.Parameter); return isP }) {
				_ = al // a struct under construction (copy): not a memo on a shared node
				if _, _, b := fieldOf(st.Addr); b == ssa.Value(al) {
					continue
				}
			}
			n++
			con := fmt.Sprintf("%s: the memo %s is registered in %s when it is set", c.FnName(fn), rg.field, rg.list.Name())
			if n > 1 {
				con = fmt.Sprintf("%s #%d", con, n)
			}
			_, _, obj := fieldOf(st.Addr)
			registered := false
			for _, st2 := range storesToField(fn, rg.list) {
				call, isC := st2.Val.(*ssa.Call)
				if !isC {
					continue
				}
				if b, isB := call.Call.Value.(*ssa.Builtin); !isB || b.Name() != "append" || len(call.Call.Args) < 2 {
					continue
				}
				for _, el := range variadicElems(call.Call.Args[1]) {
					if sameObject(el, obj) && (st2.Block() == st.Block() || dominates(st, st2) && postDominatesReturnFree(st, st2)) {
						registered = true
					}
				}
			}
			if !registered {
				// registration through a helper: a call, on the same paths, of a function that appends one of its
				// parameters to the list, with the memo's object as that argument
				eachInstr(fn, func(in2 ssa.Instruction) {
					call, isC := in2.(*ssa.Call)
					if !isC {
						return
					}
					g := call.Call.StaticCallee()
					if g == nil || !c.isRepoFn(g) || g.Blocks == nil {
						return
					}
					if !(call.Block() == st.Block() || dominates(st, call) && postDominatesReturnFree(st, call)) {
						return
					}
					for _, st3 := range storesToField(g, rg.list) {
						app, isA := st3.Val.(*ssa.Call)
						if !isA {
							continue
						}
						if b, isB := app.Call.Value.(*ssa.Builtin); !isB || b.Name() != "append" || len(app.Call.Args) < 2 {
							continue
						}
						for _, el := range variadicElems(app.Call.Args[1]) {
							for j := range g.Params {
								if isParamN(g, el, j) && j < len(call.Call.Args) && sameObject(call.Call.Args[j], obj) {
									registered = true
								}
							}
						}
					}
				})
			}
			if registered {
				obs = append(obs, ok(R, con, c.InstrPos(st), "append(d."+rg.list.Name()+", obj), directly or through a helper, on the same paths as the memo store"))
			} else {
				obs = append(obs, bad(R, con, c.InstrPos(st), fmt.Sprintf("the memo is set without registering the object in %s: %s never clears it, so a later Process run (after more modules were loaded) reuses a result computed from the earlier module set", rg.list.Name(), c.FnName(rg.resetFn))))
			}
		}
	}
	if n == 0 {
		obs = append(obs, undecided(R, "memo registry for "+rg.field, "-", "no store to the memo field found"))
	}
	return obs
}

// postDominatesReturnFree: b is reached from a on every path (no return between them): approximated by
// 'a dominates b and every path from a's block to an exit passes b's block'.
func postDominatesReturnFree(a, b ssa.Instruction) bool {
	if a.Block() == b.Block() {
		return true
	}
	// any Return reachable from a's block avoiding b's block?
	avoid := map[*ssa.BasicBlock]bool{b.Block(): true}
	for _, blk := range a.Parent().Blocks {
		if _, isR := blk.Instrs[len(blk.Instrs)-1].(*ssa.Return); isR {
			if blockReaches(a.Block(), blk, avoid) {
				return false
			}
		}
	}
	return true
}

// isPureReset: fn only stores fresh values into fields of its receiver (e.g. ClearEntryCache), apart from locking.
func (c *Ctx) isPureReset(fn *ssa.Function) bool {
	if fn.Blocks == nil || len(fn.Params) == 0 {
		return false
	}
	n := 0
	pure := true
	eachInstr(fn, func(in ssa.Instruction) {
		switch x := in.(type) {
		case *ssa.Store:
			if _, isAlloc := x.Addr.(*ssa.Alloc); isAlloc {
				return
			}
			_, f, base := fieldOf(x.Addr)
			_, isMake := x.Val.(*ssa.MakeMap)
			if f != nil && isParamN(fn, base, 0) && isMake {
				n++
			} else {
				pure = false
			}
		case *ssa.MapUpdate:
			pure = false
		case ssa.CallInstruction:
			cal := x.Common().StaticCallee()
			if cal == nil || cal.Pkg == nil || cal.Pkg.Pkg.Path() != "sync" {
				if _, isB := x.Common().Value.(*ssa.Builtin); !isB {
					if cal == nil || cal.Pkg == nil || cal.Pkg.Pkg.Path() != "sync" {
						pure = false
					}
				}
			}
		}
	})
	return pure && n > 0
}

func (c *Ctx) resetStores(fn *ssa.Function) []string {
	var out []string
	eachInstr(fn, func(in ssa.Instruction) {
		if st, ok := in.(*ssa.Store); ok {
			if owner, f, base := fieldOf(st.Addr); f != nil && isParamN(fn, base, 0) {
				out = append(out, fieldKey(owner, f))
			}
		}
	})
	return out
}

// ---------------------------------------------------------------- MEMO.ERR

func ruleMemoErr(c *Ctx) []Obligation {
	const R = "MEMO.ERR"
	var obs []Obligation
	for _, site := range []struct{ fn, owner, memo string }{
		{"yang.(*Type).resolve", "Type", "YangType"},
		{"yang.(*Typedef).resolve", "Typedef", "YangType"},
	} {
		fn := c.Fn(site.fn)
		if fn == nil {
			obs = append(obs, undecided(R, site.fn, "-", "resolver not found"))
			continue
		}
		fMemo := FieldVar(c.MustNamed("yang", site.owner), site.memo)
		con := fmt.Sprintf("%s: errors found after the memo was set are reported again on the memoised path", site.fn)
		sts := storesToField(fn, fMemo)
		if len(sts) == 0 {
			obs = append(obs, undecided(R, con, c.Pos(fn.Pos()), "no memo store"))
			continue
		}
		// can an error be produced after the memo store? an append to an []error (or an error return) reachable from it
		errAfter := false
		for _, st := range sts {
			eachInstr(fn, func(in ssa.Instruction) {
				if call, ok := in.(*ssa.Call); ok && reaches(st, in) {
					if bi, okb := call.Call.Value.(*ssa.Builtin); okb && bi.Name() == "append" && isErrorSlice(call.Type()) {
						errAfter = true
					}
				}
				if r, ok := in.(*ssa.Return); ok && reaches(st, in) {
					if e := retErrorOperand(r); e != nil {
						ev := resolveSpill(e, r)
						if !isNilConst(ev) {
							if _, isConst := ev.(*ssa.Const); !isConst {
								// a possibly non-empty error list after the memo store
								if _, isMakeSlice := ev.(*ssa.Slice); isMakeSlice {
									errAfter = true
								}
							}
						}
					}
				}
			})
		}
		if !errAfter {
			obs = append(obs, ok(R, con, c.InstrPos(sts[0]), "the memo is stored only on paths that produce no further errors"))
			continue
		}
		// the early return under memo != nil must not be the nil constant: it must return the remembered errors
		good := false
		var at ssa.Instruction
		eachInstr(fn, func(in ssa.Instruction) {
			r, ok := in.(*ssa.Return)
			if !ok {
				return
			}
			under := false
			for _, g := range guardsAt(r.Block()) {
				if x, isEq, okn := nilTest(g.Cond); okn && isEq != g.Branch {
					if _, f, _ := loadedField(x); f == fMemo {
						under = true
					}
				}
			}
			if !under {
				return
			}
			at = r
			e := resolveSpill(retErrorOperand(r), r)
			if isNilConst(e) {
				return
			}
			// a lookup keyed by the receiver in a side table, or a field of the receiver
			if l, okl := e.(*ssa.Lookup); okl && isParamN(fn, l.Index, 0) {
				good = true
			}
			if _, f, base := loadedField(e); f != nil && isParamN(fn, rootOf(base), 0) {
				good = true
			}
		})
		// and the table is written whenever errors exist and the memo is set: a store/MapUpdate keyed by the receiver
		// under len(errs) != 0 in the function or its deferred closure
		remembered := false
		skipped := ""
		for _, f2 := range append([]*ssa.Function{fn}, fn.AnonFuncs...) {
			var mus []*ssa.MapUpdate
			eachInstr(f2, func(in ssa.Instruction) {
				if mu, ok := in.(*ssa.MapUpdate); ok && isErrorSlice(mu.Value.Type()) {
					remembered = true
					mus = append(mus, mu)
				}
			})
			if len(mus) == 0 || f2 == fn {
				continue
			}
			// in the closure that remembers: every way round the store goes over an edge that says `memo not set` or
			// `no errors`; otherwise a memoised type with errors is left without its errors
			barrier := map[*ssa.BasicBlock]bool{}
			for _, mu := range mus {
				barrier[mu.Block()] = true
			}
			excuses := func(b *ssa.BasicBlock, si int) bool {
				ifi, isIf := b.Instrs[len(b.Instrs)-1].(*ssa.If)
				if !isIf {
					return false
				}
				taken := si == 0
				if x, isEq, okn := nilTest(ifi.Cond); okn {
					if _, f, _ := loadedField(x); f == fMemo {
						return isEq == taken // memo == nil on this edge
					}
				}
				if bo, isB := ifi.Cond.(*ssa.BinOp); isB && isLenOf(bo.X) && isErrorSlice(bo.X.(*ssa.Call).Call.Args[0].Type()) {
					if k, okk := constInt(bo.Y); okk {
						op := bo.Op
						if !taken {
							op = map[token.Token]token.Token{token.LSS: token.GEQ, token.GTR: token.LEQ, token.LEQ: token.GTR, token.GEQ: token.LSS, token.EQL: token.NEQ, token.NEQ: token.EQL}[op]
						}
						return k == 0 && (op == token.EQL || op == token.LEQ) || k == 1 && op == token.LSS
					}
				}
				return false
			}
			seenB := map[*ssa.BasicBlock]bool{}
			stack := []*ssa.BasicBlock{f2.Blocks[0]}
			for len(stack) > 0 {
				b := stack[len(stack)-1]
				stack = stack[:len(stack)-1]
				if seenB[b] || barrier[b] {
					continue
				}
				seenB[b] = true
				if _, isR := b.Instrs[len(b.Instrs)-1].(*ssa.Return); isR {
					skipped = c.InstrPos(b.Instrs[len(b.Instrs)-1])
				}
				for si, sx := range b.Succs {
					if !excuses(b, si) {
						stack = append(stack, sx)
					}
				}
			}
		}
		if remembered && skipped != "" {
			obs = append(obs, bad(R, con, skipped, "the errors are remembered only on some paths: the remembering store can be passed by on a path where the memo is set and the error list is not empty, so a second resolve of that type reports nothing"))
			continue
		}
		switch {
		case good && remembered:
			obs = append(obs, ok(R, con, c.InstrPos(at), "the memoised path returns the errors remembered with the memo"))
		case at == nil:
			obs = append(obs, undecided(R, con, c.Pos(fn.Pos()), "no early return under memo != nil"))
		default:
			obs = append(obs, bad(R, con, c.InstrPos(at), "the resolver sets its memo before it has finished checking and returns `no errors` whenever the memo is set: errors reported by the first Process run are not reported by a second one"))
		}
	}
	return obs
}

// ---------------------------------------------------------------- LOCK.GUARDED

type guardPair struct {
	owner *types.Named
	mu    *types.Var
	field *types.Var
	rw    bool
}

func (c *Ctx) guardPairs() []guardPair {
	mods := c.MustNamed("yang", "Modules")
	td := c.MustNamed("yang", "typeDictionary")
	id := c.MustNamed("yang", "identityDictionary")
	var out []guardPair
	add := func(owner *types.Named, mu, f string, rw bool) {
		m, fl := FieldVar(owner, mu), FieldVar(owner, f)
		if m == nil || fl == nil {
			brokenf("guarded-by pair %s.%s → %s not found (the frozen guarded-by table must be updated)", objName(owner.Obj()), mu, f)
		}
		out = append(out, guardPair{owner, m, fl, rw})
	}
	add(mods, "nsMu", "byNS", false)
	add(mods, "entryCacheMu", "entryCache", true)
	add(td, "mu", "dict", false)
	add(id, "mu", "dict", false)
	return out
}

var lockJustified = map[string]string{
	"yang.(*typeDictionary).adopt: read of typeDictionary.dict":        "the map ranged over belongs to o, the scratch dictionary that Modules.Parse created for one statement and never shared; the receiver's own map is written under d.mu in the same function",
	"yang.(*Module).findIdentityBase: read of identityDictionary.dict": "called only while a Process run resolves identities and types (resolveIdentities holds the mutex around its own calls; Type/Typedef.resolve run inside the same single-threaded Process). Neither scenario of C19 reads it concurrently: independent sets have distinct dictionaries, and the read API of a processed set never reaches findIdentityBase (READ.PURE)",
}

func ruleLockGuarded(c *Ctx) []Obligation {
	const R = "LOCK.GUARDED"
	var obs []Obligation
	for _, gp := range c.guardPairs() {
		fkey := fieldKey(gp.owner, gp.field)
		for _, fn := range c.Funcs {
			seen := map[string]int{}
			eachInstr(fn, func(in ssa.Instruction) {
				kind := ""
				var ownerVal ssa.Value
				switch x := in.(type) {
				case *ssa.MapUpdate:
					if _, f, base := loadedField(x.Map); f == gp.field {
						kind, ownerVal = "write", base
					}
				case *ssa.Lookup:
					if _, f, base := loadedField(x.X); f == gp.field {
						kind, ownerVal = "read", base
					}
				case *ssa.Range:
					if _, f, base := loadedField(x.X); f == gp.field {
						kind, ownerVal = "read", base
					}
				case *ssa.Store:
					if _, f, base := fieldOf(x.Addr); f == gp.field {
						kind, ownerVal = "write", base
					}
				case ssa.CallInstruction:
					if bi, ok := x.Common().Value.(*ssa.Builtin); ok && (bi.Name() == "delete" || bi.Name() == "len") {
						if _, f, base := loadedField(x.Common().Args[0]); f == gp.field {
							kind, ownerVal = map[string]string{"delete": "write", "len": "read"}[bi.Name()], base
						}
					}
				}
				if kind == "" {
					return
				}
				base := fmt.Sprintf("%s: %s of %s", c.FnName(fn), kind, fkey)
				seen[base]++
				con := base
				if seen[base] > 1 {
					con = fmt.Sprintf("%s #%d", base, seen[base])
				}
				pos := c.InstrPos(in)
				// (iii) constructor: owner is fresh
				if c.rootClass(fn, ownerVal) == "fresh" {
					o := ok(R, con, pos, "the owner has not escaped yet (constructor)")
					o.Trivial = true
					obs = append(obs, o)
					return
				}
				if why := c.holdsLock(fn, in, ownerVal, gp, kind == "write"); why != "" {
					obs = append(obs, ok(R, con, pos, why))
					return
				}
				// (ii) all callers hold it
				if c.allCallersHold(fn, ownerVal, gp, kind == "write") {
					obs = append(obs, ok(R, con, pos, "every call site of this function holds the mutex"))
					return
				}
				if why, okj := jget("lockJustified", lockJustified, base); okj {
					obs = append(obs, just(R, con, pos, why))
					return
				}
				obs = append(obs, bad(R, con, pos, "the map is accessed without its mutex held: concurrent readers of one processed set (or a reader and a first-time lookup) race on it"))
			})
		}
	}
	return obs
}

// holdsLock: a Lock (or RLock, for reads) on owner.mu dominates `at`, and the matching Unlock is deferred or follows.
func (c *Ctx) holdsLock(fn *ssa.Function, at ssa.Instruction, owner ssa.Value, gp guardPair, write bool) string {
	return c.holdsLockAP(fn, at, AccessPath(owner), gp, write)
}

func (c *Ctx) holdsLockAP(fn *ssa.Function, at ssa.Instruction, ownerAP string, gp guardPair, write bool) string {
	found := ""
	eachInstr(fn, func(in ssa.Instruction) {
		ci, ok := in.(ssa.CallInstruction)
		if !ok || found != "" {
			return
		}
		if _, isDefer := in.(*ssa.Defer); isDefer {
			return
		}
		cal := ci.Common().StaticCallee()
		if cal == nil || cal.Pkg == nil || cal.Pkg.Pkg.Path() != "sync" {
			return
		}
		name := cal.Name()
		if name != "Lock" && !(name == "RLock" && !write) {
			return
		}
		_, mf, mbase := fieldOf(ci.Common().Args[0])
		if mf != gp.mu || AccessPath(mbase) != ownerAP {
			return
		}
		if !dominates(in, at) {
			return
		}
		// release: a deferred Unlock anywhere, or an Unlock that `at` reaches and that is not between lock and at
		unlockName := map[string]string{"Lock": "Unlock", "RLock": "RUnlock"}[name]
		released := false
		eachInstr(fn, func(in2 ssa.Instruction) {
			c2, ok2 := in2.(ssa.CallInstruction)
			if !ok2 {
				return
			}
			cal2 := c2.Common().StaticCallee()
			if cal2 == nil || cal2.Name() != unlockName {
				return
			}
			_, mf2, _ := fieldOf(c2.Common().Args[0])
			if mf2 != gp.mu {
				return
			}
			if _, isDefer := in2.(*ssa.Defer); isDefer {
				released = true
				return
			}
			// explicit unlock: must come after the access on every path (at dominates it or reaches it) and not before
			if reaches(at, in2) && !(dominates(in, in2) && dominates(in2, at)) {
				released = true
			}
		})
		if released {
			found = fmt.Sprintf("%s on %s.%s dominates the access; %s is deferred or follows", name, shortPath(ownerAP), gp.mu.Name(), unlockName)
		}
	})
	return found
}

func (c *Ctx) allCallersHold(fn *ssa.Function, ownerVal ssa.Value, gp guardPair, write bool) bool {
	node := c.Graph().Nodes[fn]
	if node == nil || len(node.In) == 0 {
		return false
	}
	// the owner of the guarded map, as a path below one of fn's parameters
	ownerAP := AccessPath(ownerVal)
	root := rootOf(ownerVal)
	pidx := -1
	for i := range fn.Params {
		if isParamN(fn, root, i) {
			pidx = i
		}
	}
	suffix := ""
	if pidx >= 0 {
		suffix = strings.TrimPrefix(ownerAP, AccessPath(root))
	}
	n := 0
	for _, e := range node.In {
		caller := e.Caller.Func
		if caller.Synthetic != "" || e.Site == nil {
			continue
		}
		n++
		args := actualArgs(e.Site)
		if pidx < 0 && fn.Parent() != nil && exactHelper(fn) != nil {
			// a private closure reads the owner through a captured variable, whose path is rendered as the
			// making function's own (inline.go)
			if caller != fn.Parent() || c.holdsLockAP(caller, e.Site, ownerAP, gp, write) == "" {
				return false
			}
			continue
		}
		if len(args) == 0 {
			return false
		}
		ap := AccessPath(args[0])
		if pidx >= 0 && pidx < len(args) {
			ap = AccessPath(args[pidx]) + suffix
		}
		// the owner may be a helper structure that holds a copy of the guarded reference (filer{dict: d.dict}): the
		// lock that matters is that of the object the reference was copied from, where the structure is made
		if c.holdsLockAP(caller, e.Site, ap, gp, write) == "" && pidx >= 0 && pidx < len(args) {
			if al, isA := rootOf(args[pidx]).(*ssa.Alloc); isA && al.Parent() == caller {
				for _, r := range refsOf(al) {
					fa, isFA := r.(*ssa.FieldAddr)
					if !isFA {
						continue
					}
					_, hf, _ := fieldOf(fa)
					if hf == nil || c.aliasFields()[hf] == nil {
						continue
					}
					for _, rr := range refsOf(fa) {
						st, isS := rr.(*ssa.Store)
						if !isS || st.Addr != ssa.Value(fa) {
							continue
						}
						if ld, isL := st.Val.(*ssa.UnOp); isL {
							if _, _, src := fieldOf(ld.X); src != nil {
								if c.holdsLockAP(caller, e.Site, AccessPath(src), gp, write) != "" {
									ap = AccessPath(src)
								}
							}
						}
					}
				}
			}
		}
		if c.holdsLockAP(caller, e.Site, ap, gp, write) == "" {
			// the caller is a private closure: the question moves to the places where it is called
			h := exactHelper(caller)
			if h == nil || caller.Parent() == nil {
				return false
			}
			for _, st := range h.sites {
				if c.holdsLockAP(st.Parent(), st, ap, gp, write) == "" {
					return false
				}
			}
		}
	}
	return n > 0
}

// ---------------------------------------------------------------- GLOBAL.INITONLY

func ruleGlobalInitOnly(c *Ctx) []Obligation {
	const R = "GLOBAL.INITONLY"
	var obs []Obligation
	initOnly := c.initOnlyFuncs()
	reach := c.Reach(c.APIRoots(), nil)
	globalsWritten := map[string]bool{}
	for _, fn := range c.Funcs {
		root := rootFn(fn)
		if root.Pkg == nil {
			continue
		}
		pk := shortPkg(root.Pkg.Pkg.Path())
		if pk == "main" {
			continue // the command's own flags and exit hook: one process, one run
		}
		seen := map[string]int{}
		eachInstr(fn, func(in ssa.Instruction) {
			var addr ssa.Value
			kind := ""
			switch x := in.(type) {
			case *ssa.Store:
				if _, isAlloc := x.Addr.(*ssa.Alloc); isAlloc {
					return
				}
				addr, kind = x.Addr, "store"
			case *ssa.MapUpdate:
				addr, kind = x.Map, "map write"
			default:
				return
			}
			rc := c.rootClass(fn, addr)
			if !strings.HasPrefix(rc, "global:") {
				return
			}
			g := strings.TrimPrefix(rc, "global:")
			if strings.HasPrefix(g, "init$guard") {
				return
			}
			globalsWritten[g] = true
			base := fmt.Sprintf("%s: %s reaching package-level %s", c.FnName(fn), kind, g)
			seen[base]++
			con := base
			if seen[base] > 1 {
				con = fmt.Sprintf("%s #%d", base, seen[base])
			}
			switch {
			case initOnly[fn] && !reach[fn]:
				obs = append(obs, ok(R, con, c.InstrPos(in), "reachable only from package initialisation"))
			case root.Name() == "init" || strings.HasPrefix(root.Name(), "init#"):
				obs = append(obs, ok(R, con, c.InstrPos(in), "package initialiser"))
			default:
				obs = append(obs, bad(R, con, c.InstrPos(in), "a process-wide table (or an object reached from it) is written after initialisation: independent module sets in parallel goroutines race on it and see each other's data"))
			}
		})
	}
	obs = append(obs, ok(R, "package-level state of pkg/yang, pkg/indent, pkg/yangentry enumerated", "-", fmt.Sprintf("%d globals written, all from initialisers unless reported", len(globalsWritten))))
	return obs
}

// ---------------------------------------------------------------- READ.PURE

var readCuts = map[string]string{
	"yang.ToEntry":               "after Process every node handed to ToEntry by the read API is in the entry cache: the call is a mutex-guarded cache hit (first statement of ToEntry); the conversion path is Process-time only",
	"yang.(*Modules).FindModule": "after a clean Process every import of a module, and of every submodule a module includes, is loaded and linked, so the map lookups in FindModule succeed and the disk-read arm is dead for queries on their trees. Not so for a loaded submodule revision that no module includes: its imports are not linked, and a query that resolves one of its prefixes can read a file — that hole is the recorded finding LOAD.AFTERLINK (hunt/h1/C18/finding2), which this cut does not hide: it is reported there",
}

var readJustified = map[string]string{}

func (c *Ctx) readAPI() []*ssa.Function {
	names := []string{"yang.(*Entry).Find", "yang.(*Entry).Namespace", "yang.(*Entry).InstantiatingModule", "yang.(*Modules).FindModuleByNamespace",
		"yang.(*Entry).ReadOnly", "yang.(*Entry).DefaultValues", "yang.(*Entry).SingleDefaultValue", "yang.(*Entry).GetErrors", "yang.(*Entry).Print",
		"yang.(*Entry).Path", "yang.(*Entry).Modules", "yang.(*Entry).IsDir", "yang.(*Entry).IsLeaf", "yang.(*Entry).IsLeafList", "yang.(*Entry).IsList",
		"yang.(*Entry).IsContainer", "yang.(*Entry).IsChoice", "yang.(*Entry).IsCase", "yang.(*Entry).GetWhenXPath", "yang.(*Modules).getEntryCache"}
	var out []*ssa.Function
	for _, n := range names {
		out = append(out, c.MustFn(n))
	}
	return out
}

func ruleReadPure(c *Ctx) []Obligation {
	const R = "READ.PURE"
	var obs []Obligation
	cut := func(fn *ssa.Function) bool { _, ok := readCuts[c.FnName(fn)]; return ok }
	pairs := c.guardPairs()
	for _, api := range c.readAPI() {
		reached := c.Reach([]*ssa.Function{api}, cut)
		var fns []*ssa.Function
		for f := range reached {
			fns = append(fns, f)
		}
		sort.Slice(fns, func(i, j int) bool { return fns[i].Pos() < fns[j].Pos() })
		nW := 0
		for _, fn := range fns {
			if cut(fn) && fn != api {
				continue
			}
			if c.onlyCalledBySort(fn) {
				continue // sort.Interface methods: judged at the sort call site below
			}
			// in-place sorts must be of slices made in this function
			eachInstr(fn, func(in ssa.Instruction) {
				call, isCall := in.(*ssa.Call)
				if !isCall {
					return
				}
				cal := call.Call.StaticCallee()
				if cal == nil || cal.Pkg == nil || cal.Pkg.Pkg.Path() != "sort" || len(call.Call.Args) == 0 {
					return
				}
				con := fmt.Sprintf("%s ⇒ %s: sort.%s sorts a slice made here", c.FnName(api), c.FnName(fn), cal.Name())
				if c.rootClass(fn, call.Call.Args[0]) == "fresh" {
					obs = append(obs, ok(R, con, c.InstrPos(in), "the sorted slice is local"))
				} else {
					obs = append(obs, bad(R, con, c.InstrPos(in), "a shared slice is sorted in place by a read-only query"))
				}
			})
			seen := map[string]int{}
			eachInstr(fn, func(in ssa.Instruction) {
				var addr ssa.Value
				switch x := in.(type) {
				case *ssa.Store:
					if _, isAlloc := x.Addr.(*ssa.Alloc); isAlloc {
						return
					}
					addr = x.Addr
				case *ssa.MapUpdate:
					addr = x.Map
				default:
					return
				}
				rc := c.rootClass(fn, addr)
				if rc == "fresh" {
					return
				}
				if c.closureLocal(fn, addr) {
					return
				}
				// a field of a type that only ever lives in locals (an accumulator handed to a walk): no shared
				// object can be reached through it
				if owner, _, _ := fieldOf(rootFieldAddr(addr)); owner != nil && c.localOnlyType(owner) {
					return
				}
				fld := addrField(addr)
				if _, isMU := in.(*ssa.MapUpdate); isMU {
					owner, f, _ := loadedField(addr)
					fld = "map:" + fieldKey(owner, f)
				}
				nW++
				// a store through a pointer parameter writes what the callers hand in the address of: one write per
				// field so addressed (`e.part(&e.RPC.Input, …)`, `e.part(&e.RPC.Output, …)`)
				_, isPhiAddr := addr.(*ssa.Phi)
				if p, isP := addr.(*ssa.Parameter); (isP || isPhiAddr) && fld == "*" {
					var flds []string
					// … or through a local pointer that holds the address of one field or another
					// (`slot := &e.RPC.Input; if out { slot = &e.RPC.Output }; *slot = …`)
					if isPhiAddr {
						flds = phiFieldKeys(addr)
					} else if node := c.Graph().Nodes[fn]; node != nil {
						idx := paramIndex(fn, p)
						for _, e := range node.In {
							if e.Caller.Func.Synthetic != "" || e.Site == nil || e.Site.Common().StaticCallee() != fn || idx < 0 || idx >= len(e.Site.Common().Args) {
								continue
							}
							if fa, isFA := e.Site.Common().Args[idx].(*ssa.FieldAddr); isFA {
								if owner, f, _ := fieldOf(fa); f != nil {
									flds = append(flds, fieldKey(owner, f))
								}
							} else {
								flds = nil
								break
							}
						}
					}
					sort.Strings(flds)
					if len(flds) > 0 {
						for _, one := range dedupe(flds) {
							base := fmt.Sprintf("%s ⇒ %s: writes %s", c.FnName(api), c.FnName(c.inlineRoot(fn)), one)
							seen[base]++
							con := base
							if seen[base] > 1 {
								con = fmt.Sprintf("%s #%d", base, seen[base])
							}
							if why, okj := jget("readJustified", readJustified, base); okj {
								obs = append(obs, just(R, con, c.InstrPos(in), why))
							} else {
								obs = append(obs, bad(R, con, c.InstrPos(in), "a read-only query writes to a shared object without a mutex: two goroutines querying one processed set race"))
							}
						}
						return
					}
				}
				base := fmt.Sprintf("%s ⇒ %s: writes %s", c.FnName(api), c.FnName(c.inlineRoot(fn)), fld)
				seen[base]++
				con := base
				if seen[base] > 1 {
					con = fmt.Sprintf("%s #%d", base, seen[base])
				}
				// under a mutex?
				for _, gp := range pairs {
					if strings.HasSuffix(fld, fieldKey(gp.owner, gp.field)) {
						owner := rootOf(addr)
						_ = owner
						_, _, ob := loadedField(addr)
						if ob == nil {
							_, _, ob = fieldOf(addr)
						}
						if ob != nil && c.holdsLock(fn, in, ob, gp, true) != "" {
							obs = append(obs, ok(R, con, c.InstrPos(in), "write to a mutex-guarded cache with the mutex held"))
							return
						}
					}
				}
				if why, okj := jget("readJustified", readJustified, base); okj {
					obs = append(obs, just(R, con, c.InstrPos(in), why))
					return
				}
				obs = append(obs, bad(R, con, c.InstrPos(in), "a read-only query writes to a shared object without a mutex: two goroutines querying one processed set race"))
			})
		}
		o := ok(R, fmt.Sprintf("%s: reachable code scanned for writes", c.FnName(api)), c.Pos(api.Pos()), fmt.Sprintf("%d functions reachable (cut at ToEntry / FindModule), %d non-local writes", len(fns), nW))
		obs = append(obs, o)
	}
	for name, why := range readCuts {
		obs = append(obs, just(R, "cut point "+name, "-", why))
	}
	return obs
}

// closureLocal: fn is a closure and the written variable is a free variable bound to a local cell of its parent.
func (c *Ctx) closureLocal(fn *ssa.Function, addr ssa.Value) bool {
	if fn.Parent() == nil {
		return false
	}
	root := rootOf(addr)
	// a load of the free variable cell, or the cell itself
	var fv *ssa.FreeVar
	switch x := root.(type) {
	case *ssa.FreeVar:
		fv = x
	default:
		backSlice(addr, func(y ssa.Value) bool {
			if f, ok := y.(*ssa.FreeVar); ok {
				fv = f
				return false
			}
			return true
		})
	}
	if fv == nil {
		return false
	}
	idx := -1
	for i, f := range fn.FreeVars {
		if f == fv {
			idx = i
		}
	}
	if idx < 0 {
		return false
	}
	local := false
	eachInstr(fn.Parent(), func(in ssa.Instruction) {
		if mc, ok := in.(*ssa.MakeClosure); ok && mc.Fn == ssa.Value(fn) && idx < len(mc.Bindings) {
			if a, isAlloc := mc.Bindings[idx].(*ssa.Alloc); isAlloc {
				// the cell holds a local value made in the parent (map/slice/struct): fresh
				fresh := true
				for _, r := range *a.Referrers() {
					if st, oks := r.(*ssa.Store); oks && st.Addr == ssa.Value(a) {
						switch st.Val.(type) {
						case *ssa.MakeMap, *ssa.MakeSlice, *ssa.Alloc, *ssa.Const, *ssa.Call, *ssa.Slice, *ssa.Phi:
						default:
							fresh = false
						}
						if call, isCall := st.Val.(*ssa.Call); isCall {
							if bi, okb := call.Call.Value.(*ssa.Builtin); !(okb && bi.Name() == "append") {
								fresh = false
							}
						}
					}
				}
				local = fresh
			}
		}
	})
	return local
}

// ---------------------------------------------------------------- FIND.*

func ruleFindStep(c *Ctx) []Obligation {
	const R = "FIND.STEP"
	find := c.MustFn("yang.(*Entry).Find")
	con := "every path through the per-step loop moves the cursor, returns, or is the identity step"
	entryT := c.MustNamed("yang", "Entry")
	// the per-step loop: the loop whose header has an *Entry phi (the cursor) and which indexes the parts slice
	var hdr *ssa.BasicBlock
	var cursor *ssa.Phi
	for _, b := range find.Blocks {
		if !isLoopHeader(b) {
			continue
		}
		idx := false
		for _, in := range b.Instrs {
			if phi, ok := in.(*ssa.Phi); ok {
				if phi.Comment == "rangeindex" {
					idx = true
				}
				// … or the steps are cut off the front of the remaining text, which the loop carries
				if isStringType(phi.Type()) {
					for _, r := range refsOf(phi) {
						if call, isC := r.(*ssa.Call); isC && (calleeIs(call, "strings", "Cut") || calleeIs(call, "strings", "Index") || calleeIs(call, "strings", "IndexByte")) && len(call.Call.Args) > 0 && call.Call.Args[0] == ssa.Value(phi) && loopHeaderOf(call.Block()) == b {
							idx = true
						}
					}
				}
			}
		}
		if !idx {
			continue
		}
		for _, in := range b.Instrs {
			if phi, ok := in.(*ssa.Phi); ok && namedOf(phi.Type()) == entryT {
				hdr, cursor = b, phi
			}
		}
	}
	if hdr == nil {
		return []Obligation{undecided(R, con, c.Pos(find.Pos()), "no per-step loop with an entry cursor found")}
	}
	// the step string of the iteration
	underDot := func(b *ssa.BasicBlock) bool {
		for _, g := range guardsAt(b) {
			if bo, ok := g.Cond.(*ssa.BinOp); ok && bo.Op == token.EQL && g.Branch {
				if s, oks := constString(bo.Y); oks && s == "." {
					return true
				}
			}
		}
		return false
	}
	var leaks []string
	n := 0
	for i, e := range cursor.Edges {
		pred := hdr.Preds[i]
		if !hdr.Dominates(pred) {
			continue
		}
		n++
		if e != ssa.Value(cursor) {
			continue // cursor assigned on this path
		}
		if underDot(pred) || lastEdgeIsDot(pred, hdr) {
			continue
		}
		leaks = append(leaks, c.InstrPos(pred.Instrs[len(pred.Instrs)-1]))
	}
	if len(leaks) == 0 && n > 0 {
		return []Obligation{ok(R, con, c.InstrPos(cursor), fmt.Sprintf("%d back edges: the cursor changes on each, except under part == \".\"", n))}
	}
	if n == 0 {
		return []Obligation{undecided(R, con, c.InstrPos(cursor), "no back edges")}
	}
	return []Obligation{bad(R, con, c.InstrPos(cursor), "a step can complete without moving the cursor although it is not \".\" ("+leaks[0]+"): a path step that names no child is silently skipped and the lookup succeeds")}
}

func lastEdgeIsDot(pred, succ *ssa.BasicBlock) bool {
	for _, g := range lastIfGuard(pred, succ) {
		if bo, ok := g.Cond.(*ssa.BinOp); ok && bo.Op == token.EQL && g.Branch {
			if s, oks := constString(bo.Y); oks && s == "." {
				return true
			}
		}
	}
	return false
}

func ruleFindRoot(c *Ctx) []Obligation {
	const R = "FIND.ROOT"
	find := c.MustFn("yang.(*Entry).Find")
	fbp := c.MustFn("yang.FindModuleByPrefix")
	m := c.entryModel()
	con := "the first prefix of an absolute path is resolved from the starting entry's node, captured before climbing to the root"
	// the prefix lookup and the switch may sit in a private helper of Find (inline.go)
	calls := c.callsToDeep(find, fbp)
	if len(calls) != 1 {
		return []Obligation{undecided(R, con, c.Pos(find.Pos()), fmt.Sprintf("%d FindModuleByPrefix calls", len(calls)))}
	}
	ctx := resolveArg(calls[0].Common().Args[0])
	_, f, base := loadedField(ctx)
	var obs []Obligation
	// … or the receiver's node with a fallback that is consulted only while no node was found yet (an entry made on
	// demand has none: the nearest ancestor's is taken)
	fallbackOK := false
	if phi0 := ctx; isPhiOrHelperCall(ctx) {
		web := map[ssa.Value]bool{}
		var leaves []ssa.Value
		var walk func(v ssa.Value)
		walk = func(v ssa.Value) {
			if web[v] {
				return
			}
			web[v] = true
			if p, isP := v.(*ssa.Phi); isP {
				for _, e := range p.Edges {
					walk(e)
				}
				return
			}
			if hr := helperReturns(v); len(hr) > 0 {
				for _, r := range hr {
					walk(r)
				}
				return
			}
			leaves = append(leaves, v)
		}
		walk(phi0)
		fromRecv, othersGuarded := false, true
		for _, l := range leaves {
			_, lf, lb := loadedField(l)
			if lf == m.fNode && lb != nil && isParamN(find, resolveArg(rootOf(lb)), 0) {
				fromRecv = true
				continue
			}
			in, isIn := l.(ssa.Instruction)
			guarded := false
			if lf == m.fNode && isIn {
				for _, g := range guardsAt(in.Block()) {
					if x, isEq, okn := nilTest(g.Cond); okn && web[x] && isEq == g.Branch {
						guarded = true
					}
				}
			}
			if !guarded {
				othersGuarded = false
			}
		}
		fallbackOK = fromRecv && othersGuarded
	}
	if f == m.fNode && isParamN(find, base, 0) {
		obs = append(obs, ok(R, con, c.InstrPos(calls[0]), "contextNode := e.Node taken from the receiver, not from the climbed root"))
	} else if fallbackOK {
		obs = append(obs, ok(R, con, c.InstrPos(calls[0]), "the receiver's node, or — only while that is nil — the node of an ancestor"))
	} else {
		obs = append(obs, bad(R, con, c.InstrPos(calls[0]), "the prefix is resolved from the root entry's node: prefixes that only the starting node's module imports would not resolve"))
	}
	// the switch to the tree of the module that owns what the prefix denotes
	con = "an absolute path continues in the tree of the module that owns what the first prefix denotes, unless the current root already is that module"
	toEntry := c.MustFn("yang.ToEntry")
	var sw ssa.CallInstruction
	var owner ssa.Value
	for _, ci := range c.callsToDeep(find, toEntry) {
		arg := ci.Common().Args[0]
		if mi, isMI := arg.(*ssa.MakeInterface); isMI {
			arg = mi.X
		}
		if call, isC := arg.(*ssa.Call); isC && calleeName(call) == "module" {
			sw, owner = ci, arg
		}
	}
	if sw == nil {
		obs = append(obs, bad(R, con, c.Pos(find.Pos()), "Find no longer switches to ToEntry(module(<module of the prefix>)): a path whose first prefix denotes a submodule, or another module, is searched in the wrong tree"))
		return obs
	}
	extra := ""
	for _, g := range guardsAt(sw.Block()) {
		if isLoopHeader(g.If.Block()) {
			continue
		}
		for _, gg := range expandGuard(g) {
			cond, _ := stripNot(gg.Cond, gg.Branch)
			switch x := cond.(type) {
			case *ssa.BinOp:
				if _, _, isNil := nilTest(x); isNil {
					continue
				}
				if _, isK := x.X.(*ssa.Const); isK {
					continue
				}
				if _, isK := x.Y.(*ssa.Const); isK {
					continue
				}
				if x.X == owner || x.Y == owner {
					// m != root — where root is the node the current tree is rooted at, not ITS owner: a
					// submodule's private tree is rooted at the submodule, whose owner is m as well
					other := x.X
					if other == owner {
						other = x.Y
					}
					viaOwner := derivesFrom(other, func(y ssa.Value) bool {
						call, isC := y.(*ssa.Call)
						return isC && call != owner && (calleeName(call) == "module" || calleeName(call) == "belongingModule")
					})
					if viaOwner {
						extra = c.InstrPos(gg.If) + " (the owner is compared with the owner of the current root, which is the same module for a submodule's own tree)"
					}
					continue
				}
				extra = c.InstrPos(gg.If)
			case *ssa.Extract:
				if _, isTA := x.Tuple.(*ssa.TypeAssert); isTA {
					continue // the comma-ok of e.Node.(*Module)
				}
				extra = c.InstrPos(gg.If)
			case *ssa.Call:
				extra = c.InstrPos(gg.If)
			default:
				if _, isPhi := cond.(*ssa.Phi); isPhi {
					continue // materialised && / ||: its operands were expanded above
				}
				extra = c.InstrPos(gg.If)
			}
		}
	}
	// where the switch lives in a helper, every other way out of the helper that hands back a tree (not an error)
	// is taken under a comparison with the OWNER: staying in the current tree because the prefix's own (sub)module
	// is its root is exactly the flaw the comparison with the owner prevents
	if swFn := sw.Parent(); swFn != find && extra == "" {
		for _, b := range swFn.Blocks {
			r, isR := b.Instrs[len(b.Instrs)-1].(*ssa.Return)
			if !isR || len(r.Results) == 0 {
				continue
			}
			rv := resolveSpill(r.Results[0], r)
			if isNilConst(rv) || rv == sw.Value() {
				continue
			}
			if derivesFrom(rv, func(x ssa.Value) bool { return x == sw.Value() }) {
				continue
			}
			viaOwner := false
			for _, g := range guardsAt(b) {
				for _, gg := range expandGuard(g) {
					if bo, isB := gg.Cond.(*ssa.BinOp); isB && (bo.X == owner || bo.Y == owner) {
						viaOwner = true
					}
				}
			}
			if !viaOwner {
				extra = c.InstrPos(r)
			}
		}
	}
	if extra == "" {
		obs = append(obs, ok(R, con, c.InstrPos(sw), "e = ToEntry(module(mod)) guarded only by nil tests, the prefix test and the comparison of the owner with the current root"))
	} else {
		obs = append(obs, bad(R, con, c.InstrPos(sw), "the switch to the owning module's tree is skipped under a further condition ("+extra+") that does not compare the owner with the current root: a path written in a submodule with its belongs-to prefix stays in the submodule's private tree, so augments and deviations written there miss their targets"))
	}
	return obs
}

// expandGuard: a guard whose condition is a materialised && / || contributes the operands that must hold.
func expandGuard(g Guard) []Guard {
	if _, isPhi := g.Cond.(*ssa.Phi); isPhi {
		if sub := expandPhiGuard(g.Cond, g.Branch, g.If, 0); len(sub) > 0 {
			return sub
		}
	}
	return []Guard{g}
}

func ruleRoOrder(c *Ctx) []Obligation {
	const R = "RO.ORDER"
	var obs []Obligation
	ro := c.MustFn("yang.(*Entry).ReadOnly")
	m := c.entryModel()
	entryT := m.entry
	fKind, fConfig := FieldVar(entryT, "Kind"), FieldVar(entryT, "Config")
	outK, okc := c.YangPkg().Scope().Lookup("OutputEntry").(*types.Const)
	if !okc {
		return []Obligation{undecided(R, "output kind constant", "-", "OutputEntry not found")}
	}
	var outV int64
	fmt.Sscanf(outK.Val().ExactString(), "%d", &outV)
	var kindIf, cfgIf *ssa.If
	eachInstr(ro, func(in ssa.Instruction) {
		ifi, ok := in.(*ssa.If)
		if !ok {
			return
		}
		bo, okb := ifi.Cond.(*ssa.BinOp)
		if !okb {
			return
		}
		if _, f, _ := loadedField(bo.X); f == fKind {
			if k, okk := constInt(bo.Y); okk && k == outV && bo.Op == token.EQL {
				kindIf = ifi
			}
		}
		if _, f, _ := loadedField(bo.X); f == fConfig {
			cfgIf = ifi
		}
	})
	con := "an entry in rpc/action output is read-only whatever its config"
	if kindIf != nil {
		rt := terminalReturn(kindIf.Block().Succs[0])
		if rt != nil && len(rt.Results) == 1 && isTrueConst(rt.Results[0]) && (cfgIf == nil || dominates(kindIf, cfgIf)) {
			obs = append(obs, ok(R, con, c.InstrPos(kindIf), "Kind == OutputEntry → true, tested before Config"))
		} else {
			obs = append(obs, bad(R, con, c.InstrPos(kindIf), "the output test does not return true before the config value is consulted"))
		}
	} else {
		obs = append(obs, bad(R, con, c.Pos(ro.Pos()), "no test of the output kind"))
	}
	con = "an entry without explicit config inherits from its parent"
	inherit := false
	for _, ci := range c.callsTo(ro, ro) {
		arg := ci.Common().Args[0]
		if _, f, base := loadedField(arg); f == m.fParent && isParamN(ro, base, 0) {
			// under Config == TSUnset
			for _, g := range guardsAt(ci.Block()) {
				if bo, ok := g.Cond.(*ssa.BinOp); ok && g.Branch && bo.Op == token.EQL {
					if _, f2, _ := loadedField(bo.X); f2 == fConfig && isZero(bo.Y) {
						inherit = true
					}
				}
			}
		}
	}
	// … or climbs in a loop: a cursor that starts at the receiver and is advanced to its own Parent, the advance
	// being reached only with the cursor's config unset
	var cursor *ssa.Phi
	eachInstr(ro, func(in ssa.Instruction) {
		phi, isPhi := in.(*ssa.Phi)
		if !isPhi || cursor != nil {
			return
		}
		fromRecv, fromParent := false, false
		var adv ssa.Value
		for _, e := range phi.Edges {
			if isParamN(ro, e, 0) {
				fromRecv = true
			}
			if _, f, base := loadedField(e); f == m.fParent && base == ssa.Value(phi) {
				fromParent, adv = true, e
			}
		}
		if !fromRecv || !fromParent {
			return
		}
		cursor = phi
		if advIn, isI := adv.(ssa.Instruction); isI && !inherit {
			for _, g := range guardsAt(advIn.Block()) {
				bo, isB := g.Cond.(*ssa.BinOp)
				if !isB {
					continue
				}
				if _, f2, b2 := loadedField(bo.X); f2 == fConfig && b2 == ssa.Value(phi) && isZero(bo.Y) {
					if bo.Op == token.EQL && g.Branch || bo.Op == token.NEQ && !g.Branch {
						inherit = true
					}
				}
			}
		}
	})
	isSelf := func(base ssa.Value) bool {
		return isParamN(ro, base, 0) || isParamN(ro, resolveArg(rootOf(base)), 0) || cursor != nil && base == ssa.Value(cursor)
	}
	if inherit {
		obs = append(obs, ok(R, con, c.Pos(ro.Pos()), "Config == TSUnset → e.Parent.ReadOnly()"))
	} else {
		obs = append(obs, bad(R, con, c.Pos(ro.Pos()), "no recursion to Parent under an unset config"))
	}
	con = "an explicit config decides: read-only iff config is false"
	explicit := false
	eachInstr(ro, func(in ssa.Instruction) {
		r, ok := in.(*ssa.Return)
		if !ok || len(r.Results) != 1 {
			return
		}
		if u, oku := r.Results[0].(*ssa.UnOp); oku && u.Op == token.NOT {
			if call, okcall := u.X.(*ssa.Call); okcall && call.Call.StaticCallee() != nil && call.Call.StaticCallee().Name() == "Value" && len(call.Call.Args) > 0 {
				// it is the entry's own config that decides, not a sibling tristate (mandatory)
				if _, f, base := loadedField(call.Call.Args[0]); f == fConfig && isSelf(base) {
					explicit = true
				}
			}
		}
	})
	if explicit {
		obs = append(obs, ok(R, con, c.Pos(ro.Pos()), "return !e.Config.Value()"))
	} else {
		obs = append(obs, bad(R, con, c.Pos(ro.Pos()), "the explicit case does not return the negated config value"))
	}
	// the top of the tree: a nil receiver (the parent of a root) is config true, i.e. not read-only
	con = "above the root the default is config true: the nil receiver answers false"
	decided := false
	eachInstr(ro, func(in ssa.Instruction) {
		r, isR := in.(*ssa.Return)
		if !isR || len(r.Results) != 1 || decided {
			return
		}
		for _, g := range guardsAt(r.Block()) {
			x, isNil, okn := nilTest(g.Cond)
			if !okn || !isParamN(ro, x, 0) || (isNil != g.Branch) {
				continue
			}
			// innermost: the return sits on the nil side directly
			if g.If.Block().Succs[map[bool]int{true: 0, false: 1}[g.Branch]] != r.Block() {
				continue
			}
			decided = true
			if k, isK := r.Results[0].(*ssa.Const); isK && k.Value != nil && k.Value.String() == "false" {
				obs = append(obs, ok(R, con, c.InstrPos(r), "e == nil → false"))
			} else {
				obs = append(obs, bad(R, con, c.InstrPos(r), "the nil receiver does not answer false: every entry without an explicit config anywhere above it would be read-only"))
			}
		}
	})
	if !decided {
		o := ok(R, con, c.Pos(ro.Pos()), "the receiver is not tested against nil here: no nil-receiver case to decide (NIL answers for the recursion)")
		o.Trivial = true
		obs = append(obs, o)
	}
	return obs
}

func ruleKindConst(c *Ctx) []Obligation {
	const R = "KIND.CONST"
	var obs []Obligation
	toEntry := c.MustFn("yang.ToEntry")
	m := c.entryModel()
	fKind := FieldVar(m.entry, "Kind")
	kindName := map[int64]string{}
	for _, n := range c.YangPkg().Scope().Names() {
		if k, ok := c.YangPkg().Scope().Lookup(n).(*types.Const); ok && namedOf(k.Type()) != nil && namedOf(k.Type()).Obj().Name() == "EntryKind" {
			var v int64
			fmt.Sscanf(k.Val().ExactString(), "%d", &v)
			kindName[v] = n
		}
	}
	want := map[string]string{"Choice": "ChoiceEntry", "Case": "CaseEntry", "AnyData": "AnyDataEntry", "AnyXML": "AnyXMLEntry",
		"Input": "InputEntry", "Output": "OutputEntry", "Notification": "NotificationEntry", "Deviate": "DeviateEntry"}
	seenType := map[string]bool{}
	for _, st := range storesToField(toEntry, fKind) {
		k, okk := constInt(st.Val)
		if !okk {
			continue
		}
		// which arm of the type switch on n?
		var arm string
		for _, g := range guardsAt(st.Block()) {
			if ex, ok := g.Cond.(*ssa.Extract); ok && g.Branch && ex.Index == 1 {
				if ta, okt := ex.Tuple.(*ssa.TypeAssert); okt && isParamOrSpill(ta.X) {
					if n := namedOf(ta.AssertedType); n != nil {
						arm = objName(n.Obj())
					}
				}
			}
		}
		if arm == "" {
			// the rpc input/output name/kind fix-ups: e.RPC.Input.Kind = InputEntry
			if _, f, _ := loadedField(rootOfField(st.Addr)); f == m.fIn || f == m.fOut {
				wantK := "InputEntry"
				if f == m.fOut {
					wantK = "OutputEntry"
				}
				con := "rpc " + strings.ToLower(strings.TrimSuffix(wantK, "Entry")) + " entry gets its kind"
				if kindName[k] == wantK {
					obs = append(obs, ok(R, con, c.InstrPos(st), wantK))
				} else {
					obs = append(obs, bad(R, con, c.InstrPos(st), "stored kind is "+kindName[k]))
				}
			}
			continue
		}
		seenType[arm] = true
		con := fmt.Sprintf("*%s is converted to kind %s", arm, want[arm])
		if want[arm] == "" {
			obs = append(obs, undecided(R, fmt.Sprintf("*%s arm stores a kind", arm), c.InstrPos(st), "no expected kind recorded for this node type"))
		} else if kindName[k] == want[arm] {
			obs = append(obs, ok(R, con, c.InstrPos(st), kindName[k]))
		} else {
			obs = append(obs, bad(R, con, c.InstrPos(st), "the arm stores "+kindName[k]+": kind-dependent behaviour (read-only in output, implicit cases, choice handling) goes wrong"))
		}
	}
	for t, k := range want {
		if !seenType[t] {
			obs = append(obs, bad(R, fmt.Sprintf("*%s is converted to kind %s", t, k), c.Pos(toEntry.Pos()), "no arm of the conversion stores this kind"))
		}
	}
	// an entry made from scratch (a composite literal, not converted from a statement) that becomes an rpc's input or
	// output carries the kind: the conversion of an *Input / *Output statement sets it, a literal must say it
	for _, fn := range c.Funcs {
		if fn.Blocks == nil || !c.isRepoFn(fn) {
			continue
		}
		k2 := 0
		eachInstr(fn, func(in ssa.Instruction) {
			al, isA := in.(*ssa.Alloc)
			if !isA || !al.Heap {
				return
			}
			pt, isP := al.Type().(*types.Pointer)
			if !isP || namedOf(pt.Elem()) != m.entry {
				return
			}
			// does this fresh entry reach RPCEntry.Input / Output (here, or as an argument of a callee that stores
			// its parameter there)?
			slot := ""
			slots := map[string]bool{}
			var reach func(v ssa.Value, f2 *ssa.Function, depth int)
			reach = func(v ssa.Value, f2 *ssa.Function, depth int) {
				if depth > 2 || v.Referrers() == nil {
					return
				}
				for _, r := range *v.Referrers() {
					switch x := r.(type) {
					case *ssa.Store:
						if x.Val == v {
							if _, f, _ := fieldOf(x.Addr); f == m.fIn {
								slots["Input"] = true
								slot = "Input"
							} else if f == m.fOut {
								slots["Output"] = true
								if slot == "" {
									slot = "Output"
								}
							}
						}
					case ssa.CallInstruction:
						cal := x.Common().StaticCallee()
						if cal == nil || !c.isRepoFn(cal) || cal.Blocks == nil {
							continue
						}
						for i, a := range x.Common().Args {
							if a == v && i < len(cal.Params) {
								reach(cal.Params[i], cal, depth+1)
							}
						}
					}
				}
			}
			reach(al, fn, 0)
			if slot == "" {
				return
			}
			k2++
			con := fmt.Sprintf("%s: entry literal #%d that becomes an rpc input/output says its kind", c.FnName(fn), k2)
			kindSet := false
			for _, r := range *al.Referrers() {
				if fa, isFA := r.(*ssa.FieldAddr); isFA {
					if _, f, _ := fieldOf(fa); f == fKind {
						for _, rr := range *fa.Referrers() {
							if st, isS := rr.(*ssa.Store); isS && st.Addr == ssa.Value(fa) {
								if kv, okk := constInt(st.Val); okk && (kindName[kv] == "InputEntry" && slots["Input"] || kindName[kv] == "OutputEntry" && slots["Output"]) {
									kindSet = true
								}
							}
						}
					}
				}
			}
			if kindSet {
				obs = append(obs, ok(R, con, c.InstrPos(al), "Kind: InputEntry / OutputEntry in the literal"))
			} else {
				obs = append(obs, bad(R, con, c.InstrPos(al), "an entry made from a literal is installed as an rpc's "+strings.ToLower(slot)+" (or handed to a helper that installs it) without a kind: it keeps the zero kind, so `output is read-only whatever its config` does not hold for what is later grafted under it"))
			}
		})
	}
	// constructors: directories make Dir, leaves do not
	for _, cn := range []struct {
		name    string
		makeDir bool
		kind    string
	}{{"yang.newDirectory", true, "DirectoryEntry"}, {"yang.newLeaf", false, "LeafEntry"}} {
		fn := c.Fn(cn.name)
		con := fmt.Sprintf("%s: kind %s and child map %v", cn.name, cn.kind, cn.makeDir)
		if fn == nil {
			obs = append(obs, undecided(R, con, "-", "constructor not found"))
			continue
		}
		made := len(c.madeFieldsAll(fn, m.fDir)) > 0
		kOK := false
		for _, st := range storesToField(fn, fKind) {
			if k, okk := constInt(st.Val); okk && kindName[k] == cn.kind {
				kOK = true
			}
		}
		if made == cn.makeDir && kOK {
			obs = append(obs, ok(R, con, c.Pos(fn.Pos()), "as specified"))
		} else {
			obs = append(obs, bad(R, con, c.Pos(fn.Pos()), fmt.Sprintf("makes Dir: %v, stores %s: %v", made, cn.kind, kOK)))
		}
	}
	return obs
}

func rootOfField(addr ssa.Value) ssa.Value {
	if fa, ok := addr.(*ssa.FieldAddr); ok {
		return fa.X
	}
	return addr
}

func (c *Ctx) madeFieldsAll(fn *ssa.Function, f *types.Var) []*ssa.Store {
	var out []*ssa.Store
	for _, st := range storesToField(fn, f) {
		if _, isMake := st.Val.(*ssa.MakeMap); isMake {
			out = append(out, st)
		}
	}
	return out
}

// onlyCalledBySort: a Len/Less/Swap method whose callers are all in package sort.
func (c *Ctx) onlyCalledBySort(fn *ssa.Function) bool {
	switch fn.Name() {
	case "Len", "Less", "Swap":
	default:
		return false
	}
	node := c.Graph().Nodes[fn]
	if node == nil || len(node.In) == 0 {
		return false
	}
	for _, e := range node.In {
		cf := e.Caller.Func
		if cf.Synthetic != "" {
			continue
		}
		if cf.Pkg == nil || cf.Pkg.Pkg.Path() != "sort" {
			return false
		}
	}
	return true
}

// invalidatedOnLoad: the field is stored afresh, unconditionally, in a function that Modules.Parse calls for every
// module it files (after the filing succeeded, before the next statement or the return): what was computed from the
// modules loaded so far is dropped whenever that set changes, which is all a memo over the loaded set needs — also
// when the load happens in the middle of a Process run (FindModule → Read → Parse).
func (c *Ctx) invalidatedOnLoad(key string) string {
	parts := strings.SplitN(key, ".", 2)
	owner := c.Named("yang", parts[0])
	if owner == nil || len(parts) != 2 {
		return ""
	}
	f := FieldVar(owner, parts[1])
	parse := c.Fn("yang.(*Modules).Parse")
	add := c.Fn("yang.(*Modules).add")
	if f == nil || parse == nil || add == nil {
		return ""
	}
	switch f.Type().Underlying().(type) {
	case *types.Map, *types.Slice:
	default:
		return ""
	}
	adds := c.callsToDeep(parse, add)
	if len(adds) != 1 {
		return ""
	}
	addSite := liftTo(adds[0].(ssa.Instruction), parse)
	if addSite == nil {
		return ""
	}
	// the hooks: calls in Parse that every path from the filing to the next statement or to an accepting return
	// passes — minus the paths that leave through an error return
	found := ""
	eachInstr(parse, func(in ssa.Instruction) {
		ci, isC := in.(ssa.CallInstruction)
		if !isC || found != "" || in == addSite || !dominates(addSite, in) {
			return
		}
		hook := ci.Common().StaticCallee()
		if hook == nil || !c.isRepoFn(hook) {
			return
		}
		// the hook stores the field afresh on every path through it
		fresh := false
		for _, st := range storesToField(hook, f) {
			switch v := st.Val.(type) {
			case *ssa.MakeMap, *ssa.MakeSlice:
				fresh = onEveryPath(st)
			case *ssa.Const:
				fresh = v.Value == nil && onEveryPath(st)
			}
		}
		if !fresh {
			return
		}
		// every accepting way on from the filing passes the call
		avoid := map[*ssa.BasicBlock]bool{in.Block(): true}
		okAll := true
		hdr := loopHeaderOf(addSite.Block())
		for _, b := range parse.Blocks {
			target := b == hdr && hdr != nil
			if r, isR := b.Instrs[len(b.Instrs)-1].(*ssa.Return); isR && b != parse.Recover && !blockReturnsError(b) {
				_ = r
				target = true
			}
			if !target || !blockReaches(addSite.Block(), b, nil) {
				continue
			}
			// reachable without the hook only through an error exit?
			if in.Block() != addSite.Block() && reachWithoutErrorExit(addSite.Block(), b, avoid) {
				okAll = false
			}
		}
		if okAll {
			found = fmt.Sprintf("dropped whenever a module is filed: %s stores it afresh and Modules.Parse calls it after every successful filing", c.FnName(hook))
		}
	})
	return found
}

// reachWithoutErrorExit: b is reachable from a without entering a block of avoid; error-returning blocks end a path.
func reachWithoutErrorExit(a, b *ssa.BasicBlock, avoid map[*ssa.BasicBlock]bool) bool {
	seen := map[*ssa.BasicBlock]bool{}
	stack := append([]*ssa.BasicBlock{}, a.Succs...)
	for len(stack) > 0 {
		x := stack[len(stack)-1]
		stack = stack[:len(stack)-1]
		if seen[x] || avoid[x] {
			continue
		}
		seen[x] = true
		if x == b {
			return true
		}
		stack = append(stack, x.Succs...)
	}
	return false
}

// rootFieldAddr: the field address a store or map update goes through (the map's own field for an update).
func rootFieldAddr(addr ssa.Value) ssa.Value {
	if u, isU := addr.(*ssa.UnOp); isU {
		return u.X
	}
	return addr
}

var localOnlyMemo = map[*types.Named]bool{}

// localOnlyType: an unexported struct type of the repository that no struct field, package-level variable, map,
// slice, array or channel element, and no interface-typed position the repo stores into, can hold: its values live
// in locals and parameters only (they may be captured by closures and method values).
func (c *Ctx) localOnlyType(t *types.Named) bool {
	if v, done := localOnlyMemo[t]; done {
		return v
	}
	localOnlyMemo[t] = false
	if t.Obj().Exported() || t.Obj().Pkg() == nil || c.Types[t.Obj().Pkg().Path()] == nil {
		return false
	}
	if _, isS := t.Underlying().(*types.Struct); !isS {
		return false
	}
	holds := func(x types.Type) bool {
		seen := map[types.Type]bool{}
		var in func(y types.Type) bool
		in = func(y types.Type) bool {
			if y == nil || seen[y] {
				return false
			}
			seen[y] = true
			if namedOf(y) == t {
				return true
			}
			switch u := y.Underlying().(type) {
			case *types.Pointer:
				return in(u.Elem())
			case *types.Slice:
				return in(u.Elem())
			case *types.Array:
				return in(u.Elem())
			case *types.Map:
				return in(u.Key()) || in(u.Elem())
			case *types.Chan:
				return in(u.Elem())
			}
			return false
		}
		return in(x)
	}
	for _, pkg := range c.Types {
		sc := pkg.Scope()
		for _, n := range sc.Names() {
			switch o := sc.Lookup(n).(type) {
			case *types.Var:
				if holds(o.Type()) {
					return false
				}
			case *types.TypeName:
				if nt, isN := o.Type().(*types.Named); isN && nt != t {
					if st, isS := nt.Underlying().(*types.Struct); isS {
						for i := 0; i < st.NumFields(); i++ {
							if holds(st.Field(i).Type()) {
								return false
							}
						}
					} else if holds(nt.Underlying()) {
						return false
					}
				}
			}
		}
	}
	// never boxed into an interface (it could then sit anywhere)
	for _, fn := range c.Funcs {
		boxed := false
		eachInstr(fn, func(in ssa.Instruction) {
			if mi, isMI := in.(*ssa.MakeInterface); isMI && holds(mi.X.Type()) {
				boxed = true
			}
		})
		if boxed {
			return false
		}
	}
	localOnlyMemo[t] = true
	return true
}

func isPhiOrHelperCall(v ssa.Value) bool {
	if _, isPhi := v.(*ssa.Phi); isPhi {
		return true
	}
	return len(helperReturns(v)) > 0
}

// phiFieldKeys: addr is a phi every edge of which is the address of a struct field (through further phis); the keys of
// those fields, or nil.
func phiFieldKeys(addr ssa.Value) []string {
	var out []string
	seen := map[ssa.Value]bool{}
	okAll := true
	var walk func(v ssa.Value)
	walk = func(v ssa.Value) {
		if seen[v] {
			return
		}
		seen[v] = true
		switch x := v.(type) {
		case *ssa.Phi:
			for _, e := range x.Edges {
				walk(e)
			}
		case *ssa.FieldAddr:
			if owner, f, _ := fieldOf(x); f != nil {
				out = append(out, fieldKey(owner, f))
			} else {
				okAll = false
			}
		default:
			okAll = false
		}
	}
	walk(addr)
	if !okAll {
		return nil
	}
	return out
}

// phiFieldAddrs: the FieldAddr values a phi of field addresses may hold, or nil when an edge is something else.
func phiFieldAddrs(addr ssa.Value) []*ssa.FieldAddr {
	var out []*ssa.FieldAddr
	seen := map[ssa.Value]bool{}
	okAll := true
	var walk func(v ssa.Value)
	walk = func(v ssa.Value) {
		if seen[v] {
			return
		}
		seen[v] = true
		switch x := v.(type) {
		case *ssa.Phi:
			for _, e := range x.Edges {
				walk(e)
			}
		case *ssa.FieldAddr:
			out = append(out, x)
		default:
			okAll = false
		}
	}
	walk(addr)
	if !okAll {
		return nil
	}
	return out
}

package main

// rules_rec.go: REC — recursion along reference edges is guarded.

import (
	"fmt"
	"go/types"
	"sort"
	"strings"

	"golang.org/x/tools/go/ssa"
)

func init() {
	register(&Rule{Name: "REC", Props: []string{"C01", "C06", "C09", "C11", "C13"}, Floor: 15,
		Doc: "every recursive call-graph cycle reachable from the API descends a containment tree, ascends parent links, consumes input, or is dominated by a visited-set test-and-set",
		Run: ruleRec})
}

type edgeClass int

const (
	eDesc  edgeClass = iota // strictly descends containment
	eAsc                    // strictly ascends parent links
	eSame                   // carriers passed unchanged (non-increasing)
	eRef                    // carrier derived through a reference / lookup
	eFresh                  // carrier freshly allocated here
	eUnknown
)

func (e edgeClass) String() string {
	return [...]string{"descent", "ascent", "same", "reference", "fresh", "unknown"}[e]
}

type recEdge struct {
	caller, callee *ssa.Function
	site           ssa.CallInstruction
	class          edgeClass
	why            string
	guard          string // non-empty when a reference edge is guarded
	carriers       string
	freshT         types.Type
}

// REC exceptions: one named construct, one reason.
var recJustified = map[string]string{
	"yang.findInDir → yang.findInDir": "the only carrier is a directory path extended by one component of an ioutil.ReadDir listing; ReadDir reports symlinks as non-directories, so the walk is over a finite directory tree",
	"yang.build → meta-slot closure":  "funcs[\"Name\"|\"Statement\"|\"Parent\"] select the closures made for string / *Statement / interface kinded fields (SCHEMA.META fixes those kinds); those closures contain no call of build (checked below), so the VTA edge to the substatement builders is spurious for these three call sites",
}

func ruleRec(c *Ctx) []Obligation {
	const R = "REC"
	var obs []Obligation
	reach := c.Reach(c.APIRoots(), nil)
	// closures stored in tables and invoked dynamically: VTA connects them; keep them in the set
	sccs := c.SCCs(reach)
	for _, scc := range sccs {
		in := map[*ssa.Function]bool{}
		var names []string
		for _, f := range scc {
			in[f] = true
			names = append(names, c.FnName(f))
		}
		sccName := strings.Join(names, " ↔ ")
		var edges []*recEdge
		for _, f := range scc {
			eachInstr(f, func(instr ssa.Instruction) {
				ci, ok := instr.(ssa.CallInstruction)
				if !ok {
					return
				}
				for _, cal := range c.Callees(ci) {
					if in[cal] {
						edges = append(edges, c.classifyRecEdge(f, cal, ci))
					}
				}
			})
		}
		// obligations per edge
		sameGraph := map[*ssa.Function][]*ssa.Function{}
		hasDesc, hasAsc := false, false
		for _, e := range edges {
			con := fmt.Sprintf("%s → %s [%s]", c.FnName(e.caller), c.FnName(e.callee), e.carriers)
			pos := c.InstrPos(e.site)
			switch e.class {
			case eDesc:
				hasDesc = true
				obs = append(obs, ok(R, con, pos, "containment descent: "+e.why))
			case eAsc:
				hasAsc = true
				obs = append(obs, ok(R, con, pos, "parent ascent: "+e.why))
			case eSame:
				if why := c.consumesInputBefore(e); why != "" {
					obs = append(obs, ok(R, con, pos, "input-consuming: "+why))
				} else if j, okj := c.recJustification(e); okj {
					obs = append(obs, just(R, con, pos, j))
				} else {
					sameGraph[e.caller] = append(sameGraph[e.caller], e.callee)
					o := ok(R, con, pos, "carriers unchanged; the cycle must contain a strict step elsewhere (checked per SCC)")
					o.Trivial = true
					obs = append(obs, o)
				}
			case eRef:
				if e.guard != "" {
					obs = append(obs, ok(R, con, pos, "reference edge guarded: "+e.guard))
				} else if j, okj := c.recJustification(e); okj {
					obs = append(obs, just(R, con, pos, j))
				} else {
					obs = append(obs, bad(R, con, pos, "recursive call along a reference edge ("+e.why+") with no dominating visited/in-progress test-and-set: cyclic input recurses without bound (a memo written after the call returns is not a guard)"))
				}
			case eFresh:
				obs = append(obs, c.checkFreshArm(R, con, pos, e, edges))
			default:
				if j, okj := c.recJustification(e); okj {
					obs = append(obs, just(R, con, pos, j))
				} else {
					obs = append(obs, undecided(R, con, pos, "cannot classify the carriers of this recursive call: "+e.why))
				}
			}
		}
		// SAME-only cycles: no measure decreases
		if cyc := findCycle(sameGraph); cyc != nil {
			var ns []string
			for _, f := range cyc {
				ns = append(ns, c.FnName(f))
			}
			obs = append(obs, bad(R, "cycle of carrier-preserving calls: "+strings.Join(ns, " → "), c.Pos(cyc[0].Pos()), "a recursive cycle passes its carriers unchanged and nothing on it consumes input or marks a visited set"))
		} else {
			obs = append(obs, ok(R, "SCC "+sccName+": every cycle has a strict step", c.Pos(scc[0].Pos()), fmt.Sprintf("%d intra-SCC call edges; the carrier-preserving sub-graph is acyclic", len(edges))))
		}
		if hasDesc && hasAsc {
			obs = append(obs, undecided(R, "SCC "+sccName+" mixes descent and ascent", c.Pos(scc[0].Pos()), "a cycle that goes down containment links and up parent links has no obvious measure"))
		}
	}
	return obs
}

func findCycle(g map[*ssa.Function][]*ssa.Function) []*ssa.Function {
	state := map[*ssa.Function]int{}
	var stack []*ssa.Function
	var found []*ssa.Function
	var visit func(f *ssa.Function) bool
	visit = func(f *ssa.Function) bool {
		state[f] = 1
		stack = append(stack, f)
		for _, n := range g[f] {
			if state[n] == 1 {
				for i, x := range stack {
					if x == n {
						found = append([]*ssa.Function{}, stack[i:]...)
					}
				}
				return true
			}
			if state[n] == 0 && visit(n) {
				return true
			}
		}
		stack = stack[:len(stack)-1]
		state[f] = 2
		return false
	}
	var keys []*ssa.Function
	for f := range g {
		keys = append(keys, f)
	}
	sort.Slice(keys, func(i, j int) bool { return keys[i].Pos() < keys[j].Pos() })
	for _, f := range keys {
		if state[f] == 0 && visit(f) {
			return found
		}
	}
	return nil
}

// carrierArgs pairs the callee's carrier-typed parameters with the argument values at the site.
func (c *Ctx) carrierArgs(callee *ssa.Function, site ssa.CallInstruction) (args []ssa.Value, params []*ssa.Parameter) {
	com := site.Common()
	var actual []ssa.Value
	if com.IsInvoke() {
		actual = append(actual, com.Value)
		actual = append(actual, com.Args...)
	} else {
		actual = com.Args
		// closure call: free variables are not parameters
	}
	for i, p := range callee.Params {
		if i >= len(actual) {
			break
		}
		t := p.Type()
		if c.isCarrierType(t) || isReflectValue(t) || c.isCarrierType(actual[i].Type()) {
			args = append(args, actual[i])
			params = append(params, p)
		}
	}
	return
}

func isReflectValue(t types.Type) bool {
	n := namedOf(t)
	return n != nil && n.Obj().Pkg() != nil && n.Obj().Pkg().Path() == "reflect" && (objName(n.Obj()) == "Value" || objName(n.Obj()) == "Type")
}

func (c *Ctx) classifyRecEdge(caller, callee *ssa.Function, site ssa.CallInstruction) *recEdge {
	e := &recEdge{caller: caller, callee: callee, site: site}
	args, params := c.carrierArgs(callee, site)
	var descr []string
	anyDesc, anyAsc, anyRef, anyFresh, anySame, anyUnknown := false, false, false, false, false, false
	var refArg ssa.Value
	var refParam *ssa.Parameter
	for i, a := range args {
		p := c.provenance(a)
		d := params[i].Name() + "="
		switch {
		case len(p.Unknown) > 0:
			anyUnknown = true
			e.why = "unclassified link field(s) " + strings.Join(p.Unknown, ",")
			d += "unknown"
		case p.Ref:
			anyRef = true
			if refArg == nil {
				refArg, refParam = a, params[i]
				e.why = p.RefWhy
			}
			d += "ref"
		case p.Contain && p.Inverse:
			anyUnknown = true
			e.why = "carrier derived through both child and parent links"
			d += "mixed"
		case p.Contain:
			anyDesc = true
			if p.Reflect {
				e.why = "tagged field of the node, by reflection"
			} else {
				e.why = "containment field / member of the carrier"
			}
			d += "desc"
		case p.Inverse:
			anyAsc = true
			e.why = "parent link"
			d += "asc"
		case p.Fresh && !p.Param:
			anyFresh = true
			e.freshT = p.FreshT
			d += "fresh"
		default:
			anySame = true
			d += "same"
		}
		descr = append(descr, d)
	}
	e.carriers = strings.Join(descr, ",")
	switch {
	case len(args) == 0:
		// only scalar (string) carriers
		e.class = eUnknown
		e.why = "no object carrier; only scalars"
		// strictly shorter string measure
		if g := c.stringMeasure(site, callee); g != "" {
			e.class = eRef
			e.guard = g
		}
	case anyUnknown:
		e.class = eUnknown
	case anyRef:
		e.class = eRef
		e.guard = c.refGuard(caller, callee, site, refArg, refParam)
		if e.guard == "" {
			if g := c.stringMeasure(site, callee); g != "" {
				e.guard = g
			}
		}
	case anyDesc && !anyAsc:
		e.class = eDesc
	case anyAsc && !anyDesc:
		e.class = eAsc
	case anySame:
		e.class = eSame // a fresh companion object (e.g. the reflect.Value under construction) is no measure
	case anyFresh:
		e.class = eFresh
	default:
		e.class = eUnknown
		e.why = "mixed carriers"
	}
	return e
}

// refGuard looks for a visited/in-progress test-and-set protecting a reference-edge recursion.
// Form A (caller side): a Lookup M[k] dominating the call, whose "present" edge does not reach the call,
// and a MapUpdate M[k'] (k' same access path as k) that dominates the call.
// Form B (callee side): the callee begins with Lookup M[p] on its own carrier parameter p — the one this
// argument flows into — whose "present" edge exits without recursing, and MapUpdate M[p] dominating every
// recursive call in the callee's SCC-internal sites.
func (c *Ctx) refGuard(caller, callee *ssa.Function, site ssa.CallInstruction, arg ssa.Value, param *ssa.Parameter) string {
	// Form A
	var found string
	eachInstr(caller, func(in ssa.Instruction) {
		if found != "" {
			return
		}
		mu, ok := in.(*ssa.MapUpdate)
		if !ok || !dominates(mu, site) {
			return
		}
		if !isTrueConst(mu.Value) && !isNonZeroStore(mu.Value) {
			return
		}
		// matching lookup: same map access path, same key access path, whose present-branch avoids the call
		eachInstr(caller, func(in2 ssa.Instruction) {
			if found != "" {
				return
			}
			l, ok := in2.(*ssa.Lookup)
			if !ok || !dominates(l, mu) {
				return
			}
			if AccessPath(l.X) != AccessPath(mu.Map) || !sameKey(l.Index, mu.Key) {
				return
			}
			if !keyRelatesToArg(mu.Key, arg) {
				return
			}
			// the call must be reached only when the lookup said "absent"
			if lookupAbsentGuards(l, site) {
				found = fmt.Sprintf("test-and-set on %s[%s] in the caller dominates the call", shortPath(AccessPath(mu.Map)), shortPath(AccessPath(mu.Key)))
			}
		})
	})
	if found != "" {
		return found
	}
	// Form A': the test is made through a predicate helper (if ms.isExpanding(g) { return error })
	eachInstr(caller, func(in ssa.Instruction) {
		if found != "" {
			return
		}
		mu, ok := in.(*ssa.MapUpdate)
		if !ok || !dominates(mu, site) || (!isTrueConst(mu.Value) && !isNonZeroStore(mu.Value)) || !keyRelatesToArg(mu.Key, arg) {
			return
		}
		eachInstr(caller, func(in2 ssa.Instruction) {
			call, isC := in2.(*ssa.Call)
			if !isC || found != "" || !dominates(call, mu) {
				return
			}
			mapAP, key, isPred := c.lookupPredicate(call)
			if !isPred || mapAP != AccessPath(mu.Map) || !sameKey(key, mu.Key) {
				return
			}
			if boolFalseGuards(call, site) {
				found = fmt.Sprintf("test (through %s) and set on %s[%s] in the caller dominates the call", c.FnName(call.Call.StaticCallee()), shortPath(mapAP), shortPath(AccessPath(mu.Key)))
			}
		})
	})
	if found != "" {
		return found
	}
	// Form B
	if param == nil {
		return ""
	}
	var entryL *ssa.Lookup
	var entryMU *ssa.MapUpdate
	eachInstr(callee, func(in ssa.Instruction) {
		switch x := in.(type) {
		case *ssa.Lookup:
			if rootOf(x.Index) == ssa.Value(param) && entryL == nil && AccessPath(x.Index) == AccessPath(param) {
				entryL = x
			}
		case *ssa.MapUpdate:
			if entryL != nil && entryMU == nil && AccessPath(x.Map) == AccessPath(entryL.X) && AccessPath(x.Key) == AccessPath(param) && (isTrueConst(x.Value) || isNonZeroStore(x.Value)) {
				entryMU = x
			}
		}
	})
	if entryL == nil || entryMU == nil {
		return ""
	}
	// every call in the callee that can re-enter the SCC must be dominated by the MapUpdate and guarded by "absent"
	okAll := true
	n := 0
	reachBack := c.Reach([]*ssa.Function{callee}, nil)
	_ = reachBack
	eachInstr(callee, func(in ssa.Instruction) {
		ci, ok := in.(ssa.CallInstruction)
		if !ok {
			return
		}
		for _, cal := range c.Callees(ci) {
			if !c.isRepoFn(cal) {
				continue
			}
			if cal == callee || c.Reach([]*ssa.Function{cal}, nil)[callee] {
				n++
				if !dominates(entryMU, ci) || !lookupAbsentGuards(entryL, ci) {
					okAll = false
				}
			}
		}
	})
	if okAll && n > 0 {
		return fmt.Sprintf("the callee %s starts with a test-and-set on %s[its own %s]; every re-entering call in it is dominated by the mark", c.FnName(callee), shortPath(AccessPath(entryL.X)), param.Name())
	}
	return ""
}

func shortPath(p string) string {
	p = strings.ReplaceAll(p, "param:", "")
	return p
}

func isTrueConst(v ssa.Value) bool {
	k, ok := v.(*ssa.Const)
	return ok && k.Value != nil && k.Value.String() == "true"
}

func isNonZeroStore(v ssa.Value) bool {
	if k, ok := v.(*ssa.Const); ok {
		return k.Value != nil && k.Value.String() != "false" && k.Value.String() != "0" && k.Value.String() != `""`
	}
	return false
}

func sameKey(a, b ssa.Value) bool {
	return a == b || AccessPath(a) == AccessPath(b)
}

// keyRelatesToArg: the visited-set key is the argument itself or is derived from it (e.g. arg.Name),
// or both derive from the same range element.
func keyRelatesToArg(key, arg ssa.Value) bool {
	if key == arg {
		return true
	}
	ak := AccessPath(arg)
	kk := AccessPath(key)
	if strings.HasPrefix(kk, ak+".") || kk == ak {
		return true
	}
	// string built from arg's fields (concatenations): some operand of the key's slice is a field of arg
	rel := false
	backSliceAll(key, func(x ssa.Value) {
		if p := AccessPath(x); p == ak || strings.HasPrefix(p, ak+".") {
			rel = true
		}
	})
	return rel
}

// backSliceAll also walks through BinOp operands (string concatenation) and call arguments.
func backSliceAll(v ssa.Value, visit func(ssa.Value)) {
	seen := map[ssa.Value]bool{}
	var walk func(ssa.Value, int)
	walk = func(x ssa.Value, d int) {
		if x == nil || seen[x] || d > 12 {
			return
		}
		seen[x] = true
		visit(x)
		switch y := x.(type) {
		case *ssa.BinOp:
			walk(y.X, d+1)
			walk(y.Y, d+1)
		case *ssa.Phi:
			for _, e := range y.Edges {
				walk(e, d+1)
			}
		case *ssa.Call:
			for _, a := range y.Call.Args {
				walk(a, d+1)
			}
		case *ssa.UnOp:
			walk(y.X, d+1)
		case *ssa.Extract:
			walk(y.Tuple, d+1)
		case *ssa.Convert:
			walk(y.X, d+1)
		case *ssa.MakeInterface:
			walk(y.X, d+1)
		case *ssa.Slice:
			walk(y.X, d+1)
		case *ssa.Alloc:
			for _, r := range *y.Referrers() {
				if ia, ok := r.(*ssa.IndexAddr); ok {
					for _, rr := range *ia.Referrers() {
						if st, ok := rr.(*ssa.Store); ok {
							walk(st.Val, d+1)
						}
					}
				}
				if st, ok := r.(*ssa.Store); ok && st.Addr == y {
					walk(st.Val, d+1)
				}
			}
		}
	}
	walk(v, 0)
}

// lookupAbsentGuards: `at` is reached only on paths where the boolean map lookup l was false
// (or the comma-ok / nil test said "absent").
func lookupAbsentGuards(l *ssa.Lookup, at ssa.Instruction) bool {
	for _, g := range guardsAt(at.Block()) {
		cond, br := stripNot(g.Cond, g.Branch)
		if cond == ssa.Value(l) && !br {
			return true
		}
		if ex, ok := cond.(*ssa.Extract); ok && ex.Tuple == ssa.Value(l) && ex.Index == 1 && !br {
			return true
		}
		if x, isEq, okn := nilTest(cond); okn && x == ssa.Value(l) && isEq == br {
			return true
		}
	}
	// the lookup's If is in an earlier block whose "present" successor cannot reach `at`
	for _, r := range *l.Referrers() {
		ifi, ok := r.(*ssa.If)
		if !ok {
			continue
		}
		present := ifi.Block().Succs[0]
		if !blockReaches(present, at.Block(), map[*ssa.BasicBlock]bool{ifi.Block(): true}) {
			return true
		}
	}
	return false
}

// stringMeasure: the call passes strings.TrimPrefix(x, p) of a string parameter x under a dominating `result != x` test.
func (c *Ctx) stringMeasure(site ssa.CallInstruction, callee *ssa.Function) string {
	for _, a := range site.Common().Args {
		call, ok := a.(*ssa.Call)
		if !ok || !(calleeIs(call, "strings", "TrimPrefix") || calleeIs(call, "strings", "TrimSuffix")) {
			continue
		}
		orig := call.Call.Args[0]
		for _, g := range guardsAt(site.Block()) {
			bo, okb := g.Cond.(*ssa.BinOp)
			if !okb {
				continue
			}
			same := (bo.X == ssa.Value(call) && bo.Y == orig) || (bo.Y == ssa.Value(call) && bo.X == orig)
			if !same {
				continue
			}
			if (bo.Op.String() == "==" && !g.Branch) || (bo.Op.String() == "!=" && g.Branch) {
				return "strictly shorter string: the argument is TrimPrefix(name, …) under a dominating result != name test"
			}
		}
	}
	return ""
}

// consumesInputBefore: a carrier-preserving recursive call is fine when every path from the function entry to it
// passes a call that consumes input: a method on the same receiver that (transitively) reaches the lexer's token fetch.
func (c *Ctx) consumesInputBefore(e *recEdge) string {
	lexNext := c.Fn("yang.(*lexer).NextToken")
	if lexNext == nil {
		return ""
	}
	var hit string
	eachInstr(e.caller, func(in ssa.Instruction) {
		ci, ok := in.(ssa.CallInstruction)
		if !ok || hit != "" {
			return
		}
		f := ci.Common().StaticCallee()
		if f == nil || !c.isRepoFn(f) || f == e.callee {
			return
		}
		if !dominates(in, e.site) {
			return
		}
		if f == lexNext || c.Reach([]*ssa.Function{f}, nil)[lexNext] {
			hit = fmt.Sprintf("%s (which fetches a token) dominates the recursive call", c.FnName(f))
		}
	})
	return hit
}

func (c *Ctx) recJustification(e *recEdge) (string, bool) {
	key := c.FnName(e.caller) + " → " + c.FnName(e.callee)
	if j, ok := jget("recJustified", recJustified, key); ok {
		return j, true
	}
	// build → closure through a constant meta-slot key
	if c.FnName(e.caller) == "yang.build" {
		if call, ok := e.site.(*ssa.Call); ok {
			if l, okl := call.Call.Value.(*ssa.Lookup); okl {
				if s, isc := constString(l.Index); isc && (s == "Name" || s == "Statement" || s == "Parent") {
					// check: the closures that do SetString / Set(ValueOf(stmt)) / Set(p) contain no call to build — done by SCHEMA.CARD's classification
					return jstr("recJustified", recJustified, "yang.build → meta-slot closure"), true
				}
			}
		}
	}
	return "", false
}

// checkFreshArm: a recursive call on a freshly built carrier is fine when the carrier's type selects a different
// arm of the function's type switch and the arm graph is acyclic.
func (c *Ctx) checkFreshArm(R, con, pos string, e *recEdge, edges []*recEdge) Obligation {
	armOf := func(site ssa.CallInstruction) types.Type {
		for _, g := range guardsAt(site.Block()) {
			ex, ok := g.Cond.(*ssa.Extract)
			if !ok || !g.Branch || ex.Index != 1 {
				continue
			}
			ta, ok := ex.Tuple.(*ssa.TypeAssert)
			if !ok || !ta.CommaOk {
				continue
			}
			if isParamOrSpill(ta.X) {
				return ta.AssertedType
			}
		}
		return nil
	}
	g := map[string][]string{}
	for _, x := range edges {
		if x.class != eFresh || x.freshT == nil {
			continue
		}
		a := armOf(x.site)
		if a == nil {
			return undecided(R, con, pos, "fresh carrier passed to a recursive call outside a type-switch arm on the parameter")
		}
		g[typeStr(a)] = append(g[typeStr(a)], typeStr(x.freshT))
	}
	// acyclic?
	state := map[string]int{}
	var cyc bool
	var visit func(string)
	visit = func(n string) {
		state[n] = 1
		for _, m := range g[n] {
			if state[m] == 1 {
				cyc = true
			} else if state[m] == 0 {
				visit(m)
			}
		}
		state[n] = 2
	}
	for n := range g {
		if state[n] == 0 {
			visit(n)
		}
	}
	if cyc {
		return bad(R, con, pos, "the arms that build a fresh carrier and recurse on it form a cycle")
	}
	a := armOf(e.site)
	return ok(R, con, pos, fmt.Sprintf("fresh %s built in the %s arm; the arm graph is acyclic", typeStr(e.freshT), typeStr(a)))
}

// isParamOrSpill: v is a parameter, or a load of the cell a captured parameter was spilled into.
func isParamOrSpill(v ssa.Value) bool {
	if _, ok := v.(*ssa.Parameter); ok {
		return true
	}
	u, ok := v.(*ssa.UnOp)
	if !ok {
		return false
	}
	a, ok := u.X.(*ssa.Alloc)
	if !ok {
		return false
	}
	n := 0
	isP := false
	for _, r := range *a.Referrers() {
		if st, ok := r.(*ssa.Store); ok && st.Addr == a {
			n++
			_, isP = st.Val.(*ssa.Parameter)
		}
	}
	return n == 1 && isP
}

// lookupPredicate: the call is to a repo function that does nothing but return m[k] for a bool-valued map m that
// is a field of one parameter and a key k that is another parameter. Returns the map's access path and the key
// in terms of the call's arguments.
func (c *Ctx) lookupPredicate(call *ssa.Call) (string, ssa.Value, bool) {
	f := call.Call.StaticCallee()
	if f == nil || !c.isRepoFn(f) || len(f.Blocks) != 1 {
		return "", nil, false
	}
	r, isR := f.Blocks[0].Instrs[len(f.Blocks[0].Instrs)-1].(*ssa.Return)
	if !isR || len(r.Results) != 1 {
		return "", nil, false
	}
	l, isL := r.Results[0].(*ssa.Lookup)
	if !isL || l.CommaOk {
		return "", nil, false
	}
	for _, in := range f.Blocks[0].Instrs {
		switch in.(type) {
		case *ssa.Store, *ssa.MapUpdate, *ssa.Call, *ssa.Go, *ssa.Defer:
			return "", nil, false
		}
	}
	_, mf, mbase := loadedField(l.X)
	if mf == nil {
		return "", nil, false
	}
	mi, ki := -1, -1
	for i := range f.Params {
		if isParamN(f, mbase, i) {
			mi = i
		}
		if isParamN(f, l.Index, i) {
			ki = i
		}
	}
	args := call.Call.Args
	if mi < 0 || ki < 0 || mi >= len(args) || ki >= len(args) {
		return "", nil, false
	}
	return AccessPath(args[mi]) + "." + recordedFieldName(mf), args[ki], true
}

// boolFalseGuards: `at` is reached only when the bool value v was false.
func boolFalseGuards(v ssa.Value, at ssa.Instruction) bool {
	for _, g := range guardsAt(at.Block()) {
		cond, br := stripNot(g.Cond, g.Branch)
		if cond == v && !br {
			return true
		}
	}
	for _, r := range refsOf(v) {
		ifi, isIf := r.(*ssa.If)
		if !isIf {
			continue
		}
		if !blockReaches(ifi.Block().Succs[0], at.Block(), map[*ssa.BasicBlock]bool{ifi.Block(): true}) {
			return true
		}
	}
	return false
}

package main

import (
	"fmt"
	"go/token"
	"go/types"
	"sort"

	"golang.org/x/tools/go/ssa"
)

// Rules written after the mutation sweep over the code of the session-6 repairs (DESIGN §3.13).

// ---------------------------------------------------------------- REC.WORKLIST

func init() {
	register(&Rule{Name: "REC.WORKLIST", Props: []string{"C01"}, Floor: 2,
		Doc: "a work-list loop over reference edges that the text can close into a cycle (include, import) enters a module only after a lookup in a visited set said it is new, and enters it in that set",
		Run: ruleRecWorklist})
}

// ruleRecWorklist: every append of a linked module (Include.Module, Import.Module) to a list the enclosing loop also
// consumes is (a) reached only on the not-found branch of a lookup in a set, and (b) accompanied, on that same branch
// or before it, by an entry into the same set under the same key that is not the constant false.
func ruleRecWorklist(c *Ctx) []Obligation {
	const R = "REC.WORKLIST"
	incT, impT := c.Named("yang", "Include"), c.Named("yang", "Import")
	if incT == nil || impT == nil {
		return []Obligation{undecided(R, "work lists over include/import edges", "-", "Include / Import not found")}
	}
	links := map[*types.Var]bool{}
	for _, f := range []*types.Var{FieldVar(incT, "Module"), FieldVar(impT, "Module")} {
		if f != nil {
			links[f] = true
		}
	}
	if len(links) == 0 {
		return []Obligation{undecided(R, "work lists over include/import edges", "-", "Include.Module / Import.Module not found")}
	}
	var obs []Obligation
	var fns []*ssa.Function
	for _, fn := range c.Funcs {
		if c.isRepoFn(fn) {
			fns = append(fns, fn)
		}
	}
	sort.Slice(fns, func(i, j int) bool { return fns[i].Pos() < fns[j].Pos() })
	for _, fn := range fns {
		n := 0
		eachInstr(fn, func(in ssa.Instruction) {
			ap, isC := in.(*ssa.Call)
			if !isC {
				return
			}
			elems := appendElems(ap)
			if len(elems) == 0 {
				return
			}
			linked := false
			for _, e := range elems {
				if _, f, _ := loadedField(e); links[f] {
					linked = true
				}
			}
			if !linked || !consumedInLoop(ap) {
				return
			}
			n++
			con := fmt.Sprintf("%s: work list #%d takes a linked module only once", c.FnName(fn), n)
			at := c.InstrPos(ap)
			// (a) a lookup in a set, taken on its not-found side, stands in front of the append
			var set ssa.Value
			var key ssa.Value
			for _, g := range guardsAt(ap.Block()) {
				gc, gb := stripNot(g.Cond, g.Branch)
				lk, isL := gc.(*ssa.Lookup)
				if !isL {
					if ex, isE := gc.(*ssa.Extract); isE && ex.Index == 1 {
						lk, isL = ex.Tuple.(*ssa.Lookup)
					}
				}
				if !isL || gb {
					continue
				}
				if _, isMap := lk.X.Type().Underlying().(*types.Map); !isMap {
					continue
				}
				set, key = lk.X, lk.Index
			}
			if set == nil {
				obs = append(obs, bad(R, con, at, "the append is not reached only on the not-found side of a lookup in a visited set: includes or imports that form a cycle keep the list growing for ever"))
				return
			}
			// (b) the key is entered in that set on the way
			entered := false
			eachInstr(fn, func(in2 ssa.Instruction) {
				mu, isMU := in2.(*ssa.MapUpdate)
				if !isMU || entered {
					return
				}
				if !sameObject(mu.Map, set) || !sameObject(mu.Key, key) {
					return
				}
				if k, isK := mu.Value.(*ssa.Const); isK && k.Value != nil && k.Value.String() == "false" {
					return
				}
				if dominates(mu, ap) || sameGuardRegion(mu.Block(), ap.Block()) {
					entered = true
				}
			})
			if !entered {
				obs = append(obs, bad(R, con, at, "the visited set that is asked at "+c.InstrPos(setInstr(set, ap))+" is not told about the module that is taken: a cycle of includes or imports is walked for ever"))
				return
			}
			obs = append(obs, ok(R, con, at, "reached only when the visited set does not hold the module, which is entered in the set on the same path"))
		})
	}
	return obs
}

// consumedInLoop: the list the append extends is carried round a loop whose header also takes a slice of it or indexes
// it (a work list, as opposed to a result list that only grows).
func consumedInLoop(ap *ssa.Call) bool {
	seen := map[ssa.Value]bool{}
	var phis []*ssa.Phi
	var walk func(v ssa.Value)
	walk = func(v ssa.Value) {
		if seen[v] {
			return
		}
		seen[v] = true
		switch x := v.(type) {
		case *ssa.Phi:
			phis = append(phis, x)
			for _, e := range x.Edges {
				walk(e)
			}
		case *ssa.Slice:
			walk(x.X)
		case *ssa.Call:
			if es := appendElems(x); es != nil || isAppend(x) {
				walk(x.Call.Args[0])
			}
		}
	}
	walk(ap.Call.Args[0])
	carried := false
	for _, p := range phis {
		for _, e := range p.Edges {
			back := false
			operandClosure(e, func(y ssa.Value) {
				if y == ssa.Value(ap) {
					back = true
				}
			})
			if back {
				carried = true
			}
		}
	}
	if !carried {
		return false
	}
	for v := range seen {
		for _, r := range refsOf(v) {
			switch x := r.(type) {
			case *ssa.Slice:
				if x.X == v && (x.Low != nil || x.High != nil) {
					return true
				}
			}
		}
	}
	return false
}

func isAppend(call *ssa.Call) bool {
	bi, ok := call.Call.Value.(*ssa.Builtin)
	return ok && bi.Name() == "append" && len(call.Call.Args) > 0
}

// sameGuardRegion: a is reached under every condition b is reached under (a's block dominates b's, or both sit on the
// same side of the innermost test in front of b).
func sameGuardRegion(a, b *ssa.BasicBlock) bool {
	if a == b || a.Dominates(b) {
		return true
	}
	return false
}

func setInstr(set ssa.Value, dflt ssa.Instruction) ssa.Instruction {
	if in, ok := set.(ssa.Instruction); ok {
		return in
	}
	return dflt
}

var _ = token.EQL

package main

import (
	"fmt"
	"go/token"
	"go/types"
	"regexp"
	"sort"

	"golang.org/x/tools/go/ssa"
)

// Rules written after the mutation sweep over the code of the session-6 repairs (DESIGN §3.13).

// ---------------------------------------------------------------- REC.WORKLIST

func init() {
	register(&Rule{Name: "REC.WORKLIST", Props: []string{"C01", "C11", "C13"}, Floor: 2,
		Doc: "a work-list loop over reference edges that the text can close into a cycle (include, import) enters a module only after a lookup in a visited set said it is new, and enters it in that set",
		Run: ruleRecWorklist})
}

// ruleRecWorklist: every append of a linked module (Include.Module, Import.Module) to a list the enclosing loop also
// consumes is (a) reached only on the not-found branch of a lookup in a set, and (b) accompanied, on that same branch
// or before it, by an entry into the same set under the same key that is not the constant false.
func ruleRecWorklist(c *Ctx) []Obligation {
	const R = "REC.WORKLIST"
	incT, impT := c.Named("yang", "Include"), c.Named("yang", "Import")
	if incT == nil || impT == nil {
		return []Obligation{undecided(R, "work lists over include/import edges", "-", "Include / Import not found")}
	}
	links := map[*types.Var]bool{}
	for _, f := range []*types.Var{FieldVar(incT, "Module"), FieldVar(impT, "Module")} {
		if f != nil {
			links[f] = true
		}
	}
	if len(links) == 0 {
		return []Obligation{undecided(R, "work lists over include/import edges", "-", "Include.Module / Import.Module not found")}
	}
	var obs []Obligation
	var fns []*ssa.Function
	for _, fn := range c.Funcs {
		if c.isRepoFn(fn) {
			fns = append(fns, fn)
		}
	}
	sort.Slice(fns, func(i, j int) bool { return fns[i].Pos() < fns[j].Pos() })
	for _, fn := range fns {
		n := 0
		eachInstr(fn, func(in ssa.Instruction) {
			ap, isC := in.(*ssa.Call)
			if !isC {
				return
			}
			elems := appendElems(ap)
			if len(elems) == 0 {
				return
			}
			linked := false
			for _, e := range elems {
				if _, f, _ := loadedField(e); links[f] {
					linked = true
				}
			}
			if !linked || !consumedInLoop(ap) {
				return
			}
			n++
			con := fmt.Sprintf("%s: work list #%d takes a linked module only once", c.FnName(fn), n)
			at := c.InstrPos(ap)
			// (a) a lookup in a set, taken on its not-found side, stands in front of the append
			var set ssa.Value
			var key ssa.Value
			for _, g := range guardsAt(ap.Block()) {
				gc, gb := stripNot(g.Cond, g.Branch)
				lk, isL := gc.(*ssa.Lookup)
				if !isL {
					if ex, isE := gc.(*ssa.Extract); isE && ex.Index == 1 {
						lk, isL = ex.Tuple.(*ssa.Lookup)
					}
				}
				if !isL || gb {
					continue
				}
				if _, isMap := lk.X.Type().Underlying().(*types.Map); !isMap {
					continue
				}
				set, key = lk.X, lk.Index
			}
			if set == nil {
				obs = append(obs, bad(R, con, at, "the append is not reached only on the not-found side of a lookup in a visited set: includes or imports that form a cycle keep the list growing for ever"))
				return
			}
			// (b) the key is entered in that set on the way
			entered := false
			eachInstr(fn, func(in2 ssa.Instruction) {
				mu, isMU := in2.(*ssa.MapUpdate)
				if !isMU || entered {
					return
				}
				if !sameObject(mu.Map, set) || !sameObject(mu.Key, key) {
					return
				}
				if k, isK := mu.Value.(*ssa.Const); isK && k.Value != nil && k.Value.String() == "false" {
					return
				}
				if dominates(mu, ap) || sameGuardRegion(mu.Block(), ap.Block()) {
					entered = true
				}
			})
			if !entered {
				obs = append(obs, bad(R, con, at, "the visited set that is asked at "+c.InstrPos(setInstr(set, ap))+" is not told about the module that is taken: a cycle of includes or imports is walked for ever"))
				return
			}
			// (c) once entered in the set, the module is also queued — unless an error is made about it (or the
			// function returns): a module that is marked visited and then passed over is never searched
			var mark *ssa.MapUpdate
			eachInstr(fn, func(in2 ssa.Instruction) {
				if mu, isMU := in2.(*ssa.MapUpdate); isMU && mark == nil && sameObject(mu.Map, set) && sameObject(mu.Key, key) {
					mark = mu
				}
			})
			if mark != nil {
				if h := loopHeaderOf(ap.Block()); h != nil {
					// blocks that make an error value end the path as well
					stop := map[*ssa.BasicBlock]bool{ap.Block(): true}
					for _, b := range fn.Blocks {
						for _, in2 := range b.Instrs {
							if v, isV := in2.(ssa.Value); isV && isErrorType(v.Type()) {
								switch in2.(type) {
								case *ssa.Call, *ssa.MakeInterface:
									stop[b] = true
								}
							}
						}
					}
					if mark.Block() != ap.Block() && blockReaches(mark.Block(), h, stop) {
						obs = append(obs, bad(R, con, at, "after the module is entered in the visited set at "+c.InstrPos(mark)+" the next one can be taken without this one being queued and without an error about it: what it includes in turn is never visited (a submodule that only passes others on hides them)"))
						return
					}
				}
			}
			obs = append(obs, ok(R, con, at, "reached only when the visited set does not hold the module, which is entered in the set on the same path"))
		})
	}
	return obs
}

// consumedInLoop: the list the append extends is carried round a loop whose header also takes a slice of it or indexes
// it (a work list, as opposed to a result list that only grows).
func consumedInLoop(ap *ssa.Call) bool {
	seen := map[ssa.Value]bool{}
	var phis []*ssa.Phi
	var walk func(v ssa.Value)
	walk = func(v ssa.Value) {
		if seen[v] {
			return
		}
		seen[v] = true
		switch x := v.(type) {
		case *ssa.Phi:
			phis = append(phis, x)
			for _, e := range x.Edges {
				walk(e)
			}
		case *ssa.Slice:
			walk(x.X)
		case *ssa.Call:
			if es := appendElems(x); es != nil || isAppend(x) {
				walk(x.Call.Args[0])
			}
		}
	}
	walk(ap.Call.Args[0])
	carried := false
	for _, p := range phis {
		for _, e := range p.Edges {
			back := false
			operandClosure(e, func(y ssa.Value) {
				if y == ssa.Value(ap) {
					back = true
				}
			})
			if back {
				carried = true
			}
		}
	}
	if !carried {
		return false
	}
	for v := range seen {
		for _, r := range refsOf(v) {
			switch x := r.(type) {
			case *ssa.Slice:
				if x.X == v && (x.Low != nil || x.High != nil) {
					return true
				}
			}
		}
	}
	return false
}

func isAppend(call *ssa.Call) bool {
	bi, ok := call.Call.Value.(*ssa.Builtin)
	return ok && bi.Name() == "append" && len(call.Call.Args) > 0
}

// sameGuardRegion: a is reached under every condition b is reached under (a's block dominates b's, or both sit on the
// same side of the innermost test in front of b).
func sameGuardRegion(a, b *ssa.BasicBlock) bool {
	if a == b || a.Dominates(b) {
		return true
	}
	return false
}

func setInstr(set ssa.Value, dflt ssa.Instruction) ssa.Instruction {
	if in, ok := set.(ssa.Instruction); ok {
		return in
	}
	return dflt
}

var _ = token.EQL

// ---------------------------------------------------------------- LOOP.BACKSCAN

func init() {
	register(&Rule{Name: "LOOP.BACKSCAN", Props: []string{"C02"}, Floor: 0,
		Doc: "a scan that runs backwards over a text, stepping the index down before it reads (`for i := len(s); i > K; { i--; … s[i] … }`), goes down to the first byte: K is 0",
		Run: ruleLoopBackscan})
}

func ruleLoopBackscan(c *Ctx) []Obligation {
	const R = "LOOP.BACKSCAN"
	var obs []Obligation
	var fns []*ssa.Function
	for _, fn := range c.Funcs {
		if c.isRepoFn(fn) && fn.Blocks != nil {
			fns = append(fns, fn)
		}
	}
	sort.Slice(fns, func(i, j int) bool { return fns[i].Pos() < fns[j].Pos() })
	for _, fn := range fns {
		n := 0
		for _, b := range fn.Blocks {
			if !isLoopHeader(b) || len(b.Instrs) == 0 {
				continue
			}
			ifi, isIf := b.Instrs[len(b.Instrs)-1].(*ssa.If)
			if !isIf {
				continue
			}
			bo, isB := ifi.Cond.(*ssa.BinOp)
			if !isB || bo.Op != token.GTR && bo.Op != token.GEQ {
				continue
			}
			phi, isPhi := bo.X.(*ssa.Phi)
			k, isK := constInt(bo.Y)
			if !isPhi || !isK || phi.Block() != b {
				continue
			}
			// starts at len(x) …
			var text ssa.Value
			for i, e := range phi.Edges {
				if b.Dominates(b.Preds[i]) {
					continue
				}
				if call, isC := e.(*ssa.Call); isC {
					if bi, isBi := call.Call.Value.(*ssa.Builtin); isBi && bi.Name() == "len" && len(call.Call.Args) == 1 {
						text = call.Call.Args[0]
					}
				}
			}
			if text == nil {
				// the other spelling: `for i := len(s)-1; i >= K; i--` reads at the index itself
				var text2 ssa.Value
				for i, e := range phi.Edges {
					if b.Dominates(b.Preds[i]) {
						continue
					}
					if d, isD := e.(*ssa.BinOp); isD && d.Op == token.SUB {
						if one, is1 := constInt(d.Y); is1 && one == 1 {
							if call, isC := d.X.(*ssa.Call); isC {
								if bi, isBi := call.Call.Value.(*ssa.Builtin); isBi && bi.Name() == "len" && len(call.Call.Args) == 1 {
									text2 = call.Call.Args[0]
								}
							}
						}
					}
				}
				if text2 == nil {
					continue
				}
				reads := false
				for _, r := range refsOf(phi) {
					switch x := r.(type) {
					case *ssa.IndexAddr:
						reads = reads || sameObject(x.X, text2) || derivesFrom(x.X, func(y ssa.Value) bool { return y == text2 })
					case *ssa.Index:
						reads = reads || sameObject(x.X, text2) || derivesFrom(x.X, func(y ssa.Value) bool { return y == text2 })
					}
				}
				if !reads {
					continue
				}
				n++
				con := fmt.Sprintf("%s: backward scan #%d reaches the first byte of the text", c.FnName(fn), n)
				first := k
				if bo.Op == token.GTR {
					first = k + 1
				}
				if first == 0 {
					obs = append(obs, ok(R, con, c.InstrPos(ifi), "the scan reads at the index and goes on while it is at least 0"))
				} else {
					obs = append(obs, bad(R, con, c.InstrPos(ifi), fmt.Sprintf("the scan stops at index %d: the first byte(s) of the text are never looked at", first)))
				}
				continue
			}
			// (the other spelling, `for i := len(s)-1; i >= 0; i--`, reads at the index itself: handled below)
			// … is stepped down by one in the body, and the stepped value indexes the same text
			var dec *ssa.BinOp
			for _, r := range refsOf(phi) {
				if d, isD := r.(*ssa.BinOp); isD && d.Op == token.SUB && d.X == ssa.Value(phi) {
					if one, is1 := constInt(d.Y); is1 && one == 1 && loopHeaderOf(d.Block()) == b {
						dec = d
					}
				}
			}
			if dec == nil {
				continue
			}
			reads := false
			// the same text, or what is left of it (`s = s[:i]` inside the scan)
			same := func(x ssa.Value) bool {
				if sameObject(x, text) {
					return true
				}
				hit := false
				operandClosure(x, func(y ssa.Value) {
					if y == text {
						hit = true
					}
				})
				return hit
			}
			for _, r := range refsOf(dec) {
				switch x := r.(type) {
				case *ssa.IndexAddr:
					reads = reads || same(x.X)
				case *ssa.Index:
					reads = reads || same(x.X)
				case *ssa.Lookup:
					reads = reads || same(x.X)
				}
			}
			if !reads {
				continue
			}
			n++
			con := fmt.Sprintf("%s: backward scan #%d reaches the first byte of the text", c.FnName(fn), n)
			low := k
			if bo.Op == token.GEQ {
				low = k - 1
			}
			if low == 0 {
				obs = append(obs, ok(R, con, c.InstrPos(ifi), "the index is stepped down before the read and the scan goes on while it is above 0"))
			} else {
				obs = append(obs, bad(R, con, c.InstrPos(ifi), fmt.Sprintf("the scan stops while the index is still above %d: the first byte(s) of the text are never looked at (a first line that is all blanks keeps one of them)", low)))
			}
		}
	}
	return obs
}

// ---------------------------------------------------------------- LEX.PATTERNKW, SCHEMA.FOUNDKEY, PARSE.FIRSTERR, AUG.ERRHOME

func init() {
	register(&Rule{Name: "LEX.PATTERNKW", Props: []string{"C02"}, Floor: 1,
		Doc: "the pattern mode of the lexer (escapes of a double-quoted argument kept as written) is switched on by the keyword token's own text being `pattern`, not by a part of it: `ex:pattern` is an extension statement and its argument an ordinary string",
		Run: ruleLexPatternKw})
	register(&Rule{Name: "SCHEMA.FOUNDKEY", Props: []string{"C03"}, Floor: 1,
		Doc: "the table of substatements seen, which the check for required substatements consults, is keyed by the keyword as written (prefix and all): `m:type` does not stand for `type`",
		Run: ruleSchemaFoundKey})
	register(&Rule{Name: "PARSE.FIRSTERR", Props: []string{"C03", "C04"}, Floor: 2,
		Doc: "Modules.Parse returns the error of the first top-level statement that is rejected, at once: a later statement that is accepted cannot take its place",
		Run: ruleParseFirstErr})
	register(&Rule{Name: "AUG.ERRHOME", Props: []string{"C07", "C04"}, Floor: 2,
		Doc: "the errors the augment applier records go to the entry it was called on (which the error sweep visits), not to the augment, which is not part of any tree",
		Run: ruleAugErrHome})
}

func ruleLexPatternKw(c *Ctx) []Obligation {
	const R = "LEX.PATTERNKW"
	m, why := c.lexModel()
	if m == nil {
		return []Obligation{undecided(R, "lexer model", "-", why)}
	}
	fp, fText := FieldVar(m.lexer, "inPattern"), FieldVar(m.tokenT, "Text")
	if fp == nil || fText == nil {
		return []Obligation{undecided(R, "pattern mode", "-", "lexer.inPattern / token.Text not found")}
	}
	var obs []Obligation
	n := 0
	for _, fn := range c.Funcs {
		if !c.isRepoFn(fn) {
			continue
		}
		for _, st := range storesToField(fn, fp) {
			if k, isK := st.Val.(*ssa.Const); isK && k.Value != nil {
				continue // switched off (or on) unconditionally
			}
			n++
			con := fmt.Sprintf("%s: pattern mode #%d is switched on by the whole keyword", c.FnName(fn), n)
			bo, isB := st.Val.(*ssa.BinOp)
			if !isB || bo.Op != token.EQL {
				obs = append(obs, undecided(R, con, c.InstrPos(st), "the stored value is not a comparison with a constant keyword"))
				continue
			}
			x := bo.X
			if _, isK := x.(*ssa.Const); isK {
				x = bo.Y
			}
			if _, f, _ := loadedField(x); f == fText {
				obs = append(obs, ok(R, con, c.InstrPos(st), "the token's text itself is compared"))
			} else {
				obs = append(obs, bad(R, con, c.InstrPos(st), "what is compared with the keyword is computed from the token's text (a part of it): a prefixed extension keyword whose local name is `pattern` switches pattern mode on, and an invalid escape in its argument goes unreported"))
			}
		}
	}
	return obs
}

func ruleSchemaFoundKey(c *Ctx) []Obligation {
	const R = "SCHEMA.FOUNDKEY"
	build := c.Fn("yang.build")
	stmtT := c.Named("yang", "Statement")
	if build == nil || stmtT == nil {
		return []Obligation{undecided(R, "AST builder", "-", "yang.build / Statement not found")}
	}
	fKw := FieldVar(stmtT, "Keyword")
	var obs []Obligation
	n := 0
	c.eachInstrDeep(build, func(in ssa.Instruction) {
		mu, isMU := in.(*ssa.MapUpdate)
		if !isMU || !isSetInsert(mu) {
			return
		}
		derives := false
		operandClosure(mu.Key, func(x ssa.Value) {
			if _, f, _ := loadedField(x); f == fKw {
				derives = true
			}
		})
		if _, f, _ := loadedField(mu.Key); f == fKw {
			derives = true
		}
		if !derives {
			return
		}
		n++
		con := fmt.Sprintf("build: substatement seen #%d is noted under its keyword as written", n)
		if _, f, _ := loadedField(mu.Key); f == fKw {
			obs = append(obs, ok(R, con, c.InstrPos(mu), "found[ss.Keyword]"))
		} else {
			obs = append(obs, bad(R, con, c.InstrPos(mu), "the key is computed from the keyword (a part of it): an extension statement whose local name is that of a required substatement (`m:type string;` in a leaf) counts as that substatement, and the leaf is accepted without a type"))
		}
	})
	if n == 0 {
		return []Obligation{undecided(R, "build: substatements seen are noted", c.Pos(build.Pos()), "no set of keywords seen is filled in build")}
	}
	return obs
}

func ruleParseFirstErr(c *Ctx) []Obligation {
	const R = "PARSE.FIRSTERR"
	parse := c.Fn("yang.(*Modules).Parse")
	if parse == nil {
		return []Obligation{undecided(R, "Modules.Parse", "-", "not found")}
	}
	var obs []Obligation
	for _, name := range []string{"yang.buildASTWithTypeDict", "yang.(*Modules).add"} {
		cal := c.Fn(name)
		con := fmt.Sprintf("Modules.Parse: an error of %s is returned at once", shortFn(name))
		if cal == nil {
			obs = append(obs, undecided(R, con, "-", name+" not found"))
			continue
		}
		sites := c.callsToDeep(parse, cal)
		if len(sites) == 0 {
			obs = append(obs, undecided(R, con, c.Pos(parse.Pos()), "not called from Modules.Parse"))
			continue
		}
		for _, ci := range sites {
			if errorPropagated(ci) {
				obs = append(obs, ok(R, con, c.InstrPos(ci.(ssa.Instruction)), "if err != nil { return err }"))
			} else {
				obs = append(obs, bad(R, con, c.InstrPos(ci.(ssa.Instruction)), "the error is not returned where it is found: the loop goes on, and a later statement of the same text that is accepted leaves Parse answering nil for a text one of whose statements was rejected"))
			}
		}
	}
	return obs
}

func shortFn(name string) string {
	for i := len(name) - 1; i >= 0; i-- {
		if name[i] == '.' {
			return name[i+1:]
		}
	}
	return name
}

func ruleAugErrHome(c *Ctx) []Obligation {
	const R = "AUG.ERRHOME"
	aug := c.Fn("yang.(*Entry).Augment")
	if aug == nil || len(aug.Params) == 0 {
		return []Obligation{undecided(R, "augment applier", "-", "(*Entry).Augment not found")}
	}
	var recorders []*ssa.Function
	for _, n := range []string{"yang.(*Entry).errorf", "yang.(*Entry).addError"} {
		if f := c.Fn(n); f != nil {
			recorders = append(recorders, f)
		}
	}
	var obs []Obligation
	n := 0
	for _, rec := range recorders {
		for _, ci := range c.callsToDeep(aug, rec) {
			n++
			con := fmt.Sprintf("Augment: error #%d is recorded on the entry the applier was called on", n)
			recv := resolveArg(ci.Common().Args[0])
			if isParamN(aug, recv, 0) {
				obs = append(obs, ok(R, con, c.InstrPos(ci.(ssa.Instruction)), "receiver of the recording call is the applier's own receiver"))
			} else {
				obs = append(obs, bad(R, con, c.InstrPos(ci.(ssa.Instruction)), "the error is recorded on another entry ("+shortPath(AccessPath(recv))+"): the augment is in no tree and the sweep that collects errors never visits it — Process reports a clean result although an augment was refused"))
			}
		}
	}
	if n == 0 {
		return []Obligation{undecided(R, "Augment: errors are recorded", c.Pos(aug.Pos()), "no call of the error recorders in the augment applier")}
	}
	return obs
}

// ---------------------------------------------------------------- TYPE.BASEKEY, TYPE.OVERLAY

func init() {
	register(&Rule{Name: "TYPE.BASEKEY", Props: []string{"C09"}, Floor: 1,
		Doc: "the table of built-in types is asked for the type name as written: a name with a prefix (`p:string`) is never a built-in, it names a typedef of the module the prefix stands for",
		Run: ruleTypeBaseKey})
	register(&Rule{Name: "TYPE.OVERLAY", Props: []string{"C09"}, Floor: 2,
		Doc: "a typedef's own units and default replace what it inherits whenever it writes them: the store is under a test of the typedef's statement only, never of what the inherited copy already holds",
		Run: ruleTypeOverlay})
}

func ruleTypeBaseKey(c *Ctx) []Obligation {
	const R = "TYPE.BASEKEY"
	res := c.Fn("yang.(*Type).resolve")
	typeT := c.Named("yang", "Type")
	if res == nil || typeT == nil {
		return []Obligation{undecided(R, "type resolver", "-", "(*Type).resolve / Type not found")}
	}
	fName := FieldVar(typeT, "Name")
	var obs []Obligation
	n := 0
	c.eachInstrDeep(res, func(in ssa.Instruction) {
		lk, isL := in.(*ssa.Lookup)
		if !isL {
			return
		}
		ld, isU := lk.X.(*ssa.UnOp)
		if !isU {
			return
		}
		g, isG := ld.X.(*ssa.Global)
		if !isG || g.Name() != "BaseTypedefs" {
			return
		}
		n++
		con := fmt.Sprintf("Type.resolve: built-in lookup #%d is keyed by the type name as written", n)
		if _, f, base := loadedField(lk.Index); f == fName && base != nil && isParamN(res, resolveArg(base), 0) {
			obs = append(obs, ok(R, con, c.InstrPos(lk), "BaseTypedefs[t.Name]"))
		} else if owner, f, base := loadedField(lk.Index); f == fName && base != nil && owner != nil && owner.Obj() == typeT.Obj() {
			// the whole name of another type statement (a member of the union): the name as written of that one
			obs = append(obs, ok(R, con, c.InstrPos(lk), "BaseTypedefs[<member>.Name]: the whole name of another type statement"))
		} else {
			obs = append(obs, bad(R, con, c.InstrPos(lk), "the key is not the name as written (a part of it, or another value): `p:string` binds to the built-in string whatever p stands for — an unknown prefix goes unreported and a typedef `string` of the imported module is ignored"))
		}
	})
	if n == 0 {
		return []Obligation{undecided(R, "Type.resolve: built-in lookup", c.Pos(res.Pos()), "no lookup in BaseTypedefs found in the type resolver")}
	}
	return obs
}

func ruleTypeOverlay(c *Ctx) []Obligation {
	const R = "TYPE.OVERLAY"
	res := c.Fn("yang.(*Typedef).resolve")
	yt := c.Named("yang", "YangType")
	if res == nil || yt == nil {
		return []Obligation{undecided(R, "typedef resolver", "-", "(*Typedef).resolve / YangType not found")}
	}
	var obs []Obligation
	for _, name := range []string{"Units", "Default"} {
		f := FieldVar(yt, name)
		con := fmt.Sprintf("Typedef.resolve: the typedef's own %s replaces the inherited one whenever it is written", lower(name))
		if f == nil {
			obs = append(obs, undecided(R, con, "-", "YangType."+name+" not found"))
			continue
		}
		sts := c.storesToFieldDeep(res, f)
		if len(sts) == 0 {
			obs = append(obs, undecided(R, con, c.Pos(res.Pos()), "no store of the field in the typedef resolver"))
			continue
		}
		verdict := ""
		for _, st := range sts {
			for _, g := range guardsAtDeep(st.Block()) {
				readsCopy := false
				operandClosureDeep(g.Cond, func(x ssa.Value) {
					if owner, lf, _ := loadedField(x); lf != nil && owner == yt {
						readsCopy = true
					}
				})
				if readsCopy {
					verdict = c.InstrPos(g.If)
				}
			}
		}
		if verdict == "" {
			obs = append(obs, ok(R, con, c.InstrPos(sts[0]), "the store is under tests of the typedef's own statement only"))
		} else {
			obs = append(obs, bad(R, con, c.InstrPos(sts[0]), "the store also depends on what the inherited copy holds (test at "+verdict+"): in a chain of typedefs that each write it, the farthest one wins instead of the nearest"))
		}
	}
	return obs
}

// ---------------------------------------------------------------- NUM.CLAMPBOUND, UNION.ERRMERGE

func init() {
	register(&Rule{Name: "NUM.CLAMPBOUND", Props: []string{"C10", "C15"}, Floor: 0,
		Doc: "an addition that saturates (`if x > C-i { x = C } else { x += i }`) tests against the bound it saturates at: the two constants are one",
		Run: ruleNumClampBound})
	register(&Rule{Name: "UNION.ERRMERGE", Props: []string{"C10", "C04"}, Floor: 1,
		Doc: "the errors of resolving a union member are taken over on every path to the next member: no `continue` of the member loop lies between the member's resolution and the merge of its errors",
		Run: ruleUnionErrMerge})
}

func ruleNumClampBound(c *Ctx) []Obligation {
	const R = "NUM.CLAMPBOUND"
	var obs []Obligation
	var fns []*ssa.Function
	for _, fn := range c.Funcs {
		if arithScope(c, fn) && fn.Blocks != nil {
			fns = append(fns, fn)
		}
	}
	sort.Slice(fns, func(i, j int) bool { return fns[i].Pos() < fns[j].Pos() })
	for _, fn := range fns {
		n := 0
		for _, b := range fn.Blocks {
			ifi, isIf := b.Instrs[len(b.Instrs)-1].(*ssa.If)
			if !isIf {
				continue
			}
			bo, isB := ifi.Cond.(*ssa.BinOp)
			if !isB || bo.Op != token.GTR && bo.Op != token.GEQ {
				continue
			}
			sub, isS := bo.Y.(*ssa.BinOp)
			if !isS || sub.Op != token.SUB {
				continue
			}
			c1, isK := sub.X.(*ssa.Const)
			if !isK || c1.Value == nil {
				continue
			}
			// the true branch stores a constant where one of the two addends was read from (`x > C-i` and `i > C-x`
			// say the same)
			_, fx, _ := loadedField(bo.X)
			if fx == nil {
				_, fx, _ = loadedField(sub.Y)
			}
			var c2 *ssa.Const
			for _, in := range b.Succs[0].Instrs {
				st, isSt := in.(*ssa.Store)
				if !isSt {
					continue
				}
				k, isC := st.Val.(*ssa.Const)
				if !isC || k.Value == nil {
					continue
				}
				if _, fs, _ := fieldOf(st.Addr); fs != nil && fs == fx {
					c2 = k
				}
			}
			if c2 == nil {
				continue
			}
			n++
			con := fmt.Sprintf("%s: saturating addition #%d tests against the bound it saturates at", c.FnName(fn), n)
			if c1.Value.ExactString() == c2.Value.ExactString() {
				obs = append(obs, ok(R, con, c.InstrPos(ifi), "both constants are "+c1.Value.ExactString()))
			} else {
				obs = append(obs, bad(R, con, c.InstrPos(bo), fmt.Sprintf("the test is against %s but the value saturates at %s: every value between the two jumps to the bound (the end of a range part at or above the smaller one is taken to touch whatever follows, and the parts are merged)", c1.Value.ExactString(), c2.Value.ExactString())))
			}
		}
	}
	return obs
}

func ruleUnionErrMerge(c *Ctx) []Obligation {
	const R = "UNION.ERRMERGE"
	res := c.Fn("yang.(*Type).resolve")
	if res == nil {
		return []Obligation{undecided(R, "type resolver", "-", "(*Type).resolve not found")}
	}
	var obs []Obligation
	n := 0
	for _, ci := range c.callsTo(res, res) {
		call, isC := ci.(*ssa.Call)
		if !isC {
			continue
		}
		outer := loopHeaderOf(call.Block())
		if outer == nil {
			continue
		}
		n++
		con := fmt.Sprintf("Type.resolve: the errors of union member #%d are merged before the next member is looked at", n)
		// the loop that reads the returned list element by element
		var merge *ssa.BasicBlock
		for _, r := range refsOf(call) {
			switch x := r.(type) {
			case *ssa.IndexAddr:
				if h := loopHeaderOf(x.Block()); h != nil && h != outer {
					merge = h
				}
			case *ssa.Call:
				// append(errs, list...) takes the whole list at once
				if isAppend(x) && len(x.Call.Args) == 2 && x.Call.Args[1] == ssa.Value(call) {
					merge = x.Block()
				}
				// … and so does a function of the repository that is handed the list and answers with a list
				if cal := x.Call.StaticCallee(); cal != nil && c.isRepoFn(cal) && cal != res && isErrorSlice(x.Type()) {
					for _, a := range x.Call.Args {
						if a == ssa.Value(call) {
							merge = x.Block()
						}
					}
				}
			}
		}
		if merge == nil {
			obs = append(obs, bad(R, con, c.InstrPos(call), "the list of errors the member's resolution returns is not read: a bad restriction inside a union member goes unreported"))
			continue
		}
		// the merge takes the errors over: an append whose element comes out of the returned list (or the whole list
		// handed to append or to a merging function)
		takes := false
		eachInstr(res, func(in ssa.Instruction) {
			ap, isC := in.(*ssa.Call)
			if !isC || takes {
				return
			}
			if isAppend(ap) {
				if len(ap.Call.Args) == 2 && ap.Call.Args[1] == ssa.Value(call) {
					takes = true
				}
				for _, e := range appendElems(ap) {
					if ld, isL := e.(*ssa.UnOp); isL {
						if ia, isIA := ld.X.(*ssa.IndexAddr); isIA && ia.X == ssa.Value(call) {
							takes = true
						}
					}
				}
				return
			}
			if cal := ap.Call.StaticCallee(); cal != nil && c.isRepoFn(cal) && cal != res && isErrorSlice(ap.Type()) {
				for _, a := range ap.Call.Args {
					if a == ssa.Value(call) {
						takes = true
					}
				}
			}
		})
		if !takes {
			obs = append(obs, bad(R, con, c.InstrPos(call), "the list the member's resolution returns is walked but none of its errors is appended to the list of the type: a bad restriction inside a union member goes unreported"))
			continue
		}
		if merge == call.Block() || !blockReaches(call.Block(), outer, map[*ssa.BasicBlock]bool{merge: true}) {
			obs = append(obs, ok(R, con, c.InstrPos(call), "every path from the member's resolution to the next member passes the merge of its errors"))
		} else {
			obs = append(obs, bad(R, con, c.InstrPos(call), "the next member can be reached from the member's resolution without passing the merge of its errors (a `continue` of the member loop in between): a member that fails and is left equal to an earlier one — `union { type int8; type int8 { range \"1..1000\"; } }` — is dropped together with its error"))
		}
	}
	if n == 0 {
		return []Obligation{undecided(R, "Type.resolve: union members", c.Pos(res.Pos()), "no recursive resolution inside a loop found")}
	}
	return obs
}

// ---------------------------------------------------------------- LOOP.SKIPNOTSTOP

func init() {
	register(&Rule{Name: "LOOP.SKIPNOTSTOP", Props: []string{"C13", "C06", "C09"}, Floor: 2,
		Doc: "in a scan over the includes of a module, meeting a submodule that was already visited skips that one and goes on with the next: the visited branch stays inside the scan",
		Run: ruleLoopSkipNotStop})
}

func ruleLoopSkipNotStop(c *Ctx) []Obligation {
	const R = "LOOP.SKIPNOTSTOP"
	incT := c.Named("yang", "Include")
	if incT == nil {
		return []Obligation{undecided(R, "include scans", "-", "Include not found")}
	}
	fLink := FieldVar(incT, "Module")
	var obs []Obligation
	var fns []*ssa.Function
	for _, fn := range c.Funcs {
		if c.isRepoFn(fn) && fn.Blocks != nil {
			fns = append(fns, fn)
		}
	}
	sort.Slice(fns, func(i, j int) bool { return fns[i].Pos() < fns[j].Pos() })
	for _, fn := range fns {
		n := 0
		for _, b := range fn.Blocks {
			ifi, isIf := b.Instrs[len(b.Instrs)-1].(*ssa.If)
			if !isIf {
				continue
			}
			h := loopHeaderOf(b)
			if h == nil {
				continue
			}
			// a test of a visited set whose key comes from the linked module of an include
			gc, hitOnTrue := stripNot(ifi.Cond, true)
			lk, isL := gc.(*ssa.Lookup)
			if !isL {
				if ex, isE := gc.(*ssa.Extract); isE && ex.Index == 1 {
					lk, isL = ex.Tuple.(*ssa.Lookup)
				}
			}
			if !isL {
				// `a == nil || seen[a]` materialised: the lookup is the last operand of a phi
				if phi, isP := gc.(*ssa.Phi); isP && phi.Comment == "||" {
					for _, e := range phi.Edges {
						if l2, isL2 := e.(*ssa.Lookup); isL2 {
							lk, isL = l2, true
						}
					}
				}
			}
			if !isL {
				continue
			}
			if mt, isMap := lk.X.Type().Underlying().(*types.Map); !isMap || !isBoolType(mt.Elem()) {
				continue
			}
			fromLink := false
			operandClosure(lk.Index, func(x ssa.Value) {
				if _, f, _ := loadedField(x); f == fLink {
					fromLink = true
				}
			})
			if _, f, _ := loadedField(lk.Index); f == fLink {
				fromLink = true
			}
			if !fromLink {
				continue
			}
			n++
			con := fmt.Sprintf("%s: include scan #%d goes on after a submodule that was already visited", c.FnName(fn), n)
			hit := b.Succs[0]
			if !hitOnTrue {
				hit = b.Succs[1]
			}
			if hit == h || loopHeaderOf(hit) == h {
				obs = append(obs, ok(R, con, c.InstrPos(lk), "the visited branch leads to the next include"))
			} else {
				obs = append(obs, bad(R, con, c.InstrPos(lk), "the visited branch leaves the scan: the includes written after one that was already visited are never looked at (m includes a, b, c; a includes b: what c defines is not found)"))
			}
		}
	}
	return obs
}

// ---------------------------------------------------------------- POS.LOCFORM

func init() {
	register(&Rule{Name: "POS.LOCFORM", Props: []string{"C16"}, Floor: 4,
		Doc: "Statement.Location prints what it knows: `unknown` only when there is neither a source name nor a line, `line L:C` when only the name is missing, the name alone when only the line is, `name:L:C` otherwise — its conditions are evaluated for the four cases",
		Run: rulePosLocForm})
}

func rulePosLocForm(c *Ctx) []Obligation {
	const R = "POS.LOCFORM"
	loc := c.Fn("yang.(*Statement).Location")
	stmtT := c.Named("yang", "Statement")
	if loc == nil || stmtT == nil || len(loc.Params) == 0 {
		return []Obligation{undecided(R, "Statement.Location", "-", "not found")}
	}
	fFile, fLine := FieldVar(stmtT, "file"), FieldVar(stmtT, "line")
	if fFile == nil || fLine == nil {
		return []Obligation{undecided(R, "Statement.Location", c.Pos(loc.Pos()), "Statement.file / Statement.line not found")}
	}
	recv := loc.Params[0]
	isTarget := func(v ssa.Value) bool {
		if v == ssa.Value(recv) {
			return true
		}
		if ld, isL := v.(*ssa.UnOp); isL && ld.Op == token.MUL {
			if a, isA := ld.X.(*ssa.Alloc); isA && spilledParam(a) == recv {
				return true
			}
		}
		return false
	}
	// what a return hands back: "const", "line" (a format that starts with the word line), "name" (the file field
	// itself) or "full" (a format that starts with a %s)
	classify := func(v ssa.Value) string {
		if s, isK := constString(v); isK {
			return "const:" + s
		}
		if _, f, _ := loadedField(v); f == fFile {
			return "name"
		}
		if call, isC := v.(*ssa.Call); isC && calleeIs(call, "fmt", "Sprintf") && len(call.Call.Args) > 0 {
			if format, isF := constString(call.Call.Args[0]); isF {
				switch {
				case len(format) >= 4 && format[:4] == "line":
					return "line"
				case len(format) >= 2 && format[:2] == "%s":
					return "full"
				}
				return "format:" + format
			}
		}
		return "?"
	}
	var obs []Obligation
	for _, cs := range []struct {
		noFile, noLine bool
		want, what     string
	}{
		{true, true, "const:unknown", "neither a source name nor a line"},
		{true, false, "line", "a line but no source name"},
		{false, true, "name", "a source name but no line"},
		{false, false, "full", "a source name and a line"},
	} {
		con := "Location of a statement with " + cs.what
		k := &kindFacts{c: c, isTarget: isTarget, zero: map[*types.Var]tri{fFile: triOf(cs.noFile), fLine: triOf(cs.noLine)}}
		got := map[string]bool{}
		for _, st := range k.walk(loc, nil) {
			rt, isR := st.b.Instrs[len(st.b.Instrs)-1].(*ssa.Return)
			if !isR || len(rt.Results) != 1 {
				continue
			}
			got[classify(rt.Results[0])] = true
		}
		var list []string
		for g := range got {
			list = append(list, g)
		}
		sort.Strings(list)
		if len(list) == 1 && list[0] == cs.want {
			obs = append(obs, ok(R, con, c.Pos(loc.Pos()), "the conditions evaluated for this case lead to one return: "+cs.want))
		} else {
			obs = append(obs, bad(R, con, c.Pos(loc.Pos()), fmt.Sprintf("the conditions evaluated for this case lead to %v, not to %s: every error and every node of a text parsed without a name (or without positions) is reported at the wrong place or at none", list, cs.want)))
		}
	}
	return obs
}

// ---------------------------------------------------------------- INDENT.SAVEDSTATE, INDENT.SAMEBASE

func init() {
	register(&Rule{Name: "INDENT.SAVEDSTATE", Props: []string{"C20"}, Floor: 1,
		Doc: "the line state from before a write, which the short-write path needs to work out the state after it, is read before the writer overwrites that state with the intended one",
		Run: ruleIndentSavedState})
	register(&Rule{Name: "INDENT.SAMEBASE", Props: []string{"C20"}, Floor: 1,
		Doc: "after a short write the new line state and the count handed back are worked out from the same number of emitted bytes",
		Run: ruleIndentSameBase})
}

func indentWriter(c *Ctx) (*ssa.Function, *types.Named) {
	iw := c.Named("indent", "iw")
	w := c.Fn("indent.(*iw).Write")
	return w, iw
}

func ruleIndentSavedState(c *Ctx) []Obligation {
	const R = "INDENT.SAVEDSTATE"
	w, iw := indentWriter(c)
	if w == nil || iw == nil {
		return []Obligation{undecided(R, "indenting writer", "-", "indent.(*iw).Write / iw not found")}
	}
	var obs []Obligation
	n := 0
	for _, fname := range []string{"partial", "cut"} {
		f := FieldVar(iw, fname)
		if f == nil {
			continue
		}
		sts := storesToField(w, f)
		// loads of the field whose value is handed to a helper of the package (the state "before")
		eachInstr(w, func(in ssa.Instruction) {
			ld, isL := in.(*ssa.UnOp)
			if !isL {
				return
			}
			if _, lf, _ := loadedField(ld); lf != f {
				return
			}
			handed := false
			for _, use := range forwardUses(ld, 3) {
				if call, isC := use.(*ssa.Call); isC {
					if cal := call.Call.StaticCallee(); cal != nil && c.isRepoFn(cal) {
						handed = true
					}
				}
			}
			if !handed {
				return
			}
			n++
			con := fmt.Sprintf("Write: the %s state handed to the short-write accounting (#%d) is the state from before this write", fname, n)
			late := ""
			for _, st := range sts {
				if dominates(st, ld) {
					late = c.InstrPos(st)
				}
			}
			if late == "" {
				obs = append(obs, ok(R, con, c.InstrPos(ld), "read before any store of the field in Write"))
			} else {
				obs = append(obs, bad(R, con, c.InstrPos(ld), "the field is read after Write has already stored the intended end state into it at "+late+": the accounting starts from the wrong state, and a continued line gets a second prefix in its middle after a short write"))
			}
		})
	}
	if n == 0 {
		return []Obligation{undecided(R, "Write: saved line state", c.Pos(w.Pos()), "no line state is handed to a helper in Write")}
	}
	return obs
}

func ruleIndentSameBase(c *Ctx) []Obligation {
	const R = "INDENT.SAMEBASE"
	w, iw := indentWriter(c)
	if w == nil || iw == nil {
		return []Obligation{undecided(R, "indenting writer", "-", "indent.(*iw).Write / iw not found")}
	}
	// the calls of package helpers on the error path whose first argument is an int computed from the count the
	// underlying writer answered
	var calls []*ssa.Call
	eachInstr(w, func(in ssa.Instruction) {
		call, isC := in.(*ssa.Call)
		if !isC {
			return
		}
		cal := call.Call.StaticCallee()
		if cal == nil || !c.isRepoFn(cal) || len(call.Call.Args) == 0 || !isIntType(call.Call.Args[0].Type()) {
			return
		}
		fromWrite := false
		operandClosure(call.Call.Args[0], func(x ssa.Value) {
			if ex, isE := x.(*ssa.Extract); isE && ex.Index == 0 {
				if wc, isW := ex.Tuple.(*ssa.Call); isW && wc.Call.IsInvoke() && wc.Call.Method.Name() == "Write" {
					fromWrite = true
				}
			}
		})
		if fromWrite {
			calls = append(calls, call)
		}
	})
	con := "Write: the accountings after a short write start from the same number of emitted bytes"
	switch {
	case len(calls) == 0:
		return []Obligation{undecided(R, con, c.Pos(w.Pos()), "no helper is handed a count computed from the underlying writer's answer")}
	case len(calls) == 1:
		return []Obligation{ok(R, con, c.InstrPos(calls[0]), "one accounting: nothing to disagree with")}
	}
	ref := exprFP(calls[0].Call.Args[0], 4)
	for _, call := range calls[1:] {
		if fp := exprFP(call.Call.Args[0], 4); fp != ref || !sameExpr(call.Call.Args[0], calls[0].Call.Args[0]) && fp != ref {
			return []Obligation{bad(R, con, c.InstrPos(call), fmt.Sprintf("%s is handed %s where %s is handed %s: the count given back to the caller and the line state describe different amounts of output (after a write that stopped inside a prefix the next count is too low by the bytes of the prefix that had got out)", calleeName(call), fp, calleeName(calls[0]), ref))}
		}
	}
	return []Obligation{ok(R, con, c.InstrPos(calls[0]), fmt.Sprintf("%d accountings, all from %s", len(calls), ref))}
}

// ---------------------------------------------------------------- NUM.BOUNDARYSYNTAX (hunt/h5/C10)

func init() {
	register(&Rule{Name: "NUM.BOUNDARYSYNTAX", Props: []string{"C10", "C15"}, Floor: 3,
		Doc: "a boundary of a range or length restriction is matched against a constant pattern that denotes integer-value / decimal-value of RFC 7950 (evaluated here on witness texts) before it is accepted, and what is trimmed off it is optsep only",
		Run: ruleNumBoundarySyntax})
}

func ruleNumBoundarySyntax(c *Ctx) []Obligation {
	const R = "NUM.BOUNDARYSYNTAX"
	pcr := c.Fn("yang.(YangRange).parseChildRanges")
	if pcr == nil {
		return []Obligation{undecided(R, "restriction parser", "-", "parseChildRanges not found")}
	}
	var obs []Obligation
	// (a) the pattern
	con := "the pattern a boundary is held to denotes integer-value / decimal-value"
	var g *ssa.Global
	var match *ssa.Call
	c.eachInstrDeep(pcr, func(in ssa.Instruction) {
		call, isC := in.(*ssa.Call)
		if !isC || g != nil {
			return
		}
		cal := call.Call.StaticCallee()
		if cal == nil || cal.Signature.Recv() == nil || cal.Name() != "MatchString" || len(call.Call.Args) < 2 {
			return
		}
		if u, isU := call.Call.Args[0].(*ssa.UnOp); isU {
			if gl, isG := u.X.(*ssa.Global); isG {
				g, match = gl, call
			}
		}
	})
	if g == nil {
		return []Obligation{bad(R, con, c.Pos(pcr.Pos()), "a boundary goes to the number converters as it stands, and those accept more than a range may contain: a plus sign, leading zeros and other bases (\"010\" is 8, \"0x10\" 16), a decimal point with no digit on one side (\".\", \"5.\", \"0...5\")")}
	}
	pattern := ""
	if initFn := c.SSA[modPath+"/pkg/yang"].Func("init"); initFn != nil {
		eachInstr(initFn, func(in ssa.Instruction) {
			call, isC := in.(*ssa.Call)
			if !isC || !(calleeIs(call, "regexp", "MustCompile") || calleeIs(call, "regexp", "Compile")) {
				return
			}
			for _, r := range *call.Referrers() {
				if st, isS := r.(*ssa.Store); isS && st.Addr == ssa.Value(g) {
					if s, isK := constString(call.Call.Args[0]); isK {
						pattern = s
					}
				}
			}
		})
	}
	re, err := regexp.Compile(pattern)
	if pattern == "" || err != nil {
		obs = append(obs, undecided(R, con, c.InstrPos(match), "the pattern is not a constant compiled in the package initialiser"))
	} else {
		must := []string{"0", "-0", "7", "-12", "18446744073709551615", "-9223372036854775808", "0.5", "-3.14", "10.000000000000000001", "100"}
		mustNot := []string{"", "+1", "+1.5", "01", "010", "-01", "0x10", "0b11", "0o17", "1_0", ".", "-.", ".5", "-.5", "5.", "0...5", "1..2", "1.2.3", " 1", "1 ", "1 ", " 1", "\u0085" + "1.5", "1e3", "--1", "-", "min", "max", "1\n"}
		var wrong []string
		for _, s := range must {
			if !re.MatchString(s) {
				wrong = append(wrong, fmt.Sprintf("rejects %q", s))
			}
		}
		for _, s := range mustNot {
			if re.MatchString(s) {
				wrong = append(wrong, fmt.Sprintf("accepts %q", s))
			}
		}
		if len(wrong) == 0 {
			obs = append(obs, ok(R, con, c.InstrPos(match), fmt.Sprintf("constant %q evaluated on %d witness texts", pattern, len(must)+len(mustNot))))
		} else {
			if len(wrong) > 5 {
				wrong = append(wrong[:5], fmt.Sprintf("… (%d in all)", len(wrong)))
			}
			obs = append(obs, bad(R, con, c.InstrPos(match), fmt.Sprintf("constant %q %s", pattern, joinStrings(wrong, ", "))))
		}
	}
	// (b) a boundary that does not match is refused: the mismatch branch returns an error, and every return of the
	// boundary parser that hands back a converted number is reached only past the match
	con = "a boundary that does not match the pattern is refused"
	refused := false
	for _, r := range refsOf(match) {
		var ifi *ssa.If
		polarity := true
		switch x := r.(type) {
		case *ssa.If:
			ifi = x
		case *ssa.UnOp:
			if x.Op == token.NOT {
				for _, rr := range refsOf(x) {
					if i2, isI := rr.(*ssa.If); isI {
						ifi, polarity = i2, false
					}
				}
			}
		case *ssa.Phi:
			// `err == nil && !match`: the materialised && feeds the If
			for _, rr := range refsOf(x) {
				if i2, isI := rr.(*ssa.If); isI {
					ifi, polarity = i2, true
				}
			}
		}
		if ifi == nil {
			continue
		}
		for _, s := range ifi.Block().Succs {
			if blockReturnsError(s) {
				refused = true
			}
		}
		_ = polarity
	}
	// the `!m` may itself be an operand of a materialised &&
	if !refused {
		for _, r := range refsOf(match) {
			if u, isU := r.(*ssa.UnOp); isU && u.Op == token.NOT {
				for _, rr := range refsOf(u) {
					if phi, isP := rr.(*ssa.Phi); isP {
						for _, r3 := range refsOf(phi) {
							if i3, isI := r3.(*ssa.If); isI {
								for _, s := range i3.Block().Succs {
									if blockReturnsError(s) {
										refused = true
									}
								}
							}
						}
					}
				}
			}
		}
	}
	if refused {
		obs = append(obs, ok(R, con, c.InstrPos(match), "a branch on the outcome of the match returns an error"))
	} else {
		obs = append(obs, bad(R, con, c.InstrPos(match), "the outcome of the match does not lead to an error return: the pattern is consulted and ignored"))
	}
	// (c) what is trimmed off a boundary
	con = "only optsep (space, tab, line breaks) is trimmed off a boundary"
	trimOK, trims := true, 0
	why := ""
	c.eachInstrDeep(pcr, func(in ssa.Instruction) {
		call, isC := in.(*ssa.Call)
		if !isC {
			return
		}
		switch {
		case calleeIs(call, "strings", "TrimSpace"):
			trims++
			trimOK = false
			why = "strings.TrimSpace at " + c.InstrPos(call) + " also removes NBSP, EM SPACE, NEL, VT and FF"
		case calleeIs(call, "strings", "Trim"):
			trims++
			cut, isK := constString(call.Call.Args[1])
			if !isK {
				trimOK, why = false, "the cut set at "+c.InstrPos(call)+" is not a constant"
				return
			}
			for _, r := range cut {
				if r != ' ' && r != '\t' && r != '\r' && r != '\n' {
					trimOK, why = false, fmt.Sprintf("the cut set at %s holds %q", c.InstrPos(call), r)
				}
			}
		}
	})
	switch {
	case !trimOK:
		obs = append(obs, bad(R, con, c.Pos(pcr.Pos()), why+": `range \"1\\u00a0..\\u00a05\"` is recorded as 1..5"))
	default:
		obs = append(obs, ok(R, con, c.Pos(pcr.Pos()), fmt.Sprintf("%d trimming call(s), each with a constant cut set within \" \\t\\r\\n\" (a character left on is refused by the pattern)", trims)))
	}
	return obs
}

// ---------------------------------------------------------------- LEX.UNQUOTEDEND (hunt/h5/C16)

func init() {
	register(&Rule{Name: "LEX.UNQUOTEDEND", Props: []string{"C02", "C16"}, Floor: 2,
		Doc: "an unquoted string ends in front of a comment opener (`//`, `/*`) that follows it directly (RFC 7950 6.1.3): the state that reads one tests the rest of the input for both and emits the token there",
		Run: ruleLexUnquotedEnd})
}

func ruleLexUnquotedEnd(c *Ctx) []Obligation {
	const R = "LEX.UNQUOTEDEND"
	m, why := c.lexModel()
	if m == nil {
		return []Obligation{undecided(R, "lexer model", "-", why)}
	}
	if m.unquoted == nil || m.next == nil {
		return []Obligation{undecided(R, "unquoted-string state", "-", "the state that reads an unquoted string / (*lexer).next not found")}
	}
	emit := c.Fn("yang.(*lexer).emit")
	var obs []Obligation
	for _, opener := range []string{"//", "/*"} {
		con := fmt.Sprintf("the unquoted-string state ends the token in front of %q", opener)
		verdict := ""
		at := c.Pos(m.unquoted.Pos())
		c.eachInstrDeep(m.unquoted, func(in ssa.Instruction) {
			call, isC := in.(*ssa.Call)
			if !isC || !calleeIs(call, "strings", "HasPrefix") || len(call.Call.Args) != 2 || verdict == "ok" {
				return
			}
			if s, isK := constString(call.Call.Args[1]); !isK || s != opener {
				return
			}
			at = c.InstrPos(call)
			// the outcome "true" leads to the emit without a rune being consumed on the way
			consumed := map[*ssa.BasicBlock]bool{}
			var emits []*ssa.BasicBlock
			for _, b := range call.Parent().Blocks {
				for _, in2 := range b.Instrs {
					if c2, isC2 := in2.(*ssa.Call); isC2 {
						if c2.Call.StaticCallee() == m.next {
							consumed[b] = true
						}
						if emit != nil && c2.Call.StaticCallee() == emit {
							emits = append(emits, b)
						}
					}
				}
			}
			// the branch on the outcome: its true side is, or leads without a consumed rune to, an emit
			for _, r := range refsOf(call) {
				var ifi *ssa.If
				onTrue := true
				switch x := r.(type) {
				case *ssa.If:
					ifi = x
				case *ssa.UnOp:
					if x.Op == token.NOT {
						for _, rr := range refsOf(x) {
							if i2, isI := rr.(*ssa.If); isI {
								ifi, onTrue = i2, false
							}
						}
					}
				}
				if ifi == nil {
					continue
				}
				succ := ifi.Block().Succs[0]
				if !onTrue {
					succ = ifi.Block().Succs[1]
				}
				for _, g := range emits {
					if consumed[g] {
						continue
					}
					if succ == g || blockReaches(succ, g, consumed) && !consumed[succ] {
						verdict = "ok"
					}
				}
			}
			if verdict == "" {
				verdict = "the test for the opener does not lead to the token being emitted there"
			}
		})
		switch verdict {
		case "ok":
			obs = append(obs, ok(R, con, at, "HasPrefix(rest, "+fmt.Sprintf("%q", opener)+") holds on the way to the emit, with no rune consumed in between"))
		case "":
			obs = append(obs, bad(R, con, at, "the state ends a token only at a blank, a quote, a semicolon or a brace: `x"+opener+" …` is one token, the comment is never entered and the words in it are read as statements; an unterminated comment behind an argument is reported as a syntax error at a word inside it"))
		default:
			obs = append(obs, bad(R, con, at, verdict))
		}
	}
	return obs
}

// ---------------------------------------------------------------- ID.REFRESTRICT (hunt/h5/C11)

func init() {
	register(&Rule{Name: "ID.REFRESTRICT", Props: []string{"C11", "C04"}, Floor: 1,
		Doc: "a base statement on a type that is derived from an identityref typedef is reported (RFC 7950 9.10.1: an identityref cannot be restricted), not dropped: on the path that keeps the typedef's base, a base of the type's own leads to an error",
		Run: ruleIDRefRestrict})
}

func ruleIDRefRestrict(c *Ctx) []Obligation {
	const R = "ID.REFRESTRICT"
	res := c.Fn("yang.(*Type).resolve")
	typeT := c.Named("yang", "Type")
	if res == nil || typeT == nil {
		return []Obligation{undecided(R, "type resolver", "-", "(*Type).resolve / Type not found")}
	}
	fBase := FieldVar(typeT, "IdentityBase")
	con := "Type.resolve: a base written on a type derived from an identityref is reported"
	if fBase == nil {
		return []Obligation{undecided(R, con, "-", "Type.IdentityBase not found")}
	}
	// the comparison of the source of the type with "builtin": on its not-builtin side the typedef's base is kept
	var obs []Obligation
	found := false
	c.eachInstrDeep(res, func(in ssa.Instruction) {
		bo, isB := in.(*ssa.BinOp)
		if !isB || bo.Op != token.NEQ && bo.Op != token.EQL || found {
			return
		}
		// the comparison that tells the built-in identityref from a type derived from one: a variable that takes one
		// of several constants (where the type was found), compared with one of them
		isTag := func(v ssa.Value) bool {
			phi, isP := v.(*ssa.Phi)
			if !isP || len(phi.Edges) < 2 {
				return false
			}
			for _, e := range phi.Edges {
				if _, isK := e.(*ssa.Const); !isK {
					if p2, isP2 := e.(*ssa.Phi); !isP2 || p2 == nil {
						return false
					}
				}
			}
			return true
		}
		_, k1 := bo.X.(*ssa.Const)
		_, k2 := bo.Y.(*ssa.Const)
		if !(k1 && isTag(bo.Y)) && !(k2 && isTag(bo.X)) {
			return
		}
		// only the test that stands in the identityref arm: some block it guards (or the arm after it) loads
		// Type.IdentityBase of the receiver
		for _, r := range refsOf(bo) {
			ifi, isIf := r.(*ssa.If)
			if !isIf {
				continue
			}
			derived := ifi.Block().Succs[0]
			builtin := ifi.Block().Succs[1]
			if bo.Op == token.EQL {
				derived, builtin = builtin, derived
			}
			readsBase := func(b *ssa.BasicBlock) *ssa.BinOp {
				var t *ssa.BinOp
				seen := map[*ssa.BasicBlock]bool{}
				stack := []*ssa.BasicBlock{b}
				for len(stack) > 0 && t == nil {
					x := stack[len(stack)-1]
					stack = stack[:len(stack)-1]
					if seen[x] || !b.Dominates(x) {
						continue
					}
					seen[x] = true
					for _, in2 := range x.Instrs {
						if nb, isNB := in2.(*ssa.BinOp); isNB {
							if v, _, okn := nilTest(nb); okn {
								if _, f, _ := loadedField(v); f == fBase {
									t = nb
								}
							}
						}
					}
					stack = append(stack, x.Succs...)
				}
				return t
			}
			// which side is the built-in one: there a missing base is the error
			nilIsError := func(nb *ssa.BinOp) bool {
				if nb == nil {
					return false
				}
				_, isEq, _ := nilTest(nb)
				for _, rr := range refsOf(nb) {
					if i2, isI := rr.(*ssa.If); isI {
						nilSide := i2.Block().Succs[1]
						if isEq {
							nilSide = i2.Block().Succs[0]
						}
						if errorMadeUnder(nilSide, nil) {
							return true
						}
					}
				}
				return false
			}
			switch {
			case nilIsError(readsBase(builtin)):
			case nilIsError(readsBase(derived)):
				derived, builtin = builtin, derived
			default:
				continue // not the identityref arm
			}
			found = true
			nb := readsBase(derived)
			if nb == nil {
				obs = append(obs, bad(R, con, c.InstrPos(bo), "on the side where the type is not the built-in identityref the type's own base is never looked at: `type r { base y; }` on a leaf keeps the base of r, and `base nope` — defined nowhere — goes unreported"))
				return
			}
			_, isEq, _ := nilTest(nb)
			made := false
			for _, rr := range refsOf(nb) {
				if i2, isI := rr.(*ssa.If); isI {
					nonNil := i2.Block().Succs[0]
					if isEq {
						nonNil = i2.Block().Succs[1]
					}
					if errorMadeUnder(nonNil, nil) {
						made = true
					}
				}
			}
			if made {
				obs = append(obs, ok(R, con, c.InstrPos(nb), "under `source != builtin`, a base of the type's own makes an error"))
			} else {
				obs = append(obs, bad(R, con, c.InstrPos(nb), "the base is looked at but no error is made when it is there"))
			}
		}
	})
	if !found {
		return []Obligation{undecided(R, con, c.Pos(res.Pos()), "no test of the type's source against \"builtin\" in front of the identityref base handling")}
	}
	return obs
}

// ---------------------------------------------------------------- NAME.EMPTYPREFIX (hunt/h5/C11/finding3)

func init() {
	register(&Rule{Name: "NAME.EMPTYPREFIX", Props: []string{"C11", "C09"}, Floor: 2,
		Doc: "a reference written with an empty prefix (`:name`) refers to nothing: the functions that split a base or a type name at its colon test for the leading colon and report it, before the empty prefix can be read as `no prefix`",
		Run: ruleNameEmptyPrefix})
}

func ruleNameEmptyPrefix(c *Ctx) []Obligation {
	const R = "NAME.EMPTYPREFIX"
	gp := c.Fn("yang.getPrefix")
	if gp == nil {
		return []Obligation{undecided(R, "prefix splitter", "-", "getPrefix not found")}
	}
	var obs []Obligation
	for _, site := range []struct{ fn, what string }{
		{"yang.(*Module).findIdentityBase", "the base of an identity or identityref"},
		{"yang.(*Type).resolve", "the name of a type"},
	} {
		fn := c.Fn(site.fn)
		con := fmt.Sprintf("%s with an empty prefix is reported", site.what)
		if fn == nil {
			obs = append(obs, undecided(R, con, "-", site.fn+" not found"))
			continue
		}
		calls := c.callsToDeep(fn, gp)
		if len(calls) == 0 {
			obs = append(obs, undecided(R, con, c.Pos(fn.Pos()), "the name is not split with getPrefix here"))
			continue
		}
		arg := calls[0].Common().Args[0]
		// a test HasPrefix(<the same text>, ":") whose true side makes an error and does not reach the lookups
		okk := false
		at := c.InstrPos(calls[0].(ssa.Instruction))
		c.eachInstrDeep(fn, func(in ssa.Instruction) {
			call, isC := in.(*ssa.Call)
			if !isC || !calleeIs(call, "strings", "HasPrefix") || len(call.Call.Args) != 2 || okk {
				return
			}
			if s, isK := constString(call.Call.Args[1]); !isK || s != ":" {
				return
			}
			if !sameExpr(call.Call.Args[0], arg) && !sameObject(call.Call.Args[0], arg) {
				return
			}
			for _, r := range refsOf(call) {
				if ifi, isIf := r.(*ssa.If); isIf {
					if errorMadeUnder(ifi.Block().Succs[0], nil) {
						okk = true
						at = c.InstrPos(call)
					}
				}
			}
		})
		// … or the first byte of the text is compared with ':'
		if !okk {
			c.eachInstrDeep(fn, func(in ssa.Instruction) {
				bo, isB := in.(*ssa.BinOp)
				if !isB || bo.Op != token.EQL || okk {
					return
				}
				k, isK := constInt(bo.Y)
				if !isK || k != ':' {
					return
				}
				var text, index ssa.Value
				switch y := bo.X.(type) {
				case *ssa.Lookup:
					text, index = y.X, y.Index
				case *ssa.Index:
					text, index = y.X, y.Index
				default:
					return
				}
				if idx, isI := constInt(index); !isI || idx != 0 {
					return
				}
				if !sameExpr(text, arg) && !sameObject(text, arg) {
					return
				}
				for _, r := range refsOf(bo) {
					switch x := r.(type) {
					case *ssa.If:
						if errorMadeUnder(x.Block().Succs[0], nil) {
							okk, at = true, c.InstrPos(bo)
						}
					case *ssa.Phi:
						// `len(text) > 0 && text[0] == ':'`
						for _, rr := range refsOf(x) {
							if i2, isI := rr.(*ssa.If); isI && errorMadeUnder(i2.Block().Succs[0], nil) {
								okk, at = true, c.InstrPos(bo)
							}
						}
					}
				}
			})
		}
		if okk {
			obs = append(obs, ok(R, con, at, "a test for a leading colon of the text leads to an error"))
		} else {
			obs = append(obs, bad(R, con, at, "the text is split at its first colon and an empty first part is read as `no prefix`: `:ok` names the local ok — `identity d { base \":ok\"; }` and `type \":t\"` are accepted"))
		}
	}
	return obs
}

// ---------------------------------------------------------------- IMPORT.PREFIXUNIQUE (hunt/h5/C09/finding3)

func init() {
	register(&Rule{Name: "IMPORT.PREFIXUNIQUE", Props: []string{"C09", "C13"}, Floor: 1,
		Doc: "the linker files the prefix of every import of a module in a set that is asked first, and a prefix that is already there (another import's, or the module's own) is an error: what a prefix stands for does not depend on the order of the import statements",
		Run: ruleImportPrefixUnique})
}

func ruleImportPrefixUnique(c *Ctx) []Obligation {
	const R = "IMPORT.PREFIXUNIQUE"
	inc := c.Fn("yang.(*Modules).include")
	impT := c.Named("yang", "Import")
	valT := c.Named("yang", "Value")
	con := "linking a module: a prefix declared twice is reported"
	if inc == nil || impT == nil || valT == nil {
		return []Obligation{undecided(R, con, "-", "(*Modules).include / Import / Value not found")}
	}
	fPrefix, fName := FieldVar(impT, "Prefix"), FieldVar(valT, "Name")
	// a map update keyed by Import.Prefix.Name, preceded by a lookup under the same key whose found side returns an
	// error
	var filed *ssa.MapUpdate
	c.eachInstrDeep(inc, func(in ssa.Instruction) {
		mu, isMU := in.(*ssa.MapUpdate)
		if !isMU || filed != nil {
			return
		}
		if _, f, base := loadedField(mu.Key); f == fName && base != nil {
			if _, f2, _ := loadedField(base); f2 == fPrefix {
				filed = mu
			}
		}
	})
	if filed == nil {
		return []Obligation{bad(R, con, c.Pos(inc.Pos()), "the prefixes of the imports are not collected anywhere while the module is linked: `import x { prefix p; } import y { prefix p; }` is accepted, `p:t` means x's t or y's according to which import is written first, and a name only the other defines is unknown")}
	}
	reported := false
	c.eachInstrDeep(inc, func(in ssa.Instruction) {
		lk, isL := in.(*ssa.Lookup)
		if !isL || !lk.CommaOk || reported || !sameObject(lk.X, filed.Map) || !sameExpr(lk.Index, filed.Key) && !sameObject(lk.Index, filed.Key) {
			return
		}
		if !dominates(lk, filed) {
			return
		}
		for _, r := range refsOf(lk) {
			ex, isE := r.(*ssa.Extract)
			if !isE || ex.Index != 1 {
				continue
			}
			for _, rr := range refsOf(ex) {
				if ifi, isIf := rr.(*ssa.If); isIf && blockReturnsError(ifi.Block().Succs[0]) {
					reported = true
				}
			}
		}
	})
	if !reported {
		return []Obligation{bad(R, con, c.InstrPos(filed), "the prefixes are collected but a prefix that is already there does not lead to an error return")}
	}
	// the module's own prefix is in the set before the imports are looked at
	own := false
	c.eachInstrDeep(inc, func(in ssa.Instruction) {
		mu, isMU := in.(*ssa.MapUpdate)
		if !isMU || mu == filed || !sameObject(mu.Map, filed.Map) {
			return
		}
		if dominates(mu, filed) || blockReaches(mu.Block(), filed.Block(), nil) {
			own = true
		}
	})
	if own {
		return []Obligation{ok(R, con, c.InstrPos(filed), "each import's prefix is looked up in the set of prefixes seen (which starts with the module's own) and a hit returns an error")}
	}
	return []Obligation{ok(R, con, c.InstrPos(filed), "each import's prefix is looked up in the set of prefixes seen and a hit returns an error (the module's own prefix is not in the set)")}
}

// ---------------------------------------------------------------- LINK.ROOTS (hunt/h5/C18/finding1)

func init() {
	register(&Rule{Name: "LINK.ROOTS", Props: []string{"C18", "C05"}, Floor: 1,
		Doc: "the linking passes of a Process run are repeated until one loads nothing, and each pass links from the modules that are loaded when it starts — the list is taken inside the repetition, not once in front of it — so that a module fetched by one pass is a starting point of the next, as it is of the next run",
		Run: ruleLinkRoots})
}

func ruleLinkRoots(c *Ctx) []Obligation {
	const R = "LINK.ROOTS"
	proc := c.Fn("yang.(*Modules).process")
	inc := c.Fn("yang.(*Modules).include")
	con := "process: each linking pass starts from the modules loaded when the pass begins"
	if proc == nil || inc == nil {
		return []Obligation{undecided(R, con, "-", "(*Modules).process / include not found")}
	}
	calls := c.callsToDeep(proc, inc)
	if len(calls) == 0 {
		return []Obligation{undecided(R, con, c.Pos(proc.Pos()), "the linker is not called from process")}
	}
	var obs []Obligation
	for _, ci := range calls {
		site := liftTo(ci.(ssa.Instruction), proc)
		if site == nil {
			site = ci.(ssa.Instruction)
		}
		inner := loopHeaderOf(site.Block())
		if inner == nil {
			obs = append(obs, undecided(R, con, c.InstrPos(site), "the linker is not called in a loop over modules"))
			continue
		}
		// the repetition around the pass
		var outer *ssa.BasicBlock
		if id := inner.Idom(); id != nil {
			outer = loopHeaderOf(id)
		}
		if outer == nil {
			obs = append(obs, bad(R, con, c.InstrPos(site), "the linking pass is not repeated: what a pass loads from the search path is never linked from in this run"))
			continue
		}
		// what the inner loop ranges over: the slice indexed (or the map ranged) whose element is handed to the linker
		arg := ci.Common().Args[len(ci.Common().Args)-1]
		var list ssa.Value
		operandClosure(arg, func(x ssa.Value) {
			switch y := x.(type) {
			case *ssa.IndexAddr:
				if list == nil {
					list = y.X
				}
			case *ssa.Next:
				if r, isR := y.Iter.(*ssa.Range); isR && list == nil {
					list = r.X
				}
			}
		})
		if ld, isL := arg.(*ssa.UnOp); isL {
			if ia, isIA := ld.X.(*ssa.IndexAddr); isIA {
				list = ia.X
			}
		}
		if list == nil {
			obs = append(obs, undecided(R, con, c.InstrPos(site), "what the pass ranges over is not followed"))
			continue
		}
		// where the list is made: through phis at the loop headers back to the instruction that computes it
		inside, outside := false, false
		seen := map[ssa.Value]bool{}
		var walk func(v ssa.Value)
		walk = func(v ssa.Value) {
			if seen[v] {
				return
			}
			seen[v] = true
			switch x := v.(type) {
			case *ssa.Phi:
				for _, e := range x.Edges {
					walk(e)
				}
			case ssa.Instruction:
				b := x.Block()
				if b == outer || loopHeaderOf(b) == outer || func() bool {
					for h := loopHeaderOf(b); h != nil; {
						if h == outer {
							return true
						}
						id := h.Idom()
						if id == nil {
							return false
						}
						h = loopHeaderOf(id)
					}
					return false
				}() {
					inside = true
				} else {
					outside = true
				}
			default:
				outside = true
			}
		}
		walk(list)
		switch {
		case inside && !outside:
			obs = append(obs, ok(R, con, c.InstrPos(site), "the list the pass ranges over is computed inside the repetition"))
		default:
			obs = append(obs, bad(R, con, c.InstrPos(site), "the list of modules to link from is taken once, in front of the repeated passes: a module that a pass fetches from the search path is no starting point in this run but is one in the next — `import aa; import q;` with aa on the path importing a missing w reports only w the first time and q and w the second"))
		}
	}
	return obs
}

// ---------------------------------------------------------------- PATTERN.MODIFIER (hunt/h5/C09/finding1; recorded finding)

func init() {
	register(&Rule{Name: "PATTERN.MODIFIER", Props: []string{"C09"}, Floor: 1,
		Doc: "the modifier of a pattern (invert-match, RFC 7950 9.4.6) takes part in the resolved type: the type resolver reads Pattern.Modifier",
		Run: rulePatternModifier})
}

func rulePatternModifier(c *Ctx) []Obligation {
	const R = "PATTERN.MODIFIER"
	con := "yang.(*Type).resolve: the modifier of a pattern is read"
	res := c.Fn("yang.(*Type).resolve")
	pt := c.Named("yang", "Pattern")
	if res == nil || pt == nil {
		return []Obligation{undecided(R, con, "-", "(*Type).resolve / Pattern not found")}
	}
	f := FieldVar(pt, "Modifier")
	if f == nil {
		return []Obligation{ok(R, con, c.Pos(res.Pos()), "Pattern has no Modifier field: the statement is refused by the AST builder")}
	}
	read := false
	for _, fn := range c.Funcs {
		if !c.isRepoFn(fn) {
			continue
		}
		eachInstr(fn, func(in ssa.Instruction) {
			if v, isV := in.(ssa.Value); isV {
				if _, lf, _ := loadedField(v); lf == f {
					read = true
				}
			}
		})
	}
	if read {
		return []Obligation{ok(R, con, c.Pos(res.Pos()), "Pattern.Modifier is read")}
	}
	return []Obligation{bad(R, con, c.Pos(f.Pos()), "`pattern \"[a-z]+\" { modifier invert-match; }` is parsed and the modifier is read nowhere: the resolved type carries the pattern with its sense flipped, a type that adds the inverted pattern to a typedef that has the plain one gets nothing (the texts are equal), and a union of the two keeps one member")}
}

// ---------------------------------------------------------------- RPC.KINDS

func init() {
	register(&Rule{Name: "RPC.KINDS", Props: []string{"C04", "C12", "C17"}, Floor: 2,
		Doc: "an entry that is linked as the input (output) of an rpc or action is of kind InputEntry (OutputEntry): wherever such an entry is made — converted from the statement, or made on demand by a lookup — the kind is set to that constant",
		Run: ruleRPCKinds})
}

func ruleRPCKinds(c *Ctx) []Obligation {
	const R = "RPC.KINDS"
	entry := c.Named("yang", "Entry")
	rpcT := c.Named("yang", "RPCEntry")
	if entry == nil || rpcT == nil {
		return []Obligation{undecided(R, "rpc parts", "-", "Entry / RPCEntry not found")}
	}
	fKind := FieldVar(entry, "Kind")
	names, _ := c.entryKinds()
	want := map[string]int64{}
	for v, n := range names {
		want[n] = v
	}
	var obs []Obligation
	var fns []*ssa.Function
	for _, fn := range c.Funcs {
		if c.isRepoFn(fn) && fn.Blocks != nil {
			fns = append(fns, fn)
		}
	}
	sort.Slice(fns, func(i, j int) bool { return fns[i].Pos() < fns[j].Pos() })
	for _, part := range []struct{ field, kind string }{{"Input", "InputEntry"}, {"Output", "OutputEntry"}} {
		fPart := FieldVar(rpcT, part.field)
		if fPart == nil || fKind == nil {
			obs = append(obs, undecided(R, "rpc "+lower(part.field), "-", "RPCEntry."+part.field+" / Entry.Kind not found"))
			continue
		}
		for _, fn := range fns {
			n := 0
			for _, st := range storesToField(fn, fPart) {
				if isNilConst(st.Val) {
					continue
				}
				// copies made by the deep copier keep the kind they copy
				if _, f, _ := loadedField(st.Val); f != nil {
					continue
				}
				if call, isC := st.Val.(*ssa.Call); isC {
					// a copy of the part that is already linked (the deep copier) keeps the kind it copies
					copies := false
					for _, a := range call.Call.Args {
						operandClosure(a, func(x ssa.Value) {
							if _, lf, _ := loadedField(x); lf == fPart {
								copies = true
							}
						})
						if _, lf, _ := loadedField(a); lf == fPart {
							copies = true
						}
					}
					if copies {
						continue
					}
					// a constructor that is handed the kind: the constant at this call
					if cal := call.Call.StaticCallee(); cal != nil && c.isRepoFn(cal) && cal.Blocks != nil {
						viaParam := false
						eachInstr(cal, func(in ssa.Instruction) {
							ks, isS := in.(*ssa.Store)
							if !isS {
								return
							}
							_, f, kbase := fieldOf(ks.Addr)
							if f != fKind || kbase == nil {
								return
							}
							// of the object the constructor hands back
							returned := false
							eachInstr(cal, func(in2 ssa.Instruction) {
								if rt, isR := in2.(*ssa.Return); isR && len(rt.Results) > 0 && rootOf(rt.Results[0]) == rootOf(kbase) {
									returned = true
								}
							})
							if !returned {
								return
							}
							if p, isP := ks.Val.(*ssa.Parameter); isP {
								if idx := paramIndex(cal, p); idx >= 0 && idx < len(call.Call.Args) {
									if k, isK := constInt(call.Call.Args[idx]); isK && k == want[part.kind] {
										viaParam = true
									}
								}
							}
							if k, isK := constInt(ks.Val); isK && k == want[part.kind] {
								viaParam = true
							}
						})
						if viaParam {
							n++
							obs = append(obs, ok(R, fmt.Sprintf("%s: the entry linked as rpc %s #%d is of kind %s", c.FnName(fn), lower(part.field), n, part.kind), c.InstrPos(st), "made by "+c.FnName(cal)+", which sets Kind to the constant it is handed here"))
							continue
						}
					}
				}
				n++
				con := fmt.Sprintf("%s: the entry linked as rpc %s #%d is of kind %s", c.FnName(fn), lower(part.field), n, part.kind)
				// a store of the constant into Kind of the stored entry, or of the entry reached through the link,
				// somewhere in the function
				okk := false
				eachInstr(fn, func(in ssa.Instruction) {
					ks, isS := in.(*ssa.Store)
					if !isS || okk {
						return
					}
					_, f, base := fieldOf(ks.Addr)
					if f != fKind || base == nil {
						return
					}
					k, isK := constInt(ks.Val)
					if !isK || k != want[part.kind] {
						return
					}
					if sameObject(base, st.Val) || rootOf(base) == rootOf(st.Val) {
						okk = true
						return
					}
					if _, lf, _ := loadedField(base); lf == fPart {
						okk = true
					}
				})
				if okk {
					obs = append(obs, ok(R, con, c.InstrPos(st), "Kind = "+part.kind+" is stored into it"))
				} else {
					obs = append(obs, bad(R, con, c.InstrPos(st), "the entry is linked without its kind being set to "+part.kind+": it keeps the kind its conversion gave it (a directory), and what asks for the kind — the augment applier's target test, printing, a client walking the tree — takes the "+lower(part.field)+" of an rpc for a container"))
				}
			}
			// linked through a local pointer that holds the address of one part or the other (seeded C12-w14-1):
			// on the edges where the pointer is the address of this part, the kind is this part's
			eachInstr(fn, func(in ssa.Instruction) {
				st, isS := in.(*ssa.Store)
				if !isS || isNilConst(st.Val) {
					return
				}
				slot, isPhi := st.Addr.(*ssa.Phi)
				if !isPhi {
					return
				}
				mine := map[int]bool{}
				for i, e := range slot.Edges {
					if fa, isFA := e.(*ssa.FieldAddr); isFA {
						if _, f, _ := fieldOf(fa); f == fPart {
							mine[i] = true
						}
					}
				}
				if len(mine) == 0 {
					return
				}
				con := fmt.Sprintf("%s: the entry linked as rpc %s through a local pointer is of kind %s", c.FnName(fn), lower(part.field), part.kind)
				var kindVal ssa.Value
				eachInstr(fn, func(in2 ssa.Instruction) {
					ks, isKS := in2.(*ssa.Store)
					if !isKS {
						return
					}
					_, f, base := fieldOf(ks.Addr)
					if f == fKind && base != nil && (sameObject(base, st.Val) || rootOf(base) == rootOf(st.Val)) {
						kindVal = ks.Val
					}
				})
				switch kv := kindVal.(type) {
				case nil:
					obs = append(obs, bad(R, con, c.InstrPos(st), "the entry is linked without its kind being set"))
				case *ssa.Phi:
					if kv.Block() != slot.Block() || len(kv.Edges) != len(slot.Edges) {
						obs = append(obs, undecided(R, con, c.InstrPos(st), "the kind and the pointer are not chosen at the same join"))
						return
					}
					for i := range mine {
						if k, isK := constInt(kv.Edges[i]); !isK || k != want[part.kind] {
							obs = append(obs, bad(R, con, c.InstrPos(st), "on a path where the pointer holds the address of RPCEntry."+part.field+" the kind is not "+part.kind))
							return
						}
					}
					obs = append(obs, ok(R, con, c.InstrPos(st), "the kind is chosen together with the pointer: "+part.kind+" wherever it is the address of RPCEntry."+part.field))
				default:
					if k, isK := constInt(kindVal); isK && k == want[part.kind] && len(mine) == len(slot.Edges) {
						obs = append(obs, ok(R, con, c.InstrPos(st), "Kind = "+part.kind+" is stored into it"))
					} else if isK && k == want[part.kind] {
						// the right kind for this part; the other part's clause judges the other edges
						obs = append(obs, ok(R, con, c.InstrPos(st), "Kind = "+part.kind+" is stored into it (the other edges of the pointer are the other part's)"))
					} else {
						obs = append(obs, bad(R, con, c.InstrPos(st), "the pointer may hold the address of RPCEntry."+part.field+", and the entry stored through it is given one kind whichever part it becomes: the "+lower(part.field)+" of an rpc made on demand is not of kind "+part.kind+" (ReadOnly, the augment applier and printing ask for the kind)"))
					}
				}
			})
		}
	}
	return obs
}

// ---------------------------------------------------------------- EXT.SCOPE, USES.PREFIXSCOPE (hunt/h5/C06)

func init() {
	register(&Rule{Name: "EXT.SCOPE", Props: []string{"C06", "C12"}, Floor: 1,
		Doc: "the prefix of an extension statement is resolved from the statement itself (the node it was filed under), not from the entry that happens to carry it: statements written on a uses travel to copies of another module's nodes",
		Run: ruleExtScope})
	register(&Rule{Name: "USES.PREFIXSCOPE", Props: []string{"C06", "C09"}, Floor: 2,
		Doc: "a grouping name that still has a prefix is given a meaning only by the imports of the file that wrote it: the grouping search does not descend into included submodules with it, and what is left after an import's prefix is taken off has no prefix of its own",
		Run: ruleUsesPrefixScope})
}

func ruleExtScope(c *Ctx) []Obligation {
	const R = "EXT.SCOPE"
	me := c.Fn("yang.matchingExtensions")
	fbp := c.Fn("yang.FindModuleByPrefix")
	con := "matchingExtensions: the prefix of each statement is resolved where the statement is written"
	if me == nil || fbp == nil || len(me.Params) == 0 {
		return []Obligation{undecided(R, con, "-", "matchingExtensions / FindModuleByPrefix not found")}
	}
	calls := c.callsToDeep(me, fbp)
	if len(calls) == 0 {
		return []Obligation{undecided(R, con, c.Pos(me.Pos()), "no prefix lookup in matchingExtensions")}
	}
	var obs []Obligation
	for _, ci := range calls {
		ctx := ci.Common().Args[0]
		// the context derives from the statement of the iteration (an element of the list handed in), at least on
		// the path where the statement knows its parent
		fromStmt := false
		operandClosureDeep(ctx, func(x ssa.Value) {
			if ld, isL := x.(*ssa.UnOp); isL {
				if _, isIA := ld.X.(*ssa.IndexAddr); isIA {
					if pt, isP := ld.Type().(*types.Pointer); isP && namedOf(pt.Elem()) != nil && objName(namedOf(pt.Elem()).Obj()) == "Statement" {
						fromStmt = true
					}
				}
			}
		})
		if fromStmt {
			obs = append(obs, ok(R, con, c.InstrPos(ci.(ssa.Instruction)), "the context handed to the prefix lookup is the statement (falling back to the carrying node)"))
		} else {
			obs = append(obs, bad(R, con, c.InstrPos(ci.(ssa.Instruction)), "every statement's prefix is resolved from the node of the entry that carries it: an extension written on `uses b:g { e:mark …; }` in module a is matched with b's meaning of e on the copies of g's nodes (another module's extension, or `module prefix \"e\" not found`)"))
		}
	}
	return obs
}

func ruleUsesPrefixScope(c *Ctx) []Obligation {
	const R = "USES.PREFIXSCOPE"
	fg := c.Fn("yang.FindGrouping")
	if fg == nil {
		return []Obligation{undecided(R, "grouping search", "-", "FindGrouping not found")}
	}
	incT, impT := c.Named("yang", "Include"), c.Named("yang", "Import")
	if incT == nil || impT == nil {
		return []Obligation{undecided(R, "grouping search", "-", "Include / Import not found")}
	}
	fIncMod, fImpMod := FieldVar(incT, "Module"), FieldVar(impT, "Module")
	var obs []Obligation
	for _, ci := range c.callsTo(fg, fg) {
		site := ci.(ssa.Instruction)
		arg0 := ci.Common().Args[0]
		if mi, isMI := arg0.(*ssa.MakeInterface); isMI {
			arg0 = mi.X
		}
		_, f, _ := loadedField(arg0)
		nameArg := ci.Common().Args[1]
		// a test strings.Contains(<the name handed on>, ":") whose true side does not reach the call
		guarded := func(name ssa.Value) bool {
			okk := false
			eachInstr(fg, func(in ssa.Instruction) {
				call, isC := in.(*ssa.Call)
				if !isC || !calleeIs(call, "strings", "Contains") || len(call.Call.Args) != 2 || okk {
					return
				}
				if s, isK := constString(call.Call.Args[1]); !isK || s != ":" {
					return
				}
				if !sameExpr(call.Call.Args[0], name) && !sameObject(call.Call.Args[0], name) {
					return
				}
				for _, g := range guardsAt(site.Block()) {
					gc, gb := stripNot(g.Cond, g.Branch)
					if gc == ssa.Value(call) && !gb {
						okk = true
					}
					// `valid && !Contains(…)` materialised
					if phi, isP := gc.(*ssa.Phi); isP && gb {
						for _, e := range phi.Edges {
							ec, eb := stripNot(e, true)
							if ec == ssa.Value(call) && !eb {
								okk = true
							}
						}
					}
				}
			})
			return okk
		}
		switch f {
		case fIncMod:
			con := "FindGrouping: an included submodule is searched only with a name that has no prefix left"
			if guarded(nameArg) {
				obs = append(obs, ok(R, con, c.InstrPos(site), "the descent is under !strings.Contains(name, \":\")"))
			} else {
				obs = append(obs, bad(R, con, c.InstrPos(site), "the search descends into included submodules with a name that still has its prefix, where it is matched against the submodule's own prefixes: `uses p:g` is accepted in a module that declares no prefix p because a submodule it includes imports y as p (or belongs-to … prefix p)"))
			}
		case fImpMod:
			con := "FindGrouping: what is left after an import's prefix is taken off has no prefix of its own"
			if guarded(nameArg) {
				obs = append(obs, ok(R, con, c.InstrPos(site), "the descent is under !strings.Contains(rest, \":\")"))
			} else {
				obs = append(obs, bad(R, con, c.InstrPos(site), "the remainder of the name goes to the imported module as it is, where a second prefix is read with that module's imports: `uses b:cc:h` is accepted"))
			}
		}
	}
	if len(obs) == 0 {
		return []Obligation{undecided(R, "grouping search", c.Pos(fg.Pos()), "no descent into included or imported modules found")}
	}
	return obs
}

// ---------------------------------------------------------------- seed wave 12: TYPEDEF.ORDERKEY, MEMO.KEYARGS, DUP.REPARENT, RO.KINDS

func init() {
	register(&Rule{Name: "TYPEDEF.ORDERKEY", Props: []string{"C05"}, Floor: 1,
		Doc: "the order in which typedefs are resolved (which decides which member of a cycle reports it) is by the place of the typedef in the source including the file: the comparator compares Source of both, or the file of their statements",
		Run: ruleTypedefOrderKey})
	register(&Rule{Name: "MEMO.KEYARGS", Props: []string{"C09", "C18", "C13"}, Floor: 0,
		Doc: "a table kept in a long-lived structure that remembers the answer of a lookup f(a, b, …) is keyed by everything the answer depends on: every argument of the call takes part in the key",
		Run: ruleMemoKeyArgs})
	register(&Rule{Name: "DUP.REPARENT", Props: []string{"C12", "C04", "C06"}, Floor: 1,
		Doc: "the deep copier gives every copy it makes of a part of the entry (children, rpc input and output) the copy as its parent",
		Run: ruleDupReparent})
	register(&Rule{Name: "RO.KINDS", Props: []string{"C12"}, Floor: 1,
		Doc: "ReadOnly answers from the kind of an entry only for an rpc's output (always read-only): no other kind ends the ascent to the ancestor that says config true or false",
		Run: ruleRoKinds})
}

func ruleTypedefOrderKey(c *Ctx) []Obligation {
	const R = "TYPEDEF.ORDERKEY"
	rt := c.Fn("yang.(*typeDictionary).resolveTypedefs")
	src := c.Fn("yang.Source")
	stmtT := c.Named("yang", "Statement")
	con := "resolveTypedefs: the typedefs are ordered by their place in the source, file included"
	if rt == nil || stmtT == nil {
		return []Obligation{undecided(R, con, "-", "resolveTypedefs / Statement not found")}
	}
	fFile := FieldVar(stmtT, "file")
	var cmp *ssa.Function
	var at ssa.Instruction
	c.eachInstrDeep(rt, func(in ssa.Instruction) {
		call, isC := in.(*ssa.Call)
		if !isC || !(calleeIs(call, "sort", "Slice") || calleeIs(call, "sort", "SliceStable")) || len(call.Call.Args) < 2 {
			return
		}
		if mc, isMC := call.Call.Args[1].(*ssa.MakeClosure); isMC {
			cmp, _ = mc.Fn.(*ssa.Function)
			at = call
		}
	})
	if cmp == nil {
		return []Obligation{undecided(R, con, c.Pos(rt.Pos()), "no sort with a comparator closure in resolveTypedefs")}
	}
	byFile := false
	for _, fn := range c.staticReach(cmp, 1) {
		eachInstr(fn, func(in ssa.Instruction) {
			if call, isC := in.(*ssa.Call); isC && src != nil && call.Call.StaticCallee() == src {
				byFile = true
			}
			if v, isV := in.(ssa.Value); isV {
				if _, f, _ := loadedField(v); f == fFile && f != nil {
					byFile = true
				}
			}
		})
	}
	// a key computed before the sort (a list of (source, typedef) pairs) counts as well
	if !byFile {
		eachInstr(rt, func(in ssa.Instruction) {
			if call, isC := in.(*ssa.Call); isC && src != nil && call.Call.StaticCallee() == src && at != nil && (dominates(call, at) || blockReaches(call.Block(), at.Block(), nil) && !blockReaches(at.Block(), call.Block(), nil)) {
				byFile = true
			}
		})
	}
	if byFile {
		return []Obligation{ok(R, con, c.InstrPos(at), "the comparator (or the key made for it) takes the typedef's Source, which names the file")}
	}
	return []Obligation{bad(R, con, c.InstrPos(at), "the comparator looks at no file: two typedefs at the same line and column of two files tie, the stable sort keeps them in the order the dictionary (a map) yielded them, and which member of a cycle across the two files reports it changes from run to run")}
}

func ruleMemoKeyArgs(c *Ctx) []Obligation {
	const R = "MEMO.KEYARGS"
	var obs []Obligation
	var fns []*ssa.Function
	for _, fn := range c.Funcs {
		if c.isRepoFn(fn) && fn.Blocks != nil {
			fns = append(fns, fn)
		}
	}
	sort.Slice(fns, func(i, j int) bool { return fns[i].Pos() < fns[j].Pos() })
	for _, fn := range fns {
		n := 0
		eachInstr(fn, func(in ssa.Instruction) {
			mu, isMU := in.(*ssa.MapUpdate)
			if !isMU {
				return
			}
			// a map that lives in a field of a structure (not a local)
			owner, mf, _ := loadedField(mu.Map)
			if mf == nil || owner == nil {
				return
			}
			// the value is the answer of a call of a repository function made in this function with arguments that are
			// parameters of this function
			v := mu.Value
			if ex, isE := v.(*ssa.Extract); isE {
				v = ex.Tuple
			}
			if phi, isP := v.(*ssa.Phi); isP {
				for _, e := range phi.Edges {
					if call, isC := e.(*ssa.Call); isC {
						v = call
					}
				}
			}
			call, isC := v.(*ssa.Call)
			if !isC {
				return
			}
			cal := call.Call.StaticCallee()
			if cal == nil || !c.isRepoFn(cal) || c.isConstructor(cal) {
				return
			}
			var params []*ssa.Parameter
			for _, a := range call.Call.Args {
				if mi, isMI := a.(*ssa.MakeInterface); isMI {
					a = mi.X
				}
				if p, isP := a.(*ssa.Parameter); isP && p.Parent() == fn {
					params = append(params, p)
				}
			}
			if len(params) < 2 {
				return // one argument: the key is that argument or the rule has nothing to compare
			}
			n++
			con := fmt.Sprintf("%s: answer #%d remembered in %s is filed under everything it depends on", c.FnName(fn), n, fieldKey(owner, mf))
			var missing []string
			for _, p := range params {
				if len(fn.Params) > 0 && p == fn.Params[0] && fn.Signature.Recv() != nil {
					continue // the receiver owns the table
				}
				covered := p == mu.Key || derivesFrom(mu.Key, func(x ssa.Value) bool { return x == ssa.Value(p) })
				// a key that is a structure written on the spot: one of its fields is given the argument
				if ld, isL := mu.Key.(*ssa.UnOp); isL && !covered {
					if cell, isA := ld.X.(*ssa.Alloc); isA {
						for _, r := range refsOf(cell) {
							fa, isFA := r.(*ssa.FieldAddr)
							if !isFA {
								continue
							}
							for _, rr := range refsOf(fa) {
								if st, isS := rr.(*ssa.Store); isS && st.Addr == ssa.Value(fa) && (st.Val == ssa.Value(p) || derivesFrom(st.Val, func(x ssa.Value) bool { return x == ssa.Value(p) })) {
									covered = true
								}
							}
						}
					}
				}
				// a table per value of that argument (m[a][b])
				if !covered {
					if lk, isL := mu.Map.(*ssa.Lookup); isL {
						covered = derivesFrom(lk.Index, func(x ssa.Value) bool { return x == ssa.Value(p) })
					}
					operandClosure(mu.Map, func(x ssa.Value) {
						if lk, isL := x.(*ssa.Lookup); isL && derivesFrom(lk.Index, func(y ssa.Value) bool { return y == ssa.Value(p) }) {
							covered = true
						}
					})
				}
				if !covered {
					missing = append(missing, p.Name())
				}
			}
			if len(missing) == 0 {
				obs = append(obs, ok(R, con, c.InstrPos(mu), "every argument of "+c.FnName(cal)+" takes part in the key"))
			} else {
				obs = append(obs, bad(R, con, c.InstrPos(mu), fmt.Sprintf("the answer of %s depends on %s, which is not part of the key: the answer remembered for one is handed out for another (two modules that import different modules under one prefix get the same one)", c.FnName(cal), joinStrings(missing, ", "))))
			}
		})
	}
	return obs
}

func ruleDupReparent(c *Ctx) []Obligation {
	const R = "DUP.REPARENT"
	m := c.entryModel()
	var copier *ssa.Function
	for _, w := range c.entryWalkers() {
		if w.class == "copier" {
			copier = w.fn
		}
	}
	if copier == nil || m == nil {
		return []Obligation{undecided(R, "deep copier", "-", "no self-recursive constructor over Entry.Dir found")}
	}
	var obs []Obligation
	n := 0
	for _, ci := range c.callsToDeep(copier, copier) {
		call, isC := ci.(*ssa.Call)
		if !isC {
			continue
		}
		n++
		con := fmt.Sprintf("%s: copy #%d of a part is given the copy as its parent", c.FnName(copier), n)
		set := false
		host := call.Parent() // the copier, or a private helper of it that copies a part
		for _, r := range refsOf(call) {
			fa, isF := r.(*ssa.FieldAddr)
			if !isF {
				continue
			}
			if _, f, _ := fieldOf(fa); f != m.fParent {
				continue
			}
			for _, rr := range refsOf(fa) {
				if st, isS := rr.(*ssa.Store); isS && st.Addr == ssa.Value(fa) && !isNilConst(st.Val) {
					set = true
				}
			}
		}
		// the copy may be stored first and re-parented through the place it was stored in (ne.RPC.Input.Parent = &ne)
		if !set {
			for _, r := range refsOf(call) {
				st, isS := r.(*ssa.Store)
				if !isS || st.Val != ssa.Value(call) {
					continue
				}
				_, lf, _ := fieldOf(st.Addr)
				if lf == nil {
					continue
				}
				eachInstr(host, func(in ssa.Instruction) {
					ps, isPS := in.(*ssa.Store)
					if !isPS || isNilConst(ps.Val) {
						return
					}
					_, pf, base := fieldOf(ps.Addr)
					if pf != m.fParent || base == nil {
						return
					}
					if _, bf, _ := loadedField(base); bf == lf {
						set = true
					}
				})
			}
		}
		if set {
			obs = append(obs, ok(R, con, c.InstrPos(call), "Parent of the copied part is stored"))
		} else {
			obs = append(obs, bad(R, con, c.InstrPos(call), "the copied part keeps the parent of the original: from inside a used grouping's action input or output the path, the namespace and the instantiating module are those of the grouping's definition, not of the place it is used"))
		}
	}
	if n == 0 {
		return []Obligation{undecided(R, "deep copier", c.Pos(copier.Pos()), "the copier does not copy parts by calling itself")}
	}
	return obs
}

func ruleRoKinds(c *Ctx) []Obligation {
	const R = "RO.KINDS"
	ro := c.Fn("yang.(*Entry).ReadOnly")
	entry := c.Named("yang", "Entry")
	con := "ReadOnly: only the kind of an rpc's output answers by itself"
	if ro == nil || entry == nil {
		return []Obligation{undecided(R, con, "-", "(*Entry).ReadOnly not found")}
	}
	fKind := FieldVar(entry, "Kind")
	names, _ := c.entryKinds()
	var wrong []string
	tests := 0
	c.eachInstrDeep(ro, func(in ssa.Instruction) {
		bo, isB := in.(*ssa.BinOp)
		if !isB || bo.Op != token.EQL && bo.Op != token.NEQ {
			return
		}
		_, f, _ := loadedField(bo.X)
		k, isK := constInt(bo.Y)
		if f != fKind || !isK {
			return
		}
		tests++
		if names[k] == "OutputEntry" {
			return
		}
		// does one side of the comparison hand back a constant?
		for _, r := range refsOf(bo) {
			switch x := r.(type) {
			case *ssa.If:
				for _, s := range x.Block().Succs {
					if rt := terminalReturn(s); rt != nil && len(rt.Results) == 1 {
						if _, isC := rt.Results[0].(*ssa.Const); isC {
							wrong = append(wrong, names[k]+" @ "+c.InstrPos(bo))
						}
					}
				}
			case *ssa.Phi:
				wrong = append(wrong, names[k]+" @ "+c.InstrPos(bo))
			}
		}
	})
	if len(wrong) == 0 {
		return []Obligation{ok(R, con, c.Pos(ro.Pos()), fmt.Sprintf("%d comparison(s) of the kind with a constant; none but OutputEntry leads to a constant answer", tests))}
	}
	return []Obligation{bad(R, con, c.Pos(ro.Pos()), "the kind "+joinStrings(dedupe(wrong), ", ")+" ends the ascent with a constant answer: what an ancestor says about config (`config false` on the container around an action or a notification) is not inherited below it")}
}

// ---------------------------------------------------------------- POS.CONCATFIRST (seed C16-w12-2)

func init() {
	register(&Rule{Name: "POS.CONCATFIRST", Props: []string{"C16", "C02"}, Floor: 1,
		Doc: "the token the parser hands on for a concatenation of strings is the first part (with the joined text): its position is where the argument starts, not where its last part does",
		Run: rulePosConcatFirst})
}

func rulePosConcatFirst(c *Ctx) []Obligation {
	const R = "POS.CONCATFIRST"
	m, why := c.lexModel()
	if m == nil {
		return []Obligation{undecided(R, "lexer model", "-", why)}
	}
	fn := m.pNext
	con := "parser.next: the token returned for a concatenation is the one fetched first"
	if fn == nil {
		return []Obligation{undecided(R, con, "-", "(*parser).next not found")}
	}
	// the fetches of a token: calls that answer with a *token
	isFetch := func(v ssa.Value) (*ssa.Call, bool) {
		call, isC := v.(*ssa.Call)
		if !isC {
			return nil, false
		}
		pt, isP := call.Type().(*types.Pointer)
		return call, isP && namedOf(pt.Elem()) == m.tokenT
	}
	// where a returned token comes from: followed through phis, through cells of the function (a variable a closure
	// captures) and through a private closure that hands back such a cell
	var sources func(v ssa.Value, depth int, out map[*ssa.Call]bool)
	cellSources := func(cell *ssa.Alloc, depth int, out map[*ssa.Call]bool) {
		for _, r := range refsOf(cell) {
			if st, isS := r.(*ssa.Store); isS && st.Addr == ssa.Value(cell) {
				sources(st.Val, depth+1, out)
			}
		}
	}
	seenV := map[ssa.Value]bool{}
	sources = func(v ssa.Value, depth int, out map[*ssa.Call]bool) {
		if depth > 8 || seenV[v] {
			return
		}
		seenV[v] = true
		switch x := v.(type) {
		case *ssa.Phi:
			for _, e := range x.Edges {
				sources(e, depth+1, out)
			}
		case *ssa.UnOp:
			if cell, isA := x.X.(*ssa.Alloc); isA {
				cellSources(cell, depth, out)
			}
		case *ssa.Call:
			cal := x.Call.StaticCallee()
			if cal != nil && cal.Parent() == fn && cal.Blocks != nil {
				// a closure of the function: what it returns
				if mc, isMC := x.Call.Value.(*ssa.MakeClosure); isMC {
					for _, bb := range cal.Blocks {
						if rt, isR := bb.Instrs[len(bb.Instrs)-1].(*ssa.Return); isR && len(rt.Results) == 1 {
							if ld, isL := rt.Results[0].(*ssa.UnOp); isL {
								if fv, isFV := ld.X.(*ssa.FreeVar); isFV {
									for i, f := range cal.FreeVars {
										if f == fv && i < len(mc.Bindings) {
											if cell, isA := mc.Bindings[i].(*ssa.Alloc); isA {
												cellSources(cell, depth, out)
											}
										}
									}
									continue
								}
							}
							// the closure fetches a token itself: its call is the fetch
							out[x] = true
						}
					}
					return
				}
			}
			if c2, isF := isFetch(x); isF {
				out[c2] = true
			}
		}
	}
	n, badAt := 0, ""
	for _, b := range fn.Blocks {
		rt, isR := b.Instrs[len(b.Instrs)-1].(*ssa.Return)
		if !isR || len(rt.Results) != 1 {
			continue
		}
		// only returns that can follow a fetch inside a loop (the concatenation path)
		after := false
		for _, b2 := range fn.Blocks {
			if loopHeaderOf(b2) != nil && (b2 == b || blockReaches(b2, b, nil)) {
				after = true
			}
		}
		if !after {
			continue
		}
		n++
		seenV = map[ssa.Value]bool{}
		out := map[*ssa.Call]bool{}
		sources(resolveSpill(rt.Results[0], rt), 0, out)
		for call := range out {
			// a fetch made inside the loop, or one that the loop can reach again, is a later part
			if loopHeaderOf(call.Block()) != nil {
				badAt = c.InstrPos(rt)
			}
		}
		if len(out) == 0 {
			badAt = ""
			n--
		}
	}
	switch {
	case n == 0:
		return []Obligation{undecided(R, con, c.Pos(fn.Pos()), "no return follows a fetch inside a loop: the concatenation is not joined here in a shape this rule reads")}
	case badAt != "":
		return []Obligation{bad(R, con, badAt, "a token fetched inside the concatenation loop is what is returned: the statement's argument (and an error about it) is positioned at its last part — `leaf a \"one \" + 'two '` + a third part on the next line reports the next line")}
	}
	return []Obligation{ok(R, con, c.Pos(fn.Pos()), fmt.Sprintf("%d returns after the loop's fetches, each of the token fetched in front of the loop", n))}
}

// ---------------------------------------------------------------- seed wave 13: ERR.WALKALL, ERR.LOOPKEEP, ID.RESETALL

func init() {
	register(&Rule{Name: "ERR.WALKALL", Props: []string{"C04", "C01"}, Floor: 1,
		Doc: "the walk that collects the errors recorded in a tree stops at nothing but a nil entry: no other test (an entry without a node, made on demand by a lookup, is an entry) ends it in front of the children and the entry's own errors",
		Run: ruleErrWalkAll})
	register(&Rule{Name: "ERR.LOOPKEEP", Props: []string{"C04", "C11"}, Floor: 1,
		Doc: "a list of errors that a call hands back inside a loop is taken over (appended, or handed to a function) in the iteration that got it: it is not parked in a variable that the next iteration overwrites",
		Run: ruleErrLoopKeep})
	register(&Rule{Name: "ID.RESETALL", Props: []string{"C18", "C11"}, Floor: 1,
		Doc: "the reset of the identities' value lists at the start of a run reaches every loaded module and submodule: the loop over a table of modules that clears them skips no entry on account of its key",
		Run: ruleIDResetAll})
}

func ruleErrWalkAll(c *Ctx) []Obligation {
	const R = "ERR.WALKALL"
	fn := c.Fn("yang.(*Entry).checkErrors")
	con := "checkErrors: only a nil entry ends the walk"
	if fn == nil || len(fn.Params) == 0 {
		return []Obligation{undecided(R, con, "-", "(*Entry).checkErrors not found")}
	}
	recv := fn.Params[0]
	// every return that is reached without the children having been ranged over and the own errors handed on: the
	// conditions that lead there test the receiver against nil and nothing else
	var ranges []*ssa.BasicBlock
	c.eachInstrDeep(fn, func(in ssa.Instruction) {
		if _, isR := in.(*ssa.Range); isR {
			// as seen from the walker itself: the call that leads to the range, when it sits in a private helper
			if l := liftTo(in, fn); l != nil {
				ranges = append(ranges, l.Block())
			}
		}
	})
	if len(ranges) == 0 {
		return []Obligation{undecided(R, con, c.Pos(fn.Pos()), "the walk ranges over nothing")}
	}
	for _, b := range fn.Blocks {
		rt, isR := b.Instrs[len(b.Instrs)-1].(*ssa.Return)
		if !isR {
			continue
		}
		early := true
		for _, rb := range ranges {
			if rb.Dominates(b) || blockReaches(rb, b, nil) {
				early = false
			}
		}
		if !early {
			continue
		}
		for _, g := range guardsAt(b) {
			x, _, okn := nilTest(g.Cond)
			isRecv := okn && (x == ssa.Value(recv) || func() bool {
				if ld, isL := x.(*ssa.UnOp); isL {
					if a, isA := ld.X.(*ssa.Alloc); isA && spilledParam(a) == recv {
						return true
					}
				}
				return false
			}())
			if isRecv {
				continue
			}
			// an || of tests: each operand that is not the receiver's nil test ends the walk for a live entry
			return []Obligation{bad(R, con, c.InstrPos(rt), "the walk also ends on a test that is not `entry == nil` ("+c.InstrPos(g.If)+"): an entry for which it holds — the input or output a lookup makes on demand has no node — keeps the errors recorded on it and below it, and Process answers clean")}
		}
		// a materialised `e == nil || other`: the guard is the phi
		for _, p := range b.Preds {
			if ifi, isIf := p.Instrs[len(p.Instrs)-1].(*ssa.If); isIf {
				if bo, isB := ifi.Cond.(*ssa.BinOp); isB {
					if x, _, okn := nilTest(bo); okn && x != ssa.Value(recv) {
						if _, f, _ := loadedField(x); f != nil {
							return []Obligation{bad(R, con, c.InstrPos(rt), "the walk also ends when "+f.Name()+" of the entry is nil ("+c.InstrPos(ifi)+"): the input or output a lookup makes on demand has no node — the errors recorded on it and below it are never collected, and Process answers clean")}
						}
					}
				}
			}
		}
	}
	return []Obligation{ok(R, con, c.Pos(fn.Pos()), "every return in front of the walk over the children is under `entry == nil` alone")}
}

func ruleErrLoopKeep(c *Ctx) []Obligation {
	const R = "ERR.LOOPKEEP"
	var obs []Obligation
	var fns []*ssa.Function
	for _, fn := range c.Funcs {
		if c.isRepoFn(fn) && fn.Blocks != nil {
			fns = append(fns, fn)
		}
	}
	sort.Slice(fns, func(i, j int) bool { return fns[i].Pos() < fns[j].Pos() })
	for _, fn := range fns {
		n := 0
		eachInstr(fn, func(in ssa.Instruction) {
			var list ssa.Value
			switch x := in.(type) {
			case *ssa.Call:
				if isErrorSlice(x.Type()) {
					list = x
				}
			case *ssa.Extract:
				if isErrorSlice(x.Type()) {
					if _, isC := x.Tuple.(*ssa.Call); isC {
						list = x
					}
				}
			}
			if list == nil {
				return
			}
			h := loopHeaderOf(in.Block())
			if h == nil {
				return
			}
			if call, isC := in.(*ssa.Call); isC && isAppend(call) {
				return
			}
			// how the list is used
			taken, parked := false, false
			for _, r := range refsOf(list) {
				switch u := r.(type) {
				case *ssa.Call:
					taken = true // append(acc, list...) or handed to a function
					_ = u
				case *ssa.Return, *ssa.Range, *ssa.IndexAddr, *ssa.Store:
					taken = true
				case *ssa.Phi:
					// carried to the loop header (or beyond): a plain assignment to a variable that lives across
					// iterations
					if u.Block() == h || !inLoop(u.Block(), h) {
						parked = true
					} else {
						for _, rr := range refsOf(u) {
							if p2, isP := rr.(*ssa.Phi); isP && (p2.Block() == h || !inLoop(p2.Block(), h)) {
								parked = true
							}
						}
					}
				}
			}
			if !parked {
				return
			}
			n++
			con := fmt.Sprintf("%s: error list #%d got inside a loop is taken over in the same iteration", c.FnName(fn), n)
			if taken {
				obs = append(obs, ok(R, con, c.InstrPos(in), "appended or handed on where it is got (and also carried)"))
			} else {
				obs = append(obs, bad(R, con, c.InstrPos(in), "the list is only assigned to a variable that lives across the iterations: the next iteration's list (nil when nothing is wrong there) takes its place, and what was wrong with all but the last one is never reported"))
			}
		})
	}
	if len(obs) == 0 {
		obs = append(obs, ok(R, "error lists got inside loops", "-", "no list of errors got inside a loop is carried across iterations by plain assignment"))
	}
	return obs
}

// inLoop: b belongs to the natural loop with header h (or to a loop nested in it).
func inLoop(b, h *ssa.BasicBlock) bool {
	for x := loopHeaderOf(b); x != nil; {
		if x == h {
			return true
		}
		if x.Idom() == nil {
			return false
		}
		x = loopHeaderOf(x.Idom())
	}
	return b == h
}

func ruleIDResetAll(c *Ctx) []Obligation {
	const R = "ID.RESETALL"
	ri := c.Fn("yang.(*Modules).resolveIdentities")
	idT := c.Named("yang", "Identity")
	con := "resolveIdentities: the value lists are cleared for every entry of the module tables"
	if ri == nil || idT == nil {
		return []Obligation{undecided(R, con, "-", "resolveIdentities / Identity not found")}
	}
	fValues := FieldVar(idT, "Values")
	var obs []Obligation
	n := 0
	for _, mr := range c.mapRanges() {
		if mr.fn != ri && c.inlineRoot(mr.fn) != ri {
			continue
		}
		// a range over a table of modules in whose body (or a helper called from it) Values is set to nil
		clears := false
		for _, b := range mr.fn.Blocks {
			if !mr.inBody(b) {
				continue
			}
			for _, in := range b.Instrs {
				if st, isS := in.(*ssa.Store); isS && isNilConst(st.Val) {
					if _, f, _ := fieldOf(st.Addr); f == fValues {
						clears = true
					}
				}
				if ci, isC := in.(ssa.CallInstruction); isC {
					if cal := ci.Common().StaticCallee(); cal != nil && c.isRepoFn(cal) && cal.Blocks != nil {
						for _, st := range storesToField(cal, fValues) {
							if isNilConst(st.Val) {
								clears = true
							}
						}
					}
				}
			}
		}
		if !clears {
			continue
		}
		n++
		key, _ := mr.keyVal()
		con2 := fmt.Sprintf("%s #%d", con, n)
		skipped := ""
		if key != nil {
			for _, b := range mr.fn.Blocks {
				if !mr.inBody(b) {
					continue
				}
				if ifi, isIf := b.Instrs[len(b.Instrs)-1].(*ssa.If); isIf {
					usesKey := false
					operandClosureDeep(ifi.Cond, func(x ssa.Value) {
						if x == key {
							usesKey = true
						}
					})
					if usesKey {
						skipped = c.InstrPos(ifi)
					}
				}
			}
		}
		if skipped == "" {
			obs = append(obs, ok(R, con2, c.InstrPos(mr.rng), "no test of the table's key in the loop that clears"))
		} else {
			obs = append(obs, bad(R, con2, c.InstrPos(mr.rng), "the loop that clears the lists tests the key it is at ("+skipped+"): entries filed under another key (name@revision: a revision that a newer one has superseded) keep the lists of the last run, and an identity of a superseded submodule lists what it no longer has"))
		}
	}
	if n == 0 {
		// cleared in a loop over a list (sortedModules(…), say): there is no key to test
		cleared := false
		c.eachInstrDeep(ri, func(in ssa.Instruction) {
			if st, isS := in.(*ssa.Store); isS && isNilConst(st.Val) {
				if _, f, _ := fieldOf(st.Addr); f == fValues && loopHeaderOf(st.Block()) != nil {
					cleared = true
				}
			}
		})
		if cleared {
			return []Obligation{ok(R, con, c.Pos(ri.Pos()), "the lists are cleared in a loop that does not range over a map: no key to skip entries by")}
		}
		return []Obligation{undecided(R, con, c.Pos(ri.Pos()), "no loop clears Identity.Values in resolveIdentities")}
	}
	return obs
}

// ---------------------------------------------------------------- NUM.SIGNLAST (seed C15-w13-2)

func init() {
	register(&Rule{Name: "NUM.SIGNLAST", Props: []string{"C15"}, Floor: 1,
		Doc: "Number.String puts the minus sign in front of the finished text: the text with the sign is not measured, sliced or padded afterwards (the places of the decimal point and of the padding zeros are counted in digits)",
		Run: ruleNumSignLast})
}

func ruleNumSignLast(c *Ctx) []Obligation {
	const R = "NUM.SIGNLAST"
	fn := c.Fn("yang.(Number).String")
	con := "Number.String: the minus sign is put in front of the finished text"
	if fn == nil {
		return []Obligation{undecided(R, con, "-", "(Number).String not found")}
	}
	var signs []*ssa.BinOp
	eachInstr(fn, func(in ssa.Instruction) {
		bo, isB := in.(*ssa.BinOp)
		if !isB || bo.Op != token.ADD {
			return
		}
		if s, isK := constString(bo.X); isK && s == "-" {
			signs = append(signs, bo)
		}
	})
	if len(signs) == 0 {
		// the text is assembled some other way (a byte buffer the sign is appended to first, say): this rule is about
		// one way of getting it wrong and has nothing to say
		return []Obligation{ok(R, con, c.Pos(fn.Pos()), "no `\"-\" + text` in Number.String: the sign is not put on by concatenation, so it cannot be measured with the text")}
	}
	var obs []Obligation
	for _, sg := range signs {
		// everything the signed text flows into (through joins and further concatenations): no length, no slice
		seen := map[ssa.Value]bool{}
		badAt := ""
		var walk func(v ssa.Value, d int)
		walk = func(v ssa.Value, d int) {
			if seen[v] || d > 12 {
				return
			}
			seen[v] = true
			for _, r := range refsOf(v) {
				switch x := r.(type) {
				case *ssa.Phi:
					walk(x, d+1)
				case *ssa.BinOp:
					if x.Op == token.ADD {
						walk(x, d+1)
					}
				case *ssa.Slice:
					badAt = c.InstrPos(x)
				case *ssa.Call:
					if bi, isBi := x.Call.Value.(*ssa.Builtin); isBi && bi.Name() == "len" {
						badAt = c.InstrPos(x)
					}
				case *ssa.Store:
					if a, isA := x.Addr.(*ssa.Alloc); isA && x.Val == v {
						for _, rr := range refsOf(a) {
							if u, isU := rr.(*ssa.UnOp); isU {
								walk(u, d+1)
							}
						}
					}
				}
			}
		}
		walk(sg, 0)
		if badAt == "" {
			obs = append(obs, ok(R, con, c.InstrPos(sg), "the signed text is only joined and returned"))
		} else {
			obs = append(obs, bad(R, con, c.InstrPos(sg), "the text that already has its sign is measured or cut at "+badAt+": the decimal point and the padding zeros are placed one character off for a negative number (-0.5 prints as -.5 or 0.-5) and the text does not parse back"))
		}
	}
	return obs
}

// ---------------------------------------------------------------- INDENT.EXACTFIT (seed C20-w13-1)

func init() {
	register(&Rule{Name: "INDENT.EXACTFIT", Props: []string{"C20"}, Floor: 0,
		Doc: "in the accounting of a short write, an element that got out to its last byte is judged by that byte (does the line end there?): the early answer for an element that got out only in part is taken under `remaining < len(element)`, not `<=`",
		Run: ruleIndentExactFit})
}

func ruleIndentExactFit(c *Ctx) []Obligation {
	const R = "INDENT.EXACTFIT"
	var obs []Obligation
	var fns []*ssa.Function
	for _, fn := range c.Funcs {
		if fn.Pkg == nil || shortPkg(fn.Pkg.Pkg.Path()) != "indent" || fn.Blocks == nil || !c.isRepoFn(fn) {
			continue
		}
		// functions that answer with the line state: a bool among the results
		hasBool := false
		res := fn.Signature.Results()
		for i := 0; i < res.Len(); i++ {
			if isBoolType(res.At(i).Type()) {
				hasBool = true
			}
		}
		if hasBool && res.Len() >= 2 {
			fns = append(fns, fn)
		}
	}
	sort.Slice(fns, func(i, j int) bool { return fns[i].Pos() < fns[j].Pos() })
	for _, fn := range fns {
		n := 0
		eachInstr(fn, func(in ssa.Instruction) {
			bo, isB := in.(*ssa.BinOp)
			if !isB || loopHeaderOf(bo.Block()) == nil {
				return
			}
			lenOf := func(v ssa.Value) bool {
				call, isC := v.(*ssa.Call)
				if !isC {
					return false
				}
				bi, isBi := call.Call.Value.(*ssa.Builtin)
				if !isBi || bi.Name() != "len" || len(call.Call.Args) != 1 {
					return false
				}
				// of an element of the list that is walked (not of the list: that is the walk's own bound)
				if ld, isL := call.Call.Args[0].(*ssa.UnOp); isL {
					_, isIA := ld.X.(*ssa.IndexAddr)
					return isIA
				}
				return false
			}
			var op token.Token
			switch {
			case lenOf(bo.Y) && !lenOf(bo.X):
				op = bo.Op
			case lenOf(bo.X) && !lenOf(bo.Y):
				op = map[token.Token]token.Token{token.LSS: token.GTR, token.LEQ: token.GEQ, token.GTR: token.LSS, token.GEQ: token.LEQ}[bo.Op]
			default:
				return
			}
			if op != token.LSS && op != token.LEQ && op != token.GTR && op != token.GEQ {
				return
			}
			// the side on which the function answers at once (the element got out in part)
			for _, r := range refsOf(bo) {
				ifi, isIf := r.(*ssa.If)
				if !isIf {
					continue
				}
				tRet := terminalReturn(ifi.Block().Succs[0]) != nil
				fRet := terminalReturn(ifi.Block().Succs[1]) != nil
				if tRet == fRet {
					continue
				}
				n++
				con := fmt.Sprintf("%s: comparison #%d of what is left with the length of an element tells `in part` from `to its last byte`", c.FnName(fn), n)
				// answers at once when remaining OP len: must be remaining < len (true side) or remaining >= len (false side)
				strict := tRet && op == token.LSS || fRet && op == token.GEQ
				if strict {
					obs = append(obs, ok(R, con, c.InstrPos(bo), "the early answer is taken when what is left is less than the element"))
				} else {
					obs = append(obs, bad(R, con, c.InstrPos(bo), "the early answer is also taken when what is left equals the element's length: an element that got out to its last byte — a line with its line break — is treated as cut short, the line state says `mid-line`, and the caller's next write gets no prefix"))
				}
			}
		})
	}
	if len(obs) == 0 {
		obs = append(obs, ok(R, "short-write accounting", "-", "no function of pkg/indent answers with a line state from a comparison of a remaining count with an element's length"))
	}
	return obs
}

// ---------------------------------------------------------------- NUM.DECLITERAL (hunt/h6/C15)

func init() {
	register(&Rule{Name: "NUM.DECLITERAL", Props: []string{"C15", "C10"}, Floor: 2,
		Doc: "the decimal parser answers with a number only for a text that matches a constant pattern for decimal literals (evaluated here on witness texts): a sign first, digits on both sides of a point",
		Run: ruleNumDecLiteral})
}

func ruleNumDecLiteral(c *Ctx) []Obligation {
	const R = "NUM.DECLITERAL"
	fn := c.Fn("yang.decimalValueFromString")
	con := "decimalValueFromString: a text that is no decimal literal is refused"
	if fn == nil {
		return []Obligation{undecided(R, con, "-", "decimalValueFromString not found")}
	}
	var g *ssa.Global
	var match *ssa.Call
	c.eachInstrDeep(fn, func(in ssa.Instruction) {
		call, isC := in.(*ssa.Call)
		if !isC || g != nil {
			return
		}
		cal := call.Call.StaticCallee()
		if cal == nil || cal.Signature.Recv() == nil || cal.Name() != "MatchString" || len(call.Call.Args) < 2 {
			return
		}
		if u, isU := call.Call.Args[0].(*ssa.UnOp); isU {
			if gl, isG := u.X.(*ssa.Global); isG {
				g, match = gl, call
			}
		}
	})
	if g == nil {
		return []Obligation{bad(R, con, c.Pos(fn.Pos()), "the text is cut at its first point, padded and converted without its shape being looked at: `.` and `-.` are 0, `.-5` is -0.05 (the sign counted as a fraction digit)")}
	}
	var obs []Obligation
	pattern := ""
	if initFn := c.SSA[modPath+"/pkg/yang"].Func("init"); initFn != nil {
		eachInstr(initFn, func(in ssa.Instruction) {
			call, isC := in.(*ssa.Call)
			if !isC || !(calleeIs(call, "regexp", "MustCompile") || calleeIs(call, "regexp", "Compile")) {
				return
			}
			for _, r := range *call.Referrers() {
				if st, isS := r.(*ssa.Store); isS && st.Addr == ssa.Value(g) {
					if s, isK := constString(call.Call.Args[0]); isK {
						pattern = s
					}
				}
			}
		})
	}
	con1 := "the pattern the decimal parser holds a text to denotes a decimal literal"
	re, err := regexp.Compile(pattern)
	if pattern == "" || err != nil {
		obs = append(obs, undecided(R, con1, c.InstrPos(match), "the pattern is not a constant compiled in the package initialiser"))
	} else {
		must := []string{"0", "-0", "7", "+7", "-12", "0.5", "-3.14", "+2.50", "10.000000000000000001", "9223372036854775807"}
		mustNot := []string{"", ".", "-.", "+.", ".+", ".-", ".5", "-.5", "5.", ".-5", ".-05", "1.-5", "0...5", "1.2.3", "--1", "+-1", "1e3", " 1", "1 ", "0x10", "1_0", "-", "+"}
		var wrong []string
		for _, s := range must {
			if !re.MatchString(s) {
				wrong = append(wrong, fmt.Sprintf("rejects %q", s))
			}
		}
		for _, s := range mustNot {
			if re.MatchString(s) {
				wrong = append(wrong, fmt.Sprintf("accepts %q", s))
			}
		}
		if len(wrong) == 0 {
			obs = append(obs, ok(R, con1, c.InstrPos(match), fmt.Sprintf("constant %q evaluated on %d witness texts", pattern, len(must)+len(mustNot))))
		} else {
			if len(wrong) > 5 {
				wrong = append(wrong[:5], fmt.Sprintf("… (%d in all)", len(wrong)))
			}
			obs = append(obs, bad(R, con1, c.InstrPos(match), fmt.Sprintf("constant %q %s", pattern, joinStrings(wrong, ", "))))
		}
	}
	// a mismatch returns an error, and every return that answers with a number (a nil error) lies on the side of a
	// branch where the match held. The match may be made in a private predicate that returns it (or its negation).
	var mv ssa.Value = match
	held := true // the truth value of mv that means "the text matched"
	if h := match.Parent(); h != fn {
		mv = nil
		direct := true
		for _, b := range h.Blocks {
			r, isR := b.Instrs[len(b.Instrs)-1].(*ssa.Return)
			if !isR {
				continue
			}
			if len(r.Results) != 1 {
				direct = false
				continue
			}
			base, br := stripNot(resolveSpill(r.Results[0], r), true)
			if base != ssa.Value(match) {
				direct = false
			}
			held = br
		}
		if calls := c.callsTo(fn, h); direct && len(calls) == 1 {
			if v, isV := calls[0].(ssa.Value); isV {
				mv = v
			}
		}
		if mv == nil {
			obs = append(obs, undecided(R, con, c.InstrPos(match), "the match is made in "+h.Name()+", which does not simply return it to "+fn.Name()))
			return obs
		}
	}
	refused := false
	for _, b := range fn.Blocks {
		ifi, isIf := b.Instrs[len(b.Instrs)-1].(*ssa.If)
		if !isIf {
			continue
		}
		base, br := stripNot(ifi.Cond, true)
		if base != mv {
			continue
		}
		// successor 0 is taken when the condition is true: base == br
		miss := b.Succs[1]
		if br != held {
			miss = b.Succs[0]
		}
		if blockReturnsError(miss) {
			refused = true
		}
	}
	bypass := ""
	for _, rt := range successReturns(fn) {
		under := false
		for _, g := range guardsAt(rt.Block()) {
			if base, br := stripNot(g.Cond, g.Branch); base == mv && br == held {
				under = true
			}
		}
		if !under {
			bypass = c.InstrPos(rt)
		}
	}
	switch {
	case !refused:
		obs = append(obs, bad(R, con, c.InstrPos(match), "a text that does not match is not turned away with an error on the spot"))
	case bypass != "":
		obs = append(obs, bad(R, con, c.InstrPos(match), "the return at "+bypass+" answers with a number on a path where the text need not have matched"))
	default:
		obs = append(obs, ok(R, con, c.InstrPos(match), "a mismatch returns an error, and every return with a number lies where the match held"))
	}
	return obs
}

// ---------------------------------------------------------------- AUG.NSOWNER (hunt/h6/C07/finding1; recorded finding)

func init() {
	register(&Rule{Name: "AUG.NSOWNER", Props: []string{"C07", "C08"}, Floor: 1,
		Doc: "the namespace an augment stamps on the nodes it grafts is that of a loaded module: Entry.Namespace answers with an empty value when the module a submodule belongs to is not in the set, so a graft whose namespace comes from it is reached only past a test of that lookup (recorded finding: it is not, and the pinned TestUsesParent loads such a submodule)",
		Run: ruleAugNSOwner})
}

func ruleAugNSOwner(c *Ctx) []Obligation {
	const R = "AUG.NSOWNER"
	con := "yang.(*Entry).Augment: graft namespace is a loaded module's"
	aug := c.Fn("yang.(*Entry).Augment")
	nsFn := c.Fn("yang.(*Entry).Namespace")
	mods := c.Named("yang", "Modules")
	if aug == nil || nsFn == nil || mods == nil {
		return []Obligation{undecided(R, con, "-", "Augment / Namespace / Modules not found")}
	}
	fMods := FieldVar(mods, "Modules")
	// can Namespace answer with a value it made itself?
	fresh := false
	for _, b := range nsFn.Blocks {
		r, isR := b.Instrs[len(b.Instrs)-1].(*ssa.Return)
		if !isR || len(r.Results) != 1 {
			continue
		}
		operandClosure(resolveSpill(r.Results[0], r), func(x ssa.Value) {
			if a, isA := x.(*ssa.Alloc); isA && a.Heap {
				fresh = true
			}
		})
	}
	if !fresh {
		return []Obligation{ok(R, con, c.Pos(nsFn.Pos()), "Namespace never answers with a value of its own making")}
	}
	// functions that look a module up by name in the set
	looksUp := func(fn *ssa.Function) bool {
		found := false
		for _, f := range c.staticReach(fn, 3) {
			if f.Blocks == nil || !c.isRepoFn(f) {
				continue
			}
			eachInstr(f, func(in ssa.Instruction) {
				if l, isL := in.(*ssa.Lookup); isL {
					if _, lf, _ := loadedField(l.X); lf == fMods && fMods != nil {
						found = true
					}
				}
			})
		}
		return found
	}
	var obs []Obligation
	n := 0
	fns := append([]*ssa.Function{aug}, c.helpersUnder(aug)...)
	for _, fn := range fns {
		for _, ci := range callsIn(fn, func(ci ssa.CallInstruction) bool { return true }) {
			fromNS := false
			for _, a := range ci.Common().Args {
				operandClosure(a, func(x ssa.Value) {
					if call, isC := x.(*ssa.Call); isC && call.Call.StaticCallee() == nsFn {
						fromNS = true
					}
				})
			}
			if !fromNS || ci.Common().StaticCallee() == nsFn {
				continue
			}
			n++
			tested := false
			var conds []ssa.Value
			for _, g := range guardsAtDeep(ci.Block()) {
				conds = append(conds, g.Cond)
			}
			// a test one of whose outcomes does not come to the graft in this iteration (the last test of a
			// conjunction whose body leaves the iteration does not dominate the graft: the tests before it go round it)
			avoid := iterationAvoid(ci.Block())
			for _, b := range fn.Blocks {
				iff, isIf := b.Instrs[len(b.Instrs)-1].(*ssa.If)
				if !isIf || b == ci.Block() || avoid[b] {
					continue
				}
				r0, r1 := blockReaches(b.Succs[0], ci.Block(), avoid), blockReaches(b.Succs[1], ci.Block(), avoid)
				if r0 != r1 {
					conds = append(conds, iff.Cond)
				}
			}
			for _, cond := range conds {
				operandClosureDeep(cond, func(x ssa.Value) {
					if l, isL := x.(*ssa.Lookup); isL {
						if _, lf, _ := loadedField(l.X); lf == fMods && fMods != nil {
							tested = true
						}
					}
					if call, isC := x.(*ssa.Call); isC {
						if cal := call.Call.StaticCallee(); cal != nil && cal != nsFn && c.isRepoFn(cal) && looksUp(cal) && isPointerResultTo(cal, c.Named("yang", "Module")) {
							tested = true
						}
					}
				})
			}
			if tested {
				obs = append(obs, ok(R, con, c.InstrPos(ci), "the graft is reached past a test of the module lookup"))
			} else {
				obs = append(obs, bad(R, con, c.InstrPos(ci), "`submodule so { belongs-to nowhere { prefix n; } import b { prefix b; } augment \"/b:bt\" { container grafted; } }` with module nowhere not loaded: Process reports nothing, /b:bt gains grafted, and its namespace is the empty value Namespace makes on the miss"))
			}
		}
	}
	if n == 0 {
		return []Obligation{undecided(R, con, c.Pos(aug.Pos()), "no graft in Augment takes its namespace from Entry.Namespace")}
	}
	return obs
}

// isPointerResultTo: the function has one result and it is a pointer to the named type.
func isPointerResultTo(fn *ssa.Function, nt *types.Named) bool {
	res := fn.Signature.Results()
	if res.Len() != 1 || nt == nil {
		return false
	}
	p, isP := res.At(0).Type().Underlying().(*types.Pointer)
	if !isP {
		return false
	}
	n, isN := p.Elem().(*types.Named)
	return isN && n.Obj() == nt.Obj()
}

// ---------------------------------------------------------------- AUG.ABSPATH (hunt/h6/C07/finding2; recorded finding)

func init() {
	register(&Rule{Name: "AUG.ABSPATH", Props: []string{"C07"}, Floor: 1,
		Doc: "the argument of a module-level augment is an absolute schema node identifier (RFC 7950 7.17): Augment looks the argument up only past a test that it begins with `/` — as ApplyDeviate does for a deviation (recorded finding: it does not, `augment \"../x\"` is grafted, and the pinned TestGetWhenXPath writes such an augment)",
		Run: ruleAugAbsPath})
}

// slashTests: the values in fn (and its private helpers) that test whether a text begins with `/`, with the text.
func (c *Ctx) slashTests(fn *ssa.Function) map[ssa.Value]ssa.Value {
	out := map[ssa.Value]ssa.Value{}
	c.eachInstrDeep(fn, func(in ssa.Instruction) {
		switch x := in.(type) {
		case *ssa.Call:
			if calleeIs(x, "strings", "HasPrefix") && len(x.Call.Args) == 2 {
				if s, isK := constString(x.Call.Args[1]); isK && s == "/" {
					out[x] = x.Call.Args[0]
				}
			}
		case *ssa.BinOp:
			if x.Op != token.EQL && x.Op != token.NEQ {
				return
			}
			if k, isK := constInt(x.Y); !isK || k != '/' {
				return
			}
			switch y := x.X.(type) {
			case *ssa.Lookup:
				if idx, isI := constInt(y.Index); isI && idx == 0 {
					out[x] = y.X
				}
			case *ssa.Index:
				if idx, isI := constInt(y.Index); isI && idx == 0 {
					out[x] = y.X
				}
			}
		}
	})
	return out
}

func ruleAugAbsPath(c *Ctx) []Obligation {
	const R = "AUG.ABSPATH"
	con := "yang.(*Entry).Augment: the target path is looked up only when it is absolute"
	aug := c.Fn("yang.(*Entry).Augment")
	fsn := c.Fn("yang.(*Entry).findSchemaNode")
	if aug == nil || fsn == nil {
		return []Obligation{undecided(R, con, "-", "Augment / findSchemaNode not found")}
	}
	calls := c.callsToDeep(aug, fsn)
	if len(calls) == 0 {
		return []Obligation{undecided(R, con, c.Pos(aug.Pos()), "Augment does not look its target up with findSchemaNode")}
	}
	var obs []Obligation
	for _, ci := range calls {
		args := ci.Common().Args
		path := args[len(args)-1]
		tests := c.slashTests(ci.Parent())
		var conds []ssa.Value
		for _, g := range guardsAtDeep(ci.Block()) {
			conds = append(conds, g.Cond)
		}
		// … or a test one of whose outcomes does not come to a use of the looked-up entry in this iteration
		avoid := iterationAvoid(ci.Block())
		var uses []*ssa.BasicBlock
		if v, isV := ci.(ssa.Value); isV {
			for _, in := range forwardUses(v, 4) {
				if call, isC := in.(ssa.CallInstruction); isC && in != ci.(ssa.Instruction) && call.Common().StaticCallee() != nil && c.isRepoFn(call.Common().StaticCallee()) {
					uses = append(uses, in.Block())
				}
			}
		}
		for _, b := range ci.Parent().Blocks {
			iff, isIf := b.Instrs[len(b.Instrs)-1].(*ssa.If)
			if !isIf || avoid[b] || len(uses) == 0 {
				continue
			}
			cut := false
			for _, s := range b.Succs {
				reach := false
				for _, u := range uses {
					if blockReaches(s, u, avoid) {
						reach = true
					}
				}
				if !reach {
					cut = true
				}
			}
			if cut {
				conds = append(conds, iff.Cond)
			}
		}
		tested := false
		for _, cond := range conds {
			operandClosureDeep(cond, func(x ssa.Value) {
				if text, isT := tests[x]; isT && (sameExpr(text, path) || sameObject(text, path)) {
					tested = true
				}
			})
		}
		if tested {
			obs = append(obs, ok(R, con, c.InstrPos(ci), "the lookup, or every use of what it finds, lies past a test that the path begins with `/`"))
		} else {
			obs = append(obs, bad(R, con, c.InstrPos(ci), "`module d { … container x; augment \"../x\" { leaf rel { type string; } } }`: Process reports nothing and /d:x gains rel — the path starts at the augment's own entry, whose parent is the module, and `..` climbs to it"))
		}
	}
	return obs
}

// ---------------------------------------------------------------- FIND.ASWRITTEN (seeded C17-w14-1, C17-w14-2)

func init() {
	register(&Rule{Name: "FIND.ASWRITTEN", Props: []string{"C17"}, Floor: 2,
		Doc: "Find reads the path as it is written: the text that is split into steps has not been through a lexical normaliser (path.Clean cancels `nosuch/..`, so a step that names no child would go unnoticed), and the prefix of a step is never compared with the prefix of the tree the lookup stands in (a prefix means what the file of the context node says)",
		Run: ruleFindAsWritten})
}

func ruleFindAsWritten(c *Ctx) []Obligation {
	const R = "FIND.ASWRITTEN"
	find := c.Fn("yang.(*Entry).Find")
	gp := c.Fn("yang.getPrefix")
	entry := c.Named("yang", "Entry")
	con1 := "Find: the text split into steps is the path as written"
	con2 := "Find: the prefix of a step is not compared with the prefix of the tree"
	if find == nil || gp == nil || entry == nil {
		return []Obligation{undecided(R, con1, "-", "Find / getPrefix / Entry not found")}
	}
	var obs []Obligation
	// (1) no normaliser between the parameter and the split
	nsplit, cleaned := 0, ""
	c.eachInstrDeep(find, func(in ssa.Instruction) {
		call, isC := in.(*ssa.Call)
		if !isC || !(calleeIs(call, "strings", "Split") || calleeIs(call, "strings", "SplitN") || calleeIs(call, "strings", "Cut") || calleeIs(call, "strings", "Index") || calleeIs(call, "strings", "IndexByte")) || len(call.Call.Args) < 2 {
			return
		}
		if s, isK := constString(call.Call.Args[1]); isK && s != "/" {
			return
		}
		nsplit++
		operandClosureDeep(call.Call.Args[0], func(x ssa.Value) {
			if cc, isCC := x.(*ssa.Call); isCC {
				if cal := cc.Call.StaticCallee(); cal != nil && cal.Pkg != nil && (cal.Pkg.Pkg.Path() == "path" || cal.Pkg.Pkg.Path() == "path/filepath") {
					cleaned = c.InstrPos(cc) + " (" + cal.Pkg.Pkg.Name() + "." + cal.Name() + ")"
				}
			}
		})
	})
	switch {
	case nsplit == 0:
		obs = append(obs, undecided(R, con1, c.Pos(find.Pos()), "no cut of the path at `/` found in Find"))
	case cleaned != "":
		obs = append(obs, bad(R, con1, c.Pos(find.Pos()), "the path goes through a lexical normaliser at "+cleaned+": `/m:top/m:nosuch/../m:b` loses the step that names no child and finds b"))
	default:
		obs = append(obs, ok(R, con1, c.Pos(find.Pos()), fmt.Sprintf("%d cut(s) of the path; no call into path or path/filepath reaches them", nsplit)))
	}
	// (2) prefix of a step against Entry.Prefix
	fPrefix := FieldVar(entry, "Prefix")
	where := ""
	c.eachInstrDeep(find, func(in ssa.Instruction) {
		bo, isB := in.(*ssa.BinOp)
		if !isB || (bo.Op != token.EQL && bo.Op != token.NEQ) {
			return
		}
		if t, isBasic := bo.X.Type().Underlying().(*types.Basic); !isBasic || t.Info()&types.IsString == 0 {
			return
		}
		fromStep := func(v ssa.Value) bool {
			f := false
			operandClosure(v, func(x ssa.Value) {
				if cc, isCC := x.(*ssa.Call); isCC && cc.Call.StaticCallee() == gp {
					f = true
				}
			})
			return f
		}
		fromTree := func(v ssa.Value) bool {
			f := false
			operandClosure(v, func(x ssa.Value) {
				if _, lf, _ := loadedField(x); lf == fPrefix && fPrefix != nil {
					f = true
				}
			})
			return f
		}
		if (fromStep(bo.X) && fromTree(bo.Y)) || (fromStep(bo.Y) && fromTree(bo.X)) {
			where = c.InstrPos(bo)
		}
	})
	if where != "" {
		obs = append(obs, bad(R, con2, where, "a step's prefix is compared with Entry.Prefix: a node copied by uses from a module that imports another under the prefix of the tree it now stands in has `/a:x` looked up in the wrong module"))
	} else {
		obs = append(obs, ok(R, con2, c.Pos(find.Pos()), "no comparison of a getPrefix result with Entry.Prefix in Find"))
	}
	return obs
}

// ---------------------------------------------------------------- UNION.DEDUPEQUAL (seeded C09-w14-2)

func init() {
	register(&Rule{Name: "UNION.DEDUPEQUAL", Props: []string{"C09"}, Floor: 1,
		Doc: "a member type is left out of a union only because it has no resolved type or because it equals (YangType.Equal) a member already taken: in the member loop of the type resolver, every branch of which one outcome passes the append by tests one of those two things — or membership in a set keyed by the very pointer that would be appended",
		Run: ruleUnionDedupEqual})
}

func ruleUnionDedupEqual(c *Ctx) []Obligation {
	const R = "UNION.DEDUPEQUAL"
	con := "Type.resolve: a union member is passed over only when it has no type or equals one already taken"
	res := c.Fn("yang.(*Type).resolve")
	typeT := c.Named("yang", "Type")
	yt := c.Named("yang", "YangType")
	if res == nil || typeT == nil || yt == nil {
		return []Obligation{undecided(R, con, "-", "(*Type).resolve / Type / YangType not found")}
	}
	fYT := FieldVar(typeT, "YangType")
	fMembers := FieldVar(yt, "Type")
	eq := c.Fn("yang.(*YangType).Equal")
	// the append of a member's resolved type to the member list
	var app *ssa.Call
	var member ssa.Value
	eachInstr(res, func(in ssa.Instruction) {
		call, isC := in.(*ssa.Call)
		if !isC || app != nil {
			return
		}
		bi, isB := call.Call.Value.(*ssa.Builtin)
		if !isB || bi.Name() != "append" || len(call.Call.Args) != 2 {
			return
		}
		if _, lf, _ := loadedField(call.Call.Args[0]); lf != fMembers || fMembers == nil {
			return
		}
		operandClosure(call.Call.Args[1], func(x ssa.Value) {
			if _, lf, _ := loadedField(x); lf == fYT && fYT != nil {
				app, member = call, x
			}
		})
	})
	if app == nil {
		return []Obligation{undecided(R, con, c.Pos(res.Pos()), "no append of a member's resolved type to YangType.Type in the type resolver")}
	}
	h := loopHeaderOf(app.Block())
	if h == nil {
		return []Obligation{undecided(R, con, c.InstrPos(app), "the append is not in a loop")}
	}
	avoid := map[*ssa.BasicBlock]bool{h: true}
	var obs []Obligation
	nskip := 0
	for _, b := range res.Blocks {
		iff, isIf := b.Instrs[len(b.Instrs)-1].(*ssa.If)
		if !isIf || b == h || !blockReaches(h, b, nil) || !h.Dominates(b) {
			continue
		}
		// inside this loop: the header is reached again from b
		back := false
		for _, s := range b.Succs {
			if blockReaches(s, h, nil) {
				back = true
			}
		}
		if !back {
			continue
		}
		r0, r1 := blockReaches(b.Succs[0], app.Block(), avoid), blockReaches(b.Succs[1], app.Block(), avoid)
		if r0 == r1 {
			continue
		}
		// outcomes that leave the function (an error return) are not "passing over"
		skipSucc := b.Succs[0]
		if r0 {
			skipSucc = b.Succs[1]
		}
		if !blockReaches(skipSucc, h, nil) {
			continue
		}
		nskip++
		base, _ := stripNot(iff.Cond, true)
		allowed := ""
		switch x := base.(type) {
		case *ssa.BinOp:
			if x.Op == token.EQL || x.Op == token.NEQ {
				for _, side := range []ssa.Value{x.X, x.Y} {
					if _, lf, _ := loadedField(side); lf == fYT {
						other := x.Y
						if side == x.Y {
							other = x.X
						}
						if isNilConst(other) {
							allowed = "the member has no resolved type"
						}
					}
				}
			}
		case *ssa.Call:
			if cal := x.Call.StaticCallee(); cal != nil && cal == eq {
				allowed = "YangType.Equal"
			}
		case *ssa.Lookup:
			if sameExpr(x.Index, member) || sameObject(x.Index, member) {
				allowed = "a set keyed by the pointer that would be appended"
			}
		case *ssa.Extract:
			if lk, isL := x.Tuple.(*ssa.Lookup); isL && (sameExpr(lk.Index, member) || sameObject(lk.Index, member)) {
				allowed = "a set keyed by the pointer that would be appended"
			}
		}
		if allowed == "" {
			obs = append(obs, bad(R, con, c.InstrPos(iff), "this branch passes the append by on a test that is neither `no resolved type` nor YangType.Equal: members that differ (typedefs of one name from two modules, say) can be taken for one"))
		}
	}
	if len(obs) == 0 {
		if nskip == 0 {
			return []Obligation{undecided(R, con, c.InstrPos(app), "no branch in the member loop passes the append by: duplicates are not removed here")}
		}
		obs = append(obs, ok(R, con, c.InstrPos(app), fmt.Sprintf("%d branch(es) pass the append by, each on an allowed test", nskip)))
	}
	return obs
}

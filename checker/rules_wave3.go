package main

// rules_wave3.go: rules added after the third wave of independently seeded changes:
// POS.COL, POS.ERRSITE, TREE.ATTACHED, TREE.VISITALL, STATE.RELINK, GLOBAL.ESCAPE.

import (
	"fmt"
	"go/ast"
	"go/token"
	"go/types"
	"os"
	"sort"
	"strings"

	"golang.org/x/tools/go/ssa"
)

func init() {
	register(&Rule{Name: "POS.COL", Props: []string{"C16"}, Floor: 4,
		Doc: "the lexer's line and column counters advance in characters and line breaks: every write is a constant, a restore, or the old value plus constants / rune counts (column) / newline counts (line), never a byte quantity",
		Run: rulePosCol})
	register(&Rule{Name: "POS.ERRSITE", Props: []string{"C16"}, Floor: 6,
		Doc: "errors about a type, range, length, enum, uses or substatement are located at that statement: the node handed to Source/Location is not widened to the module or a parent on the way",
		Run: rulePosErrSite})
	register(&Rule{Name: "TREE.ATTACHED", Props: []string{"C04", "C17", "C07"}, Floor: 2,
		Doc: "an entry created with a Parent is linked into the tree in the same function (or returned fresh to a caller): no detached entry claims a parent that does not contain it",
		Run: ruleTreeAttached})
	register(&Rule{Name: "TREE.VISITALL", Props: []string{"C04", "C08", "C06"}, Floor: 3,
		Doc: "a recursive tree walker's loop over the children recurses on every iteration: no path through the loop body skips the recursive call",
		Run: ruleTreeVisitAll})
	register(&Rule{Name: "STATE.RELINK", Props: []string{"C18", "C13"}, Floor: 2,
		Doc: "import and include links are recomputed from a fresh lookup on every Process, never kept from an earlier run",
		Run: ruleStateRelink})
	register(&Rule{Name: "GLOBAL.ESCAPE", Props: []string{"C19"}, Floor: 1,
		Doc: "an object reached from a package-level variable that is stored into per-instance state is never written through that state",
		Run: ruleGlobalEscape})
}

// ---------------------------------------------------------------- POS.COL

func additiveLeaves(v ssa.Value, out *[]ssa.Value, arith *bool) {
	if bo, isB := v.(*ssa.BinOp); isB && (bo.Op == token.ADD || bo.Op == token.SUB) {
		*arith = true
		additiveLeaves(bo.X, out, arith)
		additiveLeaves(bo.Y, out, arith)
		return
	}
	*out = append(*out, v)
}

func rulePosCol(c *Ctx) []Obligation {
	const R = "POS.COL"
	lx := c.Named("yang", "lexer")
	if lx == nil {
		return []Obligation{undecided(R, "lexer type", "-", "type yang.lexer not found")}
	}
	fCol, fLine := FieldVar(lx, "col"), FieldVar(lx, "line")
	if fCol == nil || fLine == nil {
		return []Obligation{undecided(R, "lexer counters", "-", "lexer.col / lexer.line not found")}
	}
	var obs []Obligation
	for _, fn := range c.Funcs {
		if fn.Pkg == nil || shortPkg(fn.Pkg.Pkg.Path()) != "yang" {
			continue
		}
		seen := map[string]int{}
		for _, f := range []*types.Var{fCol, fLine} {
			for _, st := range storesToField(fn, f) {
				base := fmt.Sprintf("%s: write of lexer.%s", c.FnName(fn), f.Name())
				seen[base]++
				con := base
				if seen[base] > 1 {
					con = fmt.Sprintf("%s #%d", base, seen[base])
				}
				var leaves []ssa.Value
				arith := false
				additiveLeaves(st.Val, &leaves, &arith)
				why := ""
				for _, lf := range leaves {
					switch x := lf.(type) {
					case *ssa.Const:
						continue
					case *ssa.UnOp:
						if _, lf2, _ := loadedField(x); lf2 == f {
							continue
						}
						if !arith {
							continue // plain copy of a saved value
						}
						if _, lf2, _ := loadedField(x); lf2 != nil {
							why = fmt.Sprintf("adds lexer.%s, a byte quantity", lf2.Name())
						} else {
							why = "adds a value that is not a character count"
						}
					case *ssa.Call:
						switch {
						case f == fCol && (calleeIs(x, "unicode/utf8", "RuneCountInString") || calleeIs(x, "unicode/utf8", "RuneCount")):
							// the characters counted must be those after the LAST line break of the text moved over
							if w := afterLastBreak(x.Call.Args[0]); w != "" {
								why = w
							}
							continue
						case f == fLine && (calleeIs(x, "strings", "Count") || calleeIs(x, "bytes", "Count")):
							if s, isS := constString(x.Call.Args[1]); isS && s == "\n" {
								continue
							}
							why = "counts something other than line breaks"
						default:
							why = fmt.Sprintf("adds the result of %s, which is not a count of characters", calleeName(x))
						}
					default:
						if !arith {
							continue // restore from a parameter / saved local
						}
						why = fmt.Sprintf("adds %s, which is not a count of characters", describeLeaf(lf))
					}
				}
				// a constant step taken inside a loop counts iterations: the loop must not be one that runs once per BYTE
				// of a text (an index loop bounded by len of a string or byte slice)
				if why == "" && arith && f == fCol {
					for h := loopHeaderOf(st.Block()); h != nil; {
						for _, in := range h.Instrs {
							phi, isPhi := in.(*ssa.Phi)
							if !isPhi {
								continue
							}
							for _, r := range *phi.Referrers() {
								cmp, isB := r.(*ssa.BinOp)
								if !isB || cmp.X != ssa.Value(phi) || (cmp.Op != token.LSS && cmp.Op != token.LEQ && cmp.Op != token.NEQ) {
									continue
								}
								call, isC := cmp.Y.(*ssa.Call)
								if !isC {
									continue
								}
								if bi, isBI := call.Call.Value.(*ssa.Builtin); !isBI || bi.Name() != "len" {
									continue
								}
								switch t := call.Call.Args[0].Type().Underlying().(type) {
								case *types.Basic:
									if t.Info()&types.IsString != 0 {
										why = "is stepped once per iteration of a loop that runs over the BYTES of a string (index < len)"
									}
								case *types.Slice:
									if b, isBasic := t.Elem().Underlying().(*types.Basic); isBasic && b.Kind() == types.Uint8 {
										why = "is stepped once per iteration of a loop that runs over the bytes of a byte slice (index < len)"
									}
								}
							}
						}
						break
					}
				}
				if why == "" {
					obs = append(obs, ok(R, con, c.InstrPos(st), "constant, restore, or old value plus constants / rune counts / newline counts"))
				} else {
					obs = append(obs, bad(R, con, c.InstrPos(st), "the counter "+why+": after multi-byte characters every later position on the line is reported too far right"))
				}
			}
		}
	}
	return obs
}

// afterLastBreak: v is text[LastIndex(text, "\n")+1:] (or the last element of Split(text, "\n")). Returns "" if so,
// else what is wrong.
func afterLastBreak(v ssa.Value) string {
	switch x := v.(type) {
	case *ssa.Slice:
		if x.High != nil {
			return "counts a part of the text that does not run to its end"
		}
		lowOK := false
		if bo, isB := x.Low.(*ssa.BinOp); isB && bo.Op == token.ADD {
			for _, pair := range [][2]ssa.Value{{bo.X, bo.Y}, {bo.Y, bo.X}} {
				call, isC := pair[0].(*ssa.Call)
				k, isK := constInt(pair[1])
				if !isC || !isK || k != 1 {
					continue
				}
				switch calleeName(call) {
				case "LastIndex", "LastIndexByte", "LastIndexAny":
					if sameExpr(call.Call.Args[0], x.X) || AccessPath(call.Call.Args[0]) == AccessPath(x.X) {
						lowOK = true
					}
				}
			}
		}
		if lowOK {
			return ""
		}
		return "counts the characters from a point that is not the last line break of the text moved over (after several line breaks the column is that of the wrong line)"
	case *ssa.UnOp, *ssa.Index:
		// element of a Split result: must be the last one — not modelled
		return "counts text whose relation to the last line break could not be established"
	case *ssa.Phi:
		for _, e := range x.Edges {
			if w := afterLastBreak(e); w != "" {
				return w
			}
		}
		return ""
	case *ssa.Parameter:
		return "counts the whole of a text that may contain line breaks"
	}
	return "counts text whose relation to the last line break could not be established"
}

func describeLeaf(v ssa.Value) string {
	switch x := v.(type) {
	case *ssa.Parameter:
		return "the parameter " + x.Name()
	case *ssa.Phi:
		if x.Comment != "" {
			return "the variable " + x.Comment
		}
	case *ssa.BinOp:
		return "an expression (" + x.Op.String() + ")"
	}
	return fmt.Sprintf("a %T value", v)
}

// ---------------------------------------------------------------- POS.ERRSITE

// coarsened reports how v is derived from a widening step (root/module/parent lookup), "" if not.
func (c *Ctx) coarsened(fn *ssa.Function, v ssa.Value, depth int) string {
	why := ""
	var params []*ssa.Parameter
	backSlice(v, func(x ssa.Value) bool {
		if why != "" {
			return false
		}
		switch y := x.(type) {
		case *ssa.Call:
			name := calleeName(y)
			switch name {
			case "RootNode", "module", "FindModuleByPrefix", "ParentNode", "belongingModule":
				why = "the result of " + name + "()"
				return false
			}
		case *ssa.Parameter:
			params = append(params, y)
		}
		return true
	})
	if why != "" || depth == 0 {
		return why
	}
	for _, p := range params {
		idx := paramIndex(fn, p)
		if idx < 0 {
			continue
		}
		for _, e := range c.Graph().Nodes[fn].In {
			site := e.Site
			if site == nil || site.Common().StaticCallee() != fn {
				continue
			}
			args := site.Common().Args
			if idx >= len(args) {
				continue
			}
			if w := c.coarsened(e.Caller.Func, args[idx], depth-1); w != "" {
				return fmt.Sprintf("%s, passed by %s", w, c.FnName(e.Caller.Func))
			}
		}
	}
	return ""
}

func rulePosErrSite(c *Ctx) []Obligation {
	const R = "POS.ERRSITE"
	var obs []Obligation
	// (1) Source(x) in the functions that report the fault kinds the property lists.
	scope := map[string]bool{
		"yang.(*Type).resolve": true, "yang.(*typeDictionary).findExternal": true, "yang.ToEntry": true,
		"yang.newError": true, "yang.(*typeDictionary).resolveTypedefs": true,
	}
	src := c.MustFn("yang.Source")
	for _, fn := range c.Funcs {
		if !scope[c.FnName(rootFn(fn))] {
			continue
		}
		seen := map[string]int{}
		for _, ci := range c.callsTo(fn, src) {
			arg := ci.Common().Args[0]
			base := fmt.Sprintf("%s: Source(%s)", c.FnName(fn), exprFP(arg, 3))
			seen[base]++
			con := base
			if seen[base] > 1 {
				con = fmt.Sprintf("%s #%d", base, seen[base])
			}
			depth := 0
			switch c.FnName(fn) {
			case "yang.(*typeDictionary).findExternal", "yang.newError":
				depth = 1 // helpers that locate an error at a node handed in by the caller
			}
			if w := c.coarsened(fn, arg, depth); w != "" {
				obs = append(obs, bad(R, con, c.InstrPos(ci), "the error is located at "+w+" instead of the statement at fault: the position printed is that of the module (or an ancestor), not of the type/uses/range statement"))
			} else {
				obs = append(obs, ok(R, con, c.InstrPos(ci), "the node is the statement being processed (receiver, parameter, loop element or field of it), not widened"))
			}
		}
	}
	// (2) build: errors raised while a substatement is handled cite the substatement; absence errors cite the statement.
	if build := c.buildFn(); build != nil {
		obs = append(obs, posBuildSites(c, R, build)...)
	} else {
		obs = append(obs, undecided(R, "AST builder error sites", "-", "the function ranging over Statement.statements and calling Location() was not found"))
	}
	return obs
}

// buildFn: the AST builder — the repo function in pkg/yang that ranges over a statement's substatements
// and formats errors with Location().
func (c *Ctx) buildFn() *ssa.Function {
	st := c.Named("yang", "Statement")
	if st == nil {
		return nil
	}
	fSub := FieldVar(st, "statements")
	var best *ssa.Function
	for _, fn := range c.Funcs {
		if fn.Pkg == nil || shortPkg(fn.Pkg.Pkg.Path()) != "yang" || fn.Parent() != nil {
			continue
		}
		nLoc, ranges := 0, false
		eachInstr(fn, func(in ssa.Instruction) {
			if call, isC := in.(*ssa.Call); isC && calleeName(call) == "Location" {
				nLoc++
			}
			if u, isU := in.(*ssa.UnOp); isU {
				if _, f, _ := loadedField(u); f == fSub && fSub != nil {
					ranges = true
				}
			}
		})
		if ranges && nLoc >= 3 && (best == nil || baseName(fn) == "build") {
			best = fn
		}
	}
	return best
}

func posBuildSites(c *Ctx, R string, build *ssa.Function) []Obligation {
	var obs []Obligation
	st := c.MustNamed("yang", "Statement")
	fSub := FieldVar(st, "statements")
	// the statement parameter
	var stmtParam *ssa.Parameter
	for _, p := range build.Params {
		if pt, isP := p.Type().(*types.Pointer); isP && namedOf(pt.Elem()) == st {
			stmtParam = p
			break
		}
	}
	if stmtParam == nil {
		return []Obligation{undecided(R, "AST builder error sites", c.Pos(build.Pos()), "no *Statement parameter")}
	}
	isElem := func(v ssa.Value) bool {
		// derived from an element of stmt.statements, possibly through a map filled with such elements
		return derivesFrom(v, func(x ssa.Value) bool {
			if _, f, _ := loadedField(x); f == fSub {
				return true
			}
			if lk, isL := x.(*ssa.Lookup); isL {
				// map[string]*Statement filled from the loop element
				if mk := rootOf(lk.X); mk != nil {
					found := false
					for _, r := range refsOf(mk) {
						if mu, isMU := r.(*ssa.MapUpdate); isMU && derivesFrom(mu.Value, func(y ssa.Value) bool { _, f2, _ := loadedField(y); return f2 == fSub }) {
							found = true
						}
					}
					return found
				}
			}
			return false
		})
	}
	// blocks where an element of stmt.statements is fetched: the head of the substatement loop's body
	var elemBlocks []*ssa.BasicBlock
	eachInstr(build, func(in ssa.Instruction) {
		if ia, isI := in.(*ssa.IndexAddr); isI {
			if _, f, _ := loadedField(ia.X); f == fSub {
				elemBlocks = append(elemBlocks, ia.Block())
			}
		}
		if nx, isN := in.(*ssa.Next); isN {
			if rg, isR := nx.Iter.(*ssa.Range); isR {
				if _, f, _ := loadedField(rg.X); f == fSub {
					elemBlocks = append(elemBlocks, nx.Block().Succs[0])
				}
			}
		}
	})
	seen := map[string]int{}
	eachInstr(build, func(in ssa.Instruction) {
		call, isC := in.(*ssa.Call)
		if !isC || calleeName(call) != "Location" {
			return
		}
		var recv ssa.Value
		if call.Call.IsInvoke() {
			recv = call.Call.Value
		} else if len(call.Call.Args) > 0 {
			recv = call.Call.Args[0]
		}
		if recv == nil {
			return
		}
		onElem := isElem(recv)
		onStmt := !onElem && derivesFrom(recv, func(x ssa.Value) bool { return x == ssa.Value(stmtParam) })
		// context: is this error about a present substatement or about an absent one?
		ctx := ""
		isFound := func(lk *ssa.Lookup) bool {
			// the presence table: a map keyed by keyword holding bools or the substatements themselves
			mt, isM := lk.X.Type().Underlying().(*types.Map)
			if !isM {
				return false
			}
			if b, isB := mt.Elem().Underlying().(*types.Basic); isB && b.Kind() == types.Bool {
				return true
			}
			if pt, isP := mt.Elem().(*types.Pointer); isP && namedOf(pt.Elem()) == st {
				return true
			}
			if es, isS := mt.Elem().Underlying().(*types.Struct); isS && es.NumFields() == 0 {
				return true // a set
			}
			return false
		}
		for _, g := range guardsAt(in.Block()) {
			if ctx != "" {
				break // innermost presence test decides
			}
			if lk, presentOnTrue, isP := presenceOf(g.Cond); isP && isFound(lk) {
				if presentOnTrue == g.Branch {
					ctx = "present"
				} else {
					ctx = "absent"
				}
			}
		}
		inLoop := false
		for _, eb := range elemBlocks {
			if eb.Dominates(in.Block()) { // the body block dominates only code of one iteration
				inLoop = true
			}
		}
		want, what := "", ""
		switch {
		case inLoop:
			want, what = "substatement", "error raised while a substatement is handled cites that substatement"
		case ctx == "present":
			want, what = "substatement", "error about a present substatement that this flavour of the statement does not allow cites that substatement"
		case ctx == "absent":
			want, what = "statement", "error about a missing substatement cites the statement that lacks it"
		default:
			return // errors about the statement itself (unknown keyword etc.): either is the statement
		}
		base := fmt.Sprintf("%s: %s", c.FnName(build), what)
		seen[base]++
		con := base
		if seen[base] > 1 {
			con = fmt.Sprintf("%s #%d", base, seen[base])
		}
		switch {
		case want == "substatement" && onElem, want == "statement" && onStmt:
			obs = append(obs, ok(R, con, c.InstrPos(in), "Location() is taken from the "+want))
		case want == "substatement" && onStmt:
			obs = append(obs, bad(R, con, c.InstrPos(in), "the error is about a substatement that is present, but the position printed is the enclosing statement's: the unknown substatement itself is not named"))
		case want == "statement" && onElem:
			obs = append(obs, bad(R, con, c.InstrPos(in), "the error is about a missing substatement, but the position printed is that of some other substatement, not of the statement that lacks it"))
		default:
			obs = append(obs, undecided(R, con, c.InstrPos(in), "the receiver of Location() is neither the statement nor one of its substatements"))
		}
	})
	return obs
}

func refsOf(v ssa.Value) []ssa.Instruction {
	if r := v.Referrers(); r != nil {
		return *r
	}
	return nil
}

// ---------------------------------------------------------------- TREE.ATTACHED

func ruleTreeAttached(c *Ctx) []Obligation {
	const R = "TREE.ATTACHED"
	m := c.entryModel()
	links := c.entryLinks()
	var obs []Obligation
	for _, fn := range c.Funcs {
		if fn.Pkg == nil || shortPkg(fn.Pkg.Pkg.Path()) != "yang" {
			continue
		}
		seen := map[string]int{}
		eachInstr(fn, func(in ssa.Instruction) {
			al, isA := in.(*ssa.Alloc)
			if !isA || !al.Heap {
				return
			}
			pt, isP := al.Type().(*types.Pointer)
			if !isP || namedOf(pt.Elem()) != m.entry {
				return
			}
			// Parent set at construction?
			var parent ssa.Value
			for _, r := range refsOf(al) {
				fa, isF := r.(*ssa.FieldAddr)
				if !isF {
					continue
				}
				if _, f, _ := fieldOf(fa); f != m.fParent {
					continue
				}
				for _, rr := range refsOf(fa) {
					if st, isS := rr.(*ssa.Store); isS && st.Addr == ssa.Value(fa) && !isNilConst(st.Val) {
						parent = st.Val
					}
				}
			}
			if parent == nil {
				return
			}
			base := fmt.Sprintf("%s: entry created with Parent = %s", c.FnName(fn), shortPath(AccessPath(parent)))
			seen[base]++
			con := base
			if seen[base] > 1 {
				con = fmt.Sprintf("%s #%d", base, seen[base])
			}
			// linked in this function?
			for _, l := range links {
				if l.fn != fn {
					continue
				}
				if derivesFrom(l.val, func(x ssa.Value) bool { return x == ssa.Value(al) }) {
					obs = append(obs, ok(R, con, c.InstrPos(in), "linked by the "+l.kind+" store in the same function"))
					return
				}
			}
			// returned fresh (constructor): every return operand that carries it is the allocation itself
			retDirect := false
			for _, b := range fn.Blocks {
				if r, isR := b.Instrs[len(b.Instrs)-1].(*ssa.Return); isR {
					for _, res := range r.Results {
						if res == ssa.Value(al) {
							retDirect = true
						}
					}
				}
			}
			if retDirect && fn.Name() != "Find" {
				obs = append(obs, ok(R, con, c.InstrPos(in), "returned fresh to the caller, which links it (TREE.PARENT judges that link)"))
				return
			}
			// stored through a pointer the caller hands in (`func (e *Entry) part(slot **Entry, …) { *slot = &Entry{Parent:
			// e, …} }`): linked if every caller hands in the address of a link field
			viaSlot := false
			for _, r := range refsOf(al) {
				st, isS := r.(*ssa.Store)
				if !isS || st.Val != ssa.Value(al) {
					continue
				}
				p, isP := st.Addr.(*ssa.Parameter)
				if !isP {
					continue
				}
				idx := paramIndex(fn, p)
				node := c.Graph().Nodes[fn]
				if idx < 0 || node == nil || len(node.In) == 0 {
					continue
				}
				all := true
				for _, e := range node.In {
					if e.Caller.Func.Synthetic != "" {
						continue // a wrapper nobody calls
					}
					if e.Site == nil || e.Site.Common().StaticCallee() != fn || idx >= len(e.Site.Common().Args) {
						if os.Getenv("VERIF_DEBUG_SLOT") != "" {
							fmt.Fprintf(os.Stderr, "DEBUG slot: edge from %s not static\n", e.Caller.Func)
						}
						all = false
						break
					}
					if os.Getenv("VERIF_DEBUG_SLOT") != "" {
						fmt.Fprintf(os.Stderr, "DEBUG slot: arg %T %s\n", e.Site.Common().Args[idx], e.Site.Common().Args[idx])
					}
					fa, isFA := e.Site.Common().Args[idx].(*ssa.FieldAddr)
					if !isFA {
						all = false
						break
					}
					owner, f, _ := fieldOf(fa)
					if f == nil || owner == nil || !ptrTo(f.Type(), m.entry) {
						all = false
						break
					}
				}
				if all {
					viaSlot = true
				}
			}
			if viaSlot {
				obs = append(obs, ok(R, con, c.InstrPos(in), "stored through a pointer parameter, and every caller hands in the address of an entry-valued link field"))
				return
			}
			// stored through a local pointer that holds the address of one link field or another
			// (`slot := &e.RPC.Input; if out { slot = &e.RPC.Output }; *slot = &Entry{Parent: e, …}`)
			for _, r := range refsOf(al) {
				st, isS := r.(*ssa.Store)
				if !isS || st.Val != ssa.Value(al) {
					continue
				}
				if _, isPhi := st.Addr.(*ssa.Phi); !isPhi {
					continue
				}
				fas := phiFieldAddrs(st.Addr)
				all := len(fas) > 0
				for _, fa := range fas {
					owner, f, _ := fieldOf(fa)
					if f == nil || owner == nil || !ptrTo(f.Type(), m.entry) {
						all = false
					}
				}
				if all {
					obs = append(obs, ok(R, con, c.InstrPos(in), "stored through a local pointer that holds the address of an entry-valued link field on every path"))
					return
				}
			}
			obs = append(obs, bad(R, con, c.InstrPos(in), "the new entry names a parent but is never stored into that parent's Dir/RPC: it is detached — what is merged into it (augments) is lost and no absolute path finds it again"))
		})
	}
	return obs
}

// ---------------------------------------------------------------- TREE.VISITALL

func ruleTreeVisitAll(c *Ctx) []Obligation {
	const R = "TREE.VISITALL"
	m := c.entryModel()
	var obs []Obligation
	for _, w := range c.entryWalkers() {
		fn := w.fn
		// loops ranging over <x>.Dir in which a self-call occurs
		type loopInfo struct {
			header *ssa.BasicBlock
			body   *ssa.BasicBlock
			calls  map[*ssa.BasicBlock]bool
		}
		var loops []*loopInfo
		for _, b := range fn.Blocks {
			if !isLoopHeader(b) {
				continue
			}
			ifi, isIf := b.Instrs[len(b.Instrs)-1].(*ssa.If)
			if !isIf {
				continue
			}
			overDir := false
			for _, in := range b.Instrs {
				if nx, isN := in.(*ssa.Next); isN {
					if rg, isR := nx.Iter.(*ssa.Range); isR {
						if _, f, _ := loadedField(rg.X); f == m.fDir {
							overDir = true
						}
					}
				}
			}
			if !overDir {
				continue
			}
			loops = append(loops, &loopInfo{header: b, body: ifi.Block().Succs[0], calls: map[*ssa.BasicBlock]bool{}})
		}
		for _, ci := range c.callsTo(fn, fn) {
			for _, lp := range loops {
				cb := ci.Block()
				if cb != lp.header && lp.header.Dominates(cb) && blockReaches(cb, lp.header, nil) && blockReaches(lp.body, cb, map[*ssa.BasicBlock]bool{lp.header: true}) {
					lp.calls[cb] = true
				}
			}
		}
		n := 0
		for _, lp := range loops {
			if len(lp.calls) == 0 {
				continue
			}
			n++
			con := fmt.Sprintf("%s: the loop over Dir recurses into every child", c.FnName(fn))
			if n > 1 {
				con = fmt.Sprintf("%s #%d", con, n)
			}
			pos := c.InstrPos(lp.header.Instrs[0])
			if lp.calls[lp.body] {
				obs = append(obs, ok(R, con, pos, "the recursive call is in the loop body's entry block"))
				continue
			}
			if blockReaches(lp.body, lp.header, lp.calls) {
				// a bypass exists; tolerate bypasses that are nil checks of the child or error returns
				if why := bypassIsBenign(lp.body, lp.header, lp.calls); why != "" {
					obs = append(obs, ok(R, con, pos, why))
				} else {
					obs = append(obs, bad(R, con, pos, "a path through the loop body returns to the loop head without the recursive call (a continue or a conditional around the call): the children on that path, and everything below them, are never visited"))
				}
			} else {
				obs = append(obs, ok(R, con, pos, "every path from the loop body back to the loop head passes through the recursive call"))
			}
		}
	}
	return obs
}

// bypassIsBenign: every branch that lets control skip the recursive call tests the child for nil.
func bypassIsBenign(body, header *ssa.BasicBlock, calls map[*ssa.BasicBlock]bool) string {
	// collect If blocks in the loop body from which one successor reaches header avoiding calls and the
	// other does not: those are the deciding branches.
	seen := map[*ssa.BasicBlock]bool{}
	var work []*ssa.BasicBlock
	work = append(work, body)
	allNil := true
	n := 0
	for len(work) > 0 {
		b := work[len(work)-1]
		work = work[:len(work)-1]
		if seen[b] || b == header || calls[b] {
			continue
		}
		seen[b] = true
		if ifi, isIf := b.Instrs[len(b.Instrs)-1].(*ssa.If); isIf {
			r0 := b.Succs[0] == header || blockReaches(b.Succs[0], header, calls) && !calls[b.Succs[0]]
			r1 := b.Succs[1] == header || blockReaches(b.Succs[1], header, calls) && !calls[b.Succs[1]]
			c0 := calls[b.Succs[0]] || reachesAny(b.Succs[0], calls, header)
			c1 := calls[b.Succs[1]] || reachesAny(b.Succs[1], calls, header)
			if (r0 && c1 && !r1) || (r1 && c0 && !r0) || (r0 && r1 && (c0 != c1)) {
				n++
				if _, _, isNil := nilTest(ifi.Cond); !isNil {
					allNil = false
				}
			}
		}
		work = append(work, b.Succs...)
	}
	if n > 0 && allNil {
		return "the only way round the recursive call is a nil test of the child"
	}
	return ""
}

func reachesAny(from *ssa.BasicBlock, targets map[*ssa.BasicBlock]bool, stop *ssa.BasicBlock) bool {
	seen := map[*ssa.BasicBlock]bool{}
	var walk func(b *ssa.BasicBlock) bool
	walk = func(b *ssa.BasicBlock) bool {
		if targets[b] {
			return true
		}
		if seen[b] || b == stop {
			return false
		}
		seen[b] = true
		for _, s := range b.Succs {
			if walk(s) {
				return true
			}
		}
		return false
	}
	return walk(from)
}

// ---------------------------------------------------------------- STATE.RELINK

func ruleStateRelink(c *Ctx) []Obligation {
	const R = "STATE.RELINK"
	var obs []Obligation
	fm := c.MustFn("yang.(*Modules).FindModule")
	for _, tn := range []string{"Include", "Import"} {
		t := c.MustNamed("yang", tn)
		f := FieldVar(t, "Module")
		if f == nil {
			obs = append(obs, undecided(R, tn+".Module link", "-", "field not found"))
			continue
		}
		n := 0
		for _, fn := range c.Funcs {
			if fn.Pkg == nil || shortPkg(fn.Pkg.Pkg.Path()) != "yang" {
				continue
			}
			for _, st := range storesToField(fn, f) {
				if isNilConst(st.Val) {
					continue
				}
				n++
				con := fmt.Sprintf("%s: %s.Module is set from a fresh lookup", c.FnName(fn), tn)
				if n > 1 {
					con = fmt.Sprintf("%s #%d", con, n)
				}
				stale := derivesFrom(st.Val, func(x ssa.Value) bool {
					_, lf, _ := loadedField(x)
					return lf == f
				})
				fresh := derivesFrom(st.Val, func(x ssa.Value) bool {
					call, isC := x.(*ssa.Call)
					return isC && call.Call.StaticCallee() == fm
				})
				switch {
				case stale && c.linksResetPerPass(fn, f):
					// the other way of saying the same: whoever runs the linker clears every link before each pass
					// (and starts the pass with an empty memo of modules visited), so a link that is found set was
					// set by this pass
					obs = append(obs, ok(R, con, c.InstrPos(st), "the link may be kept when it is set, and every caller of the linker clears all links (of the modules and of the submodules) at the start of each pass, inside the repetition: a link that is set was set by this pass"))
				case stale:
					obs = append(obs, bad(R, con, c.InstrPos(st), "the link can keep the module it pointed to before: after a newer revision is loaded and Process runs again the statement still points at the old module, unlike a batch load"))
				case fresh:
					obs = append(obs, ok(R, con, c.InstrPos(st), "the stored module is the result of FindModule on this run"))
				default:
					obs = append(obs, undecided(R, con, c.InstrPos(st), "the stored module does not come from FindModule"))
				}
			}
		}
		if n == 0 {
			obs = append(obs, undecided(R, tn+".Module link", "-", "no store to the link field found"))
		}
	}
	return obs
}

// ---------------------------------------------------------------- GLOBAL.ESCAPE

func refKind(t types.Type) bool {
	switch t.Underlying().(type) {
	case *types.Pointer, *types.Map, *types.Slice:
		return true
	}
	return false
}

func ruleGlobalEscape(c *Ctx) []Obligation {
	const R = "GLOBAL.ESCAPE"
	var obs []Obligation
	// fields through which some function writes: x.F.<…> = v, x.F[k] = v, *x.F = v
	writtenThrough := map[*types.Var]ssa.Instruction{}
	for _, fn := range c.Funcs {
		eachInstr(fn, func(in ssa.Instruction) {
			var addr ssa.Value
			switch x := in.(type) {
			case *ssa.Store:
				addr = x.Addr
			case *ssa.MapUpdate:
				addr = x.Map
			default:
				return
			}
			first := true
			backSlice(addr, func(y ssa.Value) bool {
				if _, isAl := y.(*ssa.Alloc); isAl {
					return false
				}
				if u, isU := y.(*ssa.UnOp); isU && u.Op == token.MUL {
					if _, f, _ := loadedField(u); f != nil {
						if _, has := writtenThrough[f]; !has {
							writtenThrough[f] = in
						}
					}
				}
				_ = first
				first = false
				return true
			})
		})
	}
	type esc struct {
		fn  *ssa.Function
		at  ssa.Instruction
		g   string
		f   *types.Var
		own *types.Named
	}
	var escs []esc
	for _, fn := range c.Funcs {
		root := rootFn(fn)
		if root.Pkg == nil || shortPkg(root.Pkg.Pkg.Path()) == "main" {
			continue
		}
		if root.Name() == "init" || strings.HasPrefix(root.Name(), "init#") {
			continue
		}
		eachInstr(fn, func(in ssa.Instruction) {
			st, isS := in.(*ssa.Store)
			if !isS || !refKind(st.Val.Type()) {
				return
			}
			own, f, _ := fieldOf(st.Addr)
			if f == nil {
				return
			}
			// the stored value is (loaded from) a package-level variable, directly
			g := ""
			switch v := st.Val.(type) {
			case *ssa.Global:
				g = v.Name()
			case *ssa.UnOp:
				if gl, isG := v.X.(*ssa.Global); isG && v.Op == token.MUL {
					g = gl.Name()
				}
			}
			if g == "" {
				return
			}
			escs = append(escs, esc{fn, in, g, f, own})
		})
	}
	sort.Slice(escs, func(i, j int) bool { return escs[i].at.Pos() < escs[j].at.Pos() })
	for _, e := range escs {
		con := fmt.Sprintf("%s: package-level %s stored into %s", c.FnName(e.fn), e.g, fieldKey(e.own, e.f))
		if w, has := writtenThrough[e.f]; has {
			obs = append(obs, bad(R, con, c.InstrPos(e.at), fmt.Sprintf("the object is shared by every instance and is written through this field at %s: independent module sets in parallel goroutines race on it and see each other's data", c.InstrPos(w))))
		} else {
			obs = append(obs, ok(R, con, c.InstrPos(e.at), "no function writes through this field: the shared object is only read"))
		}
	}
	o := ok(R, "escapes of package-level references into instance state enumerated", "-", fmt.Sprintf("%d escape(s), %d field(s) written through", len(escs), len(writtenThrough)))
	obs = append(obs, o)
	return obs
}

// ---------------------------------------------------------------- REV.BAREKEY

func init() {
	register(&Rule{Name: "REV.BAREKEY", Props: []string{"C13", "C05", "C04", "C07", "C09"}, Floor: 4,
		Doc: "every string-keyed table whose keys are built from bare module names (which several loaded revisions share) is either keyed with the revision as well or has a recorded reason why name granularity is right",
		Run: ruleRevBareKey})
}

// bareKeyJustified: table → why a key without the revision is right there.
var bareKeyJustified = map[string]string{
	"yang.(*Modules).add: m":  "the module table itself (ms.Modules or ms.SubModules): every module is filed under name@revision and the bare name is an alias for the newest revision (REV.ORDER decides the re-pointing)",
	"yang.FindGrouping: seen": "visited set of a search over the include graph: a second visit of a same-named submodule would search the same groupings again; skipping it loses nothing",
}

func ruleRevBareKey(c *Ctx) []Obligation {
	const R = "REV.BAREKEY"
	mod := c.MustNamed("yang", "Module")
	isBare := func(x ssa.Value) bool {
		switch y := x.(type) {
		case *ssa.Call:
			n := calleeName(y)
			if n == "NName" {
				return true
			}
		case *ssa.FieldAddr, *ssa.Field:
			owner, f, _ := fieldOf(y)
			if f != nil && f.Name() == "Name" && owner != nil {
				switch objName(owner.Obj()) {
				case "Module", "BelongsTo", "Include", "Import":
					return true
				}
			}
		}
		return false
	}
	isModEntryName := func(x ssa.Value) bool {
		// ToEntry(<module>).Name
		owner, f, base := fieldOf(x)
		if f == nil || owner == nil || objName(owner.Obj()) != "Entry" || f.Name() != "Name" {
			return false
		}
		return derivesFrom(base, func(y ssa.Value) bool {
			call, isC := y.(*ssa.Call)
			if !isC || calleeName(call) != "ToEntry" || len(call.Call.Args) == 0 {
				return false
			}
			a := call.Call.Args[0]
			if mi, isMI := a.(*ssa.MakeInterface); isMI {
				a = mi.X
			}
			pt, isP := a.Type().(*types.Pointer)
			return isP && namedOf(pt.Elem()) == mod
		})
	}
	hasRev := func(x ssa.Value) bool {
		switch y := x.(type) {
		case *ssa.Call:
			switch calleeName(y) {
			case "FullName", "Current":
				return true
			}
		case *ssa.FieldAddr, *ssa.Field:
			_, f, _ := fieldOf(y)
			if f != nil && (f.Name() == "RevisionDate" || f.Name() == "Revision") {
				return true
			}
		}
		return false
	}
	type tab struct {
		name         string
		pos          string
		bare, rev    bool
		bareAt       string
		onlyBareKeys bool
	}
	tabs := map[string]*tab{}
	var order []string
	for _, fn := range c.Funcs {
		if fn.Pkg == nil || shortPkg(fn.Pkg.Pkg.Path()) != "yang" {
			continue
		}
		eachInstr(fn, func(in ssa.Instruction) {
			var m, key ssa.Value
			switch x := in.(type) {
			case *ssa.MapUpdate:
				m, key = x.Map, x.Key
			default:
				return
			}
			mt, isM := m.Type().Underlying().(*types.Map)
			if !isM {
				return
			}
			if b, isB := mt.Key().Underlying().(*types.Basic); !isB || b.Kind() != types.String {
				return
			}
			bare := derivesThroughCalls(key, func(y ssa.Value) bool { return isBare(y) || isModEntryName(y) }) ||
				c.keyMadeFrom(key, func(y ssa.Value) bool { return isBare(y) || isModEntryName(y) }, 0, map[ssa.Value]bool{})
			if !bare {
				return
			}
			rev := derivesThroughCalls(key, hasRev) || c.keyMadeFrom(key, hasRev, 0, map[ssa.Value]bool{})
			// name the table: a struct field, or a local of the function
			name := ""
			if owner, f, _ := loadedField(m); f != nil {
				name = fieldKey(owner, f)
			} else {
				ln := localName(m)
				if mk, isMk := m.(*ssa.MakeMap); isMk {
					ln = c.varNameAt(fn, mk.Pos())
				}
				// named after the function it lives in; if that is a private helper, after the first function up the
				// inline chain for which a reason is recorded (the reason was written for the un-extracted code)
				name = c.FnName(rootFn(fn)) + ": " + ln
				// the visited set of the deviation pass is recognised by what it does, not by its name: a set
				// whose absent-test guards the call that applies a module's deviations
				if mk, isMk := m.(*ssa.MakeMap); isMk && isSetInsert(in.(*ssa.MapUpdate)) {
					if apply := c.Fn("yang.(*Entry).ApplyDeviate"); apply != nil {
						for _, ci := range c.callsTo(fn, apply) {
							site := ci.(ssa.Instruction)
							eachInstr(fn, func(in2 ssa.Instruction) {
								if l, okl := in2.(*ssa.Lookup); okl && l.X == ssa.Value(mk) && l.Block().Dominates(site.Block()) && lookupAbsentGuards(l, site) {
									name = "visited set of the deviation pass"
								}
							})
						}
					}
				}
				if _, has := bareKeyJustified[name]; !has {
					for f2, d := rootFn(fn), 0; d < 5; d++ {
						h := c.helpers[f2]
						if h == nil {
							break
						}
						f2 = rootFn(h.caller)
						if _, has2 := bareKeyJustified[c.FnName(f2)+": "+ln]; has2 {
							name = c.FnName(f2) + ": " + ln
							break
						}
					}
				}
			}
			t := tabs[name]
			if t == nil {
				t = &tab{name: name, pos: c.InstrPos(in)}
				tabs[name] = t
				order = append(order, name)
			}
			if rev {
				t.rev = true
			} else {
				t.bare = true
				if t.bareAt == "" {
					t.bareAt = c.InstrPos(in)
				}
			}
		})
	}
	sort.Strings(order)
	var obs []Obligation
	for _, n := range order {
		t := tabs[n]
		con := fmt.Sprintf("table %s keyed by module name distinguishes what it must", n)
		switch {
		case !t.bare:
			obs = append(obs, ok(R, con, t.pos, "every key written carries the revision (FullName / revision date)"))
		case jstr("bareKeyJustified", bareKeyJustified, n) != "":
			obs = append(obs, just(R, con, t.bareAt, jstr("bareKeyJustified", bareKeyJustified, n)))
		default:
			obs = append(obs, bad(R, con, t.bareAt, "the key is built from a bare module name, which every loaded revision of the module shares: entries for different revisions overwrite or shadow each other (whichever is visited first wins), so the outcome differs from the one a single loaded revision gives"))
		}
	}
	return obs
}

// keyMadeFrom: the string v is assembled from a value satisfying pred — followed through the results of the repo's own
// functions (a key handed back by a constructor), formatted printing (the variadic operands), concatenation and phis.
func (c *Ctx) keyMadeFrom(v ssa.Value, pred func(ssa.Value) bool, depth int, seen map[ssa.Value]bool) bool {
	if v == nil || seen[v] || depth > 6 {
		return false
	}
	seen[v] = true
	if derivesFrom(v, pred) {
		return true
	}
	rec := func(x ssa.Value) bool { return c.keyMadeFrom(x, pred, depth+1, seen) }
	switch x := v.(type) {
	case *ssa.Extract:
		if call, isC := x.Tuple.(*ssa.Call); isC {
			if f := call.Call.StaticCallee(); f != nil && c.isRepoFn(f) && f.Blocks != nil {
				found := false
				eachInstr(f, func(in ssa.Instruction) {
					if r, isR := in.(*ssa.Return); isR && x.Index < len(r.Results) && rec(r.Results[x.Index]) {
						found = true
					}
				})
				return found
			}
		}
	case *ssa.Call:
		f := x.Call.StaticCallee()
		if f != nil && c.isRepoFn(f) && f.Blocks != nil && f.Signature.Results().Len() == 1 {
			found := false
			eachInstr(f, func(in ssa.Instruction) {
				if r, isR := in.(*ssa.Return); isR && len(r.Results) == 1 && rec(r.Results[0]) {
					found = true
				}
			})
			return found
		}
		for _, a := range x.Call.Args {
			if rec(a) {
				return true
			}
			for _, e := range variadicElems(a) {
				if rec(e) {
					return true
				}
			}
		}
	case *ssa.MakeInterface:
		return rec(x.X)
	case *ssa.ChangeType:
		return rec(x.X)
	case *ssa.Convert:
		return rec(x.X)
	case *ssa.BinOp:
		return rec(x.X) || rec(x.Y)
	case *ssa.UnOp:
		if x.Op == token.MUL {
			// a local: what was stored into it
			if al, isA := x.X.(*ssa.Alloc); isA {
				for _, r := range *al.Referrers() {
					if st, isS := r.(*ssa.Store); isS && st.Addr == ssa.Value(al) && rec(st.Val) {
						return true
					}
				}
			}
		}
	case *ssa.Phi:
		for _, e := range x.Edges {
			if rec(e) {
				return true
			}
		}
	}
	return false
}

func localName(v ssa.Value) string {
	switch x := v.(type) {
	case *ssa.Parameter:
		return x.Name()
	case *ssa.MakeMap:
		return "?"
	case *ssa.UnOp:
		if al, isA := x.X.(*ssa.Alloc); isA && al.Comment != "" {
			return al.Comment
		}
	case *ssa.Phi:
		if x.Comment != "" {
			return x.Comment
		}
	}
	return fmt.Sprintf("%T", v)
}

// varNameAt: the variable a value created at pos is assigned to (x := make(…) / x := T{…}).
func (c *Ctx) varNameAt(fn *ssa.Function, pos token.Pos) string {
	node := c.FuncAST(rootFn(fn))
	name := "?"
	if node == nil {
		return name
	}
	ast.Inspect(node, func(n ast.Node) bool {
		switch x := n.(type) {
		case *ast.AssignStmt:
			for i, r := range x.Rhs {
				if i < len(x.Lhs) && r.Pos() <= pos && pos < r.End() {
					if id, isId := x.Lhs[i].(*ast.Ident); isId {
						name = id.Name
					}
				}
			}
		case *ast.ValueSpec:
			for i, r := range x.Values {
				if i < len(x.Names) && r.Pos() <= pos && pos < r.End() {
					name = x.Names[i].Name
				}
			}
		}
		return true
	})
	return name
}

// linksResetPerPass: every call of the linker fn from outside itself sits in a loop, and in the loop around that one
// (the repetition of passes) there are, in front of it, stores of nil into the link field f reached from a range over
// Modules.Modules and one over Modules.SubModules.
func (c *Ctx) linksResetPerPass(fn *ssa.Function, f *types.Var) bool {
	mods := c.Named("yang", "Modules")
	if mods == nil {
		return false
	}
	fM, fS := FieldVar(mods, "Modules"), FieldVar(mods, "SubModules")
	node := c.Graph().Nodes[fn]
	if node == nil {
		return false
	}
	n := 0
	for _, e := range node.In {
		caller := e.Caller.Func
		if caller == fn || e.Site == nil {
			continue
		}
		n++
		inner := loopHeaderOf(e.Site.Block())
		if inner == nil || inner.Idom() == nil {
			return false
		}
		outer := loopHeaderOf(inner.Idom())
		if outer == nil {
			return false
		}
		cleared := map[*types.Var]bool{}
		for _, st := range storesToField(caller, f) {
			if !isNilConst(st.Val) {
				continue
			}
			// inside the repetition, and before the pass's calls of the linker
			in := false
			for h := loopHeaderOf(st.Block()); h != nil; {
				if h == outer {
					in = true
					break
				}
				if h.Idom() == nil {
					break
				}
				h = loopHeaderOf(h.Idom())
			}
			if !in || !blockReaches(st.Block(), e.Site.Block(), nil) {
				continue
			}
			// every statement is cleared: the store is under no condition but those of the loops it sits in
			conditional := false
			for _, g := range guardsAt(st.Block()) {
				if !isLoopHeader(g.If.Block()) {
					conditional = true
				}
			}
			if conditional {
				continue
			}
			// which table the cleared statement's module comes from
			for _, b := range caller.Blocks {
				for _, in2 := range b.Instrs {
					if r, isR := in2.(*ssa.Range); isR && b.Dominates(st.Block()) {
						operandClosure(r.X, func(x ssa.Value) {
							if _, lf, _ := loadedField(x); lf == fM || lf == fS {
								cleared[lf] = true
							}
						})
						if _, lf, _ := loadedField(r.X); lf == fM || lf == fS {
							cleared[lf] = true
						}
						// the tables may be walked through a list of the two
						if ld, isL := r.X.(*ssa.UnOp); isL {
							if ia, isIA := ld.X.(*ssa.IndexAddr); isIA {
								for _, lit := range variadicElems(sliceOf(ia.X)) {
									if _, lf, _ := loadedField(lit); lf == fM || lf == fS {
										cleared[lf] = true
									}
								}
							}
						}
					}
				}
			}
		}
		if !(cleared[fM] && cleared[fS]) {
			return false
		}
	}
	return n > 0
}

// sliceOf: the slice value behind an element address (x[i] → x).
func sliceOf(v ssa.Value) ssa.Value { return v }

// ptrTo: t is *N.
func ptrTo(t types.Type, n *types.Named) bool {
	pt, isP := t.(*types.Pointer)
	return isP && namedOf(pt.Elem()) == n
}

package main

import (
	"encoding/json"
	"flag"
	"fmt"
	"os"
	"path/filepath"
	"runtime/debug"
	"sort"
	"strconv"
	"strings"
	"time"

	"golang.org/x/tools/go/ssa"
)

var (
	flagProp       = flag.String("prop", "", "property id (C01…); empty with -all runs every rule")
	flagTier       = flag.String("tier", "", "quick|thorough (default: $VERIF_TIER or quick)")
	flagRepo       = flag.String("repo", "/repo", "repository to analyse")
	flagVerif      = flag.String("verif", "/verif", "verification directory (evidence, known findings, out)")
	flagAll        = flag.Bool("all", false, "run all rules, print every non-discharged obligation, write no evidence")
	flagDump       = flag.Bool("dump", false, "print every obligation")
	flagRule       = flag.String("rule", "", "restrict to rules with this prefix (debug)")
	flagNoEv       = flag.Bool("no-evidence", false, "do not write evidence/out files (used for scratch trees)")
	flagCHA        = flag.Bool("cha", false, "use the CHA call graph")
	flagReplay     = flag.String("replay", "", "print a violation record and re-run its rule")
	flagOverlay    = flag.String("overlay", "", "apply this unified diff to the repository in memory before analysing (sensitivity sweep; never writes to disk)")
	flagPropsJSON  = flag.Bool("props-json", false, "print {property: [rules]} from the registry (used by gen_manifest.py)")
	flagGenAnchors = flag.Bool("gen-anchors", false, "write checker/anchors_gen.go (prints of functions and fields) from the analysed tree")
	flagCat        = flag.Bool("catalogue", false, "print the rule catalogue as a markdown table (rule, properties, obligations on the current tree, doc)")
)

func main() {
	flag.Parse()
	debug.SetMaxStack(256 << 20)
	start := time.Now()
	tier := *flagTier
	if tier == "" {
		tier = os.Getenv("VERIF_TIER")
	}
	if tier != "thorough" {
		tier = "quick"
	}
	seed := 0
	if s := os.Getenv("VERIF_SEED"); s != "" {
		if n, err := strconv.Atoi(s); err == nil {
			seed = n
		}
	}
	if *flagReplay != "" {
		b, err := os.ReadFile(*flagReplay)
		if err != nil {
			brokenf("replay: %v", err)
		}
		os.Stdout.Write(b)
		return
	}

	defer func() {
		if r := recover(); r != nil {
			fmt.Fprintf(os.Stderr, "BROKEN: panic in checker: %v\n%s\n", r, debug.Stack())
			os.Exit(2)
		}
	}()

	if *flagPropsJSON {
		out := map[string][]string{}
		for _, r := range registry {
			for _, p := range r.Props {
				out[p] = append(out[p], r.Name)
			}
		}
		for _, v := range out {
			sort.Strings(v)
		}
		b, _ := json.Marshal(out)
		fmt.Println(string(b))
		return
	}
	if *flagGenAnchors {
		c := Load(*flagRepo, Config{Name: "default"}, nil)
		c.genAnchors(filepath.Join(*flagVerif, "checker", "anchors_gen.go"))
		return
	}
	if *flagCat {
		c := Load(*flagRepo, Config{Name: "default"}, nil)
		known := loadKnown(filepath.Join(*flagVerif, "known_findings.json"))
		rs := append([]*Rule{}, registry...)
		sort.Slice(rs, func(i, j int) bool { return rs[i].Name < rs[j].Name })
		fmt.Println("| rule | properties | obligations (discharged / justified / known finding) | what it decides |")
		fmt.Println("|---|---|---|---|")
		for _, r := range rs {
			o := applyKnown(r.Run(c), known)
			d, j, f := 0, 0, 0
			for _, x := range o {
				switch x.State {
				case Discharged:
					d++
				case Justified:
					j++
				case Finding:
					f++
				}
			}
			fmt.Printf("| %s | %s | %d (%d / %d / %d) | %s |\n", r.Name, strings.Join(r.Props, " "), len(o), d, j, f, r.Doc)
		}
		return
	}

	if *flagAll {
		c := Load(*flagRepo, Config{Name: "default"}, nil)
		c.UseCHA = *flagCHA
		var obs []Obligation
		for _, r := range registry {
			if *flagRule != "" && !strings.HasPrefix(r.Name, *flagRule) {
				continue
			}
			o := r.Run(c)
			fmt.Printf("# %-18s obligations=%d\n", r.Name, len(o))
			if len(o) < r.Floor {
				fmt.Printf("VACUOUS %s: %d < floor %d\n", r.Name, len(o), r.Floor)
			}
			obs = append(obs, o...)
		}
		obs = applyKnown(obs, loadKnown(filepath.Join(*flagVerif, "known_findings.json")))
		sortObs(obs)
		n := 0
		for _, o := range obs {
			if *flagDump || (o.State != Discharged && o.State != Justified) {
				fmt.Println(fmtOb(o))
			}
			if o.State == Violation || o.State == Undecided {
				n++
			}
		}
		if *flagRule == "" {
			for _, st := range staleJustifications() {
				fmt.Printf("STALE-JUSTIFICATION %s\n", st)
			}
		}
		fmt.Printf("# total=%d bad=%d wall=%.1fs\n", len(obs), n, time.Since(start).Seconds())
		if n > 0 {
			os.Exit(1)
		}
		return
	}

	if *flagProp == "" {
		fmt.Fprintln(os.Stderr, "usage: goyang-verif -prop Cxx [-tier quick|thorough]")
		os.Exit(2)
	}
	os.Exit(runProperty(*flagProp, tier, seed, start))
}

func runProperty(prop, tier string, seed int, start time.Time) int {
	rules := rulesFor(prop)
	if len(rules) == 0 {
		brokenf("no rules registered for %s", prop)
	}
	info, okp := propInfo[prop]
	if !okp {
		brokenf("no property text for %s", prop)
	}
	configs := []Config{{Name: "linux/amd64"}}
	if tier == "thorough" {
		configs = append(configs,
			Config{Name: "linux/386", GOOS: "linux", GOARCH: "386"},
			Config{Name: "windows/amd64", GOOS: "windows", GOARCH: "amd64"},
			Config{Name: "linux/amd64+verif", Tags: "verif"},
		)
	}
	known := loadKnown(filepath.Join(*flagVerif, "known_findings.json"))
	var all []Obligation
	nfuncs, nedges := 0, 0
	chaOnly := []string{}
	var overlay map[string][]byte
	if *flagOverlay != "" {
		ov, err := overlayFromDiff(*flagRepo, *flagOverlay)
		if err != nil {
			fmt.Fprintf(os.Stderr, "overlay does not apply: %v\n", err)
			return 3
		}
		overlay = ov
	}
	for ci, cfg := range configs {
		c := Load(*flagRepo, cfg, overlay)
		if ci == 0 {
			nfuncs = len(c.Funcs)
			for _, f := range c.Funcs {
				if n := c.CG.Nodes[f]; n != nil {
					nedges += len(n.Out)
				}
			}
		}
		var obs []Obligation
		for _, r := range rules {
			o := r.Run(c)
			if len(o) < r.Floor {
				obs = append(obs, undecided(r.Name, "vacuity floor", "-", fmt.Sprintf("rule produced %d obligations, fewer than its floor %d: an anchor it depends on has disappeared", len(o), r.Floor)))
			}
			obs = append(obs, o...)
		}
		for i := range obs {
			obs[i].Config = cfg.Name
		}
		all = append(all, obs...)
		if tier == "thorough" && ci == 0 {
			// recompute on the coarser CHA graph: obligations that exist only there are informational
			c.UseCHA = true
			c.reachCache = map[string]map[*ssa.Function]bool{}
			c.effects = nil
			have := map[string]bool{}
			for _, o := range obs {
				have[o.Key()] = true
			}
			for _, r := range rules {
				for _, o := range r.Run(c) {
					if !have[o.Key()] {
						chaOnly = append(chaOnly, fmtOb(o))
					}
				}
			}
			c.UseCHA = false
		}
	}
	all = applyKnown(all, known)
	sortObs(all)

	// de-duplicate across configurations for counting distinct keys
	distinct := map[string]bool{}
	nontrivial := map[string]bool{}
	var bads []Obligation
	badSeen := map[string]bool{}
	findSeen := map[string]bool{}
	var finds []Obligation
	ndis := 0
	for _, o := range all {
		distinct[o.Key()] = true
		if !o.Trivial {
			nontrivial[o.Key()] = true
		}
		switch o.State {
		case Discharged, Justified:
			ndis++
		case Finding:
			ndis++ // accounted for: listed in known_findings.json
			if !findSeen[o.Key()] {
				findSeen[o.Key()] = true
				finds = append(finds, o)
			}
		case Violation, Undecided:
			if !badSeen[o.Key()] {
				badSeen[o.Key()] = true
				bads = append(bads, o)
			}
		}
	}

	for _, o := range finds {
		fmt.Printf("KNOWN-FINDING: property=%s %s\n", prop, fmtOb(o))
	}
	outDir := filepath.Join(*flagVerif, "out", prop)
	if !*flagNoEv {
		os.RemoveAll(outDir)
	}
	for i, o := range bads {
		path := filepath.Join(outDir, fmt.Sprintf("%d.json", i+1))
		if !*flagNoEv {
			writeJSON(path, map[string]interface{}{
				"property": prop, "rule": o.Rule, "construct": o.Construct, "pos": o.Pos, "state": o.State,
				"why": o.Witness, "config": o.Config,
				"replay": fmt.Sprintf("/verif/bin/goyang-verif -all -rule %s -dump", o.Rule),
			})
		}
		fmt.Printf("%s\n", fmtOb(o))
		fmt.Printf("VIOLATION property=%s replay=%s\n", prop, path)
	}

	// samples: a few obligations per rule, written out
	perRule := summarise(all)
	var samples []interface{}
	cnt := map[string]int{}
	for _, o := range all {
		if o.Config != configs[0].Name {
			continue
		}
		lim := 3
		if o.State != Discharged {
			lim = 8
		}
		k := o.Rule + string(o.State)
		if cnt[k] >= lim {
			continue
		}
		cnt[k]++
		samples = append(samples, map[string]string{"rule": o.Rule, "construct": o.Construct, "pos": o.Pos, "state": string(o.State), "witness": short(o.Witness, 300)})
	}
	var ruleNames []string
	for _, r := range rules {
		ruleNames = append(ruleNames, r.Name)
	}
	sort.Strings(ruleNames)
	var cfgNames []string
	for _, c := range configs {
		cfgNames = append(cfgNames, c.Name)
	}
	cov := map[string]interface{}{
		"explanation":         info.Explanation,
		"not_covered":         info.NotCovered,
		"obligations":         len(all),
		"discharged":          ndis,
		"evaluations":         len(all),
		"distinct_nontrivial": len(nontrivial),
		"distinct_keys":       len(distinct),
		"rule":                "obligations are enumerated exhaustively from the type-checked program and its SSA form (one per rule instance: site, path or type-level fact); distinct = distinct rule|construct keys; non-trivial = the obligation needed an accepted idiom, a reasoned exception or a known-finding entry to be closed (not merely an absent construct)",
		"rules":               ruleNames,
		"per_rule":            perRule,
		"samples":             samples,
		"functions_analysed":  nfuncs,
		"call_edges":          nedges,
		"configurations":      cfgNames,
		"known_findings":      len(finds),
		"exhaustive":          true,
		"checker_cmd":         strings.Join(os.Args, " "),
		"trusted_base":        []string{"go/parser + go/types (go1.23.5)", "golang.org/x/tools v0.29.0 go/ssa lowering and VTA call graph", "frozen specification tables in checker/spec.go (RFC 7950)", "reasoned-exception tables in the rules (one named construct + one reason each)", "field classification containment/reference (DESIGN.md §3.1)"},
	}
	if len(renamedAnchors) > 0 {
		cov["renamed_anchors"] = renamedAnchors
	}
	if tier == "thorough" {
		cov["cha_only"] = chaOnly
		if *flagOverlay == "" {
			sw := runSweep(prop, rules)
			cov["sensitivity_sweep"] = sw
			fmt.Printf("sensitivity sweep: %d variants apply to this tree, %d detected, %d missed, %d skipped\n", sw.Applicable, sw.Detected, len(sw.Missed), len(sw.Skipped)+len(sw.Broken))
			for _, m := range sw.Missed {
				fmt.Printf("  warning: variant %s is not reported by the rules of %s on this tree\n", m, prop)
			}
		}
	}
	ev := Evidence{
		PropertyID: prop, Tier: tier, Seed: seed, Level: "other", Coverage: cov,
		Assumptions: info.Assumptions,
		WallS:       time.Since(start).Seconds(), Violations: len(bads),
	}
	if !*flagNoEv {
		writeJSON(filepath.Join(*flagVerif, "evidence", prop+".json"), ev)
	}
	fmt.Printf("%s tier=%s rules=%d obligations=%d discharged=%d known-findings=%d violations=%d wall=%.1fs\n",
		prop, tier, len(rules), len(all), ndis, len(finds), len(bads), time.Since(start).Seconds())
	if len(bads) > 0 {
		return 1
	}
	return 0
}

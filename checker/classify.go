package main

// classify.go: the frozen field classification of DESIGN.md §3.1 and value provenance over it.

import (
	"go/types"
	"strings"

	"golang.org/x/tools/go/ssa"
)

type FieldClass int

const (
	Unclassified FieldClass = iota
	Containment             // owner → part; acyclic by construction
	Inverse                 // part → owner
	Reference               // name-resolved or memoised link; may form cycles in user input
	Scalar                  // not a link to a carrier object
)

// One line of reason per entry (the reading behind it is in DESIGN.md §3.1).
var fieldClassTable = map[string]FieldClass{
	"Statement.statements":      Containment, // parser appends each child once to its one parent
	"Entry.Dir":                 Containment, // child map; TREE.PARENT/FRESH keep it a tree
	"Entry.RPC":                 Containment, // rpc holder owned by its entry
	"RPCEntry.Input":            Containment,
	"RPCEntry.Output":           Containment,
	"Entry.Augments":            Containment, // augment entries owned by the declaring module entry
	"Entry.Deviations":          Containment,
	"Entry.Deviate":             Containment,
	"DeviatedEntry.Entry":       Containment,
	"YangType.Type":             Containment, // union members built fresh per use site
	"iw.w":                      Containment, // a writer wraps an older writer
	"Entry.Parent":              Inverse,
	"Identity.Values":           Reference, // filled by name resolution of `base`; cyclic on cyclic input
	"Import.Module":             Reference,
	"Include.Module":            Reference,
	"Module.Modules":            Reference,
	"Typedef.YangType":          Reference,
	"Type.YangType":             Reference,
	"YangType.Base":             Reference,
	"YangType.Root":             Reference,
	"YangType.IdentityBase":     Reference,
	"Entry.Node":                Reference,
	"Entry.Type":                Reference,
	"UsesStmt.Grouping":         Reference,
	"UsesStmt.Uses":             Reference,
	"Entry.Augmented":           Reference,
	"Entry.Identities":          Reference,
	"Entry.Uses":                Reference,
	"resolvedIdentity.Module":   Reference,
	"resolvedIdentity.Identity": Reference,
	"ErrorNode.Parent":          Inverse,
	"Modules.Modules":           Reference, // name → module map: a lookup
	"Modules.SubModules":        Reference,
	"Modules.byNS":              Reference,
	"Modules.entryCache":        Reference,
	"typeDictionary.dict":       Reference,
	"identityDictionary.dict":   Reference,
	"parser.lex":                Containment,
	"parser.hitBrace":           Containment,
	"Modules.typeDict":          Containment,
	"typeDictionary.identities": Containment,
}

// classOfField classifies a struct field as a link between carrier objects.
func (c *Ctx) classOfField(owner *types.Named, f *types.Var) FieldClass {
	if f == nil {
		return Unclassified
	}
	if owner != nil {
		if cl, ok := fieldClassTable[objName(owner.Obj())+"."+recordedFieldName(f)]; ok {
			return cl
		}
		// AST node structs: every yang-tagged field is containment except the Parent slot
		if st, ok := owner.Underlying().(*types.Struct); ok {
			for i := 0; i < st.NumFields(); i++ {
				if st.Field(i) == f {
					tag := structTag(st, i, "yang")
					if tag != "" {
						kw, _ := yangTag(tag)
						if kw == "Parent" {
							return Inverse
						}
						return Containment
					}
				}
			}
		}
	}
	if !c.isCarrierType(f.Type()) {
		return Scalar
	}
	// a field that did not exist when the table was frozen (not in the recorded prints): treated as a reference,
	// the conservative class — recursion along it must be guarded like recursion along any name-resolved link
	if owner != nil && owner.Obj().Pkg() != nil && len(anchorFieldPrints) > 0 {
		if _, recorded := anchorFieldPrints[shortPkg(owner.Obj().Pkg().Path())+"."+objName(owner.Obj())+"."+recordedFieldName(f)]; !recorded {
			return Reference
		}
	}
	return Unclassified
}

// isCarrierType: pointers to repo structs, the Node interface, and slices/maps/arrays of those.
func (c *Ctx) isCarrierType(t types.Type) bool {
	switch x := t.Underlying().(type) {
	case *types.Slice:
		return c.isCarrierType(x.Elem())
	case *types.Array:
		return c.isCarrierType(x.Elem())
	case *types.Map:
		return c.isCarrierType(x.Elem()) || c.isCarrierType(x.Key())
	case *types.Pointer:
		n := namedOf(x.Elem())
		if n == nil || n.Obj().Pkg() == nil {
			return false
		}
		if !strings.HasPrefix(n.Obj().Pkg().Path(), modPath) {
			return false
		}
		_, isStruct := n.Underlying().(*types.Struct)
		return isStruct
	case *types.Interface:
		n := namedOf(t)
		return n != nil && n.Obj().Pkg() != nil && strings.HasPrefix(n.Obj().Pkg().Path(), modPath)
	}
	return false
}

// Prov summarises how a value was derived from the enclosing function's inputs.
type Prov struct {
	Contain  bool // passed through ≥1 containment link (incl. element of a containment slice/map, reflect field of a node)
	Inverse  bool // passed through ≥1 parent link
	Ref      bool // passed through a reference field or a lookup result
	Fresh    bool // an allocation made in this function (or a constructor result)
	Param    bool // reaches a parameter / free variable
	Global   bool
	Reflect  bool // passed through reflect field iteration
	Unknown  []string
	RefWhy   string
	FreshT   types.Type
	Params   map[*ssa.Parameter]bool
	LookupFn []*ssa.Function
}

// provenance computes the Prov of v inside its function.
func (c *Ctx) provenance(v ssa.Value) *Prov {
	p := &Prov{Params: map[*ssa.Parameter]bool{}}
	backSlice(v, func(x ssa.Value) bool {
		switch y := x.(type) {
		case *ssa.Parameter:
			p.Param = true
			p.Params[y] = true
		case *ssa.FreeVar:
			p.Param = true
		case *ssa.Global:
			p.Global = true
			p.Ref = true
			if p.RefWhy == "" {
				p.RefWhy = "package-level table " + y.Name()
			}
		case *ssa.Alloc:
			if y.Heap || true {
				// a cell: if it has stores we follow them (backSlice does); a composite literal address is fresh
				hasStoreOfCarrier := false
				for _, r := range *y.Referrers() {
					if st, ok := r.(*ssa.Store); ok && st.Addr == y {
						hasStoreOfCarrier = true
					}
				}
				if !hasStoreOfCarrier || isStructPtr(y.Type()) {
					p.Fresh = true
					p.FreshT = y.Type()
					return false
				}
			}
		case *ssa.FieldAddr, *ssa.Field:
			owner, f, _ := fieldOf(x)
			switch c.classOfField(owner, f) {
			case Containment:
				p.Contain = true
			case Inverse:
				p.Inverse = true
			case Reference:
				p.Ref = true
				if p.RefWhy == "" {
					p.RefWhy = "reference field " + fieldKey(owner, f)
				}
			case Unclassified:
				p.Unknown = append(p.Unknown, fieldKey(owner, f))
			}
		case *ssa.Index, *ssa.IndexAddr, *ssa.Lookup, *ssa.Next:
			// element of a collection: a strict step from the collection to its member; whether the
			// collection itself is containment or reference is decided by the field it was loaded from
			p.Contain = true
		case *ssa.Call:
			if y.Call.IsInvoke() {
				if y.Call.Method.Name() == "ParentNode" {
					p.Inverse = true
					return true // backSlice continues into the receiver
				}
				return false
			}
			f := y.Call.StaticCallee()
			if f == nil {
				return false
			}
			if f.Pkg != nil && f.Pkg.Pkg.Path() == "reflect" {
				switch f.Name() {
				case "Field", "FieldByName":
					p.Reflect = true
					p.Contain = true
				}
				return true
			}
			if c.isRepoFn(f) {
				if c.isConstructor(f) {
					p.Fresh = true
					if f.Signature.Results().Len() > 0 {
						p.FreshT = f.Signature.Results().At(0).Type()
					}
				} else if f.Name() == "ParentNode" {
					p.Inverse = true
					return true
				} else {
					p.Ref = true
					p.LookupFn = append(p.LookupFn, f)
					if p.RefWhy == "" {
						p.RefWhy = "result of lookup " + c.FnName(f)
					}
				}
				return false
			}
			return false
		case *ssa.MakeMap, *ssa.MakeSlice, *ssa.MakeChan:
			p.Fresh = true
			return false
		}
		return true
	})
	return p
}

func isStructPtr(t types.Type) bool {
	pt, ok := t.Underlying().(*types.Pointer)
	if !ok {
		return false
	}
	_, ok = pt.Elem().Underlying().(*types.Struct)
	return ok
}

// isConstructor: every value returned (first result) is a fresh allocation or another constructor's result.
func (c *Ctx) isConstructor(fn *ssa.Function) bool {
	return c.isConstructorDepth(fn, 0)
}

func (c *Ctx) isConstructorDepth(fn *ssa.Function, depth int) bool {
	if fn == nil || fn.Blocks == nil || depth > 3 {
		return false
	}
	if fn.Signature.Results().Len() == 0 {
		return false
	}
	any := false
	okAll := true
	eachInstr(fn, func(in ssa.Instruction) {
		r, isr := in.(*ssa.Return)
		if !isr || len(r.Results) == 0 {
			return
		}
		any = true
		if !c.freshValue(r.Results[0], depth) {
			okAll = false
		}
	})
	return any && okAll
}

func (c *Ctx) freshValue(v ssa.Value, depth int) bool {
	return c.freshValueSeen(v, depth, map[ssa.Value]bool{})
}

func (c *Ctx) freshValueSeen(v ssa.Value, depth int, seen map[ssa.Value]bool) bool {
	if seen[v] {
		return true // a loop-carried value is as fresh as what enters the loop and what the body makes
	}
	seen[v] = true
	switch x := v.(type) {
	case *ssa.Alloc:
		return true
	case *ssa.MakeInterface:
		return c.freshValueSeen(x.X, depth, seen)
	case *ssa.MakeMap, *ssa.MakeSlice:
		return true
	case *ssa.Call:
		if f := x.Call.StaticCallee(); f != nil && c.isRepoFn(f) {
			return c.isConstructorDepth(f, depth+1)
		}
		if bi, isB := x.Call.Value.(*ssa.Builtin); isB && bi.Name() == "append" && len(x.Call.Args) > 0 {
			return c.freshValueSeen(x.Call.Args[0], depth, seen)
		}
	case *ssa.Phi:
		for _, e := range x.Edges {
			if !c.freshValueSeen(e, depth, seen) {
				return false
			}
		}
		return len(x.Edges) > 0
	case *ssa.Const:
		return x.Value == nil // returning nil is fine for a constructor
	}
	return false
}

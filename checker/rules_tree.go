package main

// rules_tree.go: TREE.PARENT, TREE.KEY, TREE.FRESH, TREE.WALK, DUP.COMPLETE.

import (
	"fmt"
	"go/types"
	"sort"
	"strings"

	"golang.org/x/tools/go/ssa"
)

func init() {
	register(&Rule{Name: "TREE.PARENT", Props: []string{"C04", "C07", "C12", "C17", "C06"}, Floor: 8,
		Doc: "every link of an entry into Dir / RPC.Input / RPC.Output / Augments is paired with the parent back-pointer store",
		Run: ruleTreeParent})
	register(&Rule{Name: "TREE.KEY", Props: []string{"C04", "C17"}, Floor: 5,
		Doc: "the key of each child-map link is the child's name",
		Run: ruleTreeKey})
	register(&Rule{Name: "TREE.FRESH", Props: []string{"C04", "C06", "C07"}, Floor: 8,
		Doc: "only fresh entries (new, deep-copied, or converted from a containment child) are linked; cached entries of referenced nodes are never linked or returned directly",
		Run: ruleTreeFresh})
	register(&Rule{Name: "TREE.WALK", Props: []string{"C04", "C06", "C08"}, Floor: 4,
		Doc: "the deep copier, the choice fixer and the error collectors descend through every link field",
		Run: ruleTreeWalk})
	register(&Rule{Name: "DUP.COMPLETE", Props: []string{"C04", "C06", "C08", "C07", "C17"}, Floor: 3,
		Doc: "the deep copy re-allocates every reference-kinded entry field that is mutated in place somewhere",
		Run: ruleDupComplete})
}

type entryModel struct {
	entry, rpcEntry                               *types.Named
	fDir, fParent, fName, fRPC, fIn, fOut, fAugs  *types.Var
	fErrors, fDeviate, fDeviations, fNode, fExtra *types.Var
}

func (c *Ctx) entryModel() *entryModel {
	e := c.MustNamed("yang", "Entry")
	r := c.MustNamed("yang", "RPCEntry")
	m := &entryModel{entry: e, rpcEntry: r,
		fDir: FieldVar(e, "Dir"), fParent: FieldVar(e, "Parent"), fName: FieldVar(e, "Name"), fRPC: FieldVar(e, "RPC"),
		fIn: FieldVar(r, "Input"), fOut: FieldVar(r, "Output"), fAugs: FieldVar(e, "Augments"),
		fErrors: FieldVar(e, "Errors"), fDeviate: FieldVar(e, "Deviate"), fDeviations: FieldVar(e, "Deviations"),
		fNode: FieldVar(e, "Node"), fExtra: FieldVar(e, "Extra")}
	for _, f := range []*types.Var{m.fDir, m.fParent, m.fName, m.fRPC, m.fIn, m.fOut, m.fAugs, m.fErrors} {
		if f == nil {
			brokenf("exported Entry/RPCEntry field missing (API changed)")
		}
	}
	return m
}

// A link stores entry `val` into owner object `owner` (both described by value and access path).
type entryLink struct {
	fn       *ssa.Function
	at       ssa.Instruction
	kind     string // "Dir", "RPC.Input", "RPC.Output", "Augments", "Dir-literal"
	owner    ssa.Value
	ownerAP  string
	val      ssa.Value
	key      ssa.Value
	ownerNew *ssa.Alloc // for literals: the entry under construction
}

func isEntryPtr(c *Ctx, t types.Type) bool {
	p, ok := t.(*types.Pointer)
	return ok && namedOf(p.Elem()) == c.Named("yang", "Entry")
}

// entryLinks enumerates every link site in the repo's yang package.
func (c *Ctx) entryLinks() []entryLink {
	m := c.entryModel()
	var out []entryLink
	for _, fn := range c.Funcs {
		if fn.Pkg == nil && fn.Parent() == nil {
			continue
		}
		eachInstr(fn, func(in ssa.Instruction) {
			switch x := in.(type) {
			case *ssa.MapUpdate:
				if !isEntryPtr(c, x.Value.Type()) {
					return
				}
				if _, f, base := loadedField(x.Map); f == m.fDir {
					out = append(out, entryLink{fn: fn, at: in, kind: "Dir", owner: base, ownerAP: AccessPath(base), val: x.Value, key: x.Key})
					return
				}
				if mk, ok := x.Map.(*ssa.MakeMap); ok {
					// map literal later stored into the Dir of a fresh entry
					for _, r := range *mk.Referrers() {
						if st, oks := r.(*ssa.Store); oks && st.Val == ssa.Value(mk) {
							if _, f, base := fieldOf(st.Addr); f == m.fDir {
								a, _ := base.(*ssa.Alloc)
								out = append(out, entryLink{fn: fn, at: in, kind: "Dir-literal", owner: base, ownerAP: AccessPath(base), val: x.Value, key: x.Key, ownerNew: a})
							}
						}
					}
				}
			case *ssa.Store:
				_, f, base := fieldOf(x.Addr)
				switch f {
				case m.fIn, m.fOut:
					if isNilConst(x.Val) {
						return
					}
					// base is the *RPCEntry loaded from owner.RPC
					_, rf, owner := loadedField(base)
					if rf != m.fRPC {
						// RPCEntry under construction: &RPCEntry{Input: …} stored later; treat base as owner
						owner = base
					}
					kind := "RPC.Input"
					if f == m.fOut {
						kind = "RPC.Output"
					}
					out = append(out, entryLink{fn: fn, at: in, kind: kind, owner: owner, ownerAP: AccessPath(owner), val: x.Val})
				case m.fAugs:
					// e.Augments = append(e.Augments, ne)
					call, okc := x.Val.(*ssa.Call)
					if !okc {
						return
					}
					if bi, okb := call.Call.Value.(*ssa.Builtin); !okb || bi.Name() != "append" {
						return
					}
					for _, v := range variadicElems(call.Call.Args[1]) {
						out = append(out, entryLink{fn: fn, at: in, kind: "Augments", owner: base, ownerAP: AccessPath(base), val: v})
					}
				}
			}
		})
	}
	return out
}

// variadicElems returns the values stored into the fresh array behind a variadic slice argument.
func variadicElems(v ssa.Value) []ssa.Value {
	sl, ok := v.(*ssa.Slice)
	if !ok {
		return nil
	}
	a, ok := sl.X.(*ssa.Alloc)
	if !ok {
		return nil
	}
	var out []ssa.Value
	for _, r := range *a.Referrers() {
		if ia, oki := r.(*ssa.IndexAddr); oki {
			for _, rr := range *ia.Referrers() {
				if st, oks := rr.(*ssa.Store); oks && st.Addr == ia {
					out = append(out, st.Val)
				}
			}
		}
	}
	return out
}

// sameObject: a and b denote the same object (same SSA value, same access path, or load of the same cell).
func sameObject(a, b ssa.Value) bool {
	if a == b {
		return true
	}
	return AccessPath(a) == AccessPath(b)
}

func linkDesc(c *Ctx, l entryLink) string {
	return fmt.Sprintf("%s: %s[%s] ← %s", c.FnName(l.fn), l.kind, shortPath(l.ownerAP), shortPath(AccessPath(l.val)))
}

func ruleTreeParent(c *Ctx) []Obligation {
	const R = "TREE.PARENT"
	m := c.entryModel()
	var obs []Obligation
	for _, l := range c.entryLinks() {
		con := fmt.Sprintf("%s: %s link sets the child's Parent", c.FnName(l.fn), l.kind)
		// several links of one kind in one function: disambiguate by ordinal
		pos := c.InstrPos(l.at)
		found := false
		var witness string
		for _, st := range storesToField(l.fn, m.fParent) {
			_, _, childBase := fieldOf(st.Addr)
			viaSlot := false
			if ls, isStore := l.at.(*ssa.Store); isStore && AccessPath(childBase) == AccessPath(ls.Addr) {
				viaSlot = true // owner.RPC.Input = x; owner.RPC.Input.Parent = owner
			}
			if !sameObject(childBase, l.val) && !viaSlot {
				continue
			}
			if !sameObject(st.Val, l.owner) {
				// owner may be an Alloc (entry under construction) and the store value the same alloc
				continue
			}
			// on every path through the link: one dominates the other
			if dominates(st, l.at) || dominates(l.at, st) || st.Block() == l.at.Block() {
				found = true
				witness = "child.Parent = owner @ " + c.InstrPos(st)
			}
		}
		// child created by a literal with Parent: owner
		if !found {
			if a, ok2 := l.val.(*ssa.Alloc); ok2 {
				for _, r := range *a.Referrers() {
					if fa, okf := r.(*ssa.FieldAddr); okf {
						if _, f, _ := fieldOf(fa); f == m.fParent {
							for _, rr := range *fa.Referrers() {
								if st, oks := rr.(*ssa.Store); oks && sameObject(st.Val, l.owner) {
									found = true
									witness = "literal Parent: owner"
								}
							}
						}
					}
				}
			}
		}
		// child made by a constructor helper that is handed the owner: every entry the helper returns is a literal
		// whose Parent is one of its parameters, and the argument in that position is the owner
		if !found {
			if call, isC := l.val.(*ssa.Call); isC {
				if cal := call.Call.StaticCallee(); cal != nil && c.isRepoFn(cal) && cal.Blocks != nil {
					okAll, n := true, 0
					for _, b := range cal.Blocks {
						r, isR := b.Instrs[len(b.Instrs)-1].(*ssa.Return)
						if !isR || b == cal.Recover || len(r.Results) != 1 {
							continue
						}
						n++
						a, isA := r.Results[0].(*ssa.Alloc)
						if !isA {
							okAll = false
							continue
						}
						set := false
						for _, ref := range *a.Referrers() {
							fa, isFA := ref.(*ssa.FieldAddr)
							if !isFA {
								continue
							}
							if _, f, _ := fieldOf(fa); f != m.fParent {
								continue
							}
							for _, rr := range *fa.Referrers() {
								st, isS := rr.(*ssa.Store)
								if !isS {
									continue
								}
								if p, isP := st.Val.(*ssa.Parameter); isP {
									if idx := paramIndex(cal, p); idx >= 0 && idx < len(call.Call.Args) && sameObject(call.Call.Args[idx], l.owner) {
										set = true
									}
								}
							}
						}
						if !set {
							okAll = false
						}
					}
					if okAll && n > 0 {
						found = true
						witness = "made by " + c.FnName(cal) + ", whose literal takes Parent from the owner argument"
					}
				}
			}
		}
		// helper building an rpc body for an owner passed in: the RPCEntry is fresh and returned, the
		// child's Parent is the entry parameter, and every caller stores the result into that entry's RPC
		if !found && (l.kind == "RPC.Input" || l.kind == "RPC.Output") {
			if w := c.rpcBodyHelper(l, m); w != "" {
				found, witness = true, w
			}
		}
		if found {
			obs = append(obs, ok(R, con+" ["+shortPath(AccessPath(l.val))+"]", pos, witness))
		} else {
			obs = append(obs, bad(R, con+" ["+shortPath(AccessPath(l.val))+"]", pos, "no store child.Parent = owner paired with this link: the linked entry's Parent is stale or nil (Path, ReadOnly, Namespace and Find climb Parent)"))
		}
	}
	return obs
}

func (c *Ctx) rpcBodyHelper(l entryLink, m *entryModel) string {
	al, isA := l.owner.(*ssa.Alloc)
	if !isA || namedOf(al.Type().(*types.Pointer).Elem()) != m.rpcEntry {
		return ""
	}
	// returned on every path that returns a non-nil *RPCEntry
	returned := false
	for _, b := range l.fn.Blocks {
		if r, isR := b.Instrs[len(b.Instrs)-1].(*ssa.Return); isR {
			for _, res := range r.Results {
				if res == ssa.Value(al) {
					returned = true
				}
			}
		}
	}
	if !returned {
		return ""
	}
	// child.Parent = p_i
	idx := -1
	for _, st := range storesToField(l.fn, m.fParent) {
		_, _, childBase := fieldOf(st.Addr)
		viaSlot := false
		if ls, isStore := l.at.(*ssa.Store); isStore && AccessPath(childBase) == AccessPath(ls.Addr) {
			viaSlot = true // nr.Input = x; nr.Input.Parent = owner
		}
		if !sameObject(childBase, l.val) && !viaSlot {
			continue
		}
		for i := range l.fn.Params {
			if isParamN(l.fn, st.Val, i) {
				idx = i
			}
		}
	}
	if idx < 0 {
		return ""
	}
	node := c.Graph().Nodes[l.fn]
	if node == nil || len(node.In) == 0 {
		return ""
	}
	for _, e := range node.In {
		site := e.Site
		if site == nil || site.Common().StaticCallee() != l.fn || site.Value() == nil {
			return ""
		}
		args := site.Common().Args
		if idx >= len(args) {
			return ""
		}
		stored := false
		for _, r := range refsOf(site.Value()) {
			st, isS := r.(*ssa.Store)
			if !isS || st.Val != ssa.Value(site.Value()) {
				continue
			}
			_, f, base := fieldOf(st.Addr)
			if f == m.fRPC && (sameObject(base, args[idx]) || AccessPath(base) == AccessPath(args[idx])) {
				stored = true
			}
		}
		if !stored {
			return ""
		}
	}
	return fmt.Sprintf("helper: child.Parent = parameter %d, the fresh rpc body is returned, and every caller (%d) stores it into that same entry's RPC", idx, len(node.In))
}

func ruleTreeKey(c *Ctx) []Obligation {
	const R = "TREE.KEY"
	m := c.entryModel()
	var obs []Obligation
	toEntry := c.MustFn("yang.ToEntry")
	// helper functions that insert (key, value) parameters into Dir: check their call sites
	for _, l := range c.entryLinks() {
		if l.kind != "Dir" && l.kind != "Dir-literal" {
			continue
		}
		con := fmt.Sprintf("%s: %s key is the child's name [%s]", c.FnName(l.fn), l.kind, shortPath(AccessPath(l.val)))
		pos := c.InstrPos(l.at)
		kp, isKP := l.key.(*ssa.Parameter)
		vp, isVP := l.val.(*ssa.Parameter)
		switch {
		case isKP && isVP:
			// inserting helper: every call site passes (x.Name, ToEntry(x)) or (x.Name, v) with v := ToEntry(x);
			// a call site that forwards its own (key, value) parameters is followed to its callers
			nSites, okAll := 0, true
			var badSite string
			var visit func(fn *ssa.Function, ki, vi, depth int)
			visit = func(fn *ssa.Function, ki, vi, depth int) {
				node := c.Graph().Nodes[fn]
				if node == nil || depth > 3 {
					okAll = false
					return
				}
				for _, e := range node.In {
					if e.Site == nil || e.Caller.Func.Synthetic != "" {
						continue
					}
					args := e.Site.Common().Args
					if ki >= len(args) || vi >= len(args) {
						okAll = false
						continue
					}
					k, v := args[ki], args[vi]
					if pk, isPK := k.(*ssa.Parameter); isPK {
						if pv, isPV := v.(*ssa.Parameter); isPV {
							visit(e.Caller.Func, paramIndex(e.Caller.Func, pk), paramIndex(e.Caller.Func, pv), depth+1)
							continue
						}
					}
					nSites++
					// the idioms accepted for a direct link hold for a link made through an inserting helper too
					if sameNext(k, v) {
						continue // key and value come from the same map iteration (a copy keeps its key)
					}
					if _, kf0, kbase0 := loadedField(k); kf0 == m.fName && sameObject(kbase0, v) {
						continue // key is value.Name
					}
					_, kf, kbase := loadedField(k)
					call := entryFromCall(v, toEntry)
					if kf == nil || kf.Name() != "Name" || call == nil {
						okAll = false
						badSite = c.InstrPos(e.Site)
						continue
					}
					// the converted node is the one whose Name is the key
					arg := call.Call.Args[0]
					if mi, okm := arg.(*ssa.MakeInterface); okm {
						arg = mi.X
					}
					if !sameObject(arg, kbase) {
						okAll = false
						badSite = c.InstrPos(e.Site)
					}
				}
			}
			visit(l.fn, paramIndex(l.fn, kp), paramIndex(l.fn, vp), 0)
			if okAll && nSites > 0 {
				obs = append(obs, ok(R, con, pos, fmt.Sprintf("all %d call sites pass (x.Name, ToEntry(x)) for the same x, a key/value pair of one map iteration, or (v.Name, v)", nSites)))
			} else {
				obs = append(obs, bad(R, con, pos, "a call site passes a key that is not the Name of the node being converted: "+badSite))
			}
		case sameNext(l.key, l.val):
			obs = append(obs, ok(R, con, pos, "key and value come from the same map iteration (copy keeps the key)"))
		default:
			// key is child.Name (literal in FixChoice), or key from the iteration of an entry whose Name the new child copies
			if _, kf, kbase := loadedField(l.key); kf == m.fName && sameObject(kbase, l.val) {
				obs = append(obs, ok(R, con, pos, "key is value.Name"))
				continue
			}
			if a, isA := l.val.(*ssa.Alloc); isA {
				// new entry whose Name is copied from an entry that came with this key
				okk := false
				for _, r := range *a.Referrers() {
					if fa, okf := r.(*ssa.FieldAddr); okf {
						if _, f, _ := fieldOf(fa); f == m.fName {
							for _, rr := range *fa.Referrers() {
								if st, oks := rr.(*ssa.Store); oks {
									if _, nf, nbase := loadedField(st.Val); nf == m.fName && sameNext(l.key, nbase) {
										okk = true
									}
								}
							}
						}
					}
				}
				if okk {
					obs = append(obs, ok(R, con, pos, "new child takes the Name of the entry that was filed under this key"))
					continue
				}
			}
			obs = append(obs, bad(R, con, pos, "cannot relate the map key to the linked entry's Name"))
		}
	}
	return obs
}

func paramIndex(fn *ssa.Function, p *ssa.Parameter) int {
	for i, q := range fn.Params {
		if q == p {
			return i
		}
	}
	return -1
}

// entryFromCall: v is (a cell load / phi-free copy of) a call to target; returns the call.
func entryFromCall(v ssa.Value, target *ssa.Function) *ssa.Call {
	var found *ssa.Call
	backSlice(v, func(x ssa.Value) bool {
		if call, ok := x.(*ssa.Call); ok {
			if call.Call.StaticCallee() == target {
				found = call
			}
			return false
		}
		switch x.(type) {
		case *ssa.Phi, *ssa.UnOp, *ssa.Alloc:
			return true
		}
		return x == v
	})
	return found
}

// sameNext: both values derive from the same map-iteration step.
func sameNext(a, b ssa.Value) bool {
	na, nb := nextOf(a), nextOf(b)
	return na != nil && na == nb
}

func nextOf(v ssa.Value) *ssa.Next {
	var n *ssa.Next
	backSlice(v, func(x ssa.Value) bool {
		if nx, ok := x.(*ssa.Next); ok {
			n = nx
			return false
		}
		if _, isCall := x.(*ssa.Call); isCall {
			// v := v.dup(): follow the receiver
			call := x.(*ssa.Call)
			if call.Call.StaticCallee() != nil && len(call.Call.Args) > 0 {
				if nn := nextOf(call.Call.Args[0]); nn != nil {
					n = nn
				}
			}
			return false
		}
		return true
	})
	return n
}

func ruleTreeFresh(c *Ctx) []Obligation {
	const R = "TREE.FRESH"
	var obs []Obligation
	toEntry := c.MustFn("yang.ToEntry")
	for _, l := range c.entryLinks() {
		con := linkDesc(c, l) + " is fresh"
		pos := c.InstrPos(l.at)
		why, good := c.freshEntry(l.fn, l.val, l, 0)
		if good {
			obs = append(obs, ok(R, con, pos, why))
		} else {
			obs = append(obs, bad(R, con, pos, why))
		}
	}
	// cached entries of referenced nodes (groupings, submodules) must not escape un-copied
	for _, fn := range c.Funcs {
		root := fn
		for root.Parent() != nil {
			root = root.Parent()
		}
		if root != toEntry {
			continue // the sharing hazard is where trees are assembled: the converter itself
		}
		for _, ci := range c.callsTo(fn, toEntry) {
			call, okc := ci.(*ssa.Call)
			if !okc {
				continue
			}
			p := c.provenance(call.Call.Args[0])
			if !p.Ref {
				continue
			}
			con := fmt.Sprintf("%s: entry of a referenced node (%s) is only copied, never linked or returned", c.FnName(fn), p.RefWhy)
			pos := c.InstrPos(call)
			escape := c.entryEscapes(call, map[ssa.Value]bool{}, 0)
			if escape == "" {
				obs = append(obs, ok(R, con, pos, "all uses are deep-copy receivers or arguments of functions that do not retain the entry"))
			} else {
				if why, okj := jget("freshJustified", freshJustified, c.FnName(fn)+"|"+p.RefWhy); okj {
					obs = append(obs, just(R, con, pos, why))
				} else {
					obs = append(obs, bad(R, con, pos, "the cached entry "+escape+": every user of the referenced node would share one entry object"))
				}
			}
		}
	}
	return obs
}

var freshJustified = map[string]string{
	"yang.(*Entry).Find|result of lookup yang.module": "Find returns the cached module entry as the new cursor of a read-only walk; nothing is linked",
}

// freshEntry: is v a fresh entry object at this link?
func (c *Ctx) freshEntry(fn *ssa.Function, v ssa.Value, l entryLink, depth int) (string, bool) {
	toEntry := c.MustFn("yang.ToEntry")
	if depth > 2 {
		return "provenance too deep to decide", false
	}
	var verdict string
	good := true
	decided := false
	backSlice(v, func(x ssa.Value) bool {
		if decided && !good {
			return false
		}
		switch y := x.(type) {
		case *ssa.Alloc:
			if isStructPtr(y.Type()) && namedOf(y.Type()) == c.Named("yang", "Entry") {
				decided = true
				verdict = "allocated here"
				return false
			}
			return true // a cell: follow its stores
		case *ssa.Call:
			cal := y.Call.StaticCallee()
			switch {
			case cal == toEntry:
				p := c.provenance(y.Call.Args[0])
				decided = true
				if p.Ref {
					good = false
					verdict = "entry converted from a referenced node (" + p.RefWhy + ") is linked directly"
				} else if p.Contain || p.Fresh {
					verdict = "ToEntry of a containment child (each AST node has one parent, so its entry is linked once)"
				} else {
					good = false
					verdict = "ToEntry of a node that is neither a containment child nor fresh"
				}
			case cal != nil && c.isRepoFn(cal) && c.isConstructor(cal):
				decided = true
				verdict = "result of the copier/constructor " + c.FnName(cal)
			default:
				decided = true
				good = false
				verdict = "result of a call that is not a constructor"
			}
			return false
		case *ssa.Parameter:
			// all call sites must pass fresh entries
			idx := paramIndex(fn, y)
			node := c.Graph().Nodes[fn]
			n := 0
			for _, e := range node.In {
				if e.Site == nil || e.Caller.Func.Synthetic != "" {
					continue
				}
				args := e.Site.Common().Args
				if idx < len(args) {
					n++
					if w, g := c.freshEntry(e.Caller.Func, args[idx], l, depth+1); !g {
						good = false
						verdict = "call site " + c.InstrPos(e.Site) + ": " + w
					}
				}
			}
			decided = true
			if good {
				verdict = fmt.Sprintf("parameter; all %d call sites pass fresh entries", n)
			}
			return false
		case *ssa.Next:
			// range element of an existing child map: already linked elsewhere — fine only as a move:
			// the source slot (same map, same key) is overwritten in this iteration
			decided = true
			if c.isMove(l, y) {
				verdict = "moved: the slot it came from is overwritten with the new wrapper in the same iteration"
			} else {
				good = false
				verdict = "an entry that is already linked in another child map is linked again (shared)"
			}
			return false
		case *ssa.Lookup:
			decided = true
			good = false
			verdict = "an entry looked up from a child map is linked again (shared)"
			return false
		}
		return true
	})
	if !decided {
		return "cannot determine where the linked entry comes from", false
	}
	return verdict, good
}

// isMove: the value came from iterating map M (key k); a MapUpdate M[k] = other dominates/post-dominates the link in the same function.
func (c *Ctx) isMove(l entryLink, n *ssa.Next) bool {
	r, ok := n.Iter.(*ssa.Range)
	if !ok {
		return false
	}
	mp := AccessPath(r.X)
	moved := false
	eachInstr(l.fn, func(in ssa.Instruction) {
		mu, okm := in.(*ssa.MapUpdate)
		if !okm || in == l.at {
			return
		}
		if AccessPath(mu.Map) == mp && nextOf(mu.Key) == n && mu.Value != l.val {
			if dominates(l.at, mu) || dominates(mu, l.at) || mu.Block() == l.at.Block() {
				moved = true
			}
		}
	})
	return moved
}

// entryEscapes: how does the (cached) entry value escape un-copied? "" if it does not.
func (c *Ctx) entryEscapes(v ssa.Value, seen map[ssa.Value]bool, depth int) string {
	if seen[v] || depth > 3 {
		return ""
	}
	seen[v] = true
	for _, r := range *v.Referrers() {
		switch x := r.(type) {
		case *ssa.Return:
			return "is returned directly"
		case *ssa.MapUpdate:
			if x.Value == v {
				return "is stored into a map"
			}
		case *ssa.Store:
			if x.Val == v {
				if a, ok := x.Addr.(*ssa.Alloc); ok {
					// local cell: follow loads
					for _, rr := range *a.Referrers() {
						if u, oku := rr.(*ssa.UnOp); oku {
							if w := c.entryEscapes(u, seen, depth+1); w != "" {
								return w
							}
						}
					}
					continue
				}
				return "is stored into a field"
			}
		case *ssa.Phi:
			if w := c.entryEscapes(x, seen, depth+1); w != "" {
				return w
			}
		case ssa.CallInstruction:
			com := x.Common()
			cal := com.StaticCallee()
			if cal == nil {
				if com.IsInvoke() {
					continue
				}
				return "is passed to a dynamic call"
			}
			if !c.isRepoFn(cal) {
				continue
			}
			for i, a := range com.Args {
				if a != v || i >= len(cal.Params) {
					continue
				}
				if c.isConstructor(cal) && i == 0 {
					continue // deep/shallow copy receiver
				}
				if c.paramRetained(cal, i, 0) {
					return "is retained by " + c.FnName(cal)
				}
			}
		}
	}
	return ""
}

var retainedCache = map[string]bool{}

// paramRetained: does fn store its parameter i (an *Entry) — or an *Entry reached from it without copying — into the heap, or return it?
func (c *Ctx) paramRetained(fn *ssa.Function, i int, depth int) bool {
	key := fmt.Sprintf("%p/%d", fn, i)
	if v, ok := retainedCache[key]; ok {
		return v
	}
	retainedCache[key] = false
	if fn.Blocks == nil || depth > 3 {
		return true
	}
	p := fn.Params[i]
	entryT := c.Named("yang", "Entry")
	derives := func(v ssa.Value) bool {
		if !containsEntry(v.Type(), entryT) {
			return false
		}
		hit := false
		backSlice(v, func(x ssa.Value) bool {
			if x == ssa.Value(p) {
				hit = true
				return false
			}
			if _, isCall := x.(*ssa.Call); isCall {
				return false // passes through a call (copy): not the same object
			}
			return true
		})
		return hit
	}
	ret := false
	eachInstr(fn, func(in ssa.Instruction) {
		if ret {
			return
		}
		switch x := in.(type) {
		case *ssa.Return:
			for _, r := range x.Results {
				if derives(r) {
					ret = true
				}
			}
		case *ssa.MapUpdate:
			if derives(x.Value) {
				ret = true
			}
		case *ssa.Store:
			if _, isAlloc := x.Addr.(*ssa.Alloc); !isAlloc && derives(x.Val) {
				ret = true
			}
		case ssa.CallInstruction:
			cal := x.Common().StaticCallee()
			if cal == nil || !c.isRepoFn(cal) || cal == fn {
				return
			}
			for j, a := range x.Common().Args {
				if j < len(cal.Params) && derives(a) {
					if c.isConstructor(cal) && j == 0 {
						continue
					}
					if c.paramRetained(cal, j, depth+1) {
						ret = true
					}
				}
			}
		}
	})
	retainedCache[key] = ret
	return ret
}

func containsEntry(t types.Type, entryT *types.Named) bool {
	switch x := t.Underlying().(type) {
	case *types.Pointer:
		return namedOf(x.Elem()) == entryT
	case *types.Slice:
		return containsEntry(x.Elem(), entryT)
	case *types.Map:
		return containsEntry(x.Elem(), entryT)
	}
	return false
}

// ---------------------------------------------------------------- TREE.WALK

type walker struct {
	fn       *ssa.Function
	class    string          // "copier", "collector", "fixer", "other"
	descends map[string]bool // link fields through which it recurses
}

func (c *Ctx) entryWalkers() []walker {
	m := c.entryModel()
	var out []walker
	for _, fn := range c.Funcs {
		if fn.Pkg == nil || shortPkg(fn.Pkg.Pkg.Path()) != "yang" {
			continue
		}
		// self-recursive on an *Entry carrier, directly or through a helper that calls back
		desc := map[string]bool{}
		ownDir := false // the Dir that is descended through is that of one of fn's own parameters (the node being walked)
		noteIn := func(in *ssa.Function, x ssa.Value) {
			if owner, f, base := fieldOf(x); f != nil {
				switch f {
				case m.fDir, m.fIn, m.fOut, m.fAugs, m.fDeviate, m.fDeviations:
					desc[fieldKey(owner, f)] = true
					if f == m.fDir && in == fn {
						for i := range fn.Params {
							if isParamN(fn, base, i) {
								ownDir = true
							}
						}
					}
				}
			}
		}
		note := func(x ssa.Value) { noteIn(fn, x) }
		for _, ci := range c.callsTo(fn, fn) {
			args, _ := c.carrierArgs(fn, ci)
			for _, a := range args {
				if !containsEntry(a.Type(), m.entry) {
					continue
				}
				backSlice(a, func(x ssa.Value) bool { note(x); return true })
			}
		}
		for _, ci := range callsIn(fn, func(ssa.CallInstruction) bool { return true }) {
			g := ci.Common().StaticCallee()
			if g == nil || g == fn || g.Blocks == nil || g.Pkg != fn.Pkg {
				continue
			}
			for _, back := range c.callsTo(g, fn) {
				args, _ := c.carrierArgs(fn, back)
				for _, a := range args {
					if !containsEntry(a.Type(), m.entry) {
						continue
					}
					backSlice(a, func(x ssa.Value) bool {
						noteIn(g, x)
						// what the helper was handed: continue in fn at the corresponding argument
						if p, isP := x.(*ssa.Parameter); isP {
							if j := paramIndex(g, p); j >= 0 && j < len(ci.Common().Args) {
								backSlice(ci.Common().Args[j], func(y ssa.Value) bool { note(y); return true })
							}
						}
						return true
					})
				}
			}
		}
		if !desc["Entry.Dir"] || !ownDir {
			continue
		}
		w := walker{fn: fn, descends: desc, class: "other"}
		switch {
		case c.isConstructor(fn):
			w.class = "copier"
		case len(mapUpdatesOnField(fn, m.fDir)) > 0:
			w.class = "fixer"
		case c.readsField(fn, m.fErrors):
			w.class = "collector"
		}
		out = append(out, w)
	}
	return out
}

func (c *Ctx) readsField(fn *ssa.Function, f *types.Var) bool {
	hit := false
	eachInstr(fn, func(in ssa.Instruction) {
		if u, ok := in.(*ssa.UnOp); ok {
			if _, ff, _ := loadedField(u); ff == f {
				hit = true
			}
		}
	})
	return hit
}

func ruleTreeWalk(c *Ctx) []Obligation {
	const R = "TREE.WALK"
	var obs []Obligation
	need := map[string][]string{
		"copier":    {"RPCEntry.Input", "RPCEntry.Output"},
		"fixer":     {"RPCEntry.Input", "RPCEntry.Output"},
		"collector": {"RPCEntry.Input", "RPCEntry.Output"},
	}
	ws := c.entryWalkers()
	for _, w := range ws {
		for _, f := range need[w.class] {
			con := fmt.Sprintf("%s (%s) descends through %s", c.FnName(w.fn), w.class, f)
			pos := c.Pos(w.fn.Pos())
			if w.descends[f] {
				obs = append(obs, ok(R, con, pos, "recursive call on a value loaded from this field"))
			} else {
				obs = append(obs, bad(R, con, pos, fmt.Sprintf("the %s walks Dir but never %s: entries under rpc/action input and output are skipped", w.class, f)))
			}
		}
		if w.class == "other" {
			o := ok(R, fmt.Sprintf("%s (printer/other) is not held to the link-field set", c.FnName(w.fn)), c.Pos(w.fn.Pos()), "no property observes it")
			o.Trivial = true
			obs = append(obs, o)
		}
	}
	// errors recorded on `deviate` entries must be imported where the deviation is collected
	m := c.entryModel()
	toEntry := c.MustFn("yang.ToEntry")
	con := "errors recorded on deviate entries reach the module entry"
	imported := false
	var at ssa.Instruction
	eachInstr(toEntry, func(in ssa.Instruction) {
		mu, okm := in.(*ssa.MapUpdate)
		if !okm {
			return
		}
		if _, f, _ := loadedField(mu.Map); f != m.fDeviate || m.fDeviate == nil {
			return
		}
		at = in
		// the entry appended to Deviate[dt] (de) must also be passed to an error importer on the same path
		for _, v := range appendElems(mu.Value) {
			for _, fn := range c.entryWalkers() {
				if fn.class != "collector" {
					continue
				}
				for _, ci := range c.callsTo(toEntry, fn.fn) {
					for _, a := range ci.Common().Args {
						if sameObject(a, v) && (dominates(ci, in) || dominates(in, ci) || ci.Block() == in.Block()) {
							imported = true
						}
					}
				}
			}
		}
	})
	if at == nil {
		obs = append(obs, undecided(R, con, c.Pos(toEntry.Pos()), "no store into Entry.Deviate found in ToEntry"))
	} else if imported {
		obs = append(obs, ok(R, con, c.InstrPos(at), "the deviate entry is passed to the error importer where it is filed"))
	} else {
		obs = append(obs, bad(R, con, c.InstrPos(at), "a deviate entry is filed under Entry.Deviate without importing its errors, and no collector descends through Deviate: invalid deviate arguments are silently accepted"))
	}
	return obs
}

// appendElems: v is append(old, x...) → the x values.
func appendElems(v ssa.Value) []ssa.Value {
	call, ok := v.(*ssa.Call)
	if !ok {
		return nil
	}
	if bi, okb := call.Call.Value.(*ssa.Builtin); !okb || bi.Name() != "append" || len(call.Call.Args) < 2 {
		return nil
	}
	return variadicElems(call.Call.Args[1])
}

// ---------------------------------------------------------------- DUP.COMPLETE

func ruleDupComplete(c *Ctx) []Obligation {
	const R = "DUP.COMPLETE"
	m := c.entryModel()
	var obs []Obligation
	var copiers []*ssa.Function
	for _, w := range c.entryWalkers() {
		if w.class == "copier" {
			copiers = append(copiers, w.fn)
		}
	}
	if len(copiers) == 0 {
		return []Obligation{undecided(R, "deep copier found", "-", "no self-recursive constructor over Entry.Dir")}
	}
	// fields of Entry mutated in place somewhere on a non-fresh entry
	st := m.entry.Underlying().(*types.Struct)
	mutated := map[*types.Var]string{}
	for _, fn := range c.Funcs {
		if fn.Pkg == nil && fn.Parent() == nil {
			continue
		}
		eachInstr(fn, func(in ssa.Instruction) {
			var addr ssa.Value
			switch x := in.(type) {
			case *ssa.Store:
				addr = x.Addr
			case *ssa.MapUpdate:
				addr = x.Map
			default:
				return
			}
			// walk the address chain: a load of Entry.F followed by ≥1 more step (field of pointee, element, map update)
			v := addr
			steps := 0
			if _, isMU := in.(*ssa.MapUpdate); isMU {
				steps = 1
			}
			for d := 0; d < 16; d++ {
				switch y := v.(type) {
				case *ssa.FieldAddr:
					v = y.X
					steps++
					continue
				case *ssa.IndexAddr:
					v = y.X
					steps++
					continue
				case *ssa.UnOp:
					owner, f, base := fieldOf(y.X)
					if f != nil && owner == m.entry && steps > 0 && refKinded(f.Type()) {
						// in-place mutation through Entry.f — unless the entry is fresh in this function
						if !c.freshRootAt(base, in, 0) {
							if _, seen := mutated[f]; !seen {
								mutated[f] = fmt.Sprintf("%s @ %s", c.FnName(fn), c.InstrPos(in))
							}
						}
					}
					v = y.X
					continue
				}
				break
			}
		})
	}
	for _, cp := range copiers {
		if c.FnName(cp) != "yang.(*Entry).dup" && !strings.Contains(c.FnName(cp), "dup") {
			// shallow copies are documented as such; only the deep copier (the one ToEntry uses for uses/merge) is held to this
		}
	}
	// the deep copier = the copier whose recursive result is linked (value of Dir link derives from a self call)
	var deep *ssa.Function
	for _, cp := range copiers {
		if len(c.callsTo(cp, cp)) > 0 {
			deep = cp
		}
	}
	if deep == nil {
		return []Obligation{undecided(R, "deep copier found", "-", "no copier recursing on itself")}
	}
	var fields []*types.Var
	for i := 0; i < st.NumFields(); i++ {
		if _, okm := mutated[st.Field(i)]; okm {
			fields = append(fields, st.Field(i))
		}
	}
	sort.Slice(fields, func(i, j int) bool { return fields[i].Name() < fields[j].Name() })
	for _, f := range fields {
		con := fmt.Sprintf("%s re-allocates Entry.%s (mutated in place elsewhere)", c.FnName(deep), f.Name())
		realloc := false
		narrowed := ""
		for _, s := range storesToField(deep, f) {
			if _, isAlloc := rootOf(s.Addr).(*ssa.Alloc); !isAlloc {
				continue
			}
			fresh := false
			switch v := s.Val.(type) {
			case *ssa.MakeMap, *ssa.Alloc, *ssa.MakeSlice:
				fresh = true
			case *ssa.Call:
				if cal := v.Call.StaticCallee(); cal != nil && c.isConstructor(cal) {
					fresh = true
				}
			}
			if !fresh {
				continue
			}
			realloc = true
			// the re-allocation may be skipped only when the original field is nil: every guard it sits under
			// must be a nil test of the original's same field
			for _, g := range guardsAt(s.Block()) {
				if isLoopHeader(g.If.Block()) {
					continue // the exit condition of an earlier loop: always eventually taken
				}
				x, isEq, okn := nilTest(g.Cond)
				_, gf, _ := loadedField(x)
				if okn && gf == f && isEq != g.Branch {
					continue
				}
				if okn && x != nil {
					// nil test on a sub-object reached through this field (e.RPC.Input != nil guarding ne.RPC.Input = …)
					if derivesFrom(x, func(y ssa.Value) bool { return isFieldRef(y, f) }) {
						continue
					}
				}
				narrowed = c.InstrPos(g.If)
			}
			// … and once the original's field is known to be non-nil, no later test may lead round the
			// re-allocation (`if e.F != nil && (…)` compiles to branches that join before the store, which no
			// dominating guard shows): from the non-nil branch every way out of the function passes the store
			for _, g := range guardsAt(s.Block()) {
				x, isEq, okn := nilTest(g.Cond)
				_, gf, _ := loadedField(x)
				if !okn || gf != f || isEq == g.Branch {
					continue
				}
				from := g.If.Block().Succs[0]
				if isEq {
					from = g.If.Block().Succs[1]
				}
				avoid := map[*ssa.BasicBlock]bool{s.Block(): true}
				for _, b := range deep.Blocks {
					if _, isR := b.Instrs[len(b.Instrs)-1].(*ssa.Return); isR && b != deep.Recover && from != s.Block() && blockReaches(from, b, avoid) {
						narrowed = c.InstrPos(g.If) + " and a further test after it"
					}
				}
			}
		}
		pos := c.Pos(deep.Pos())
		if realloc && narrowed != "" {
			obs = append(obs, bad(R, con, pos, "the re-allocation is skipped under a condition other than `original."+f.Name()+" == nil` ("+narrowed+"): in that case the copy shares the object with the original, and "+mutated[f]+" mutates it in place"))
			continue
		}
		if realloc {
			obs = append(obs, ok(R, con, pos, "fresh value stored into the copy; in-place mutation seen in "+mutated[f]))
		} else {
			obs = append(obs, bad(R, con, pos, "the copy shares this field's object with the original, and "+mutated[f]+" mutates it in place: changing one copy changes every other use of the grouping"))
		}
	}
	if len(fields) == 0 {
		obs = append(obs, undecided(R, "in-place mutated entry fields found", c.Pos(deep.Pos()), "no in-place mutation of a reference-kinded Entry field found anywhere: the effect scan is broken"))
	}
	// Slice fields that are appended to on entries that are not fresh (x.F = append(x.F, …)): the struct copy
	// shares the backing array, so an append into spare capacity writes storage every copy sees. The copier must
	// give the copy its own array or clip the slice (three-index slice with max == len).
	appended := map[*types.Var]string{}
	for _, fn := range c.Funcs {
		if fn.Pkg == nil && fn.Parent() == nil {
			continue
		}
		eachInstr(fn, func(in ssa.Instruction) {
			var target ssa.Value // the slice value appended to
			var app *ssa.Call
			switch x := in.(type) {
			case *ssa.Store:
				app, _ = x.Val.(*ssa.Call)
			case *ssa.MapUpdate:
				app, _ = x.Value.(*ssa.Call)
			}
			if app == nil {
				return
			}
			if b, isB := app.Call.Value.(*ssa.Builtin); !isB || b.Name() != "append" || len(app.Call.Args) == 0 {
				return
			}
			target = app.Call.Args[0]
			// the appended-to slice is (an element of) a field of an Entry
			var f *types.Var
			var base ssa.Value
			backSlice(target, func(y ssa.Value) bool {
				if f != nil {
					return false
				}
				if owner, ff, b := loadedField(y); ff != nil && owner == m.entry {
					f, base = ff, b
					return false
				}
				switch y.(type) {
				case *ssa.Lookup, *ssa.UnOp, *ssa.Phi:
					return true
				}
				return y == target
			})
			if f == nil || c.freshRootAt(base, in, 0) {
				return
			}
			if fn == deep {
				return
			}
			if _, seen := appended[f]; !seen {
				appended[f] = fmt.Sprintf("%s @ %s", c.FnName(fn), c.InstrPos(in))
			}
		})
	}
	var afields []*types.Var
	for f := range appended {
		afields = append(afields, f)
	}
	sort.Slice(afields, func(i, j int) bool { return afields[i].Name() < afields[j].Name() })
	for _, f := range afields {
		con := fmt.Sprintf("%s gives the copy its own Entry.%s array or clips it (appended to elsewhere)", c.FnName(deep), f.Name())
		okc, how := false, ""
		c.eachInstrDeep(deep, func(in ssa.Instruction) {
			var val ssa.Value
			switch x := in.(type) {
			case *ssa.Store:
				if _, ff, _ := fieldOf(x.Addr); ff != f {
					return
				}
				// the copy under construction, possibly handed to a private helper (ne.clipSlices())
				if _, isAlloc := resolveArg(rootOf(x.Addr)).(*ssa.Alloc); !isAlloc {
					return
				}
				val = x.Val
			case *ssa.MapUpdate:
				// map-valued field (Extra): the values stored into the copy's fresh map
				if _, ff, _ := fieldOf(in.(*ssa.MapUpdate).Map); ff != f {
					if _, ff2, _ := loadedField(x.Map); ff2 != f {
						return
					}
				}
				val = x.Value
			default:
				return
			}
			switch v := val.(type) {
			case *ssa.Slice:
				if v.Max != nil && v.High != nil && sameExpr(v.Max, v.High) {
					// it is this field's own slice that is clipped (not a sibling's stored under this name)
					if _, sf, _ := loadedField(v.X); sf == f || sf == nil {
						okc, how = true, "clipped with a three-index slice (max == len)"
					}
				}
			case *ssa.MakeSlice, *ssa.MakeMap:
				if _, isMap := f.Type().Underlying().(*types.Map); !isMap {
					okc, how = true, "fresh slice"
				}
			case *ssa.Call:
				if cal := v.Call.StaticCallee(); cal != nil && c.isRepoFn(cal) {
					if idx := clipsParam(cal); idx >= 0 {
						okc, how = true, "clipped by "+c.FnName(cal)+" (returns its argument as a three-index slice with max == len)"
					}
				}
				if b, isB := v.Call.Value.(*ssa.Builtin); isB && b.Name() == "append" && len(v.Call.Args) > 0 {
					if isNilConst(v.Call.Args[0]) {
						okc, how = true, "copied by append(nil, …)"
					}
					if sl, isS := v.Call.Args[0].(*ssa.Slice); isS {
						if k, isK := constInt(sl.High); isK && k == 0 && sl.Max == nil {
							// x[:0] reuses the array: not a copy
						}
					}
				}
			}
		})
		pos := c.Pos(deep.Pos())
		if okc {
			obs = append(obs, ok(R, con, pos, how+"; appended to in "+appended[f]))
		} else {
			obs = append(obs, bad(R, con, pos, "the copy's slice shares its backing array with the original and with every other copy, and "+appended[f]+" appends to it: with spare capacity the append writes shared storage, so an element added to one use of a grouping shows up in (or is overwritten by) another use"))
		}
	}
	return obs
}

func refKinded(t types.Type) bool {
	switch t.Underlying().(type) {
	case *types.Pointer, *types.Map, *types.Slice:
		return true
	}
	return false
}

// freshRoot: the entry whose field is mutated was allocated (or obtained from a constructor) in this function.
func (c *Ctx) freshRoot(base ssa.Value) bool {
	return c.freshRootAt(base, nil, 0)
}

func (c *Ctx) freshRootAt(base ssa.Value, at ssa.Instruction, depth int) bool {
	if depth > 4 {
		return false
	}
	fresh := false
	notFresh := false
	backSlice(base, func(x ssa.Value) bool {
		switch y := x.(type) {
		case *ssa.Alloc:
			if isStructPtr(y.Type()) {
				fresh = true
				return false
			}
			// a local cell: only the stores that can reach the use matter
			for _, r := range *y.Referrers() {
				st, oks := r.(*ssa.Store)
				if !oks || st.Addr != ssa.Value(y) {
					continue
				}
				if at != nil && !reaches(st, at) {
					continue
				}
				if AccessPath(st.Val) == AccessPath(y) {
					continue // spilled result re-stored into itself
				}
				if c.freshRootAt(st.Val, at, depth+1) {
					fresh = true
				} else {
					notFresh = true
				}
			}
			return false
		case *ssa.Call:
			if cal := y.Call.StaticCallee(); cal != nil && c.isRepoFn(cal) && c.isConstructor(cal) {
				fresh = true
			} else if cal != nil && cal.Name() == "ToEntry" {
				// ToEntry of a containment child inside ToEntry: the entry under construction's own fresh child
				p := c.provenance(y.Call.Args[0])
				if p.Ref {
					notFresh = true
				} else {
					fresh = true
				}
			} else {
				notFresh = true
			}
			return false
		case *ssa.Parameter, *ssa.FreeVar, *ssa.Global, *ssa.Lookup, *ssa.Next:
			notFresh = true
			return false
		}
		return true
	})
	return fresh && !notFresh
}

func isLoopHeader(b *ssa.BasicBlock) bool {
	for _, p := range b.Preds {
		if b.Dominates(p) {
			return true
		}
	}
	return false
}

// clipsParam: fn returns, on every path, one of its slice parameters re-sliced as p[:len(p):len(p)]
// (or a fresh copy of it). Returns the parameter index, -1 otherwise.
func clipsParam(fn *ssa.Function) int {
	if fn.Blocks == nil {
		return -1
	}
	idx := -1
	for _, b := range fn.Blocks {
		r, isR := b.Instrs[len(b.Instrs)-1].(*ssa.Return)
		if !isR {
			continue
		}
		if len(r.Results) != 1 {
			return -1
		}
		sl, isS := r.Results[0].(*ssa.Slice)
		if !isS || sl.Max == nil || sl.High == nil || !sameExpr(sl.Max, sl.High) {
			return -1
		}
		p, isP := sl.X.(*ssa.Parameter)
		if !isP {
			return -1
		}
		i := paramIndex(fn, p)
		if idx >= 0 && idx != i {
			return -1
		}
		idx = i
	}
	return idx
}

package main

import (
	"fmt"
	"go/constant"
	"go/token"
	"go/types"
	"sort"

	"golang.org/x/tools/go/ssa"
)

// kindsim.go — conditions on the kind of an entry, evaluated over the finite set of kinds.
//
// Several properties say "this is done to a node of kind K1, K2 or K3 and refused for any other". The rules that
// decide them found the test and its error exit; which kinds the test lets through is a question about values — but
// about values of a finite enumeration that the code touches only through comparisons with constants. So the
// condition can be evaluated: fix the kind of the entry (and whether it has list attributes), walk the control-flow
// graph taking at each branch the side the fixed facts select (both sides where they select none), and see whether
// the construct of interest is reached. No input is run: the walk is over the graph, with a three-valued reading of
// each branch condition.

type tri int8

const (
	triUnknown tri = 0
	triTrue    tri = 1
	triFalse   tri = -1
)

func (t tri) not() tri { return -t }

func triOf(b bool) tri {
	if b {
		return triTrue
	}
	return triFalse
}

// kindFacts: what is held fixed during one walk.
type kindFacts struct {
	c         *Ctx
	fKind     *types.Var
	fListAttr *types.Var
	kind      int64
	listAttr  bool                 // Entry.ListAttr != nil
	isTarget  func(ssa.Value) bool // the value denotes the entry whose kind is fixed
	zero      map[*types.Var]tri   // fields of the object itself known to hold (true) or not to hold (false) their zero value
	given     map[*types.Var]tri   // fields of the *other* entry in play (the deviate statement's): non-zero or not
	isOther   func(ssa.Value) bool // the value denotes that other entry
	depth     int
}

// eval reads the boolean v, in block b reached from predecessor pred (nil: unknown), three-valued.
func (k *kindFacts) eval(v ssa.Value, b, pred *ssa.BasicBlock, depth int) tri {
	if depth > 12 {
		return triUnknown
	}
	switch x := v.(type) {
	case *ssa.Const:
		if x.Value != nil && x.Value.Kind() == constant.Bool {
			return triOf(constant.BoolVal(x.Value))
		}
	case *ssa.UnOp:
		if x.Op == token.NOT {
			return k.eval(x.X, b, pred, depth+1).not()
		}
	case *ssa.Phi:
		if pred != nil && x.Block() == b {
			for i, p := range b.Preds {
				if p == pred {
					// the operand was computed in (or before) the predecessor
					return k.eval(x.Edges[i], p, nil, depth+1)
				}
			}
		}
		// a value joined elsewhere (`ok := a || b`, a flag set in one arm of a switch): the stretch from the block that
		// dominates the join is walked under the facts, and the edges by which the join can be entered are read
		if dom := x.Block().Idom(); dom != nil && depth < 8 {
			var out tri
			n := 0
			for _, st := range k.walkFrom(dom, x.Block()) {
				if st.b != x.Block() || st.pred == nil {
					continue
				}
				for i, p := range x.Block().Preds {
					if p != st.pred {
						continue
					}
					r := k.eval(x.Edges[i], p, nil, depth+2)
					if r == triUnknown || n > 0 && r != out {
						return triUnknown
					}
					out = r
					n++
				}
			}
			if n > 0 {
				return out
			}
		}
		return triUnknown
	case *ssa.BinOp:
		return k.evalBinOp(x, depth)
	case *ssa.Call:
		cal := x.Call.StaticCallee()
		if cal == nil || cal.Blocks == nil || !k.c.isRepoFn(cal) || len(x.Call.Args) == 0 || len(cal.Params) == 0 {
			return triUnknown
		}
		if !k.isTarget(x.Call.Args[0]) || cal.Signature.Results().Len() != 1 || !isBoolType(cal.Signature.Results().At(0).Type()) {
			return triUnknown
		}
		return k.evalPredicate(cal, depth+1)
	}
	return triUnknown
}

func (k *kindFacts) evalBinOp(bo *ssa.BinOp, depth int) tri {
	// kind compared with a constant
	if bo.Op == token.EQL || bo.Op == token.NEQ {
		for _, pair := range [][2]ssa.Value{{bo.X, bo.Y}, {bo.Y, bo.X}} {
			if _, f, base := loadedField(pair[0]); f == k.fKind && f != nil && base != nil && k.isTarget(base) {
				if c, isK := constInt(pair[1]); isK {
					return triOf((k.kind == c) == (bo.Op == token.EQL))
				}
			}
		}
		if x, isEq, okn := nilTest(bo); okn {
			if _, f, base := loadedField(x); f == k.fListAttr && f != nil && base != nil && k.isTarget(base) {
				return triOf(k.listAttr != isEq)
			}
			// the error a checking method of the entry answers with: nil or not, under the same facts
			if call, isC := x.(*ssa.Call); isC && isErrorType(call.Type()) && depth < 4 {
				if r := k.evalErrorCall(call, depth+1); r != triUnknown {
					// r: the error is non-nil
					if isEq {
						return r.not()
					}
					return r
				}
			}
		}
	}
	// a field of the object itself compared with its zero value
	if k.zero != nil && (bo.Op == token.EQL || bo.Op == token.NEQ) {
		for _, pair := range [][2]ssa.Value{{bo.X, bo.Y}, {bo.Y, bo.X}} {
			kc, isK := pair[1].(*ssa.Const)
			if !isK {
				continue
			}
			isZ := kc.Value == nil
			if !isZ {
				switch kc.Value.Kind() {
				case constant.Int:
					n, _ := constant.Int64Val(kc.Value)
					isZ = n == 0
				case constant.String:
					isZ = constant.StringVal(kc.Value) == ""
				}
			}
			if !isZ {
				continue
			}
			if _, f, base := loadedField(pair[0]); f != nil && base != nil && k.isTarget(base) {
				if z, has := k.zero[f]; has && z != triUnknown {
					if bo.Op == token.EQL {
						return z
					}
					return z.not()
				}
			}
		}
	}
	// "the other entry gives this property": a field of it compared with its zero value, or its length with 0
	if k.isOther != nil {
		for _, pair := range [][2]ssa.Value{{bo.X, bo.Y}, {bo.Y, bo.X}} {
			zero := false
			switch y := pair[1].(type) {
			case *ssa.Const:
				switch {
				case y.Value == nil:
					zero = true
				case y.Value.Kind() == constant.Int:
					n, _ := constant.Int64Val(y.Value)
					zero = n == 0
				case y.Value.Kind() == constant.String:
					zero = constant.StringVal(y.Value) == ""
				}
			}
			if !zero {
				continue
			}
			src := pair[0]
			isLen := false
			if call, isC := src.(*ssa.Call); isC {
				if bi, isB := call.Call.Value.(*ssa.Builtin); isB && bi.Name() == "len" && len(call.Call.Args) == 1 {
					src, isLen = call.Call.Args[0], true
				}
			}
			_, f, base := loadedField(src)
			if f == nil || base == nil || !k.isOther(base) {
				continue
			}
			g, has := k.given[f]
			if !has || g == triUnknown {
				return triUnknown
			}
			op := bo.Op
			if pair[0] == bo.Y {
				op = map[token.Token]token.Token{token.LSS: token.GTR, token.GTR: token.LSS, token.LEQ: token.GEQ, token.GEQ: token.LEQ, token.EQL: token.EQL, token.NEQ: token.NEQ}[op]
			}
			switch op {
			case token.NEQ, token.GTR:
				return g
			case token.EQL, token.LEQ:
				return g.not()
			case token.GEQ:
				if isLen {
					return triTrue
				}
			case token.LSS:
				if isLen {
					return triFalse
				}
			}
			return triUnknown
		}
	}
	return triUnknown
}

// evalPredicate: the answer of a boolean method of the entry (IsLeaf, IsDir, …) under the fixed facts: the walk is made
// in the method with its receiver as the entry; if every return it can reach answers alike, that is the answer.
func (k *kindFacts) evalPredicate(fn *ssa.Function, depth int) tri {
	if depth > 4 {
		return triUnknown
	}
	recv := fn.Params[0]
	inner := *k
	inner.isOther = nil
	inner.isTarget = func(v ssa.Value) bool {
		if v == ssa.Value(recv) {
			return true
		}
		if ld, isL := v.(*ssa.UnOp); isL && ld.Op == token.MUL {
			if a, isA := ld.X.(*ssa.Alloc); isA && spilledParam(a) == recv {
				return true
			}
		}
		return false
	}
	var out tri
	n := 0
	for _, st := range inner.walk(fn, nil) {
		rt, isR := st.b.Instrs[len(st.b.Instrs)-1].(*ssa.Return)
		if !isR || len(rt.Results) != 1 {
			continue
		}
		r := inner.eval(rt.Results[0], st.b, st.pred, depth+1)
		if r == triUnknown || n > 0 && r != out {
			return triUnknown
		}
		out = r
		n++
	}
	if n == 0 {
		return triUnknown
	}
	return out
}

// evalErrorCall: whether a method of the entry that answers with an error answers with one (true) or with nil
// (false) under the facts; the other entry in play is followed into the parameter it is handed as.
func (k *kindFacts) evalErrorCall(call *ssa.Call, depth int) tri {
	cal := call.Call.StaticCallee()
	if cal == nil || cal.Blocks == nil || !k.c.isRepoFn(cal) || len(call.Call.Args) == 0 || len(cal.Params) != len(call.Call.Args) {
		return triUnknown
	}
	if !k.isTarget(call.Call.Args[0]) {
		return triUnknown
	}
	paramIs := func(v ssa.Value, want func(int) bool) bool {
		for i, p := range cal.Params {
			if !want(i) {
				continue
			}
			if v == ssa.Value(p) {
				return true
			}
			if ld, isL := v.(*ssa.UnOp); isL && ld.Op == token.MUL {
				if a, isA := ld.X.(*ssa.Alloc); isA && spilledParam(a) == p {
					return true
				}
			}
		}
		return false
	}
	inner := *k
	inner.isTarget = func(v ssa.Value) bool {
		return paramIs(v, func(i int) bool { return k.isTarget(call.Call.Args[i]) })
	}
	if k.isOther != nil {
		inner.isOther = func(v ssa.Value) bool {
			return paramIs(v, func(i int) bool { return !k.isTarget(call.Call.Args[i]) && k.isOther(call.Call.Args[i]) })
		}
	}
	var out tri
	n := 0
	for _, st := range inner.walk(cal, nil) {
		rt, isR := st.b.Instrs[len(st.b.Instrs)-1].(*ssa.Return)
		if !isR || len(rt.Results) != 1 {
			continue
		}
		var r tri
		switch {
		case isNilConst(rt.Results[0]):
			r = triFalse
		case definitelyNonNilErr(rt.Results[0]):
			r = triTrue
		default:
			return triUnknown
		}
		if n > 0 && r != out {
			return triUnknown
		}
		out = r
		n++
	}
	if n == 0 {
		return triUnknown
	}
	return out
}

type simState struct{ b, pred *ssa.BasicBlock }

// walk: the (block, predecessor) pairs that control can be in, from the entry of fn, when every branch whose
// condition the facts decide is taken only on the decided side. avoid: blocks not to enter.
func (k *kindFacts) walk(fn *ssa.Function, avoid map[*ssa.BasicBlock]bool) []simState {
	if len(fn.Blocks) == 0 {
		return nil
	}
	return k.walkStates(simState{fn.Blocks[0], nil}, nil, avoid)
}

// walkFrom: the same from block `from` (entered from an unknown predecessor), not going on beyond block `stop`.
func (k *kindFacts) walkFrom(from, stop *ssa.BasicBlock) []simState {
	return k.walkStates(simState{from, nil}, stop, nil)
}

func (k *kindFacts) walkStates(start simState, stop *ssa.BasicBlock, avoid map[*ssa.BasicBlock]bool) []simState {
	seen := map[simState]bool{}
	var order []simState
	stack := []simState{start}
	for len(stack) > 0 {
		st := stack[len(stack)-1]
		stack = stack[:len(stack)-1]
		if seen[st] || avoid[st.b] {
			continue
		}
		seen[st] = true
		order = append(order, st)
		if len(st.b.Instrs) == 0 || st.b == stop && st != start {
			continue
		}
		switch t := st.b.Instrs[len(st.b.Instrs)-1].(type) {
		case *ssa.If:
			switch k.eval(t.Cond, st.b, st.pred, 0) {
			case triTrue:
				stack = append(stack, simState{st.b.Succs[0], st.b})
			case triFalse:
				stack = append(stack, simState{st.b.Succs[1], st.b})
			default:
				stack = append(stack, simState{st.b.Succs[0], st.b}, simState{st.b.Succs[1], st.b})
			}
		default:
			for _, s := range st.b.Succs {
				stack = append(stack, simState{s, st.b})
			}
		}
	}
	return order
}

// reachesInstr: the instruction — in top, or in a private helper below it — can be reached under the facts: every
// frame on the way (the helper's own body, then the body of its caller up to the call, …) is walked.
func (k *kindFacts) reachesInstr(top *ssa.Function, in ssa.Instruction) bool {
	for d := 0; d < 6; d++ {
		if !reachesBlock(k.walk(in.Parent(), nil), in.Block()) {
			return false
		}
		if in.Parent() == top {
			return true
		}
		h := exactHelper(in.Parent())
		if h == nil {
			return true // not under top in a way that is followed: not refuted
		}
		in = h.site
	}
	return true
}

// reaches: some walk state is in block b.
func reachesBlock(states []simState, b *ssa.BasicBlock) bool {
	for _, st := range states {
		if st.b == b {
			return true
		}
	}
	return false
}

// entryKinds: the constants of type EntryKind, by value.
func (c *Ctx) entryKinds() (map[int64]string, []int64) {
	out := map[int64]string{}
	pkg := c.YangPkg()
	kt := c.Named("yang", "EntryKind")
	if pkg == nil || kt == nil {
		return nil, nil
	}
	for _, name := range pkg.Scope().Names() {
		k, isK := pkg.Scope().Lookup(name).(*types.Const)
		if !isK || !types.Identical(k.Type(), kt) {
			continue
		}
		if v, exact := constant.Int64Val(k.Val()); exact {
			out[v] = name
		}
	}
	var vals []int64
	for v := range out {
		vals = append(vals, v)
	}
	sort.Slice(vals, func(i, j int) bool { return vals[i] < vals[j] })
	return out, vals
}

// ---------------------------------------------------------------- DEV.PROPKINDS

func init() {
	register(&Rule{Name: "DEV.PROPKINDS", Props: []string{"C08"}, Floor: 3,
		Doc: "deviate add/replace gives a default, a mandatory, a units or a type to exactly the kinds of node that RFC 7950 lets have one (7.6.1, 7.7.1, 7.9.1, 7.10, 7.11): the conditions in front of the store are evaluated for every entry kind",
		Run: ruleDevPropKinds})
}

// what RFC 7950 allows: kind name (and, for LeafEntry, whether it is a leaf-list) → allowed
var propKindAllowed = map[string]func(kind string, list bool) bool{
	"Default": func(kind string, list bool) bool { return kind == "LeafEntry" || kind == "ChoiceEntry" },
	"Mandatory": func(kind string, list bool) bool {
		return kind == "LeafEntry" && !list || kind == "ChoiceEntry" || kind == "AnyDataEntry" || kind == "AnyXMLEntry"
	},
	"Units": func(kind string, list bool) bool { return kind == "LeafEntry" },
	"Type":  func(kind string, list bool) bool { return kind == "LeafEntry" },
}

func ruleDevPropKinds(c *Ctx) []Obligation {
	const R = "DEV.PROPKINDS"
	m, why := c.devModel()
	if m == nil {
		return []Obligation{undecided(R, "deviation applier model", "-", why)}
	}
	entry := c.MustNamed("yang", "Entry")
	fKind, fListAttr := FieldVar(entry, "Kind"), FieldVar(entry, "ListAttr")
	names, vals := c.entryKinds()
	if fKind == nil || fListAttr == nil || len(vals) < 5 {
		return []Obligation{undecided(R, "entry kinds", "-", "Entry.Kind / Entry.ListAttr / the EntryKind constants not found")}
	}
	isTarget := func(v ssa.Value) bool { return sameObject(resolveArg(v), m.target) }
	isOther := func(v ssa.Value) bool { return !isTarget(v) }
	var obs []Obligation
	for _, prop := range []string{"Default", "Mandatory", "Units", "Type"} {
		fP := FieldVar(entry, prop)
		con := fmt.Sprintf("ApplyDeviate: add/replace gives the target a %s exactly when its kind can have one", lower(prop))
		if fP == nil {
			obs = append(obs, undecided(R, con, "-", "Entry."+prop+" not found"))
			continue
		}
		var stores []*ssa.Store
		for _, st := range c.storesToFieldDeep(m.fn, fP) {
			_, _, base := fieldOf(st.Addr)
			if base == nil || !isTarget(base) || isNilConst(st.Val) || isZero(st.Val) {
				continue
			}
			if ks := m.kindsAt(st.Block()); ks != nil && !ks["add"] && !ks["replace"] {
				continue
			}
			stores = append(stores, st)
		}
		if len(stores) == 0 {
			obs = append(obs, ok(R, con, c.Pos(m.fn.Pos()), "no such store"))
			continue
		}
		var wrong []string
		cases := 0
		for _, kv := range vals {
			for _, list := range []bool{false, true} {
				if list && names[kv] != "LeafEntry" && names[kv] != "ListEntry" {
					continue // list attributes on other kinds do not occur
				}
				cases++
				k := &kindFacts{c: c, fKind: fKind, fListAttr: fListAttr, kind: kv, listAttr: list, isTarget: isTarget, isOther: isOther,
					given: map[*types.Var]tri{fP: triTrue}}
				reached := false
				for _, st := range stores {
					if k.reachesInstr(m.fn, st) {
						reached = true
					}
				}
				want := propKindAllowed[prop](names[kv], list)
				what := names[kv]
				if list {
					what += " with list attributes"
				}
				switch {
				case reached && !want:
					wrong = append(wrong, "admitted on "+what)
				case !reached && want:
					wrong = append(wrong, "refused on "+what)
				}
			}
		}
		if len(wrong) == 0 {
			obs = append(obs, ok(R, con, c.InstrPos(stores[0]), fmt.Sprintf("the conditions in front of the store evaluated for %d kinds of entry: reached exactly for the kinds RFC 7950 allows", cases)))
		} else {
			if len(wrong) > 4 {
				wrong = append(wrong[:4], fmt.Sprintf("… (%d in all)", len(wrong)))
			}
			obs = append(obs, bad(R, con, c.InstrPos(stores[0]), fmt.Sprintf("with the deviate statement giving a %s, the store is %s: the deviation is accepted on (or refused for) a node that RFC 7950 says otherwise about", lower(prop), joinStrings(wrong, ", "))))
		}
	}
	// and the other way round: a statement that gives none of the three is not refused on account of the kind — the
	// store of its config (which every kind of data node can have) is reached for every kind
	if fC := FieldVar(entry, "Config"); fC != nil {
		con := "ApplyDeviate: add/replace of a statement that gives no default, mandatory, units or type is not refused for the kind of its target"
		var stores []*ssa.Store
		for _, st := range c.storesToFieldDeep(m.fn, fC) {
			_, _, base := fieldOf(st.Addr)
			if base == nil || !isTarget(base) {
				continue
			}
			if ks := m.kindsAt(st.Block()); ks != nil && !ks["add"] && !ks["replace"] {
				continue
			}
			stores = append(stores, st)
		}
		given := map[*types.Var]tri{}
		for _, prop := range []string{"Default", "Mandatory", "Units", "Type"} {
			if f := FieldVar(entry, prop); f != nil {
				given[f] = triFalse
			}
		}
		var wrong []string
		for _, kv := range vals {
			k := &kindFacts{c: c, fKind: fKind, fListAttr: fListAttr, kind: kv, isTarget: isTarget, isOther: isOther, given: given}
			reached := false
			for _, st := range stores {
				if k.reachesInstr(m.fn, st) {
					reached = true
				}
			}
			if !reached {
				wrong = append(wrong, names[kv])
			}
		}
		switch {
		case len(stores) == 0:
			obs = append(obs, undecided(R, con, c.Pos(m.fn.Pos()), "no store of the target's config in the add/replace arm to take as the witness"))
		case len(wrong) == 0:
			obs = append(obs, ok(R, con, c.InstrPos(stores[0]), fmt.Sprintf("with none of them given, the store of the config is reached for each of the %d kinds", len(vals))))
		default:
			obs = append(obs, bad(R, con, c.InstrPos(stores[0]), "with none of them given the statement is still refused on "+joinStrings(wrong, ", ")+": a deviation of something else (config, min-elements, …) is reported as a deviation of a property it does not mention"))
		}
	}
	return obs
}

func lower(s string) string {
	if s == "" {
		return s
	}
	b := []byte(s)
	if b[0] >= 'A' && b[0] <= 'Z' {
		b[0] += 'a' - 'A'
	}
	return string(b)
}

func joinStrings(xs []string, sep string) string {
	out := ""
	for i, x := range xs {
		if i > 0 {
			out += sep
		}
		out += x
	}
	return out
}

// ---------------------------------------------------------------- KIND.PREDICATES

func init() {
	register(&Rule{Name: "KIND.PREDICATES", Props: []string{"C04", "C08", "C12"}, Floor: 6,
		Doc: "the predicates of Entry (IsLeaf, IsLeafList, IsList, IsContainer, IsChoice, IsCase) answer for every shape of entry the tree builder makes — kind, list attributes or none, a child map or none — what their names say: each is evaluated over those shapes",
		Run: ruleKindPredicates})
}

func ruleKindPredicates(c *Ctx) []Obligation {
	const R = "KIND.PREDICATES"
	entry := c.Named("yang", "Entry")
	if entry == nil {
		return []Obligation{undecided(R, "entry predicates", "-", "Entry not found")}
	}
	fKind, fListAttr, fDir := FieldVar(entry, "Kind"), FieldVar(entry, "ListAttr"), FieldVar(entry, "Dir")
	names, _ := c.entryKinds()
	val := map[string]int64{}
	for v, n := range names {
		val[n] = v
	}
	if fKind == nil || fListAttr == nil || fDir == nil || len(val) < 5 {
		return []Obligation{undecided(R, "entry predicates", "-", "Entry.Kind / ListAttr / Dir / the EntryKind constants not found")}
	}
	// the shapes ToEntry makes: (kind, has list attributes, has a child map) and what they are
	type shape struct {
		kind      string
		list, dir bool
		is        string
	}
	shapes := []shape{
		{"LeafEntry", false, false, "leaf"},
		{"LeafEntry", true, false, "leaf-list"},
		{"DirectoryEntry", true, true, "list"},
		{"DirectoryEntry", false, true, "container"},
		{"ChoiceEntry", false, true, "choice"},
		{"CaseEntry", false, true, "case"},
		{"AnyDataEntry", false, false, "anydata"},
		{"AnyXMLEntry", false, false, "anyxml"},
		{"InputEntry", false, true, "input"},
		{"OutputEntry", false, true, "output"},
		{"NotificationEntry", false, true, "notification"},
	}
	var obs []Obligation
	for _, pr := range []struct{ method, is string }{
		{"IsLeaf", "leaf"}, {"IsLeafList", "leaf-list"}, {"IsList", "list"}, {"IsContainer", "container"}, {"IsChoice", "choice"}, {"IsCase", "case"},
	} {
		fn := c.Fn("yang.(*Entry)." + pr.method)
		con := fmt.Sprintf("(*Entry).%s holds exactly for a %s", pr.method, pr.is)
		if fn == nil || len(fn.Params) == 0 {
			obs = append(obs, undecided(R, con, "-", "method not found"))
			continue
		}
		var wrong []string
		n := 0
		for _, sh := range shapes {
			kv, has := val[sh.kind]
			if !has {
				continue
			}
			n++
			k := &kindFacts{c: c, fKind: fKind, fListAttr: fListAttr, kind: kv, listAttr: sh.list,
				zero:     map[*types.Var]tri{fDir: triOf(!sh.dir)},
				isTarget: func(ssa.Value) bool { return false }}
			got := k.evalPredicate(fn, 0)
			want := triOf(sh.is == pr.is)
			switch {
			case got == triUnknown:
				wrong = append(wrong, "undecided for a "+sh.is)
			case got != want && want == triTrue:
				wrong = append(wrong, "false for a "+sh.is)
			case got != want:
				wrong = append(wrong, "true for a "+sh.is)
			}
		}
		switch {
		case len(wrong) == 0:
			obs = append(obs, ok(R, con, c.Pos(fn.Pos()), fmt.Sprintf("evaluated for the %d shapes of entry the builder makes", n)))
		default:
			und := true
			for _, w := range wrong {
				if len(w) < 9 || w[:9] != "undecided" {
					und = false
				}
			}
			if und {
				obs = append(obs, undecided(R, con, c.Pos(fn.Pos()), "the predicate is written in terms this evaluation does not read: "+joinStrings(wrong, ", ")))
			} else {
				obs = append(obs, bad(R, con, c.Pos(fn.Pos()), "the predicate is "+joinStrings(wrong, ", ")+": everything that branches on it (deviation checks, default handling, printing, clients) takes one kind of node for another"))
			}
		}
	}
	return obs
}

// Command mutgen2 enumerates and applies type-aware mutations (second family) to one package of a worktree:
//
//	mutgen2 -repo <worktree> -pkg ./pkg/yang -list
//	mutgen2 -repo <worktree> -pkg ./pkg/yang -apply <id>
//
// Kinds: swap-field (x.F → x.G, G the next field of the same struct with an identical type: the copy-paste slip);
// swap-args (two adjacent call arguments of identical type exchanged); del-case (one non-default clause of a switch
// removed); ret-nil-err (an error / []error result replaced by nil); swap-stmt (two adjacent simple statements
// exchanged). Used by tools/mutation_sweep.sh with FAMILY=2.
package main

import (
	"bytes"
	"flag"
	"fmt"
	"go/ast"
	"go/format"
	"go/token"
	"go/types"
	"os"
	"path/filepath"
	"sort"
	"strings"

	"golang.org/x/tools/go/packages"
)

type point struct {
	file   string
	line   int
	kind   string
	detail string
	apply  func()
	syntax *ast.File
}

func isErrType(t types.Type) bool {
	if t == nil {
		return false
	}
	if types.Identical(t, types.Universe.Lookup("error").Type()) {
		return true
	}
	if s, ok := t.Underlying().(*types.Slice); ok {
		return types.Identical(s.Elem(), types.Universe.Lookup("error").Type())
	}
	return false
}

func main() {
	repo := flag.String("repo", "", "worktree root")
	pkgPat := flag.String("pkg", "./pkg/yang", "package pattern")
	list := flag.Bool("list", false, "list mutation points")
	applyID := flag.Int("apply", -1, "apply mutation with this id")
	family := flag.Int("family", 2, "2: sibling fields/arguments/cases/error results/statements; 3: sibling local variables, dropped conjuncts")
	flag.Parse()
	cfg := &packages.Config{Mode: packages.NeedName | packages.NeedFiles | packages.NeedSyntax | packages.NeedTypes | packages.NeedTypesInfo | packages.NeedImports | packages.NeedDeps, Dir: *repo}
	pkgs, err := packages.Load(cfg, *pkgPat)
	if err != nil || len(pkgs) != 1 || len(pkgs[0].Errors) > 0 {
		fmt.Fprintln(os.Stderr, "load failed:", err, len(pkgs))
		if len(pkgs) > 0 {
			fmt.Fprintln(os.Stderr, pkgs[0].Errors)
		}
		os.Exit(2)
	}
	pkg := pkgs[0]
	info := pkg.TypesInfo
	fset := pkg.Fset
	var pts []point
	files := append([]*ast.File{}, pkg.Syntax...)
	sort.Slice(files, func(i, j int) bool { return fset.File(files[i].Pos()).Name() < fset.File(files[j].Pos()).Name() })
	for _, f := range files {
		fname := fset.File(f.Pos()).Name()
		if strings.HasSuffix(fname, "_test.go") {
			continue
		}
		ff := f
		add := func(n ast.Node, kind, detail string, ap func()) {
			pts = append(pts, point{fname, fset.Position(n.Pos()).Line, kind, detail, ap, ff})
		}
		if *family == 3 {
			family3(f, info, pkg.Types, add)
			continue
		}
		if *family == 4 {
			family4(f, info, pkg.Types, add)
			continue
		}
		ast.Inspect(f, func(n ast.Node) bool {
			switch x := n.(type) {
			case *ast.SelectorExpr:
				sel := info.Selections[x]
				if sel == nil || sel.Kind() != types.FieldVal || len(sel.Index()) != 1 {
					return true
				}
				recv := sel.Recv()
				if p, ok := recv.Underlying().(*types.Pointer); ok {
					recv = p.Elem()
				}
				st, ok := recv.Underlying().(*types.Struct)
				if !ok {
					return true
				}
				cur := sel.Index()[0]
				for d := 1; d < st.NumFields(); d++ {
					g := st.Field((cur + d) % st.NumFields())
					if g.Name() == "_" || !types.Identical(g.Type(), st.Field(cur).Type()) {
						continue
					}
					if !g.Exported() && g.Pkg() != pkg.Types {
						continue
					}
					xx, from, to := x, x.Sel.Name, g.Name()
					add(x, "swap-field", from+"→"+to, func() { xx.Sel = ast.NewIdent(to) })
					break
				}
			case *ast.CallExpr:
				if x.Ellipsis.IsValid() {
					return true
				}
				for i := 0; i+1 < len(x.Args); i++ {
					ta, tb := info.TypeOf(x.Args[i]), info.TypeOf(x.Args[i+1])
					if ta == nil || tb == nil || !types.Identical(ta, tb) {
						continue
					}
					var ba, bb bytes.Buffer
					format.Node(&ba, fset, x.Args[i])
					format.Node(&bb, fset, x.Args[i+1])
					if ba.String() == bb.String() {
						continue
					}
					xx, ii := x, i
					add(x, "swap-args", fmt.Sprintf("#%d↔#%d", i, i+1), func() { xx.Args[ii], xx.Args[ii+1] = xx.Args[ii+1], xx.Args[ii] })
					break
				}
			case *ast.SwitchStmt:
				for i, c := range x.Body.List {
					if cc, ok := c.(*ast.CaseClause); ok && cc.List != nil {
						bb, ii := x.Body, i
						add(cc, "del-case", "", func() { bb.List = append(append([]ast.Stmt{}, bb.List[:ii]...), bb.List[ii+1:]...) })
					}
				}
			case *ast.TypeSwitchStmt:
				for i, c := range x.Body.List {
					if cc, ok := c.(*ast.CaseClause); ok && cc.List != nil {
						bb, ii := x.Body, i
						add(cc, "del-case", "type", func() { bb.List = append(append([]ast.Stmt{}, bb.List[:ii]...), bb.List[ii+1:]...) })
					}
				}
			case *ast.ReturnStmt:
				for i, r := range x.Results {
					if id, ok := r.(*ast.Ident); ok && id.Name == "nil" {
						continue
					}
					if isErrType(info.TypeOf(r)) {
						xx, ii := x, i
						add(r, "ret-nil-err", "", func() { xx.Results[ii] = ast.NewIdent("nil") })
					}
				}
			case *ast.BlockStmt:
				simple := func(s ast.Stmt) bool {
					switch y := s.(type) {
					case *ast.AssignStmt:
						return y.Tok != token.DEFINE
					case *ast.ExprStmt, *ast.IncDecStmt:
						return true
					}
					return false
				}
				for i := 0; i+1 < len(x.List); i++ {
					if simple(x.List[i]) && simple(x.List[i+1]) {
						bb, ii := x, i
						add(x.List[i], "swap-stmt", "", func() { bb.List[ii], bb.List[ii+1] = bb.List[ii+1], bb.List[ii] })
					}
				}
			}
			return true
		})
	}
	if *list {
		for i, p := range pts {
			fmt.Printf("%d\t%s:%d\t%s\t%s\n", i, filepath.Base(p.file), p.line, p.kind, p.detail)
		}
		return
	}
	if *applyID < 0 || *applyID >= len(pts) {
		fmt.Fprintln(os.Stderr, "bad id")
		os.Exit(2)
	}
	p := pts[*applyID]
	p.apply()
	var buf bytes.Buffer
	if err := format.Node(&buf, fset, p.syntax); err != nil {
		fmt.Fprintln(os.Stderr, err)
		os.Exit(2)
	}
	if err := os.WriteFile(p.file, buf.Bytes(), 0o644); err != nil {
		fmt.Fprintln(os.Stderr, err)
		os.Exit(2)
	}
	fmt.Printf("%s:%d %s %s\n", filepath.Base(p.file), p.line, p.kind, p.detail)
}

// family3: swap-ident (a use of a local variable or parameter replaced by the nearest other local of identical type that
// is in scope) and drop-conjunct (a && b → a, → b; a || b → a, → b).
func family3(f *ast.File, info *types.Info, pkg *types.Package, add func(ast.Node, string, string, func())) {
	// identifiers that must not be replaced: declarations, assignment targets of :=, selector names, labels, keys
	skip := map[*ast.Ident]bool{}
	ast.Inspect(f, func(n ast.Node) bool {
		switch x := n.(type) {
		case *ast.SelectorExpr:
			skip[x.Sel] = true
		case *ast.AssignStmt:
			for _, l := range x.Lhs {
				if id, ok := l.(*ast.Ident); ok {
					skip[id] = true
				}
			}
		case *ast.KeyValueExpr:
			if id, ok := x.Key.(*ast.Ident); ok {
				skip[id] = true
			}
		case *ast.RangeStmt:
			if id, ok := x.Key.(*ast.Ident); ok {
				skip[id] = true
			}
			if id, ok := x.Value.(*ast.Ident); ok {
				skip[id] = true
			}
		case *ast.IncDecStmt:
			if id, ok := x.X.(*ast.Ident); ok {
				skip[id] = true
			}
		}
		return true
	})
	ast.Inspect(f, func(n ast.Node) bool {
		switch x := n.(type) {
		case *ast.BinaryExpr:
			if x.Op == token.LAND || x.Op == token.LOR {
				xx := x
				l, r := x.X, x.Y
				add(x, "drop-conjunct", "keep left of "+x.Op.String(), func() { *xx = ast.BinaryExpr{X: l, Op: token.LAND, Y: ast.NewIdent("true")} })
				add(x, "drop-conjunct", "keep right of "+x.Op.String(), func() { *xx = ast.BinaryExpr{X: ast.NewIdent("true"), Op: token.LAND, Y: r} })
			}
		case *ast.Ident:
			if skip[x] {
				return true
			}
			v, ok := info.Uses[x].(*types.Var)
			if !ok || v.IsField() || v.Pkg() != pkg || v.Parent() == pkg.Scope() || v.Parent() == nil {
				return true
			}
			// candidates: other locals of identical type visible at this position, nearest declaration first
			var best *types.Var
			for sc := pkg.Scope().Innermost(x.Pos()); sc != nil && sc != pkg.Scope(); sc = sc.Parent() {
				for _, name := range sc.Names() {
					o, isVar := sc.Lookup(name).(*types.Var)
					if !isVar || o == v || name == "_" || o.Pos() >= x.Pos() || !types.Identical(o.Type(), v.Type()) {
						continue
					}
					if _, inner := pkg.Scope().Innermost(x.Pos()).LookupParent(name, x.Pos()); inner != o {
						continue // shadowed at the use
					}
					if best == nil || o.Pos() > best.Pos() {
						best = o
					}
				}
			}
			if best != nil {
				xx, from, to := x, x.Name, best.Name()
				add(x, "swap-ident", from+"→"+to, func() { xx.Name = to })
			}
		}
		return true
	})
}

// family4: swap-case (the label lists of two adjacent clauses of a switch exchanged) and swap-const (a use of a named
// constant replaced by the next constant of the same type declared in the package: InputEntry ↔ OutputEntry).
func family4(f *ast.File, info *types.Info, pkg *types.Package, add func(ast.Node, string, string, func())) {
	// constants of the package by type, in declaration order
	byType := map[string][]*types.Const{}
	for _, name := range pkg.Scope().Names() {
		if k, ok := pkg.Scope().Lookup(name).(*types.Const); ok {
			if _, named := k.Type().(*types.Named); named {
				byType[k.Type().String()] = append(byType[k.Type().String()], k)
			}
		}
	}
	for _, ks := range byType {
		sort.Slice(ks, func(i, j int) bool { return ks[i].Pos() < ks[j].Pos() })
	}
	ast.Inspect(f, func(n ast.Node) bool {
		switch x := n.(type) {
		case *ast.SwitchStmt:
			var clauses []*ast.CaseClause
			for _, c := range x.Body.List {
				if cc, ok := c.(*ast.CaseClause); ok && cc.List != nil {
					clauses = append(clauses, cc)
				}
			}
			for i := 0; i+1 < len(clauses); i++ {
				a, b := clauses[i], clauses[i+1]
				add(a, "swap-case", "", func() { a.List, b.List = b.List, a.List })
			}
		case *ast.Ident:
			k, ok := info.Uses[x].(*types.Const)
			if !ok || k.Pkg() != pkg {
				return true
			}
			ks := byType[k.Type().String()]
			for i, c := range ks {
				if c == k && len(ks) > 1 {
					to := ks[(i+1)%len(ks)]
					xx, from := x, x.Name
					add(x, "swap-const", from+"→"+to.Name(), func() { xx.Name = to.Name() })
				}
			}
		}
		return true
	})
}

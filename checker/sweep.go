package main

// sweep.go: the sensitivity sweep of the thorough tier. Every variant under /verif/selftest/mutants and
// /verif/seeded that belongs to the property is applied to the CURRENT tree in memory (a go/packages overlay;
// nothing is written to disk), the property's rules are re-run in a child process, and the variant counts as
// detected when that run reports a violation. The sweep is evidence about the power of the check on today's tree:
// it never changes the exit code of a registered command (the tree under evaluation may differ from the one the
// variants were written for — such variants do not apply and are counted as skipped).

import (
	"bufio"
	"encoding/json"
	"fmt"
	"os"
	"os/exec"
	"path/filepath"
	"regexp"
	"sort"
	"strconv"
	"strings"
	"sync"
)

type hunk struct {
	oldStart int
	lines    []string // with their ' ', '-', '+' prefix
}

// parseUnifiedDiff returns file (relative, b/ side) → hunks.
func parseUnifiedDiff(text string) (map[string][]hunk, error) {
	out := map[string][]hunk{}
	var cur string
	var h *hunk
	re := regexp.MustCompile(`^@@ -(\d+)(?:,\d+)? \+\d+(?:,\d+)? @@`)
	flush := func() {
		if h != nil && cur != "" {
			out[cur] = append(out[cur], *h)
		}
		h = nil
	}
	sc := bufio.NewScanner(strings.NewReader(text))
	sc.Buffer(make([]byte, 1<<20), 1<<24)
	for sc.Scan() {
		l := sc.Text()
		switch {
		case strings.HasPrefix(l, "diff --git "):
			flush()
			cur = ""
		case strings.HasPrefix(l, "--- "):
			flush()
		case strings.HasPrefix(l, "+++ "):
			p := strings.TrimPrefix(l, "+++ ")
			p = strings.TrimPrefix(p, "b/")
			if p == "/dev/null" {
				return nil, fmt.Errorf("file deletion not supported")
			}
			cur = p
		case re.MatchString(l):
			flush()
			m := re.FindStringSubmatch(l)
			n, _ := strconv.Atoi(m[1])
			h = &hunk{oldStart: n}
		case h != nil && (strings.HasPrefix(l, " ") || strings.HasPrefix(l, "-") || strings.HasPrefix(l, "+")):
			h.lines = append(h.lines, l)
		case h != nil && l == "":
			h.lines = append(h.lines, " ")
		case strings.HasPrefix(l, "\\ No newline"):
		}
	}
	flush()
	if len(out) == 0 {
		return nil, fmt.Errorf("no hunks")
	}
	return out, nil
}

// applyHunks applies the hunks to src; every context and removed line must match exactly (like git apply).
// A hunk may be found a few lines away from where it says (earlier hunks / edits shift it).
func applyHunks(src string, hs []hunk) (string, error) {
	lines := strings.Split(src, "\n")
	sort.Slice(hs, func(i, j int) bool { return hs[i].oldStart < hs[j].oldStart })
	var out []string
	pos := 0 // index into lines
	for _, h := range hs {
		var old []string
		for _, l := range h.lines {
			if l[0] == ' ' || l[0] == '-' {
				old = append(old, l[1:])
			}
		}
		at := -1
		want := h.oldStart - 1
		for d := 0; d <= 400 && at < 0; d++ {
			for _, cand := range []int{want + d, want - d} {
				if cand < pos || cand+len(old) > len(lines) {
					continue
				}
				match := true
				for i := range old {
					if lines[cand+i] != old[i] {
						match = false
						break
					}
				}
				if match {
					at = cand
					break
				}
			}
		}
		if at < 0 {
			return "", fmt.Errorf("hunk at line %d does not apply", h.oldStart)
		}
		out = append(out, lines[pos:at]...)
		for _, l := range h.lines {
			if l[0] == ' ' || l[0] == '+' {
				out = append(out, l[1:])
			}
		}
		pos = at + len(old)
	}
	out = append(out, lines[pos:]...)
	return strings.Join(out, "\n"), nil
}

// overlayFromDiff builds the go/packages overlay for a unified diff against repo.
func overlayFromDiff(repo, diffPath string) (map[string][]byte, error) {
	b, err := os.ReadFile(diffPath)
	if err != nil {
		return nil, err
	}
	files, err := parseUnifiedDiff(string(b))
	if err != nil {
		return nil, err
	}
	ov := map[string][]byte{}
	for f, hs := range files {
		if strings.HasSuffix(f, "_test.go") {
			continue
		}
		abs := filepath.Join(repo, f)
		src, err := os.ReadFile(abs)
		if err != nil {
			return nil, err
		}
		res, err := applyHunks(string(src), hs)
		if err != nil {
			return nil, fmt.Errorf("%s: %v", f, err)
		}
		ov[abs] = []byte(res)
	}
	return ov, nil
}

type variant struct {
	Name   string `json:"name"`
	Diff   string `json:"-"`
	Expect string `json:"expected_rule,omitempty"`
	Origin string `json:"origin"`
}

// variantsFor lists the variants that belong to a property: own variants whose expected rule is one of the
// property's rules, and independently seeded changes written against that property.
func variantsFor(verif, prop string, rules []*Rule) []variant {
	var out []variant
	inProp := func(rule string) bool {
		for _, r := range rules {
			if r.Name == rule || strings.HasPrefix(r.Name, rule+".") || (strings.HasSuffix(rule, ".") && strings.HasPrefix(r.Name, rule)) {
				return true
			}
		}
		return false
	}
	if b, err := os.ReadFile(filepath.Join(verif, "selftest", "mutants", "EXPECT")); err == nil {
		for _, l := range strings.Split(string(b), "\n") {
			f := strings.Fields(l)
			if len(f) != 2 || !inProp(f[1]) {
				continue
			}
			out = append(out, variant{Name: f[0], Diff: filepath.Join(verif, "selftest", "mutants", f[0]+".diff"), Expect: f[1], Origin: "own variant"})
		}
	}
	dirs, _ := filepath.Glob(filepath.Join(verif, "seeded", "*", "meta.json"))
	for _, mp := range dirs {
		b, err := os.ReadFile(mp)
		if err != nil {
			continue
		}
		var meta struct {
			ID       string `json:"id"`
			Property string `json:"property"`
		}
		if json.Unmarshal(b, &meta) != nil || meta.Property != prop {
			continue
		}
		out = append(out, variant{Name: "seeded-" + meta.ID, Diff: filepath.Join(filepath.Dir(mp), "patch.diff"), Origin: "independent seed"})
	}
	sort.Slice(out, func(i, j int) bool { return out[i].Name < out[j].Name })
	return out
}

type sweepResult struct {
	Applicable int      `json:"variants_applicable"`
	Detected   int      `json:"detected"`
	Missed     []string `json:"missed"`
	Skipped    []string `json:"skipped_do_not_apply_to_this_tree"`
	Broken     []string `json:"skipped_do_not_type_check"`
	Note       string   `json:"note"`
}

// runSweep re-runs the property's rules on every variant, each in a child process, 8 at a time.
func runSweep(prop string, rules []*Rule) sweepResult {
	vs := variantsFor(*flagVerif, prop, rules)
	res := sweepResult{Note: "each variant is applied to the current tree in memory (go/packages overlay) and the property's rules are re-run in a child process; informational: the exit code of the check is decided by the rules on the unchanged tree alone"}
	type outcome struct {
		v    variant
		code int // 0 silent, 1 violation, 2 broken, 3 does not apply
	}
	ch := make(chan outcome, len(vs))
	sem := make(chan struct{}, 8)
	var wg sync.WaitGroup
	for _, v := range vs {
		wg.Add(1)
		go func(v variant) {
			defer wg.Done()
			sem <- struct{}{}
			defer func() { <-sem }()
			if _, err := overlayFromDiff(*flagRepo, v.Diff); err != nil {
				ch <- outcome{v, 3}
				return
			}
			cmd := exec.Command(os.Args[0], "-prop", prop, "-tier", "quick", "-repo", *flagRepo, "-verif", *flagVerif, "-no-evidence", "-overlay", v.Diff)
			cmd.Env = append(os.Environ(), "VERIF_TIER=quick")
			err := cmd.Run()
			code := 0
			if ee, isEE := err.(*exec.ExitError); isEE {
				code = ee.ExitCode()
			} else if err != nil {
				code = 2
			}
			ch <- outcome{v, code}
		}(v)
	}
	wg.Wait()
	close(ch)
	for o := range ch {
		switch o.code {
		case 3:
			res.Skipped = append(res.Skipped, o.v.Name)
		case 2:
			res.Broken = append(res.Broken, o.v.Name)
		case 1:
			res.Applicable++
			res.Detected++
		default:
			res.Applicable++
			res.Missed = append(res.Missed, o.v.Name)
		}
	}
	sort.Strings(res.Missed)
	sort.Strings(res.Skipped)
	sort.Strings(res.Broken)
	return res
}

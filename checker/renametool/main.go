// Command renametool renames one function, method or struct field of the repository in place (all packages,
// test files included), resolving identifiers with go/types. It exists to produce behaviour-preserving controls:
//
//	renametool -dir <worktree> -kind func  -name 'yang.(*Modules).add' -to addModule
//	renametool -dir <worktree> -kind field -name 'yang.lexer.tcol'     -to tabCol
package main

import (
	"flag"
	"fmt"
	"go/ast"
	"go/token"
	"go/types"
	"os"
	"sort"
	"strings"

	"golang.org/x/tools/go/packages"
)

func main() {
	dir := flag.String("dir", "", "worktree")
	kind := flag.String("kind", "func", "func|field")
	name := flag.String("name", "", "yang.(*T).m | yang.f | yang.T.field")
	to := flag.String("to", "", "new identifier")
	flag.Parse()
	env := append(os.Environ(), "GOFLAGS=-mod=mod", "GOPROXY=off", "GOSUMDB=off", "GOTOOLCHAIN=local", "GOWORK=off")
	cfg := &packages.Config{Mode: packages.LoadAllSyntax, Dir: *dir, Env: env, Tests: true}
	pkgs, err := packages.Load(cfg, "./...")
	if err != nil || len(pkgs) == 0 {
		fmt.Fprintln(os.Stderr, "load failed:", err)
		os.Exit(2)
	}
	// find the object in a non-test variant of its package
	var target types.Object
	short := func(path string) string {
		if !strings.Contains(path, "/pkg/") {
			return "main"
		}
		return path[strings.LastIndex(path, "/")+1:]
	}
	parts := strings.SplitN(*name, ".", 2)
	for _, p := range pkgs {
		if short(p.PkgPath) != parts[0] || strings.HasSuffix(p.ID, ".test") || strings.Contains(p.ID, "[") {
			continue
		}
		sc := p.Types.Scope()
		rest := parts[1]
		switch *kind {
		case "func":
			if strings.HasPrefix(rest, "(") {
				// (*T).m or (T).m
				i := strings.Index(rest, ").")
				tn := strings.TrimPrefix(strings.TrimPrefix(rest[1:i], "*"), "")
				m := rest[i+2:]
				if o, isT := sc.Lookup(tn).(*types.TypeName); isT {
					if named, isN := o.Type().(*types.Named); isN {
						for k := 0; k < named.NumMethods(); k++ {
							if named.Method(k).Name() == m {
								target = named.Method(k)
							}
						}
					}
				}
			} else {
				target = sc.Lookup(rest)
			}
		case "type":
			if o, isT := sc.Lookup(rest).(*types.TypeName); isT {
				target = o
			}
		case "field":
			tf := strings.SplitN(rest, ".", 2)
			if o, isT := sc.Lookup(tf[0]).(*types.TypeName); isT {
				if st, isS := o.Type().Underlying().(*types.Struct); isS {
					for k := 0; k < st.NumFields(); k++ {
						if st.Field(k).Name() == tf[1] {
							target = st.Field(k)
						}
					}
				}
			}
		}
	}
	if target == nil {
		fmt.Fprintln(os.Stderr, "object not found:", *name)
		os.Exit(2)
	}
	tpos := target.Pos()
	tfile := pkgs[0].Fset.Position(tpos)
	// collect identifier offsets per file, in every package variant (the same source file is type-checked several
	// times with Tests:true; identify the object by its declaration position)
	edits := map[string]map[int]bool{}
	for _, p := range pkgs {
		for i, f := range p.Syntax {
			fname := p.CompiledGoFiles[i]
			ast.Inspect(f, func(n ast.Node) bool {
				id, isId := n.(*ast.Ident)
				if !isId {
					return true
				}
				var o types.Object
				if d := p.TypesInfo.Defs[id]; d != nil {
					o = d
				} else if u := p.TypesInfo.Uses[id]; u != nil {
					o = u
				}
				if o == nil || o.Name() != target.Name() {
					return true
				}
				if p.Fset.Position(o.Pos()) == tfile {
					if edits[fname] == nil {
						edits[fname] = map[int]bool{}
					}
					edits[fname][p.Fset.Position(id.Pos()).Offset] = true
				}
				return true
			})
		}
	}
	// struct literal keys (Field: value) are Uses of the field object: covered above.
	n := 0
	for fname, offs := range edits {
		b, err := os.ReadFile(fname)
		if err != nil {
			continue
		}
		var list []int
		for o := range offs {
			list = append(list, o)
		}
		sort.Sort(sort.Reverse(sort.IntSlice(list)))
		for _, o := range list {
			if string(b[o:o+len(target.Name())]) != target.Name() {
				continue
			}
			b = append(b[:o], append([]byte(*to), b[o+len(target.Name()):]...)...)
			n++
		}
		os.WriteFile(fname, b, 0o644)
	}
	_ = token.NoPos
	fmt.Printf("renamed %s -> %s (%d identifiers in %d files)\n", *name, *to, n, len(edits))
}

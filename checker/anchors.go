package main

// anchors.go: renaming an unexported function or field is the commonest behaviour-preserving edit, and several
// rules (and every reasoned-exception key) name such identifiers. To keep them stable, the checker carries a
// *print* of every repo function and struct field as of the tree it was written for (anchors_gen.go: signature /
// type and a bag of what the function touches / who touches the field). When a recorded name is missing from the
// analysed tree, it is matched to the unrecorded function (same package, receiver and signature) or field (same
// owner and type) whose bag is most similar, and from then on the analysed object answers to its recorded name:
// Fn/FieldVar find it, FnName/fieldKey print the recorded name, so obligation keys, justifications and known
// findings keep matching. A rename that cannot be matched unambiguously is left alone (the rules then report
// `undecided`, as before). Matches are listed in the evidence (`renamed_anchors`).

import (
	"fmt"
	"go/types"
	"os"
	"sort"
	"strings"

	"golang.org/x/tools/go/ssa"
)

type fnPrint struct {
	Sig  string
	Toks []string
}

type fieldPrint struct {
	Type  string
	Users []string
}

var fnAlias = map[*ssa.Function]string{}     // analysed function → recorded name
var fieldAlias = map[*types.Var]string{}     // analysed field → recorded field name
var typeAlias = map[*types.TypeName]string{} // analysed named type → recorded name
var renamedAnchors []string                  // human-readable list for the evidence

func sigString(fn *ssa.Function) string {
	return types.TypeString(fn.Signature, func(p *types.Package) string { return p.Name() })
}

func (c *Ctx) fnTokens(fn *ssa.Function) []string {
	set := map[string]bool{}
	var visit func(f *ssa.Function)
	visit = func(f *ssa.Function) {
		eachInstr(f, func(in ssa.Instruction) {
			switch x := in.(type) {
			case ssa.CallInstruction:
				if cal := x.Common().StaticCallee(); cal != nil {
					if cal.Parent() == nil {
						set["call:"+cal.Name()] = true
					}
				} else if x.Common().IsInvoke() {
					set["invoke:"+x.Common().Method.Name()] = true
				} else if b, isB := x.Common().Value.(*ssa.Builtin); isB {
					set["builtin:"+b.Name()] = true
				}
			case *ssa.FieldAddr:
				if owner, f2, _ := fieldOf(x); f2 != nil && owner != nil {
					set["field:"+objName(owner.Obj())+"."+f2.Name()] = true
				}
			case *ssa.Field:
				if owner, f2, _ := fieldOf(x); f2 != nil && owner != nil {
					set["field:"+objName(owner.Obj())+"."+f2.Name()] = true
				}
			}
			for _, op := range in.Operands(nil) {
				if k, isK := (*op).(*ssa.Const); isK && k.Value != nil {
					if s, isS := constString(k); isS && len(s) > 2 && len(s) < 60 {
						set["str:"+s] = true
					}
				}
			}
		})
		for _, an := range f.AnonFuncs {
			visit(an)
		}
	}
	visit(fn)
	var out []string
	for k := range set {
		out = append(out, k)
	}
	sort.Strings(out)
	return out
}

func jaccard(a, b []string) float64 {
	if len(a) == 0 && len(b) == 0 {
		return 1
	}
	sa := map[string]bool{}
	for _, x := range a {
		sa[x] = true
	}
	inter, union := 0, len(sa)
	for _, x := range b {
		if sa[x] {
			inter++
		} else {
			union++
		}
	}
	if union == 0 {
		return 0
	}
	return float64(inter) / float64(union)
}

func rawFnName(c *Ctx, fn *ssa.Function) string {
	pk := ""
	if fn.Pkg != nil {
		pk = shortPkg(fn.Pkg.Pkg.Path())
	}
	if recv := fn.Signature.Recv(); recv != nil {
		return pk + ".(" + canonTypeNames(types.TypeString(recv.Type(), func(*types.Package) string { return "" })) + ")." + fn.Name()
	}
	return pk + "." + fn.Name()
}

// prefixOf: "yang.(*Entry)." / "yang." — package and receiver of a recorded or analysed name.
func prefixOf(name string) string {
	if i := strings.LastIndex(name, "."); i >= 0 {
		return name[:i+1]
	}
	return ""
}

// matchRenamedAnchors runs once per Load, after the functions have been indexed by their raw names.
func (c *Ctx) matchRenamedAnchors() {
	fnAlias = map[*ssa.Function]string{}
	fieldAlias = map[*types.Var]string{}
	if len(anchorFnPrints) == 0 {
		return
	}
	// functions
	var missing []string
	for name := range anchorFnPrints {
		if c.fnByName[name] == nil {
			missing = append(missing, name)
		}
	}
	sort.Strings(missing)
	var fresh []*ssa.Function
	for _, fn := range c.Funcs {
		if fn.Parent() != nil {
			continue
		}
		if _, recorded := anchorFnPrints[rawFnName(c, fn)]; !recorded {
			fresh = append(fresh, fn)
		}
	}
	taken := map[*ssa.Function]bool{}
	for _, name := range missing {
		pr := anchorFnPrints[name]
		var best *ssa.Function
		bestS, secondS := -1.0, -1.0
		for _, fn := range fresh {
			if taken[fn] || prefixOf(rawFnName(c, fn)) != prefixOf(name) || canonTypeNames(sigString(fn)) != pr.Sig {
				continue
			}
			s := jaccard(pr.Toks, c.fnTokens(fn))
			if s > bestS {
				best, secondS, bestS = fn, bestS, s
			} else if s > secondS {
				secondS = s
			}
		}
		if best != nil && bestS >= 0.45 && bestS-secondS >= 0.1 {
			taken[best] = true
			fnAlias[best] = name
			c.fnByName[name] = best
			renamedAnchors = append(renamedAnchors, fmt.Sprintf("function %s is taken for the recorded %s (same signature, %.0f%% of what it touches)", rawFnName(c, best), name, bestS*100))
		}
	}
	if len(fnAlias) > 0 {
		// re-index anonymous functions under their canonical parent names
		for _, fn := range c.Funcs {
			c.fnByName[c.FnName(fn)] = fn
		}
	}
	// fields
	for key, pr := range anchorFieldPrints {
		parts := strings.SplitN(key, ".", 3) // pkg.Owner.field
		if len(parts) != 3 {
			continue
		}
		n := c.Named(parts[0], parts[1])
		if n == nil {
			continue
		}
		st, isS := n.Underlying().(*types.Struct)
		if !isS {
			continue
		}
		present := false
		for i := 0; i < st.NumFields(); i++ {
			if st.Field(i).Name() == parts[2] {
				present = true
			}
		}
		if present {
			continue
		}
		var cands []*types.Var
		for i := 0; i < st.NumFields(); i++ {
			f := st.Field(i)
			if _, recorded := anchorFieldPrints[parts[0]+"."+parts[1]+"."+f.Name()]; recorded {
				continue
			}
			if _, used := fieldAlias[f]; used {
				continue
			}
			if canonTypeNames(types.TypeString(f.Type(), func(p *types.Package) string { return p.Name() })) == pr.Type {
				cands = append(cands, f)
			}
		}
		if len(cands) == 1 {
			fieldAlias[cands[0]] = parts[2]
			renamedAnchors = append(renamedAnchors, fmt.Sprintf("field %s.%s is taken for the recorded %s.%s (only unrecorded field of that type)", parts[1], cands[0].Name(), parts[1], parts[2]))
		}
	}
	sort.Strings(renamedAnchors)
}

// fieldName: the recorded name of a field if it was matched as renamed, else its own.
func recordedFieldName(f *types.Var) string {
	if a, isA := fieldAlias[f]; isA {
		return a
	}
	return f.Name()
}

// genAnchors writes anchors_gen.go from the analysed tree.
func (c *Ctx) genAnchors(path string) {
	var b strings.Builder
	b.WriteString("package main\n\n// Code generated by `goyang-verif -gen-anchors`; DO NOT EDIT.\n// Prints of the repo's functions and struct fields on the tree the rules were written for (see anchors.go).\n\n")
	b.WriteString("var anchorFnPrints = map[string]fnPrint{\n")
	var names []string
	byName := map[string]*ssa.Function{}
	for _, fn := range c.Funcs {
		if fn.Parent() != nil {
			continue
		}
		n := rawFnName(c, fn)
		names = append(names, n)
		byName[n] = fn
	}
	sort.Strings(names)
	for _, n := range names {
		fn := byName[n]
		fmt.Fprintf(&b, "\t%q: {%q, []string{", n, sigString(fn))
		for i, t := range c.fnTokens(fn) {
			if i > 0 {
				b.WriteString(", ")
			}
			fmt.Fprintf(&b, "%q", t)
		}
		b.WriteString("}},\n")
	}
	b.WriteString("}\n\nvar anchorFieldPrints = map[string]fieldPrint{\n")
	var fkeys []string
	ftype := map[string]string{}
	for path, tp := range c.Types {
		if !strings.HasPrefix(path, modPath) {
			continue
		}
		sc := tp.Scope()
		for _, nm := range sc.Names() {
			tn, isT := sc.Lookup(nm).(*types.TypeName)
			if !isT {
				continue
			}
			st, isS := tn.Type().Underlying().(*types.Struct)
			if !isS {
				continue
			}
			for i := 0; i < st.NumFields(); i++ {
				f := st.Field(i)
				k := shortPkg(path) + "." + nm + "." + f.Name()
				fkeys = append(fkeys, k)
				ftype[k] = types.TypeString(f.Type(), func(p *types.Package) string { return p.Name() })
			}
		}
	}
	sort.Strings(fkeys)
	for _, k := range fkeys {
		fmt.Fprintf(&b, "\t%q: {%q, nil},\n", k, ftype[k])
	}
	b.WriteString("}\n\nvar anchorTypePrints = map[string][]string{\n")
	var tkeys []string
	tmem := map[string][]string{}
	for path, tp := range c.Types {
		if !strings.HasPrefix(path, modPath) {
			continue
		}
		for _, nm := range tp.Scope().Names() {
			tn, isT := tp.Scope().Lookup(nm).(*types.TypeName)
			if !isT {
				continue
			}
			named, isN := tn.Type().(*types.Named)
			if !isN {
				continue
			}
			k := shortPkg(path) + "." + nm
			tkeys = append(tkeys, k)
			tmem[k] = typeMembers(named)
		}
	}
	sort.Strings(tkeys)
	for _, k := range tkeys {
		fmt.Fprintf(&b, "\t%q: {", k)
		for i, m := range tmem[k] {
			if i > 0 {
				b.WriteString(", ")
			}
			fmt.Fprintf(&b, "%q", m)
		}
		b.WriteString("},\n")
	}
	b.WriteString("}\n")
	if err := os.WriteFile(path, []byte(b.String()), 0o644); err != nil {
		brokenf("write %s: %v", path, err)
	}
	fmt.Printf("wrote %s: %d functions, %d fields\n", path, len(names), len(fkeys))
}

// baseName: the recorded bare name of a function (its own unless it was matched as renamed).
func baseName(f *ssa.Function) string {
	if f == nil {
		return ""
	}
	if a, isA := fnAlias[f]; isA {
		return a[strings.LastIndex(a, ".")+1:]
	}
	return f.Name()
}

// objName: the recorded name of a named type if it was matched as renamed, else the object's own name.
func objName(o types.Object) string {
	if tn, isT := o.(*types.TypeName); isT {
		if a, isA := typeAlias[tn]; isA {
			return a
		}
	}
	return o.Name()
}

// canonTypeNames rewrites the names of renamed types inside a printed type or function name.
func canonTypeNames(s string) string {
	for tn, old := range typeAlias {
		s = wordReplace(s, tn.Name(), old)
	}
	return s
}

func wordReplace(s, from, to string) string {
	if from == "" || !strings.Contains(s, from) {
		return s
	}
	var b strings.Builder
	isW := func(c byte) bool {
		return c == '_' || c >= '0' && c <= '9' || c >= 'a' && c <= 'z' || c >= 'A' && c <= 'Z'
	}
	for i := 0; i < len(s); {
		if strings.HasPrefix(s[i:], from) && (i == 0 || !isW(s[i-1])) && (i+len(from) == len(s) || !isW(s[i+len(from)])) {
			b.WriteString(to)
			i += len(from)
			continue
		}
		b.WriteByte(s[i])
		i++
	}
	return b.String()
}

func typeMembers(n *types.Named) []string {
	var out []string
	if st, isS := n.Underlying().(*types.Struct); isS {
		for i := 0; i < st.NumFields(); i++ {
			out = append(out, "field:"+st.Field(i).Name()+":"+types.TypeString(st.Field(i).Type(), func(p *types.Package) string { return p.Name() }))
		}
	} else {
		out = append(out, "underlying:"+types.TypeString(n.Underlying(), func(p *types.Package) string { return p.Name() }))
	}
	for i := 0; i < n.NumMethods(); i++ {
		out = append(out, "method:"+n.Method(i).Name())
	}
	// a type that mentions itself (type stateFn func(*lexer) stateFn) must not depend on its own name
	for i := range out {
		out[i] = wordReplace(out[i], n.Obj().Name(), "SELF")
	}
	sort.Strings(out)
	return out
}

// matchRenamedTypes runs before the functions are indexed.
func (c *Ctx) matchRenamedTypes() {
	typeAlias = map[*types.TypeName]string{}
	for key, members := range anchorTypePrints {
		parts := strings.SplitN(key, ".", 2)
		var tp *types.Package
		for path, p := range c.Types {
			if strings.HasPrefix(path, modPath) && shortPkg(path) == parts[0] {
				tp = p
			}
		}
		if tp == nil || tp.Scope().Lookup(parts[1]) != nil {
			continue
		}
		var best *types.TypeName
		bestS, secondS := -1.0, -1.0
		for _, nm := range tp.Scope().Names() {
			tn, isT := tp.Scope().Lookup(nm).(*types.TypeName)
			if !isT {
				continue
			}
			if _, recorded := anchorTypePrints[parts[0]+"."+nm]; recorded {
				continue
			}
			named, isN := tn.Type().(*types.Named)
			if !isN {
				continue
			}
			s := jaccard(members, typeMembers(named))
			if s > bestS {
				best, secondS, bestS = tn, bestS, s
			} else if s > secondS {
				secondS = s
			}
		}
		if best != nil && bestS >= 0.5 && bestS-secondS >= 0.1 {
			typeAlias[best] = parts[1]
			renamedAnchors = append(renamedAnchors, fmt.Sprintf("type %s.%s is taken for the recorded %s (%.0f%% of its fields and methods)", parts[0], best.Name(), key, bestS*100))
		}
	}
}

package main

// rules_more.go: rules added after the independently seeded mutants showed gaps:
// LEX.INDENTSTATE, PARSE.CONCAT, NUM.NEGZERO, NUM.LESS.SIGN, ID.LINK, NS.NEAREST, ENUM.WRITERS.

import (
	"fmt"
	"go/token"
	"go/types"

	"golang.org/x/tools/go/ssa"
)

func init() {
	register(&Rule{Name: "LEX.INDENTSTATE", Props: []string{"C02"}, Floor: 1,
		Doc: "typestate of the indentation-strip flag in double-quoted strings: cleared exactly by a line break, kept only when a leading blank is skipped, set by everything else that is appended",
		Run: ruleLexIndentState})
	register(&Rule{Name: "PARSE.CONCAT", Props: []string{"C02"}, Floor: 1,
		Doc: "the string concatenation operator is an unquoted token whose text is +",
		Run: ruleParseConcat})
	register(&Rule{Name: "NUM.NEGZERO", Props: []string{"C10", "C15"}, Floor: 1,
		Doc: "adding a quantum never produces a negative zero: the sign is kept only under a strict magnitude comparison",
		Run: ruleNumNegZero})
	register(&Rule{Name: "NUM.LESS.SIGN", Props: []string{"C10", "C15"}, Floor: 2,
		Doc: "Number.Less: every magnitude comparison is returned under a test of the sign (negated for negatives)",
		Run: ruleNumLessSign})
	register(&Rule{Name: "ID.LINK", Props: []string{"C11"}, Floor: 1,
		Doc: "every identity with a resolvable base is linked as a direct child of that base, unconditionally",
		Run: ruleIDLink})
	register(&Rule{Name: "NS.NEAREST", Props: []string{"C12", "C07"}, Floor: 1,
		Doc: "Namespace() returns the nearest stamped ancestor's namespace",
		Run: ruleNsNearest})
	register(&Rule{Name: "ENUM.WRITERS", Props: []string{"C14"}, Floor: 1,
		Doc: "only the guarded setter writes the enum maps",
		Run: ruleEnumWriters})
}

func ruleLexIndentState(c *Ctx) []Obligation {
	const R = "LEX.INDENTSTATE"
	m, why := c.lexModel()
	if m == nil {
		return []Obligation{undecided(R, "lexer model", "-", why)}
	}
	q := m.qstring
	con := "indent-strip flag: false after a line break, unchanged when a blank is skipped, true after anything else is appended"
	// the two loop-carried phis at the main loop header: a bool (the flag) and a []byte (the text)
	var flag, text *ssa.Phi
	for _, b := range q.Blocks {
		if !isLoopHeader(b) {
			continue
		}
		var fb, tb *ssa.Phi
		for _, in := range b.Instrs {
			phi, ok := in.(*ssa.Phi)
			if !ok {
				continue
			}
			if bt, okb := phi.Type().Underlying().(*types.Basic); okb && bt.Kind() == types.Bool {
				fb = phi
			}
			if st, oks := phi.Type().Underlying().(*types.Slice); oks {
				if eb, oke := st.Elem().Underlying().(*types.Basic); oke && eb.Kind() == types.Uint8 {
					tb = phi
				}
			}
		}
		if fb != nil && tb != nil {
			flag, text = fb, tb
		}
	}
	if flag == nil {
		return []Obligation{undecided(R, con, c.Pos(q.Pos()), "no (bool, []byte) pair of loop-carried variables in the double-quoted state")}
	}
	// the rune read at the top of the loop and its comparison with '\n'
	var rd *ssa.Call
	for _, in := range flag.Block().Instrs {
		if call, ok := in.(*ssa.Call); ok && call.Call.StaticCallee() == m.next {
			rd = call
		}
	}
	if rd == nil {
		return []Obligation{undecided(R, con, c.Pos(q.Pos()), "no rune read at the loop head")}
	}
	isRead := func(v ssa.Value) bool {
		call, ok := v.(*ssa.Call)
		return ok && call.Call.StaticCallee() == m.next
	}
	// a line break of the source text: the rune read at the loop head, or the one read after a backslash (kept
	// verbatim in a pattern), compared equal to '\n'
	underNewline := func(b *ssa.BasicBlock) bool {
		for _, g := range guardsAt(b) {
			if bo, ok := g.Cond.(*ssa.BinOp); ok && isRead(bo.X) && (bo.Op == token.EQL && g.Branch || bo.Op == token.NEQ && !g.Branch) {
				if k, okk := constInt(bo.Y); okk && k == '\n' {
					return true
				}
			}
		}
		return false
	}
	// notNewline: the guards (plus the condition of the edge from→to, if from ends in a branch) establish v != '\n'
	notNewline := func(v ssa.Value, from, to *ssa.BasicBlock) bool {
		gs := guardsAt(from)
		if len(from.Instrs) > 0 && to != nil {
			if ifi, ok := from.Instrs[len(from.Instrs)-1].(*ssa.If); ok && len(from.Succs) == 2 && from.Succs[0] != from.Succs[1] {
				gs = append(gs, Guard{Cond: ifi.Cond, Branch: from.Succs[0] == to, If: ifi})
			}
		}
		for _, g := range gs {
			bo, ok := g.Cond.(*ssa.BinOp)
			if !ok || bo.X != v {
				continue
			}
			k, okk := constInt(bo.Y)
			if !okk {
				continue
			}
			switch {
			case bo.Op == token.EQL && g.Branch && k != '\n', bo.Op == token.EQL && !g.Branch && k == '\n',
				bo.Op == token.NEQ && g.Branch && k == '\n', bo.Op == token.NEQ && !g.Branch && k != '\n':
				return true
			}
		}
		return false
	}
	// appendedRune: te = append(_, []byte(string(r))...) → r
	appendedRune := func(te ssa.Value) ssa.Value {
		call, ok := te.(*ssa.Call)
		if !ok || len(call.Call.Args) != 2 {
			return nil
		}
		if b, okb := call.Call.Value.(*ssa.Builtin); !okb || b.Name() != "append" {
			return nil
		}
		cv, ok := call.Call.Args[1].(*ssa.Convert)
		if !ok {
			return nil
		}
		cv2, ok := cv.X.(*ssa.Convert)
		if !ok {
			return nil
		}
		if bt, okb := cv2.X.Type().Underlying().(*types.Basic); okb && bt.Kind() == types.Int32 {
			return cv2.X
		}
		return nil
	}
	var bad2 []string
	n, runes := 0, 0
	for i := range flag.Edges {
		pred := flag.Block().Preds[i]
		if !flag.Block().Dominates(pred) {
			continue // loop entry edge
		}
		n++
		fe, te := flag.Edges[i], text.Edges[i]
		textChanged := te != ssa.Value(text)
		switch {
		case underNewline(pred):
			if k, ok := fe.(*ssa.Const); !ok || k.Value.String() != "false" {
				bad2 = append(bad2, "after a line break the flag is not cleared @ "+c.InstrPos(pred.Instrs[0]))
			}
		case !textChanged:
			if fe != ssa.Value(flag) {
				if k, ok := fe.(*ssa.Const); !ok || k.Value.String() != "true" {
					bad2 = append(bad2, "flag changed although nothing was appended @ "+c.InstrPos(pred.Instrs[0]))
				}
			}
		default:
			if k, ok := fe.(*ssa.Const); !ok || k.Value.String() != "true" {
				bad2 = append(bad2, "text was appended but the flag was not set: later blanks on this line would still be stripped @ "+c.InstrPos(pred.Instrs[0]))
			}
			// what was appended with the flag set is not a line break of the source text (one produced by the
			// escape \n is a constant here): otherwise the indentation of the next line would be kept
			r := appendedRune(te)
			switch rv := r.(type) {
			case *ssa.Phi:
				for j, e := range rv.Edges {
					if isRead(e) && !notNewline(e, rv.Block().Preds[j], rv.Block()) {
						bad2 = append(bad2, "a rune read from the text that may be a line break is appended with the flag set: the indentation of the next line is kept (backslash before a line break in a pattern) @ "+c.InstrPos(rv.Block().Preds[j].Instrs[len(rv.Block().Preds[j].Instrs)-1]))
					}
				}
				runes++
			case *ssa.Call:
				if isRead(rv) && !notNewline(rv, pred, nil) {
					bad2 = append(bad2, "a rune read from the text that may be a line break is appended with the flag set @ "+c.InstrPos(pred.Instrs[0]))
				}
				runes++
			}
		}
	}
	if len(bad2) == 0 && n >= 3 {
		return []Obligation{ok(R, con, c.InstrPos(flag), fmt.Sprintf("%d back edges checked pairwise against the text accumulator; %d appended runes are known not to be a line break of the text", n, runes))}
	}
	if n < 3 {
		return []Obligation{undecided(R, con, c.InstrPos(flag), fmt.Sprintf("only %d back edges", n))}
	}
	return []Obligation{bad(R, con, c.InstrPos(flag), bad2[0])}
}

func ruleParseConcat(c *Ctx) []Obligation {
	const R = "PARSE.CONCAT"
	m, why := c.lexModel()
	if m == nil {
		return []Obligation{undecided(R, "lexer model", "-", why)}
	}
	fn := m.pNext
	con := "a following string is joined only after an unquoted token whose text is +"
	tokT := m.tokenT
	fText := FieldVar(tokT, "Text")
	// the store t.Text = t.Text + nnt.Text
	var join *ssa.Store
	for _, st := range storesToField(fn, fText) {
		if bo, ok := st.Val.(*ssa.BinOp); ok && bo.Op == token.ADD {
			join = st
		}
	}
	if join == nil {
		return []Obligation{undecided(R, con, c.Pos(fn.Pos()), "no string join found")}
	}
	codeOK, textOK := false, false
	for _, g := range guardsAt(join.Block()) {
		bo, ok := g.Cond.(*ssa.BinOp)
		if !ok {
			continue
		}
		// nt.Code() == tUnquoted
		if call, okc := bo.X.(*ssa.Call); okc && call.Call.StaticCallee() != nil && call.Call.StaticCallee().Name() == "Code" {
			if k, okk := constInt(bo.Y); okk && k == -4 && bo.Op == token.EQL && g.Branch {
				codeOK = true
			}
		}
		// nt.Text != "+" false
		if _, f, _ := loadedField(bo.X); f == fText {
			if s, oks := constString(bo.Y); oks && s == "+" && ((bo.Op == token.NEQ && !g.Branch) || (bo.Op == token.EQL && g.Branch)) {
				textOK = true
			}
		}
	}
	// the constant -4 is tUnquoted: check against the package constant
	if o, ok := c.YangPkg().Scope().Lookup("tUnquoted").(*types.Const); !ok || o.Val().ExactString() != "-4" {
		return []Obligation{undecided(R, con, c.Pos(fn.Pos()), "tUnquoted is no longer -4; update the rule")}
	}
	if codeOK && textOK {
		return []Obligation{ok(R, con, c.InstrPos(join), "join guarded by Code() == tUnquoted and Text == \"+\"")}
	}
	return []Obligation{bad(R, con, c.InstrPos(join), fmt.Sprintf("the join is reached without both tests (unquoted: %v, text is +: %v): a quoted \"+\" would be taken for the operator", codeOK, textOK))}
}

func ruleNumNegZero(c *Ctx) []Obligation {
	const R = "NUM.NEGZERO"
	fn := c.Fn("yang.(Number).addQuantum")
	if fn == nil {
		return []Obligation{undecided(R, "quantum adder", "-", "(Number).addQuantum not found")}
	}
	num := c.MustNamed("yang", "Number")
	fValue, fNeg := FieldVar(num, "Value"), FieldVar(num, "Negative")
	con := "in the negative arm the sign is kept only when the magnitude stays above zero"
	var obs []Obligation
	// stores to Value of the form Value - i (sign kept) must be under Value > i strictly; i - Value must clear Negative
	okKeep, okFlip := false, false
	badWhy := ""
	for _, st := range storesToField(fn, fValue) {
		bo, ok := st.Val.(*ssa.BinOp)
		if !ok || bo.Op != token.SUB {
			continue
		}
		_, xf, _ := loadedField(bo.X)
		valueFirst := xf == fValue
		if _, isConst := bo.X.(*ssa.Const); isConst {
			continue
		}
		if valueFirst {
			// Value - i, sign kept: need strict Value > i  (i.e. not (Value <= i))
			strict := false
			for _, g := range guardsAt(st.Block()) {
				gb, okg := g.Cond.(*ssa.BinOp)
				if !okg {
					continue
				}
				_, gf, _ := loadedField(gb.X)
				if gf != fValue {
					continue
				}
				switch {
				case gb.Op == token.LEQ && !g.Branch, gb.Op == token.GTR && g.Branch:
					strict = true
				case gb.Op == token.LSS && !g.Branch, gb.Op == token.GEQ && g.Branch:
					badWhy = "Value - i is computed under Value >= i: for Value == i the result is a negative zero, which orders below 0 and breaks adjacency across the sign boundary"
				}
			}
			if strict {
				okKeep = true
			}
		} else {
			// i - Value: Negative must be cleared in the same block
			for _, s2 := range storesToField(fn, fNeg) {
				if s2.Block() == st.Block() {
					if k, okk := s2.Val.(*ssa.Const); okk && k.Value.String() == "false" {
						okFlip = true
					}
				}
			}
		}
	}
	if okKeep && okFlip && badWhy == "" {
		obs = append(obs, ok(R, con, c.Pos(fn.Pos()), "Value <= i → (i - Value, positive); Value > i → (Value - i, negative)"))
	} else {
		if badWhy == "" {
			badWhy = fmt.Sprintf("sign-keeping subtraction under a strict test: %v; sign-flipping subtraction clears Negative: %v", okKeep, okFlip)
		}
		obs = append(obs, bad(R, con, c.Pos(fn.Pos()), badWhy))
	}
	return obs
}

func ruleNumLessSign(c *Ctx) []Obligation {
	const R = "NUM.LESS.SIGN"
	fn := c.Fn("yang.(Number).Less")
	if fn == nil {
		return []Obligation{undecided(R, "number ordering", "-", "(Number).Less not found")}
	}
	num := c.MustNamed("yang", "Number")
	fNeg := FieldVar(num, "Negative")
	var obs []Obligation
	recvNeg := func(cond ssa.Value) bool {
		_, f, base := loadedField(cond)
		return f == fNeg && isReceiver(fn, rootOf(base)) || f == fNeg && isReceiver(fn, base)
	}
	n := 0
	eachInstr(fn, func(in ssa.Instruction) {
		r, isRet := in.(*ssa.Return)
		if !isRet || len(r.Results) != 1 {
			return
		}
		v := r.Results[0]
		if _, isConst := v.(*ssa.Const); isConst {
			// constant returns: the mixed-sign early exits and the equality exit
			return
		}
		n++
		con := fmt.Sprintf("Less: computed return #%d is sign-aware", n)
		negated := false
		if u, oku := v.(*ssa.UnOp); oku && u.Op == token.NOT {
			negated = true
		}
		var underNeg, underPos bool
		for _, g := range guardsAt(r.Block()) {
			if recvNeg(g.Cond) {
				if g.Branch {
					underNeg = true
				} else {
					underPos = true
				}
			}
		}
		switch {
		case negated && underNeg, !negated && underPos:
			obs = append(obs, ok(R, con, c.InstrPos(r), map[bool]string{true: "!lt under n.Negative", false: "lt under !n.Negative"}[negated]))
		default:
			obs = append(obs, bad(R, con, c.InstrPos(r), "a magnitude comparison is returned without the sign deciding its direction: two negative numbers would be ordered like their absolute values"))
		}
	})
	// the mixed-sign exits
	con := "Less: numbers of different sign are ordered by sign before magnitudes are compared"
	mixed := 0
	eachInstr(fn, func(in ssa.Instruction) {
		r, ok := in.(*ssa.Return)
		if !ok || len(r.Results) != 1 {
			return
		}
		k, isConst := r.Results[0].(*ssa.Const)
		if !isConst {
			return
		}
		nNeg, mNeg := 0, 0
		for _, g := range guardsAt(r.Block()) {
			if _, f, _ := loadedField(g.Cond); f == fNeg {
				if recvNeg(g.Cond) {
					nNeg++
				} else {
					mNeg++
				}
			}
			cond, _ := stripNot(g.Cond, g.Branch)
			if _, f, _ := loadedField(cond); f == fNeg && cond != g.Cond {
				mNeg++
			}
		}
		if nNeg > 0 && mNeg > 0 {
			mixed++
			_ = k
		}
	})
	if mixed >= 2 {
		obs = append(obs, ok(R, con, c.Pos(fn.Pos()), "n<0≤m → true; m<0≤n → false"))
	} else {
		obs = append(obs, bad(R, con, c.Pos(fn.Pos()), fmt.Sprintf("%d constant returns under tests of both signs", mixed)))
	}
	return obs
}

func ruleIDLink(c *Ctx) []Obligation {
	const R = "ID.LINK"
	fn := c.Fn("yang.(*Modules).resolveIdentities")
	if fn == nil {
		return []Obligation{undecided(R, "identity resolver", "-", "resolveIdentities not found")}
	}
	idT := c.MustNamed("yang", "Identity")
	fValues, fBase := FieldVar(idT, "Values"), FieldVar(idT, "Base")
	con := "every identity whose base resolves is appended to that base's direct children, unconditionally"
	var link *ssa.Store
	for _, st := range storesToField(fn, fValues) {
		if call, ok := st.Val.(*ssa.Call); ok {
			if bi, okb := call.Call.Value.(*ssa.Builtin); okb && bi.Name() == "append" {
				// the direct-child link appends one identity to the base's list (not the rebuilt closure)
				if _, f, _ := loadedField(call.Call.Args[0]); f == fValues {
					link = st
				}
			}
		}
	}
	if link == nil {
		return []Obligation{bad(R, con, c.Pos(fn.Pos()), "no append of the derived identity to its base's Values")}
	}
	var extra []string
	for _, g := range guardsAt(link.Block()) {
		if isLoopHeader(g.If.Block()) {
			continue
		}
		if x, _, okn := nilTest(g.Cond); okn {
			if _, f, _ := loadedField(x); f == fBase {
				continue // i.Identity.Base != nil
			}
			if isErrorSlice(x.Type()) || isErrorType(x.Type()) {
				continue // baseErr != nil → continue
			}
		}
		if bo, ok := g.Cond.(*ssa.BinOp); ok && isLenOf(bo.X) {
			continue
		}
		extra = append(extra, c.InstrPos(g.If))
	}
	if len(extra) == 0 {
		return []Obligation{ok(R, con, c.InstrPos(link), "guarded only by `has a base` and `base resolved`")}
	}
	return []Obligation{bad(R, con, c.InstrPos(link), "the link is skipped under an extra condition ("+extra[0]+"): some derived identity would be missing from its base's list and from every identityref on that base")}
}

func ruleNsNearest(c *Ctx) []Obligation {
	const R = "NS.NEAREST"
	ns := c.MustFn("yang.(*Entry).Namespace")
	fNS := c.nsField()
	con := "the parent walk returns at the first stamped entry"
	okk := false
	var at ssa.Instruction
	eachInstr(ns, func(in ssa.Instruction) {
		r, ok := in.(*ssa.Return)
		if !ok || len(r.Results) != 1 {
			return
		}
		if _, f, _ := loadedField(r.Results[0]); f != fNS || fNS == nil {
			return
		}
		if loopHeaderOf(r.Block()) == nil && !inLoopRegion(r.Block()) {
			return
		}
		for _, g := range guardsAt(r.Block()) {
			if x, isEq, okn := nilTest(g.Cond); okn && isEq != g.Branch {
				if _, f, _ := loadedField(x); f == fNS {
					okk = true
					at = r
				}
			}
		}
	})
	if okk {
		return []Obligation{ok(R, con, c.InstrPos(at), "for ; e.Parent != nil; e = e.Parent { if e.namespace != nil { return e.namespace } }")}
	}
	return []Obligation{bad(R, con, c.Pos(ns.Pos()), "no `return e.namespace` under `e.namespace != nil` inside the parent walk: an outer stamp would override a nearer one (chained augments get the wrong module)")}
}

// inLoopRegion: b is dominated by some loop header (it may itself exit the loop by returning).
func inLoopRegion(b *ssa.BasicBlock) bool {
	for d := b; d != nil; d = d.Idom() {
		if isLoopHeader(d) {
			return true
		}
	}
	return false
}

func ruleEnumWriters(c *Ctx) []Obligation {
	const R = "ENUM.WRITERS"
	et := c.MustNamed("yang", "EnumType")
	fToInt, fToString, fLast := FieldVar(et, "ToInt"), FieldVar(et, "ToString"), FieldVar(et, "last")
	set := c.MustFn("yang.(*EnumType).Set")
	var obs []Obligation
	n := 0
	for _, fn := range c.Funcs {
		if fn == set {
			continue
		}
		var sites []ssa.Instruction
		for _, mu := range mapUpdatesOnField(fn, fToInt) {
			sites = append(sites, mu)
		}
		for _, mu := range mapUpdatesOnField(fn, fToString) {
			sites = append(sites, mu)
		}
		for _, st := range storesToField(fn, fLast) {
			if _, isAlloc := rootOf(st.Addr).(*ssa.Alloc); !isAlloc {
				sites = append(sites, st)
			}
		}
		for _, s := range sites {
			n++
			obs = append(obs, bad(R, fmt.Sprintf("%s writes the enum maps / running maximum", c.FnName(fn)), c.InstrPos(s), "only Set, which applies the four rejections, may record a member: a direct write skips the duplicate-name, duplicate-value and range tests"))
		}
	}
	obs = append(obs, ok(R, "writers of EnumType.ToInt / ToString / last enumerated", c.Pos(set.Pos()), fmt.Sprintf("%d writes outside Set and the constructors", n)))
	return obs
}

func init() {
	register(&Rule{Name: "REV.CURRENT", Props: []string{"C13", "C05"}, Floor: 1,
		Doc: "a module's current revision is the maximum over all its revision statements",
		Run: ruleRevCurrent})
	register(&Rule{Name: "ID.HOIST", Props: []string{"C11", "C13"}, Floor: 1,
		Doc: "the identities of every module's included submodules are filed, unconditionally",
		Run: ruleIDHoist})
}

func ruleRevCurrent(c *Ctx) []Obligation {
	const R = "REV.CURRENT"
	fn := c.MustFn("yang.(*Module).Current")
	con := "Current() is the maximum revision date over all revision statements"
	modT := c.MustNamed("yang", "Module")
	fRev := FieldVar(modT, "Revision")
	var verdict Obligation
	found := false
	eachInstr(fn, func(in ssa.Instruction) {
		r, isRet := in.(*ssa.Return)
		if !isRet || len(r.Results) != 1 || found {
			return
		}
		phi, isPhi := r.Results[0].(*ssa.Phi)
		if !isPhi {
			// returned from a loop-exit block: follow one phi-less copy
			return
		}
		h := phi.Block()
		if !isLoopHeader(h) {
			return
		}
		// the loop ranges over s.Revision
		overRev := false
		eachInstr(fn, func(in2 ssa.Instruction) {
			if ia, ok := in2.(*ssa.IndexAddr); ok && h.Dominates(ia.Block()) {
				if _, f, _ := loadedField(ia.X); f == fRev {
					overRev = true
				}
			}
		})
		// the update edge is guarded by name > phi
		maxUpd := false
		for i, e := range phi.Edges {
			if e == ssa.Value(phi) {
				continue
			}
			if k, ok := e.(*ssa.Const); ok && k.Value != nil {
				continue // initial ""
			}
			pred := h.Preds[i]
			for _, g := range append(guardsAt(pred), lastIfGuard(pred, h)...) {
				bo, ok := g.Cond.(*ssa.BinOp)
				if !ok {
					continue
				}
				if (bo.Op == token.GTR && bo.Y == ssa.Value(phi) && sameObject(bo.X, e) && g.Branch) || (bo.Op == token.LSS && bo.X == ssa.Value(phi) && sameObject(bo.Y, e) && g.Branch) {
					maxUpd = true
				}
			}
		}
		found = true
		if overRev && maxUpd {
			verdict = ok(R, con, c.InstrPos(phi), "for _, r := range s.Revision { if r.Name > rev { rev = r.Name } }")
		} else {
			verdict = bad(R, con, c.InstrPos(phi), fmt.Sprintf("loops over all revisions: %v; keeps the greater date: %v", overRev, maxUpd))
		}
	})
	if !found {
		return []Obligation{bad(R, con, c.Pos(fn.Pos()), "the result is not accumulated over a loop: a module whose revisions are not listed newest-first is filed under the wrong date")}
	}
	return []Obligation{verdict}
}

// lastIfGuard: the condition of the edge pred → succ when pred ends in an If.
func lastIfGuard(pred, succ *ssa.BasicBlock) []Guard {
	if len(pred.Instrs) == 0 {
		return nil
	}
	ifi, ok := pred.Instrs[len(pred.Instrs)-1].(*ssa.If)
	if !ok || pred.Succs[0] == pred.Succs[1] {
		return nil
	}
	return []Guard{{Cond: ifi.Cond, Branch: pred.Succs[0] == succ, If: ifi}}
}

func ruleIDHoist(c *Ctx) []Obligation {
	const R = "ID.HOIST"
	fn := c.Fn("yang.(*Modules).resolveIdentities")
	if fn == nil {
		return []Obligation{undecided(R, "identity resolver", "-", "resolveIdentities not found")}
	}
	modT := c.MustNamed("yang", "Module")
	fInclude := FieldVar(modT, "Include")
	con := "for every module, the identities of its included submodules are filed"
	var hdr *ssa.BasicBlock
	eachInstr(fn, func(in ssa.Instruction) {
		if ia, ok := in.(*ssa.IndexAddr); ok {
			if _, f, _ := loadedField(ia.X); f == fInclude {
				hdr = loopHeaderOf(ia.Block())
			}
		}
	})
	if hdr == nil {
		return []Obligation{bad(R, con, c.Pos(fn.Pos()), "no loop over Module.Include in the identity resolver: identities written in submodules are never registered")}
	}
	var extra []string
	for _, g := range guardsAt(hdr) {
		if isLoopHeader(g.If.Block()) {
			continue
		}
		extra = append(extra, c.InstrPos(g.If))
	}
	// the block that loads mod.Include (loop pre-header) may also be guarded
	var obs []Obligation
	if len(extra) == 0 {
		obs = append(obs, ok(R, con, c.InstrPos(hdr.Instrs[0]), "the include loop runs for every module (no guard besides the loops)"))
	} else {
		obs = append(obs, bad(R, con, c.InstrPos(hdr.Instrs[0]), "the include loop is skipped under a condition ("+extra[0]+"): a module whose identities all live in submodules loses them"))
	}
	// … and of the submodules those include in turn: some Include list that is walked belongs to a module that was
	// itself reached through an include link (a work list fed with in.Module, or a recursion handed in.Module)
	con2 := "the identities of submodules included by submodules are filed too"
	incT := c.MustNamed("yang", "Include")
	fLink := FieldVar(incT, "Module")
	transitive := false
	c.eachInstrDeep(fn, func(in ssa.Instruction) {
		v, okv := in.(ssa.Value)
		if !okv {
			return
		}
		_, f, base := loadedField(v)
		if f != fInclude || base == nil {
			return
		}
		operandClosure(base, func(x ssa.Value) {
			if _, lf, _ := loadedField(x); lf == fLink && fLink != nil {
				transitive = true
			}
		})
		// a recursion: the function that walks the list calls itself with a linked module
		host := in.Parent()
		eachInstr(host, func(in2 ssa.Instruction) {
			call, isC := in2.(*ssa.Call)
			if !isC || call.Call.StaticCallee() != host {
				return
			}
			for _, a := range call.Call.Args {
				if _, lf, _ := loadedField(a); lf == fLink && fLink != nil {
					transitive = true
				}
			}
		})
	})
	if transitive {
		obs = append(obs, ok(R, con2, c.InstrPos(hdr.Instrs[0]), "an Include list of a module reached through an include link is walked"))
	} else {
		obs = append(obs, bad(R, con2, c.InstrPos(hdr.Instrs[0]), "only the Include list of the module itself is walked: a submodule that is included by a submodule (RFC 6020 7.1.6; its nodes are merged into the module) contributes no identities — a base defined there is reported as unresolvable, its derivations are not listed, an undefined base written there goes unreported"))
	}
	return obs
}

// ---------------------------------------------------------------- ID.VALRESET

func init() {
	register(&Rule{Name: "ID.VALRESET", Props: []string{"C18", "C11"}, Floor: 1,
		Doc: "every identity filed in the dictionary starts the run with an empty value list: the filing site clears Identity.Values of the identity it files",
		Run: ruleIDValReset})
}

func ruleIDValReset(c *Ctx) []Obligation {
	const R = "ID.VALRESET"
	fn := c.Fn("yang.(*Modules).resolveIdentities")
	idd := c.Named("yang", "identityDictionary")
	idT := c.Named("yang", "Identity")
	if fn == nil || idd == nil || idT == nil {
		return []Obligation{undecided(R, "identity resolver", "-", "resolveIdentities / identityDictionary / Identity not found")}
	}
	fDict := FieldVar(idd, "dict")
	fValues := FieldVar(idT, "Values")
	var obs []Obligation
	n := 0
	c.eachInstrDeep(fn, func(in ssa.Instruction) {
		mu, isMU := in.(*ssa.MapUpdate)
		if !isMU {
			return
		}
		if _, f, _ := loadedField(mu.Map); f != fDict {
			return
		}
		n++
		con := "the identity filed in the dictionary has its value list cleared first"
		if n > 1 {
			con = fmt.Sprintf("%s #%d", con, n)
		}
		// the identity: the *Identity argument of the call whose result is filed
		var ident ssa.Value
		backSlice(mu.Value, func(x ssa.Value) bool {
			if call, isC := x.(*ssa.Call); isC {
				for _, a := range call.Call.Args {
					if pt, isP := a.Type().(*types.Pointer); isP && namedOf(pt.Elem()) == idT {
						ident = a
					}
				}
				return false
			}
			return true
		})
		if ident == nil {
			// a literal resolvedIdentity{…, Identity: i}: the *Identity stored into it
			backSlice(mu.Value, func(x ssa.Value) bool {
				if al, isA := x.(*ssa.Alloc); isA {
					for _, r := range refsOf(al) {
						fa, isF := r.(*ssa.FieldAddr)
						if !isF {
							continue
						}
						for _, rr := range refsOf(fa) {
							if st, isS := rr.(*ssa.Store); isS && st.Addr == ssa.Value(fa) {
								if pt, isP := st.Val.Type().(*types.Pointer); isP && namedOf(pt.Elem()) == idT {
									ident = st.Val
								}
							}
						}
					}
				}
				return true
			})
		}
		if ident == nil {
			obs = append(obs, undecided(R, con, c.InstrPos(in), "the identity being filed could not be identified"))
			return
		}
		cleared := false
		for _, st := range c.storesToFieldDeep(fn, fValues) {
			if !isNilConst(st.Val) {
				continue
			}
			_, _, base := fieldOf(st.Addr)
			if sameObject(base, ident) && (st.Block() == in.Block() || dominates(st, in)) {
				cleared = true
			}
		}
		if cleared {
			obs = append(obs, ok(R, con, c.InstrPos(in), "i.Values = nil precedes the filing of i in the same loop body"))
		} else {
			obs = append(obs, bad(R, con, c.InstrPos(in), "an identity is filed without clearing the value list an earlier run left on it: the run appends to it, and an identity that a later run no longer files keeps the old list (results differ from a batch load)"))
		}
	})
	if n == 0 {
		obs = append(obs, undecided(R, "identity filing sites", c.Pos(fn.Pos()), "no store into the identity dictionary found"))
	}
	// identities that are NOT filed this run (a submodule nobody includes any longer) must not keep an earlier run's
	// lists either: some nil store to Identity.Values sits in a loop over the whole table of submodules
	con := "the identities of every submodule in the set are cleared, included or not"
	mods := c.MustNamed("yang", "Modules")
	fSub := FieldVar(mods, "SubModules")
	swept := false
	for _, st := range c.storesToFieldDeep(fn, fValues) {
		if !isNilConst(st.Val) {
			continue
		}
		// an enclosing loop ranges over Modules.SubModules (directly, or over its sorted values)
		for h := loopHeaderOf(st.Block()); h != nil; {
			for _, b := range fn.Blocks {
				for _, in := range b.Instrs {
					var ranged ssa.Value
					switch x := in.(type) {
					case *ssa.Range:
						ranged = x.X
					case *ssa.Call:
						if c.returnsSorted(x) && len(x.Call.Args) > 0 {
							ranged = x.Call.Args[0]
						}
					}
					if ranged == nil || !b.Dominates(st.Block()) {
						continue
					}
					if _, f, _ := loadedField(ranged); f == fSub {
						swept = true
					}
				}
			}
			break
		}
	}
	if swept {
		obs = append(obs, ok(R, con, c.Pos(fn.Pos()), "a reset sweep over Modules.SubModules"))
	} else {
		obs = append(obs, bad(R, con, c.Pos(fn.Pos()), "value lists are cleared only for the identities that are filed: a submodule that is loaded but no longer included (an older revision, once a newer one is loaded) keeps the lists of the earlier run, so its tree differs from the one a batch load gives"))
	}
	return obs
}

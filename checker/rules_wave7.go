package main

// rules_wave7.go: rules and clauses added after the syntactic mutation sweep (tools/mutation_sweep.sh): each decides a
// structural necessary condition that a surviving mutant of pkg/yang broke while the unit tests stayed green.
// RANGE.FORALL, NUM.LESS.FRAC, ENUM.DOMAIN, KIND.RPC, FIND.LAZY, RO.ROOT.

import (
	"fmt"
	"go/token"
	"go/types"

	"golang.org/x/tools/go/ssa"
)

func init() {
	register(&Rule{Name: "RANGE.FORALL", Props: []string{"C10"}, Floor: 2,
		Doc: "the subset test quantifies over every part of its argument: no exit from inside its loops accepts",
		Run: ruleRangeForall})
	register(&Rule{Name: "NUM.LESS.FRAC", Props: []string{"C10", "C15"}, Floor: 1,
		Doc: "when the integer parts of two numbers are equal, the ordering is decided by a strict comparison of their fractional parts",
		Run: ruleNumLessFrac})
	register(&Rule{Name: "ENUM.DOMAIN", Props: []string{"C14"}, Floor: 4,
		Doc: "the constructors give enumerations the int32 range and bit sets the uint32 range",
		Run: ruleEnumDomain})
}

// loopBodies: for every loop header of fn, the successor through which the header is reached again.
func loopBodies(fn *ssa.Function) []*ssa.BasicBlock {
	var out []*ssa.BasicBlock
	for _, h := range fn.Blocks {
		if !isLoopHeader(h) {
			continue
		}
		for _, s := range h.Succs {
			if len(s.Preds) != 1 {
				continue
			}
			// s is a body entry when some back edge into h comes from a block s dominates
			for _, p := range h.Preds {
				if s.Dominates(p) {
					out = append(out, s)
					break
				}
			}
		}
	}
	return out
}

func ruleRangeForall(c *Ctx) []Obligation {
	const R = "RANGE.FORALL"
	fn := c.Fn("yang.(YangRange).Contains")
	if fn == nil {
		return []Obligation{undecided(R, "subset test", "-", "(YangRange).Contains not found")}
	}
	var obs []Obligation
	bodies := loopBodies(fn)
	if len(bodies) == 0 {
		return []Obligation{undecided(R, "Contains: loops over the parts of its argument", c.Pos(fn.Pos()), "no loop found: the subset test has another shape than the one this rule was written for")}
	}
	n, after := 0, 0
	for _, b := range fn.Blocks {
		r, isR := b.Instrs[len(b.Instrs)-1].(*ssa.Return)
		if !isR || len(r.Results) != 1 {
			continue
		}
		inside := false
		for _, body := range bodies {
			if body.Dominates(b) {
				inside = true
			}
		}
		if !inside {
			after++
			continue
		}
		n++
		con := fmt.Sprintf("Contains: exit #%d from inside the loops rejects", n)
		if k, isK := r.Results[0].(*ssa.Const); isK && k.Value != nil && k.Value.String() == "false" {
			obs = append(obs, ok(R, con, c.InstrPos(r), "return false"))
		} else {
			obs = append(obs, bad(R, con, c.InstrPos(r), "the subset test returns something other than false before every part of its argument has been examined: a restriction with a part outside its parent's set would be accepted"))
		}
	}
	if n == 0 {
		obs = append(obs, bad(R, "Contains: a part that is not covered is rejected", c.Pos(fn.Pos()), "no exit inside the loops: nothing rejects an uncovered part"))
	}
	return obs
}

func ruleNumLessFrac(c *Ctx) []Obligation {
	const R = "NUM.LESS.FRAC"
	fn := c.Fn("yang.(Number).Less")
	if fn == nil {
		return []Obligation{undecided(R, "number ordering", "-", "(Number).Less not found")}
	}
	con := "Less: equal integer parts are ordered by their fractional parts"
	calls := func(v ssa.Value, name string) bool {
		call, isC := v.(*ssa.Call)
		return isC && call.Call.StaticCallee() != nil && baseName(call.Call.StaticCallee()) == name
	}
	usesTrunc := false
	var fracCmp *ssa.BinOp
	eachInstr(fn, func(in ssa.Instruction) {
		bo, isB := in.(*ssa.BinOp)
		if !isB {
			return
		}
		if calls(bo.X, "Trunc") && calls(bo.Y, "Trunc") {
			usesTrunc = true
		}
		if calls(bo.X, "frac") && calls(bo.Y, "frac") && (bo.Op == token.LSS || bo.Op == token.GTR) {
			fracCmp = bo
		}
	})
	if !usesTrunc {
		o := ok(R, con, c.Pos(fn.Pos()), "Less does not split numbers into integer and fractional parts; nothing to pair")
		o.Trivial = true
		return []Obligation{o}
	}
	if fracCmp == nil {
		return []Obligation{bad(R, con, c.Pos(fn.Pos()), "the integer parts are compared but no strict comparison of the two fractional parts exists: 1.2 and 1.5 would compare as equal")}
	}
	// the comparison must reach a return
	reaches := false
	seen := map[ssa.Value]bool{}
	var walk func(v ssa.Value)
	walk = func(v ssa.Value) {
		if seen[v] {
			return
		}
		seen[v] = true
		for _, r := range *v.Referrers() {
			switch x := r.(type) {
			case *ssa.Return:
				reaches = true
			case *ssa.Phi:
				walk(x)
			case *ssa.UnOp:
				walk(x)
			}
		}
	}
	walk(fracCmp)
	if !reaches {
		return []Obligation{bad(R, con, c.InstrPos(fracCmp), "the comparison of the fractional parts does not reach a return")}
	}
	return []Obligation{ok(R, con, c.InstrPos(fracCmp), "nf < mf flows to the result")}
}

func ruleEnumDomain(c *Ctx) []Obligation {
	const R = "ENUM.DOMAIN"
	var obs []Obligation
	et := c.MustNamed("yang", "EnumType")
	fMin, fMax, fUnique := FieldVar(et, "min"), FieldVar(et, "max"), FieldVar(et, "unique")
	for _, fn := range c.Funcs {
		if fn.Signature.Recv() != nil || fn.Signature.Results().Len() != 1 || namedOf(fn.Signature.Results().At(0).Type()) != et || fn.Blocks == nil {
			continue
		}
		vals := map[*types.Var]int64{}
		has := map[*types.Var]bool{}
		unique := false
		eachInstr(fn, func(in ssa.Instruction) {
			st, isS := in.(*ssa.Store)
			if !isS {
				return
			}
			_, f, _ := fieldOf(st.Addr)
			if f == fUnique {
				if k, isK := st.Val.(*ssa.Const); isK && k.Value != nil && k.Value.String() == "true" {
					unique = true
				}
			}
			if f == fMin || f == fMax {
				if k, okk := constInt(st.Val); okk {
					vals[f], has[f] = k, true
				}
			}
		})
		wantMin, wantMax, what := int64(0), int64(1<<32-1), "bit positions: [0, 2^32-1]"
		if unique {
			wantMin, wantMax, what = -1<<31, 1<<31-1, "enum values: [-2^31, 2^31-1]"
		}
		for _, f := range []*types.Var{fMin, fMax} {
			want := wantMin
			if f == fMax {
				want = wantMax
			}
			con := fmt.Sprintf("%s: %s bound of the domain (%s)", c.FnName(fn), recordedFieldName(f), what)
			got := vals[f] // an unset field is zero
			if !has[f] && want != 0 {
				obs = append(obs, bad(R, con, c.Pos(fn.Pos()), "the bound is not set by a constant store"))
			} else if got != want {
				obs = append(obs, bad(R, con, c.Pos(fn.Pos()), fmt.Sprintf("the bound is %d, RFC 7950 says %d: values outside the range are accepted, or legal ones refused", got, want)))
			} else {
				obs = append(obs, ok(R, con, c.Pos(fn.Pos()), fmt.Sprintf("%d", got)))
			}
		}
	}
	return obs
}

func init() {
	register(&Rule{Name: "FIND.LAZY", Props: []string{"C17", "C07"}, Floor: 1,
		Doc: "where the path lookup creates an rpc's missing input/output on demand it does so only when the slot is empty, never over an existing subtree",
		Run: ruleFindLazy})
}

func ruleFindLazy(c *Ctx) []Obligation {
	const R = "FIND.LAZY"
	fn := c.Fn("yang.(*Entry).Find")
	if fn == nil {
		return []Obligation{undecided(R, "path lookup", "-", "(*Entry).Find not found")}
	}
	m := c.entryModel()
	var obs []Obligation
	n := 0
	for _, f := range []*types.Var{m.fIn, m.fOut} {
		for _, st := range c.storesToFieldDeep(fn, f) {
			n++
			con := fmt.Sprintf("Find: store #%d to RPCEntry.%s happens only into an empty slot", n, recordedFieldName(f))
			path := AccessPath(st.Addr)
			guarded := false
			for _, g := range guardsAt(st.Block()) {
				x, isEq, okn := nilTest(g.Cond)
				if !okn || isEq != g.Branch {
					continue
				}
				if _, gf, _ := loadedField(x); gf == f && AccessPath(x) == path {
					guarded = true
				}
			}
			if guarded {
				obs = append(obs, ok(R, con, c.InstrPos(st), "under `slot == nil`"))
			} else {
				obs = append(obs, bad(R, con, c.InstrPos(st), "the lookup overwrites the rpc's "+recordedFieldName(f)+" subtree without knowing the slot is empty: an existing input/output with all its children is replaced by an empty one, and the path that names a node inside it no longer finds it"))
			}
		}
	}
	if n == 0 {
		o := ok(R, "Find: no on-demand creation of rpc input/output", c.Pos(fn.Pos()), "the lookup does not write the slots")
		o.Trivial = true
		obs = append(obs, o)
	}
	return obs
}

func isBoolType(t types.Type) bool {
	b, ok := t.Underlying().(*types.Basic)
	return ok && b.Kind() == types.Bool
}

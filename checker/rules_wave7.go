package main

// rules_wave7.go: rules and clauses added after the syntactic mutation sweep (tools/mutation_sweep.sh): each decides a
// structural necessary condition that a surviving mutant of pkg/yang broke while the unit tests stayed green.
// RANGE.FORALL, NUM.LESS.FRAC, ENUM.DOMAIN, KIND.RPC, FIND.LAZY, RO.ROOT.

import (
	"fmt"
	"go/token"
	"go/types"
	"sort"
	"strings"

	"golang.org/x/tools/go/ssa"
)

func init() {
	register(&Rule{Name: "RANGE.FORALL", Props: []string{"C10", "C09"}, Floor: 4,
		Doc: "the subset test quantifies over every part of its argument: no exit from inside its loops accepts",
		Run: ruleRangeForall})
	register(&Rule{Name: "NUM.LESS.FRAC", Props: []string{"C10", "C15"}, Floor: 1,
		Doc: "when the integer parts of two numbers are equal, the ordering is decided by a strict comparison of their fractional parts",
		Run: ruleNumLessFrac})
	register(&Rule{Name: "ENUM.DOMAIN", Props: []string{"C14"}, Floor: 4,
		Doc: "the constructors give enumerations the int32 range and bit sets the uint32 range",
		Run: ruleEnumDomain})
}

// loopBodies: for every loop header of fn, the successor through which the header is reached again.
func loopBodies(fn *ssa.Function) []*ssa.BasicBlock {
	var out []*ssa.BasicBlock
	for _, h := range fn.Blocks {
		if !isLoopHeader(h) {
			continue
		}
		for _, s := range h.Succs {
			if len(s.Preds) != 1 {
				continue
			}
			// s is a body entry when some back edge into h comes from a block s dominates
			for _, p := range h.Preds {
				if s.Dominates(p) {
					out = append(out, s)
					break
				}
			}
		}
	}
	return out
}

func ruleRangeForall(c *Ctx) []Obligation {
	const R = "RANGE.FORALL"
	var obs []Obligation
	// the universally quantified predicates of the type resolver: subset of ranges, and the element-wise equalities
	// that decide whether a derived type changed anything and whether a union member is already listed
	for _, name := range []string{"yang.(YangRange).Contains", "yang.(YangRange).Equal", "yang.ssEqual", "yang.tsEqual"} {
		fn := c.Fn(name)
		short := name[strings.LastIndex(name, ".")+1:]
		if fn == nil {
			if short == "Contains" {
				obs = append(obs, undecided(R, "subset test", "-", name+" not found"))
			}
			continue
		}
		bodies := loopBodies(fn)
		if len(bodies) == 0 {
			if short == "Contains" {
				obs = append(obs, undecided(R, short+": loops over the parts of its argument", c.Pos(fn.Pos()), "no loop found: the predicate has another shape than the one this rule was written for"))
			}
			continue
		}
		n := 0
		inBody := func(b *ssa.BasicBlock) bool {
			for _, body := range bodies {
				if body.Dominates(b) {
					return true
				}
			}
			return false
		}
		// a result carried in a flag: constants that enter the returned value on an edge from inside a loop
		seenPhi := map[*ssa.Phi]bool{}
		var flagEdges func(v ssa.Value)
		flagEdges = func(v ssa.Value) {
			phi, isPhi := v.(*ssa.Phi)
			if !isPhi || seenPhi[phi] {
				return
			}
			seenPhi[phi] = true
			for i, e := range phi.Edges {
				pred := phi.Block().Preds[i]
				if k, isK := e.(*ssa.Const); isK && k.Value != nil && inBody(pred) {
					n++
					con := fmt.Sprintf("%s: verdict #%d set inside the loop rejects", short, n)
					if k.Value.String() == "false" {
						obs = append(obs, ok(R, con, c.InstrPos(pred.Instrs[len(pred.Instrs)-1]), "flag = false"))
					} else {
						obs = append(obs, bad(R, con, c.InstrPos(pred.Instrs[len(pred.Instrs)-1]), "a predicate that must hold for every element is set to true from inside its loop: the elements examined later cannot reject any more"))
					}
					continue
				}
				flagEdges(e)
			}
		}
		for _, b := range fn.Blocks {
			r, isR := b.Instrs[len(b.Instrs)-1].(*ssa.Return)
			if !isR || len(r.Results) != 1 {
				continue
			}
			flagEdges(r.Results[0])
			early := ""
			for _, body := range bodies {
				if body.Dominates(b) {
					early = "from inside the loop"
				}
			}
			for _, g := range guardsAt(b) {
				if bo, isB := g.Cond.(*ssa.BinOp); isB && isLenOf(bo.X) && isLenOf(bo.Y) && (bo.Op == token.NEQ && g.Branch || bo.Op == token.EQL && !g.Branch) {
					early = "on a length mismatch"
				}
			}
			if early == "" {
				continue
			}
			n++
			con := fmt.Sprintf("%s: exit #%d %s rejects", short, n, early)
			if k, isK := r.Results[0].(*ssa.Const); isK && k.Value != nil && k.Value.String() == "false" {
				obs = append(obs, ok(R, con, c.InstrPos(r), "return false"))
			} else {
				obs = append(obs, bad(R, con, c.InstrPos(r), "a predicate that must hold for every element answers something other than false before every element has been examined: a restriction with a part outside its parent's set is accepted, or two different member lists compare equal (a union member or a changed restriction is dropped)"))
			}
		}
		if n == 0 {
			obs = append(obs, bad(R, short+": an element that fails is rejected", c.Pos(fn.Pos()), "neither an exit nor a verdict set inside the loops: nothing rejects"))
		}
	}
	return obs
}

func ruleNumLessFrac(c *Ctx) []Obligation {
	const R = "NUM.LESS.FRAC"
	fn := c.Fn("yang.(Number).Less")
	if fn == nil {
		return []Obligation{undecided(R, "number ordering", "-", "(Number).Less not found")}
	}
	con := "Less: equal integer parts are ordered by their fractional parts"
	calls := func(v ssa.Value, name string) bool {
		call, isC := v.(*ssa.Call)
		return isC && call.Call.StaticCallee() != nil && baseName(call.Call.StaticCallee()) == name
	}
	usesTrunc := false
	var fracCmp *ssa.BinOp
	eachInstr(fn, func(in ssa.Instruction) {
		bo, isB := in.(*ssa.BinOp)
		if !isB {
			return
		}
		if calls(bo.X, "Trunc") && calls(bo.Y, "Trunc") {
			usesTrunc = true
		}
		if calls(bo.X, "frac") && calls(bo.Y, "frac") && (bo.Op == token.LSS || bo.Op == token.GTR) {
			fracCmp = bo
		}
	})
	if !usesTrunc {
		o := ok(R, con, c.Pos(fn.Pos()), "Less does not split numbers into integer and fractional parts; nothing to pair")
		o.Trivial = true
		return []Obligation{o}
	}
	if fracCmp == nil {
		return []Obligation{bad(R, con, c.Pos(fn.Pos()), "the integer parts are compared but no strict comparison of the two fractional parts exists: 1.2 and 1.5 would compare as equal")}
	}
	// the comparison must reach a return
	reaches := false
	seen := map[ssa.Value]bool{}
	var walk func(v ssa.Value)
	walk = func(v ssa.Value) {
		if seen[v] {
			return
		}
		seen[v] = true
		for _, r := range *v.Referrers() {
			switch x := r.(type) {
			case *ssa.Return:
				reaches = true
			case *ssa.Phi:
				walk(x)
			case *ssa.UnOp:
				walk(x)
			}
		}
	}
	walk(fracCmp)
	if !reaches {
		return []Obligation{bad(R, con, c.InstrPos(fracCmp), "the comparison of the fractional parts does not reach a return")}
	}
	return []Obligation{ok(R, con, c.InstrPos(fracCmp), "nf < mf flows to the result")}
}

func ruleEnumDomain(c *Ctx) []Obligation {
	const R = "ENUM.DOMAIN"
	var obs []Obligation
	et := c.MustNamed("yang", "EnumType")
	fMin, fMax, fUnique := FieldVar(et, "min"), FieldVar(et, "max"), FieldVar(et, "unique")
	for _, fn := range c.Funcs {
		if fn.Signature.Recv() != nil || fn.Signature.Results().Len() != 1 || namedOf(fn.Signature.Results().At(0).Type()) != et || fn.Blocks == nil {
			continue
		}
		vals := map[*types.Var]int64{}
		has := map[*types.Var]bool{}
		unique := false
		eachInstr(fn, func(in ssa.Instruction) {
			st, isS := in.(*ssa.Store)
			if !isS {
				return
			}
			_, f, _ := fieldOf(st.Addr)
			if f == fUnique {
				if k, isK := st.Val.(*ssa.Const); isK && k.Value != nil && k.Value.String() == "true" {
					unique = true
				}
			}
			if f == fMin || f == fMax {
				if k, okk := constInt(st.Val); okk {
					vals[f], has[f] = k, true
				}
			}
		})
		wantMin, wantMax, what := int64(0), int64(1<<32-1), "bit positions: [0, 2^32-1]"
		if unique {
			wantMin, wantMax, what = -1<<31, 1<<31-1, "enum values: [-2^31, 2^31-1]"
		}
		for _, f := range []*types.Var{fMin, fMax} {
			want := wantMin
			if f == fMax {
				want = wantMax
			}
			con := fmt.Sprintf("%s: %s bound of the domain (%s)", c.FnName(fn), recordedFieldName(f), what)
			got := vals[f] // an unset field is zero
			if !has[f] && want != 0 {
				obs = append(obs, bad(R, con, c.Pos(fn.Pos()), "the bound is not set by a constant store"))
			} else if got != want {
				obs = append(obs, bad(R, con, c.Pos(fn.Pos()), fmt.Sprintf("the bound is %d, RFC 7950 says %d: values outside the range are accepted, or legal ones refused", got, want)))
			} else {
				obs = append(obs, ok(R, con, c.Pos(fn.Pos()), fmt.Sprintf("%d", got)))
			}
		}
	}
	return obs
}

func init() {
	register(&Rule{Name: "FIND.LAZY", Props: []string{"C17", "C07"}, Floor: 1,
		Doc: "where the path lookup creates an rpc's missing input/output on demand it does so only when the slot is empty, never over an existing subtree",
		Run: ruleFindLazy})
}

func ruleFindLazy(c *Ctx) []Obligation {
	const R = "FIND.LAZY"
	fn := c.Fn("yang.(*Entry).Find")
	if fn == nil {
		return []Obligation{undecided(R, "path lookup", "-", "(*Entry).Find not found")}
	}
	m := c.entryModel()
	var obs []Obligation
	n := 0
	for _, f := range []*types.Var{m.fIn, m.fOut} {
		for _, st := range c.storesToFieldDeep(fn, f) {
			n++
			con := fmt.Sprintf("Find: store #%d to RPCEntry.%s happens only into an empty slot", n, recordedFieldName(f))
			path := AccessPath(st.Addr)
			guarded := false
			for _, g := range guardsAt(st.Block()) {
				x, isEq, okn := nilTest(g.Cond)
				if !okn || isEq != g.Branch {
					continue
				}
				if _, gf, _ := loadedField(x); gf == f && AccessPath(x) == path {
					guarded = true
				}
			}
			if guarded {
				obs = append(obs, ok(R, con, c.InstrPos(st), "under `slot == nil`"))
			} else {
				obs = append(obs, bad(R, con, c.InstrPos(st), "the lookup overwrites the rpc's "+recordedFieldName(f)+" subtree without knowing the slot is empty: an existing input/output with all its children is replaced by an empty one, and the path that names a node inside it no longer finds it"))
			}
		}
	}
	if n == 0 {
		o := ok(R, "Find: no on-demand creation of rpc input/output", c.Pos(fn.Pos()), "the lookup does not write the slots")
		o.Trivial = true
		obs = append(obs, o)
	}
	return obs
}

func isBoolType(t types.Type) bool {
	b, ok := t.Underlying().(*types.Basic)
	return ok && b.Kind() == types.Bool
}

func init() {
	register(&Rule{Name: "CMP.ANTISYM", Props: []string{"C05", "C04"}, Floor: 4,
		Doc: "a comparator that decides one direction of a strict comparison with a constant result decides the mirrored comparison with the opposite result; a three-way comparator answers 0 only when neither holds",
		Run: ruleCmpAntisym})
}

// comparatorFns: Less methods of sort.Interface implementations, and functions of two same-typed parameters whose every
// result is an integer constant (three-way comparators), in the library packages.
func (c *Ctx) comparatorFns() []*ssa.Function {
	var out []*ssa.Function
	for _, fn := range c.Funcs {
		if fn.Blocks == nil || !c.isRepoFn(fn) || fn.Signature.Results().Len() != 1 {
			continue
		}
		if root := rootFn(fn); root.Pkg == nil || shortPkg(root.Pkg.Pkg.Path()) == "main" {
			continue
		}
		res := fn.Signature.Results().At(0).Type()
		switch {
		case fn.Signature.Recv() != nil && baseName(fn) == "Less" && isBoolType(res):
			out = append(out, fn)
		case fn.Parent() != nil && isBoolType(res) && fn.Signature.Params().Len() == 2 && isIntType(fn.Signature.Params().At(0).Type()) && isIntType(fn.Signature.Params().At(1).Type()):
			out = append(out, fn) // func(i, j int) bool literals: the comparators handed to sort.Slice
		case fn.Signature.Recv() == nil && fn.Signature.Params().Len() == 2 && types.Identical(fn.Signature.Params().At(0).Type(), fn.Signature.Params().At(1).Type()):
			if b, isB := res.Underlying().(*types.Basic); isB && b.Kind() == types.Int {
				allConst := true
				eachInstr(fn, func(in ssa.Instruction) {
					if r, isR := in.(*ssa.Return); isR {
						if _, isK := r.Results[0].(*ssa.Const); !isK {
							allConst = false
						}
					}
				})
				if allConst {
					out = append(out, fn)
				}
			}
		}
	}
	return out
}

func ruleCmpAntisym(c *Ctx) []Obligation {
	const R = "CMP.ANTISYM"
	var obs []Obligation
	type decided struct {
		ret  *ssa.Return
		k    string // constant returned
		op   token.Token
		x, y ssa.Value
	}
	sameOperand := func(a, b ssa.Value) bool {
		if a == b || sameLoadExpr(a, b) {
			return true
		}
		ka, ok1 := a.(*ssa.Const)
		kb, ok2 := b.(*ssa.Const)
		if ok1 && ok2 {
			return ka.Value != nil && kb.Value != nil && ka.Value.ExactString() == kb.Value.ExactString()
		}
		// loads of the same element / field
		ua, ok1 := a.(*ssa.UnOp)
		ub, ok2 := b.(*ssa.UnOp)
		if ok1 && ok2 && ua.Op == token.MUL && ub.Op == token.MUL {
			ia, ok1 := ua.X.(*ssa.IndexAddr)
			ib, ok2 := ub.X.(*ssa.IndexAddr)
			if ok1 && ok2 {
				if ia.X != ib.X {
					return false
				}
				if ia.Index == ib.Index {
					return true
				}
				k1, okk1 := constInt(ia.Index)
				k2, okk2 := constInt(ib.Index)
				return okk1 && okk2 && k1 == k2
			}
			pa := AccessPath(a)
			return pa != "" && pa == AccessPath(b) && !strings.HasPrefix(pa, "t")
		}
		return false
	}
	for _, fn := range c.comparatorFns() {
		isInt := !isBoolType(fn.Signature.Results().At(0).Type())
		var ds []decided
		var plain []*ssa.Return // constant returns not directly under a strict comparison
		for _, b := range fn.Blocks {
			r, isR := b.Instrs[len(b.Instrs)-1].(*ssa.Return)
			if !isR {
				continue
			}
			k, isK := r.Results[0].(*ssa.Const)
			if !isK || k.Value == nil {
				continue
			}
			found := false
			for _, g := range guardsAt(b) {
				idx := 1
				if g.Branch {
					idx = 0
				}
				if g.If.Block().Succs[idx] != b {
					continue
				}
				// a.Less(b) is a strict comparison a < b
				if lc, isLC := g.Cond.(*ssa.Call); isLC && g.Branch && lc.Call.StaticCallee() != nil && baseName(lc.Call.StaticCallee()) == "Less" && len(lc.Call.Args) == 2 {
					ds = append(ds, decided{r, k.Value.ExactString(), token.LSS, lc.Call.Args[0], lc.Call.Args[1]})
					found = true
					continue
				}
				bo, isB := g.Cond.(*ssa.BinOp)
				if !isB {
					continue
				}
				op := bo.Op
				if !g.Branch {
					op = map[token.Token]token.Token{token.LSS: token.GEQ, token.GTR: token.LEQ, token.LEQ: token.GTR, token.GEQ: token.LSS, token.EQL: token.NEQ, token.NEQ: token.EQL}[op]
				}
				switch op {
				case token.LSS, token.GTR:
					ds = append(ds, decided{r, k.Value.ExactString(), op, bo.X, bo.Y})
					found = true
				case token.EQL:
					// switch on a three-way result: `case -1: … case 1: …`
					if kk, okk := constInt(bo.Y); okk && kk != 0 {
						ds = append(ds, decided{r, k.Value.ExactString(), token.EQL, bo.X, bo.Y})
						found = true
					}
				}
			}
			if !found {
				plain = append(plain, r)
			}
		}
		// a strict comparison evaluated where its operands are known to be equal decides nothing: the sign of a
		// swapped tie-break test (`if a.k == b.k { return a.k < b.k }`)
		nEq := 0
		eachInstr(fn, func(in ssa.Instruction) {
			bo, isB := in.(*ssa.BinOp)
			if !isB || (bo.Op != token.LSS && bo.Op != token.GTR) {
				return
			}
			for _, g := range guardsAt(bo.Block()) {
				gb, isG := g.Cond.(*ssa.BinOp)
				if !isG || !(gb.Op == token.EQL && g.Branch || gb.Op == token.NEQ && !g.Branch) {
					continue
				}
				if sameLoadExpr(gb.X, bo.X) && sameLoadExpr(gb.Y, bo.Y) || sameLoadExpr(gb.X, bo.Y) && sameLoadExpr(gb.Y, bo.X) {
					nEq++
					obs = append(obs, bad(R, fmt.Sprintf("%s: comparison #%d is made between keys not known to be equal", c.FnName(fn), nEq), c.InstrPos(bo), "the two keys are compared with "+bo.Op.String()+" on the path where they were just found equal ("+c.InstrPos(gb)+"): the answer is always false, the primary key never orders anything, and elements with equal secondary keys keep their input (map) order"))
				}
			}
		})
		// both sides of a comparison select the same key: x[i].F against x[j].F, never x[i].F against x[j].G
		if isBoolType(fn.Signature.Results().At(0).Type()) {
			keyPath := func(v ssa.Value) (string, bool) {
				var parts []string
				indexed := false
				for d := 0; d < 8; d++ {
					switch x := v.(type) {
					case *ssa.UnOp:
						v = x.X
						continue
					case *ssa.FieldAddr:
						_, f, _ := fieldOf(x)
						parts = append([]string{f.Name()}, parts...)
						v = x.X
						continue
					case *ssa.Field:
						_, f, _ := fieldOf(x)
						parts = append([]string{f.Name()}, parts...)
						v = x.X
						continue
					case *ssa.IndexAddr:
						indexed = true
					case *ssa.Index:
						indexed = true
					}
					break
				}
				return strings.Join(parts, "."), indexed && len(parts) > 0
			}
			nk := 0
			eachInstr(fn, func(in ssa.Instruction) {
				var a, b ssa.Value
				switch x := in.(type) {
				case *ssa.BinOp:
					if x.Op != token.LSS && x.Op != token.GTR && x.Op != token.EQL && x.Op != token.NEQ {
						return
					}
					a, b = x.X, x.Y
				case *ssa.Call:
					if x.Call.StaticCallee() == nil || baseName(x.Call.StaticCallee()) != "Less" || len(x.Call.Args) != 2 {
						return
					}
					a, b = x.Call.Args[0], x.Call.Args[1]
				default:
					return
				}
				pa, oka := keyPath(a)
				pb, okb := keyPath(b)
				if !oka || !okb {
					return
				}
				nk++
				con := fmt.Sprintf("%s: comparison #%d takes the same key from both elements", c.FnName(fn), nk)
				if pa == pb {
					obs = append(obs, ok(R, con, c.InstrPos(in), "."+pa+" on both sides"))
				} else {
					obs = append(obs, bad(R, con, c.InstrPos(in), "one element's ."+pa+" is compared with the other's ."+pb+": less(a,b) and less(b,a) are not mirror images, so the sort has no defined result"))
				}
			})
		}
		if len(ds) == 0 {
			if nEq == 0 && fn.Parent() != nil {
				o := ok(R, c.FnName(fn)+": no comparison between keys known to be equal", c.Pos(fn.Pos()), "tie-breaks are reached on inequality of the earlier key")
				o.Trivial = true
				obs = append(obs, o)
			}
			continue
		}
		opposite := func(k string) string {
			switch k {
			case "true":
				return "false"
			case "false":
				return "true"
			}
			if strings.HasPrefix(k, "-") {
				return k[1:]
			}
			return "-" + k
		}
		for i, d := range ds {
			con := fmt.Sprintf("%s: decision #%d has its mirror image", c.FnName(fn), i+1)
			mirrored, clash := false, ""
			for j, e := range ds {
				if i == j {
					continue
				}
				var mirror, same bool
				switch {
				case d.op == token.EQL && e.op == token.EQL:
					k1, _ := constInt(d.y)
					k2, _ := constInt(e.y)
					mirror = sameOperand(d.x, e.x) && k1 == -k2
					same = sameOperand(d.x, e.x) && k1 == k2
				case d.op != token.EQL && e.op != token.EQL:
					mirror = (d.op != e.op && sameOperand(d.x, e.x) && sameOperand(d.y, e.y)) || (d.op == e.op && sameOperand(d.x, e.y) && sameOperand(d.y, e.x))
					same = (d.op == e.op && sameOperand(d.x, e.x) && sameOperand(d.y, e.y)) || (d.op != e.op && sameOperand(d.x, e.y) && sameOperand(d.y, e.x))
				}
				if mirror && e.k == opposite(d.k) {
					mirrored = true
				}
				if same && e.k != d.k {
					clash = c.InstrPos(e.ret)
				}
			}
			switch {
			case clash != "":
				obs = append(obs, bad(R, con, c.InstrPos(d.ret), "the same comparison is decided a second time with a different result at "+clash+": one of the two is dead code, and the mirrored direction is not decided at all"))
			case mirrored:
				obs = append(obs, ok(R, con, c.InstrPos(d.ret), fmt.Sprintf("%s ↔ %s", d.k, opposite(d.k))))
			default:
				obs = append(obs, bad(R, con, c.InstrPos(d.ret), fmt.Sprintf("the comparison answers %s in one direction, but the mirrored comparison does not answer %s: less(a,b) and less(b,a) can both hold (or neither, with later fields deciding differently), so the sorted order depends on the input order", d.k, opposite(d.k))))
			}
		}
		if isInt {
			for i, r := range plain {
				con := fmt.Sprintf("%s: fall-through answer #%d is `equal`", c.FnName(fn), i+1)
				if k, _ := constInt(r.Results[0]); k == 0 {
					obs = append(obs, ok(R, con, c.InstrPos(r), "0"))
				} else {
					obs = append(obs, bad(R, con, c.InstrPos(r), "a three-way comparator answers non-zero where neither operand was found smaller: equal keys are reported as ordered, so the caller stops comparing at this field"))
				}
			}
			for _, d := range ds {
				if d.k != "-1" && d.k != "1" {
					obs = append(obs, bad(R, fmt.Sprintf("%s: answers are -1, 0 or 1", c.FnName(fn)), c.InstrPos(d.ret), "answer "+d.k+": callers switch on -1 and 1"))
				}
			}
		}
	}
	return obs
}

func init() {
	register(&Rule{Name: "INDEX.SENTINEL", Props: []string{"C02"}, Floor: 1,
		Doc: "in the lexer, the result of a substring search is tested against the not-found sentinel only (found at offset 0 is found)",
		Run: ruleIndexSentinel})
}

func ruleIndexSentinel(c *Ctx) []Obligation {
	const R = "INDEX.SENTINEL"
	lx := c.Named("yang", "lexer")
	if lx == nil {
		return []Obligation{undecided(R, "lexer type", "-", "type yang.lexer not found")}
	}
	takesLexer := func(fn *ssa.Function) bool {
		for _, p := range fn.Params {
			if pt, isP := p.Type().(*types.Pointer); isP && namedOf(pt.Elem()) == lx {
				return true
			}
		}
		return false
	}
	var obs []Obligation
	n := 0
	for _, fn := range c.Funcs {
		if fn.Blocks == nil || !takesLexer(rootFn(fn)) {
			continue
		}
		seen := 0
		eachInstr(fn, func(in ssa.Instruction) {
			call, isC := in.(*ssa.Call)
			if !isC {
				return
			}
			cal := call.Call.StaticCallee()
			if cal == nil || cal.Pkg == nil || cal.Pkg.Pkg.Path() != "strings" || !strings.Contains(cal.Name(), "Index") {
				return
			}
			for _, r := range *call.Referrers() {
				bo, isB := r.(*ssa.BinOp)
				if !isB {
					continue
				}
				switch bo.Op {
				case token.LSS, token.GTR, token.LEQ, token.GEQ, token.EQL, token.NEQ:
				default:
					continue // arithmetic on the offset (s[i+1:]) is not a found-test
				}
				var k int64
				var okk bool
				op := bo.Op
				if bo.X == ssa.Value(call) {
					k, okk = constInt(bo.Y)
				} else {
					k, okk = constInt(bo.X)
					op = map[token.Token]token.Token{token.LSS: token.GTR, token.GTR: token.LSS, token.LEQ: token.GEQ, token.GEQ: token.LEQ, token.EQL: token.EQL, token.NEQ: token.NEQ}[op]
				}
				if !okk {
					continue
				}
				n++
				seen++
				con := fmt.Sprintf("%s: search result test #%d separates found from not found", c.FnName(fn), seen)
				// the tests that split exactly {-1} from {0, 1, …}
				exact := op == token.GEQ && k == 0 || op == token.LSS && k == 0 || op == token.GTR && k == -1 || op == token.LEQ && k == -1 || (op == token.EQL || op == token.NEQ) && k == -1
				if exact {
					obs = append(obs, ok(R, con, c.InstrPos(bo), fmt.Sprintf("%s %s %d", cal.Name(), op, k)))
				} else {
					obs = append(obs, bad(R, con, c.InstrPos(bo), fmt.Sprintf("the result of strings.%s is tested with `%s %d`: a match at the very start of the remaining input (offset 0) is treated like no match, e.g. the empty comment /**/ becomes unterminated", cal.Name(), op, k)))
				}
			}
		})
	}
	if n == 0 {
		o := ok(R, "no substring search in the lexer is tested against a constant", "-", "nothing to decide")
		o.Trivial = true
		obs = append(obs, o)
	}
	return obs
}

func init() {
	register(&Rule{Name: "LINK.FIXPOINT", Props: []string{"C05", "C13"}, Floor: 2,
		Doc: "imports and includes are linked in passes repeated until a pass loads nothing, and every pass starts with an empty visited set",
		Run: ruleLinkFixpoint})
}

func ruleLinkFixpoint(c *Ctx) []Obligation {
	const R = "LINK.FIXPOINT"
	inc := c.Fn("yang.(*Modules).include")
	proc := c.Fn("yang.(*Modules).Process")
	if inc == nil || proc == nil {
		return []Obligation{undecided(R, "linker", "-", "(*Modules).include / Process not found")}
	}
	var obs []Obligation
	// the call of include from outside include itself, under Process
	var site ssa.CallInstruction
	var host *ssa.Function
	reach := c.Reach([]*ssa.Function{proc}, nil)
	inside := c.Reach([]*ssa.Function{inc}, nil) // the linker's own recursion (helpers included)
	for _, fn := range c.Funcs {
		if !reach[fn] || fn == inc || inside[fn] || fn.Blocks == nil {
			continue
		}
		for _, ci := range c.callsTo(fn, inc) {
			site, host = ci, fn
		}
	}
	con := "linking is repeated until a pass loads no further module"
	if site == nil {
		return []Obligation{undecided(R, con, c.Pos(proc.Pos()), "no call of include under Process")}
	}
	inner := loopHeaderOf(site.Block())
	var outer *ssa.BasicBlock
	if inner != nil {
		for h := inner.Idom(); h != nil; h = h.Idom() {
			for _, p := range h.Preds {
				// a back edge of a loop that contains the inner one: reached from it without leaving through h
				// (a loop that merely precedes the pass inside the retry loop is reached only through its header)
				if h.Dominates(p) && blockReaches(inner, p, map[*ssa.BasicBlock]bool{h: true}) {
					outer = h
				}
			}
			if outer != nil {
				break
			}
		}
	}
	if inner == nil || outer == nil {
		obs = append(obs, bad(R, con, c.InstrPos(site), "the modules are linked in a single pass: an import without revision-date that was linked before a later statement fetched a newer revision from disk keeps the older one, so the links depend on the order of the modules"))
		return obs
	}
	// the exit of the outer loop compares module counts (nothing was loaded)
	mods := c.MustNamed("yang", "Modules")
	fM, fS := FieldVar(mods, "Modules"), FieldVar(mods, "SubModules")
	exitOK := false
	for _, b := range host.Blocks {
		if !outer.Dominates(b) || !blockReaches(b, outer, nil) && b != outer {
			continue
		}
		ifi, isIf := b.Instrs[len(b.Instrs)-1].(*ssa.If)
		if !isIf {
			continue
		}
		leaves := false
		for _, s := range b.Succs {
			if !blockReaches(s, outer, nil) {
				leaves = true
			}
		}
		if !leaves {
			continue
		}
		// the comparison itself, or a flag that carries it round the loop (for changed := true; changed; { … })
		var bo *ssa.BinOp
		backSlice(ifi.Cond, func(x ssa.Value) bool {
			if b2, isB := x.(*ssa.BinOp); isB && (b2.Op == token.EQL || b2.Op == token.NEQ) && bo == nil {
				bo = b2
			}
			return true
		})
		if bo == nil {
			continue
		}
		var counts func(v ssa.Value) bool
		counts = func(v ssa.Value) bool {
			switch x := v.(type) {
			case *ssa.BinOp:
				return counts(x.X) || counts(x.Y)
			case *ssa.Phi:
				for _, e := range x.Edges {
					if counts(e) {
						return true
					}
				}
			case *ssa.Call:
				if bi, isBI := x.Call.Value.(*ssa.Builtin); isBI && bi.Name() == "len" {
					_, f, _ := loadedField(x.Call.Args[0])
					return f == fM || f == fS
				}
			}
			return false
		}
		if counts(bo.X) && counts(bo.Y) {
			exitOK = true
		}
	}
	if exitOK {
		obs = append(obs, ok(R, con, c.InstrPos(site), "the retry loop is left when the number of filed modules did not change"))
	} else {
		obs = append(obs, bad(R, con, c.InstrPos(site), "the loop around the linking pass is not left on `the number of filed modules is unchanged`"))
	}
	// the linker descends into what it found: every recursive call of include is handed the module FindModule returned
	if fm := c.Fn("yang.(*Modules).FindModule"); fm != nil {
		k := 0
		for _, fn2 := range c.Funcs {
			if fn2.Blocks == nil || !(fn2 == inc || inside[fn2]) {
				continue
			}
			for _, ci := range c.callsTo(fn2, inc) {
				k++
				conR := fmt.Sprintf("include: recursive call #%d descends into the module that was found", k)
				arg := ci.Common().Args[len(ci.Common().Args)-1]
				if derivesFrom(arg, func(x ssa.Value) bool {
					call, isC := x.(*ssa.Call)
					return isC && call.Call.StaticCallee() == fm
				}) {
					obs = append(obs, ok(R, conR, c.InstrPos(ci), "the argument is the result of FindModule"))
				} else {
					obs = append(obs, bad(R, conR, c.InstrPos(ci), "the recursion is not handed the module just found (it re-enters the module it is in, which the visited set turns into a no-op): the imports and includes of imported modules are never linked"))
				}
			}
		}
	}
	// the visited set of include is emptied at the start of every pass
	con = "every linking pass starts with an empty visited set"
	var memo *types.Var
	eachInstr(inc, func(in ssa.Instruction) {
		if mu, isM := in.(*ssa.MapUpdate); isM {
			if _, f, _ := loadedField(mu.Map); f != nil {
				if owner, _, _ := loadedFieldOwner(mu.Map); owner == mods {
					memo = f
				}
			}
		}
	})
	if memo == nil {
		o := ok(R, con, c.Pos(inc.Pos()), "include keeps no visited set on the module set")
		o.Trivial = true
		return append(obs, o)
	}
	reset := false
	for _, st := range storesToField(host, memo) {
		if _, isMk := st.Val.(*ssa.MakeMap); !isMk {
			continue
		}
		b := st.Block()
		if outer.Dominates(b) && blockReaches(b, outer, nil) && b.Dominates(inner) {
			reset = true
		}
	}
	if reset {
		obs = append(obs, ok(R, con, c.InstrPos(site), "Modules."+recordedFieldName(memo)+" = map{} inside the retry loop, before the pass"))
	} else {
		obs = append(obs, bad(R, con, c.InstrPos(site), "the visited set Modules."+recordedFieldName(memo)+" is not emptied inside the retry loop: every pass after the first returns at once for each module, nothing is linked again, and the repeat has no effect"))
	}
	return obs
}

func loadedFieldOwner(v ssa.Value) (*types.Named, *types.Var, ssa.Value) {
	owner, f, base := loadedField(v)
	return owner, f, base
}

func init() {
	register(&Rule{Name: "ID.POST", Props: []string{"C01", "C11", "C04"}, Floor: 3,
		Doc: "post-condition of the identity-base lookup: a return with an empty error list is reached only where the base was found (callers dereference it when no error came back)",
		Run: ruleIDPost})
}

func ruleIDPost(c *Ctx) []Obligation {
	const R = "ID.POST"
	fn := c.Fn("yang.(*Module).findIdentityBase")
	if fn == nil {
		return []Obligation{undecided(R, "identity base lookup", "-", "(*Module).findIdentityBase not found")}
	}
	var obs []Obligation
	// evidence on an edge that the base was found: a comma-ok map lookup said ok, or the emptiness test said no
	found := func(gs []Guard) string {
		for _, g := range gs {
			if ex, isE := g.Cond.(*ssa.Extract); isE && ex.Index == 1 && g.Branch {
				if l, isL := ex.Tuple.(*ssa.Lookup); isL && l.CommaOk {
					return "the dictionary lookup succeeded"
				}
			}
			if call, isC := g.Cond.(*ssa.Call); isC && !g.Branch {
				if cal := call.Call.StaticCallee(); cal != nil && baseName(cal) == "isEmpty" {
					return "the base is not empty"
				}
			}
		}
		return ""
	}
	edgeGuards := func(p, to *ssa.BasicBlock) []Guard {
		gs := guardsAt(p)
		if ifi, isIf := p.Instrs[len(p.Instrs)-1].(*ssa.If); isIf && p.Succs[0] != p.Succs[1] {
			gs = append(gs, Guard{Cond: ifi.Cond, Branch: p.Succs[0] == to, If: ifi})
		}
		// the guards of p itself when p is only entered through one branch
		return gs
	}
	n := 0
	for _, b := range fn.Blocks {
		r, isR := b.Instrs[len(b.Instrs)-1].(*ssa.Return)
		if !isR || len(r.Results) != 2 {
			continue
		}
		ev := resolveSpill(r.Results[1], r)
		type edge struct {
			pred *ssa.BasicBlock
			val  ssa.Value
		}
		var edges []edge
		if phi, isPhi := ev.(*ssa.Phi); isPhi && phi.Block() == b {
			for i, e := range phi.Edges {
				edges = append(edges, edge{b.Preds[i], e})
			}
		} else {
			for _, p := range b.Preds {
				edges = append(edges, edge{p, ev})
			}
		}
		for _, e := range edges {
			n++
			con := fmt.Sprintf("findIdentityBase: return edge #%d carries an error or a found base", n)
			pos := c.InstrPos(e.pred.Instrs[len(e.pred.Instrs)-1])
			if definitelyNonEmptySlice(e.val, e.pred) {
				obs = append(obs, ok(R, con, pos, "an error was appended on this path"))
				continue
			}
			if why := found(edgeGuards(e.pred, b)); why != "" {
				obs = append(obs, ok(R, con, pos, why))
				continue
			}
			obs = append(obs, bad(R, con, pos, "this path returns without an error and without evidence that the base was found: the callers take `no error` as `base resolved` and dereference its identity (nil), or link the identity to nothing"))
		}
	}
	if n == 0 {
		obs = append(obs, undecided(R, "findIdentityBase: returns", c.Pos(fn.Pos()), "no (base, errors) return found"))
	}
	return obs
}

func isIntType(t types.Type) bool {
	b, ok := t.Underlying().(*types.Basic)
	return ok && b.Kind() == types.Int
}

// sameLoadExpr: a and b read the same place: equal chains of loads, field selections and element selections over
// identical roots (parameters, free variables, SSA values) and identical or equal-constant indices.
func sameLoadExpr(a, b ssa.Value) bool {
	if a == b {
		return true
	}
	switch x := a.(type) {
	case *ssa.UnOp:
		y, ok := b.(*ssa.UnOp)
		return ok && x.Op == y.Op && sameLoadExpr(x.X, y.X)
	case *ssa.FieldAddr:
		y, ok := b.(*ssa.FieldAddr)
		return ok && x.Field == y.Field && sameLoadExpr(x.X, y.X)
	case *ssa.Field:
		y, ok := b.(*ssa.Field)
		return ok && x.Field == y.Field && sameLoadExpr(x.X, y.X)
	case *ssa.IndexAddr:
		y, ok := b.(*ssa.IndexAddr)
		return ok && sameLoadExpr(x.X, y.X) && sameLoadExpr(x.Index, y.Index)
	case *ssa.Const:
		y, ok := b.(*ssa.Const)
		return ok && x.Value != nil && y.Value != nil && x.Value.ExactString() == y.Value.ExactString()
	case *ssa.MakeInterface:
		y, ok := b.(*ssa.MakeInterface)
		return ok && sameLoadExpr(x.X, y.X)
	case *ssa.ChangeType:
		y, ok := b.(*ssa.ChangeType)
		return ok && sameLoadExpr(x.X, y.X)
	case *ssa.Convert:
		y, ok := b.(*ssa.Convert)
		return ok && types.Identical(x.Type(), y.Type()) && sameLoadExpr(x.X, y.X)
	case *ssa.Call:
		y, ok := b.(*ssa.Call)
		if !ok || len(x.Call.Args) != len(y.Call.Args) {
			return false
		}
		bx, isBx := x.Call.Value.(*ssa.Builtin)
		by, isBy := y.Call.Value.(*ssa.Builtin)
		switch {
		case isBx && isBy && bx.Name() == by.Name() && (bx.Name() == "len" || bx.Name() == "cap"):
		case x.Call.StaticCallee() != nil && x.Call.StaticCallee() == y.Call.StaticCallee():
		default:
			return false
		}
		for i := range x.Call.Args {
			if !sameLoadExpr(x.Call.Args[i], y.Call.Args[i]) {
				return false
			}
		}
		return true
	}
	return false
}

func init() {
	register(&Rule{Name: "ERR.EMPTYTEST", Props: []string{"C04", "C18"}, Floor: 4,
		Doc: "the length of an error list is only ever tested for emptiness (never against another count, never with a test that cannot fail)",
		Run: ruleErrEmptyTest})
}

func ruleErrEmptyTest(c *Ctx) []Obligation {
	const R = "ERR.EMPTYTEST"
	var obs []Obligation
	reach := c.Reach(c.libraryRoots(), nil)
	for _, fn := range c.Funcs {
		if fn.Blocks == nil || !reach[fn] || !c.isRepoFn(fn) {
			continue
		}
		if root := rootFn(fn); root.Pkg == nil || shortPkg(root.Pkg.Pkg.Path()) == "main" {
			continue
		}
		n := 0
		eachInstr(fn, func(in ssa.Instruction) {
			bo, isB := in.(*ssa.BinOp)
			if !isB {
				return
			}
			x, y, op := bo.X, bo.Y, bo.Op
			if isLenOf(y) {
				x, y = y, x
				op = map[token.Token]token.Token{token.LSS: token.GTR, token.GTR: token.LSS, token.LEQ: token.GEQ, token.GEQ: token.LEQ, token.EQL: token.EQL, token.NEQ: token.NEQ}[op]
			}
			if !isLenOf(x) || !isErrorSlice(x.(*ssa.Call).Call.Args[0].Type()) {
				return
			}
			k, okk := constInt(y)
			if !okk {
				return
			}
			switch op {
			case token.LSS, token.GTR, token.LEQ, token.GEQ:
			default:
				return // == / != against a count (a switch on the length) is a different statement
			}
			n++
			con := fmt.Sprintf("%s: error-count test #%d is an emptiness test", c.FnName(fn), n)
			empt := op == token.GTR && k == 0 || op == token.LEQ && k == 0 || op == token.GEQ && k == 1 || op == token.LSS && k == 1
			if empt {
				o := ok(R, con, c.InstrPos(bo), fmt.Sprintf("len %s %d", op, k))
				obs = append(obs, o)
			} else {
				obs = append(obs, bad(R, con, c.InstrPos(bo), fmt.Sprintf("the number of errors is tested with `%s %d`: the test either cannot fail / cannot hold, or lets one error through as if there were none", op, k)))
			}
		})
	}
	return obs
}

func init() {
	register(&Rule{Name: "REV.FULLNAME", Props: []string{"C13", "C05"}, Floor: 1,
		Doc: "a module's full name carries its current revision exactly when it has one (the module table is keyed by it)",
		Run: ruleRevFullName})
}

func ruleRevFullName(c *Ctx) []Obligation {
	const R = "REV.FULLNAME"
	fn := c.Fn("yang.(*Module).FullName")
	cur := c.Fn("yang.(*Module).Current")
	if fn == nil || cur == nil {
		return []Obligation{undecided(R, "full name", "-", "(*Module).FullName / Current not found")}
	}
	con := "FullName is name@revision where the module has a revision, the bare name otherwise"
	var obs []Obligation
	decided := false
	for _, b := range fn.Blocks {
		r, isR := b.Instrs[len(b.Instrs)-1].(*ssa.Return)
		if !isR || len(r.Results) != 1 {
			continue
		}
		// does the returned string contain the current revision?
		var revCall *ssa.Call
		var walk func(v ssa.Value, d int)
		walk = func(v ssa.Value, d int) {
			if d > 6 {
				return
			}
			switch x := v.(type) {
			case *ssa.BinOp:
				walk(x.X, d+1)
				walk(x.Y, d+1)
			case *ssa.Call:
				if x.Call.StaticCallee() == cur {
					revCall = x
				}
			}
		}
		walk(r.Results[0], 0)
		if revCall == nil {
			continue
		}
		decided = true
		under := false
		for _, g := range guardsAt(b) {
			bo, isB := g.Cond.(*ssa.BinOp)
			if !isB || bo.X != ssa.Value(revCall) {
				continue
			}
			if k, isK := bo.Y.(*ssa.Const); isK && k.Value != nil && k.Value.ExactString() == `""` {
				if bo.Op == token.NEQ && g.Branch || bo.Op == token.EQL && !g.Branch {
					under = true
				}
			}
		}
		if under {
			obs = append(obs, ok(R, con, c.InstrPos(r), `if rev != "" { return name + "@" + rev }`))
		} else {
			obs = append(obs, bad(R, con, c.InstrPos(r), "the revision is appended on the path where it is not known to be non-empty: modules with a revision are filed under their bare name (two revisions of one module collide) and modules without one under `name@`"))
		}
	}
	if !decided {
		obs = append(obs, bad(R, con, c.Pos(fn.Pos()), "no return of FullName contains the current revision: all revisions of a module share one key"))
	}
	return obs
}

func init() {
	register(&Rule{Name: "INDEX.MADE", Props: []string{"C01", "C07", "C06"}, Floor: 1,
		Doc: "a constant index into the error list of an entry just made by a constructor stays below the number of errors that constructor always records",
		Run: ruleIndexMade})
}

func ruleIndexMade(c *Ctx) []Obligation {
	const R = "INDEX.MADE"
	m := c.entryModel()
	rec := c.errRecorders()
	var obs []Obligation
	// constructor → number of error records made unconditionally on the fresh entry
	always := func(g *ssa.Function) int {
		n := 0
		var rets []*ssa.Return
		eachInstr(g, func(in ssa.Instruction) {
			if r, isR := in.(*ssa.Return); isR {
				rets = append(rets, r)
			}
		})
		eachInstr(g, func(in ssa.Instruction) {
			ci, isC := in.(ssa.CallInstruction)
			if !isC || loopHeaderOf(in.Block()) != nil {
				return
			}
			cal := ci.Common().StaticCallee()
			if cal == nil || !rec[cal] || len(ci.Common().Args) == 0 {
				return
			}
			if _, fresh := rootOf(ci.Common().Args[0]).(*ssa.Alloc); !fresh {
				return
			}
			for _, r := range rets {
				if !dominates(in, r) {
					return
				}
			}
			n++
		})
		return n
	}
	for _, fn := range c.Funcs {
		if fn.Blocks == nil || !c.isRepoFn(fn) {
			continue
		}
		k2 := 0
		eachInstr(fn, func(in ssa.Instruction) {
			ia, isI := in.(*ssa.IndexAddr)
			if !isI {
				return
			}
			k, okk := constInt(ia.Index)
			if !okk {
				return
			}
			_, f, base := loadedField(ia.X)
			if f != m.fErrors {
				return
			}
			call, isC := resolveArg(rootOf(base)).(*ssa.Call)
			if !isC || call.Call.StaticCallee() == nil || !c.isRepoFn(call.Call.StaticCallee()) {
				return
			}
			g := call.Call.StaticCallee()
			k2++
			con := fmt.Sprintf("%s: constant index #%d into the errors of a fresh %s() entry", c.FnName(fn), k2, baseName(g))
			n := always(g)
			if int(k) < n {
				obs = append(obs, ok(R, con, c.InstrPos(ia), fmt.Sprintf("index %d < %d error(s) always recorded by the constructor", k, n)))
			} else {
				obs = append(obs, bad(R, con, c.InstrPos(ia), fmt.Sprintf("index %d, but the constructor records only %d error(s) on every path: the access runs off the end of the list (panic) whenever this line is reached", k, n)))
			}
		})
	}
	if len(obs) == 0 {
		o := ok(R, "no constant index into a constructor-made error list", "-", "nothing to decide")
		o.Trivial = true
		obs = append(obs, o)
	}
	return obs
}

func init() {
	register(&Rule{Name: "RANGE.SKIP", Props: []string{"C10"}, Floor: 1,
		Doc: "the subset test passes over a part of the parent set only when that part lies strictly below the part being placed (parent.Max < child.Min)",
		Run: ruleRangeSkip})
	register(&Rule{Name: "FIND.DOTS", Props: []string{"C17"}, Floor: 2,
		Doc: "the `.` and `..` steps of a path are decided before any arm that depends on the kind of the current node",
		Run: ruleFindDots})
	register(&Rule{Name: "INDENT.CLAMP", Props: []string{"C20"}, Floor: 1,
		Doc: "the short-write accounting adds the whole length of a part to the count only under a dominating test that the bytes still unaccounted for exceed it",
		Run: ruleIndentClamp})
}

func ruleRangeSkip(c *Ctx) []Obligation {
	const R = "RANGE.SKIP"
	fn := c.Fn("yang.(YangRange).Contains")
	if fn == nil {
		return []Obligation{undecided(R, "subset test", "-", "(YangRange).Contains not found")}
	}
	yr := c.MustNamed("yang", "YRange")
	fMin, fMax := FieldVar(yr, "Min"), FieldVar(yr, "Max")
	// which side does a Min/Max load belong to: the receiver's parts (indexed) or the argument's (the range element)
	side := func(v ssa.Value) (string, *types.Var) {
		_, f, base := loadedField(v)
		if f != fMin && f != fMax {
			return "", nil
		}
		root := resolveArg(rootOf(base))
		if isParamN(fn, root, 0) {
			return "parent", f
		}
		if len(fn.Params) > 1 && (isParamN(fn, root, 1) || derivesFrom(base, func(x ssa.Value) bool { return isParamN(fn, x, 1) })) {
			return "child", f
		}
		if derivesFrom(base, func(x ssa.Value) bool { return isParamN(fn, x, 0) }) {
			return "parent", f
		}
		return "", nil
	}
	var obs []Obligation
	n := 0
	for _, h := range fn.Blocks {
		if !isLoopHeader(h) {
			continue
		}
		ifi, isIf := h.Instrs[len(h.Instrs)-1].(*ssa.If)
		if !isIf {
			continue
		}
		cond, stay := stripNot(ifi.Cond, true)
		// stay: the polarity of `cond` on the edge Succs[0]; which successor stays in the loop?
		inLoop := func(b *ssa.BasicBlock) bool { return h.Dominates(b) && blockReaches(b, h, nil) }
		if !inLoop(h.Succs[0]) && inLoop(h.Succs[1]) {
			stay = !stay
		} else if !inLoop(h.Succs[0]) {
			continue
		}
		call, isC := cond.(*ssa.Call)
		if !isC || call.Call.StaticCallee() == nil || baseName(call.Call.StaticCallee()) != "Less" || len(call.Call.Args) != 2 {
			continue
		}
		sa, fa := side(call.Call.Args[0])
		sb, fb := side(call.Call.Args[1])
		if sa == "" || sb == "" || sa == sb {
			continue
		}
		n++
		con := fmt.Sprintf("Contains: loop #%d passes over a parent part only when it lies strictly below the child part", n)
		switch {
		case stay && sa == "parent" && fa == fMax && sb == "child" && fb == fMin:
			obs = append(obs, ok(R, con, c.InstrPos(ifi), "while parent.Max < child.Min"))
		case !stay && sa == "child" && fa == fMin && sb == "parent" && fb == fMax:
			obs = append(obs, bad(R, con, c.InstrPos(ifi), "the loop goes on while !(child.Min < parent.Max), i.e. while parent.Max <= child.Min: a parent part whose top is exactly where the child part starts is passed over although it covers that value, and a restriction that only narrows is refused (or placed against the wrong part)"))
		default:
			obs = append(obs, bad(R, con, c.InstrPos(ifi), fmt.Sprintf("the loop goes on under a comparison of %s.%s with %s.%s (polarity %v) that is not `parent.Max < child.Min`", sa, fa.Name(), sb, fb.Name(), stay)))
		}
	}
	if n == 0 {
		o := ok(R, "Contains: no loop that advances over parent parts by a Less test", c.Pos(fn.Pos()), "another shape; not decided")
		o.Trivial = true
		obs = append(obs, o)
	}
	return obs
}

func ruleFindDots(c *Ctx) []Obligation {
	const R = "FIND.DOTS"
	fn := c.Fn("yang.(*Entry).Find")
	if fn == nil {
		return []Obligation{undecided(R, "path lookup", "-", "(*Entry).Find not found")}
	}
	m := c.entryModel()
	var obs []Obligation
	for _, dots := range []string{".", ".."} {
		con := fmt.Sprintf("Find: the %q step does not depend on the kind of the node it is taken from", dots)
		// the tests `part == dots` inside the per-step loop; what holds where the test is made holds in its arm
		var arms []*ssa.BasicBlock
		for _, p := range fn.Blocks {
			if loopHeaderOf(p) == nil {
				continue
			}
			ifi, isIf := p.Instrs[len(p.Instrs)-1].(*ssa.If)
			if !isIf {
				continue
			}
			bo, isB := ifi.Cond.(*ssa.BinOp)
			if !isB || bo.Op != token.EQL {
				continue
			}
			if s, isS := constString(bo.Y); isS && s == dots {
				arms = append(arms, p)
			}
		}
		if len(arms) == 0 {
			obs = append(obs, undecided(R, con, c.Pos(fn.Pos()), "no arm of the per-step loop is entered on part == "+fmt.Sprintf("%q", dots)))
			continue
		}
		// the outermost such arm (the one in the main switch, not the `.` / `..` cases after the prefix was cut off)
		bad2 := ""
		free := false
		for _, b := range arms {
			kindDep := ""
			for _, g := range guardsAt(b) {
				x, _, okn := nilTest(g.Cond)
				if !okn {
					continue
				}
				if _, f, _ := loadedField(x); f == m.fRPC || f == m.fDir {
					kindDep = c.InstrPos(g.If)
				}
			}
			if kindDep == "" {
				free = true
			} else {
				bad2 = kindDep
			}
		}
		if free {
			obs = append(obs, ok(R, con, c.InstrPos(arms[0].Instrs[len(arms[0].Instrs)-1]), "an arm for it is reached without a test of RPC / Dir of the current node"))
		} else {
			obs = append(obs, bad(R, con, c.InstrPos(arms[0].Instrs[len(arms[0].Instrs)-1]), "every arm for this step sits behind a test of the node's kind ("+bad2+"): taken from an rpc / action node the step falls into the operation arm and the lookup answers nil"))
		}
	}
	return obs
}

func ruleIndentClamp(c *Ctx) []Obligation {
	const R = "INDENT.CLAMP"
	m, why := c.indentModel()
	if m == nil {
		return []Obligation{undecided(R, "indent writer model", "-", why)}
	}
	// the accounting function: the repo callee whose result Write returns together with a non-nil error
	var acct *ssa.Function
	eachInstr(m.write, func(in ssa.Instruction) {
		r, isR := in.(*ssa.Return)
		if !isR || len(r.Results) != 2 || isNilConst(r.Results[1]) {
			return
		}
		if call, isC := resolveSpill(r.Results[0], r).(*ssa.Call); isC && call.Call.StaticCallee() != nil && c.isRepoFn(call.Call.StaticCallee()) {
			acct = call.Call.StaticCallee()
		}
	})
	if acct == nil {
		o := ok(R, "short-write accounting", c.Pos(m.write.Pos()), "Write does not delegate the count of a failed write to a helper; INDENT.RET decides the return")
		o.Trivial = true
		return []Obligation{o}
	}
	fromBudget := func(v ssa.Value) bool {
		found := false
		var walk func(x ssa.Value, d int)
		seen := map[ssa.Value]bool{}
		walk = func(x ssa.Value, d int) {
			if d > 12 || seen[x] || found {
				return
			}
			seen[x] = true
			switch y := x.(type) {
			case *ssa.Parameter:
				if isIntType(y.Type()) {
					found = true
				}
			case *ssa.Phi:
				for _, e := range y.Edges {
					walk(e, d+1)
				}
			case *ssa.BinOp:
				walk(y.X, d+1)
			}
		}
		walk(v, 0)
		return found
	}
	var obs []Obligation
	n := 0
	check := func(ln *ssa.Call, at *ssa.BasicBlock, pos string) {
		n++
		con := fmt.Sprintf("%s: whole-part addition #%d is covered by the bytes still unaccounted for", c.FnName(acct), n)
		covered := false
		for _, g := range guardsAt(at) {
			bo, isB := g.Cond.(*ssa.BinOp)
			if !isB {
				continue
			}
			x, y, op := bo.X, bo.Y, bo.Op
			isLen := func(v ssa.Value) bool { return v == ssa.Value(ln) || sameExpr(v, ln) }
			if isLen(x) && fromBudget(y) {
				x, y = y, x
				op = map[token.Token]token.Token{token.LSS: token.GTR, token.GTR: token.LSS, token.LEQ: token.GEQ, token.GEQ: token.LEQ}[op]
			}
			if !fromBudget(x) || !isLen(y) {
				continue
			}
			if !g.Branch {
				op = map[token.Token]token.Token{token.LSS: token.GEQ, token.GTR: token.LEQ, token.LEQ: token.GTR, token.GEQ: token.LSS}[op]
			}
			if op == token.GTR || op == token.GEQ {
				covered = true
			}
		}
		if covered {
			obs = append(obs, ok(R, con, pos, "under `remaining > len(part)`"))
		} else {
			obs = append(obs, bad(R, con, pos, "the whole length of a part enters the count without a dominating comparison with what the underlying writer is still known to have taken: when the write stopped inside that part the count exceeds what was written, and the caller skips bytes that never went out"))
		}
	}
	seenV := map[ssa.Value]bool{}
	var walk func(v ssa.Value, at *ssa.BasicBlock)
	walk = func(v ssa.Value, at *ssa.BasicBlock) {
		if seenV[v] {
			return
		}
		seenV[v] = true
		switch x := v.(type) {
		case *ssa.Phi:
			for i, e := range x.Edges {
				walk(e, x.Block().Preds[i])
			}
		case *ssa.BinOp:
			if x.Op == token.ADD {
				walk(x.X, x.Block())
				walk(x.Y, x.Block())
			}
		case *ssa.Call:
			if isLenOf(x) {
				check(x, at, c.InstrPos(x))
			}
		}
	}
	for _, b := range acct.Blocks {
		if r, isR := b.Instrs[len(b.Instrs)-1].(*ssa.Return); isR && len(r.Results) == 1 {
			walk(r.Results[0], b)
		}
	}
	if n == 0 {
		o := ok(R, c.FnName(acct)+": no whole-part addition", c.Pos(acct.Pos()), "the count is not built from part lengths; not decided here")
		o.Trivial = true
		obs = append(obs, o)
	}
	// the accounting mirrors bytes.Join: the prefix stands BETWEEN the parts, so none is charged for the first part.
	// A subtraction of the prefix parameter inside the loop over the parts is made under a test of the loop index
	// (i > 0), or the loop starts at the second part, or one prefix was credited before the loop.
	var prefixParam *ssa.Parameter
	intParams := 0
	for _, p := range acct.Params {
		if isIntType(p.Type()) {
			intParams++
			if intParams == 2 {
				prefixParam = p
			}
		}
	}
	if prefixParam != nil {
		credited := false
		eachInstr(acct, func(in ssa.Instruction) {
			if bo, isB := in.(*ssa.BinOp); isB && bo.Op == token.ADD && (bo.X == ssa.Value(prefixParam) || bo.Y == ssa.Value(prefixParam)) && loopHeaderOf(bo.Block()) == nil {
				credited = true
			}
		})
		k := 0
		eachInstr(acct, func(in ssa.Instruction) {
			bo, isB := in.(*ssa.BinOp)
			if !isB || bo.Op != token.SUB || bo.Y != ssa.Value(prefixParam) {
				return
			}
			h := loopHeaderOf(bo.Block())
			if h == nil {
				return
			}
			k++
			con := fmt.Sprintf("%s: prefix charge #%d is not made for the first part", c.FnName(acct), k)
			okCharge := credited
			why2 := "one prefix is credited before the loop"
			for _, g := range guardsAt(bo.Block()) {
				cmp, isC := g.Cond.(*ssa.BinOp)
				if !isC {
					continue
				}
				// the loop index: a phi of the loop header (or the range index derived from it) compared with 0
				idx := cmp.X
				if b2, isB2 := idx.(*ssa.BinOp); isB2 {
					idx = b2.X
				}
				phi, isPhi := idx.(*ssa.Phi)
				if !isPhi || phi.Block() != h {
					continue
				}
				kk, okk := constInt(cmp.Y)
				if !okk {
					continue
				}
				op := cmp.Op
				if !g.Branch {
					op = map[token.Token]token.Token{token.LSS: token.GEQ, token.GTR: token.LEQ, token.LEQ: token.GTR, token.GEQ: token.LSS, token.EQL: token.NEQ, token.NEQ: token.EQL}[op]
				}
				if kk == 0 && (op == token.GTR || op == token.NEQ) || kk == 1 && op == token.GEQ {
					okCharge, why2 = true, "under `index > 0`"
				}
			}
			// a loop over parts[1:]
			for _, b2 := range acct.Blocks {
				if !h.Dominates(b2) {
					continue
				}
				for _, in2 := range b2.Instrs {
					if ia, isIA := in2.(*ssa.IndexAddr); isIA {
						if sl, isSl := ia.X.(*ssa.Slice); isSl && sl.Low != nil {
							if lo, okLo := constInt(sl.Low); okLo && lo >= 1 {
								okCharge, why2 = true, "the loop starts at the second part"
							}
						}
					}
				}
			}
			if okCharge {
				obs = append(obs, ok(R, con, c.InstrPos(bo), why2))
			} else {
				obs = append(obs, bad(R, con, c.InstrPos(bo), "a prefix is charged for every part, the first included, although Join puts the prefix between the parts only: when the chunk continues an open line its first part has no prefix in front of it, and a short write reports fewer bytes than were taken from the caller"))
			}
		})
	}
	return obs
}

func init() {
	register(&Rule{Name: "COPY.SAMENAME", Props: []string{"C04", "C06", "C08", "C12"}, Floor: 20,
		Doc: "where a struct field is filled from a field of another struct (directly, or through one conversion call) and a same-named counterpart exists, it is the same-named field that is read (no copy-paste slip between sibling fields)",
		Run: ruleCopySameName})
}

var copySameNameJustified = map[string]string{}

func ruleCopySameName(c *Ctx) []Obligation {
	const R = "COPY.SAMENAME"
	var obs []Obligation
	fieldNamed := func(n *types.Named, name string) *types.Var {
		if n == nil {
			return nil
		}
		st, ok := n.Underlying().(*types.Struct)
		if !ok {
			return nil
		}
		for i := 0; i < st.NumFields(); i++ {
			if st.Field(i).Name() == name {
				return st.Field(i)
			}
		}
		return nil
	}
	type link struct {
		owner *types.Named
		f     *types.Var
	}
	// the chain of field selections a stored value is read through (s.Description.Name → [LeafList.Description,
	// Value.Name]), directly or as the only field-read argument of one repo conversion call
	var chainOf func(v ssa.Value, depth int) []link
	chainOf = func(v ssa.Value, depth int) []link {
		switch x := v.(type) {
		case *ssa.UnOp:
			if x.Op != token.MUL {
				return nil
			}
			if owner, f, base := fieldOf(x.X); f != nil {
				return append(chainOf(base, depth), link{owner, f})
			}
		case *ssa.Field:
			if owner, f, base := fieldOf(x); f != nil {
				return append(chainOf(base, depth), link{owner, f})
			}
		case *ssa.MakeInterface:
			return chainOf(x.X, depth)
		case *ssa.ChangeType:
			return chainOf(x.X, depth)
		case *ssa.Extract:
			if x.Index == 0 && depth == 0 {
				return chainOf(x.Tuple, depth)
			}
		case *ssa.Call:
			if depth > 0 || x.Call.StaticCallee() == nil || !c.isRepoFn(x.Call.StaticCallee()) {
				return nil
			}
			var only []link
			n := 0
			for _, a := range x.Call.Args {
				if ch := chainOf(a, depth+1); len(ch) > 0 {
					only = ch
					n++
				}
			}
			if n == 1 {
				return only
			}
		}
		return nil
	}
	for _, fn := range c.Funcs {
		if fn.Blocks == nil || !c.isRepoFn(fn) {
			continue
		}
		if root := rootFn(fn); root.Pkg == nil || shortPkg(root.Pkg.Pkg.Path()) == "main" {
			continue
		}
		seen := map[string]int{}
		eachInstr(fn, func(in ssa.Instruction) {
			st, isS := in.(*ssa.Store)
			if !isS {
				return
			}
			a, k, _ := fieldOf(st.Addr)
			if k == nil || a == nil {
				return
			}
			// a re-slice stored under a sibling's name (x.F = x.G[:n:n]): the clip idiom gone wrong
			if sl, isSl := st.Val.(*ssa.Slice); isSl {
				if o2, g, _ := loadedField(sl.X); g != nil && o2 == a && g != k && types.Identical(g.Type(), k.Type()) && sameRoot(st.Addr, sl.X) {
					base := fmt.Sprintf("%s: %s.%s ← re-slice of %s.%s", c.FnName(fn), objName(a.Obj()), recordedFieldName(k), objName(a.Obj()), recordedFieldName(g))
					obs = append(obs, bad(R, base, c.InstrPos(st), "a re-slice of one field is stored into its same-typed sibling: the sibling's own content is replaced, and the field that was to be clipped still shares its array"))
				}
				return
			}
			chain := chainOf(st.Val, 0)
			if len(chain) == 0 {
				return
			}
			// copies between fields of one and the same object (saved positions, swaps) are another matter
			if sameRoot(st.Addr, st.Val) {
				return
			}
			same := false
			counterpart := ""
			for _, l := range chain {
				if l.f.Name() == k.Name() {
					same = true
				}
				if l.owner == nil {
					continue // a field of an unnamed struct type (a table row): no sibling to confuse it with
				}
				if objName(l.owner.Obj()) == "Value" {
					continue // the generic argument carrier: its Name is the text of whatever substatement holds it
				}
				// the sibling that could have been read instead, or the sibling that could have been written instead
				if g2 := fieldNamed(l.owner, k.Name()); g2 != nil && g2 != l.f && types.Identical(g2.Type(), l.f.Type()) {
					counterpart = objName(l.owner.Obj()) + "." + k.Name()
				}
				if k2 := fieldNamed(a, l.f.Name()); k2 != nil && k2 != k && types.Identical(k2.Type(), k.Type()) {
					counterpart = objName(a.Obj()) + "." + l.f.Name()
				}
			}
			if counterpart == "" && !same {
				return
			}
			var names []string
			for _, l := range chain {
				if l.owner == nil {
					names = append(names, "struct."+recordedFieldName(l.f))
					continue
				}
				names = append(names, objName(l.owner.Obj())+"."+recordedFieldName(l.f))
			}
			base := fmt.Sprintf("%s: %s.%s ← %s", c.FnName(fn), objName(a.Obj()), recordedFieldName(k), strings.Join(names, "→"))
			seen[base]++
			con := base
			if seen[base] > 1 {
				con = fmt.Sprintf("%s #%d", base, seen[base])
			}
			switch {
			case same:
				obs = append(obs, ok(R, con, c.InstrPos(st), "read through the same-named field"))
			case counterpart != "":
				if why, okj := jget("copySameNameJustified", copySameNameJustified, base); okj {
					obs = append(obs, just(R, con, c.InstrPos(st), why))
				} else {
					obs = append(obs, bad(R, con, c.InstrPos(st), fmt.Sprintf("the field is filled through a differently named field although a same-named, same-typed counterpart exists (%s): the value of one property ends up in its sibling, and the property itself keeps the zero value", counterpart)))
				}
			}
		})
	}
	return obs
}

// sameRoot: the stored-to place and the value read are selections of the same root object.
func sameRoot(addr, val ssa.Value) bool {
	ra := resolveArg(rootOf(addr))
	found := false
	backSlice(val, func(x ssa.Value) bool {
		if resolveArg(rootOf(x)) == ra || x == ra {
			found = true
		}
		return !found
	})
	return found
}

func init() {
	register(&Rule{Name: "POS.FIELDMIX", Props: []string{"C16", "C02"}, Floor: 8,
		Doc: "the lexer's position counters are not mixed up: a line argument or store takes line values, a column one takes col values, and the tab-expanded column is read only by its own updates and by the indentation test of the double-quoted state",
		Run: rulePosFieldMix})
}

func rulePosFieldMix(c *Ctx) []Obligation {
	const R = "POS.FIELDMIX"
	lx := c.Named("yang", "lexer")
	if lx == nil {
		return []Obligation{undecided(R, "lexer type", "-", "type yang.lexer not found")}
	}
	fLine, fCol, fTcol := FieldVar(lx, "line"), FieldVar(lx, "col"), FieldVar(lx, "tcol")
	fSline, fScol := FieldVar(lx, "sline"), FieldVar(lx, "scol")
	if fLine == nil || fCol == nil || fTcol == nil {
		return []Obligation{undecided(R, "lexer counters", "-", "lexer.line / col / tcol not found")}
	}
	family := map[*types.Var]string{fLine: "line", fSline: "line", fCol: "col", fScol: "col", fTcol: "tcol"}
	delete(family, nil)
	// the counter families a value is computed from (through +, -, &, phis, closure cells and parameters of ErrorfAt)
	var families func(v ssa.Value, seen map[ssa.Value]bool, out map[string]bool)
	families = func(v ssa.Value, seen map[ssa.Value]bool, out map[string]bool) {
		if v == nil || seen[v] {
			return
		}
		seen[v] = true
		switch x := v.(type) {
		case *ssa.Parameter:
			// the (line, col) parameters of ErrorfAt
			if pf := x.Parent(); pf != nil && pf == c.Fn("yang.(*lexer).ErrorfAt") {
				switch paramIndex(pf, x) {
				case 1:
					out["line"] = true
				case 2:
					out["col"] = true
				}
			}
		case *ssa.Call:
			// pure integer arithmetic put into a function of its own (nextTabStop(tcol)): the result belongs to
			// the families of the arguments
			if cal := x.Call.StaticCallee(); cal != nil && pureIntArith(c, cal) {
				for _, a := range x.Call.Args {
					families(a, seen, out)
				}
			}
		case *ssa.BinOp:
			families(x.X, seen, out)
			families(x.Y, seen, out)
		case *ssa.Phi:
			for _, e := range x.Edges {
				families(e, seen, out)
			}
		case *ssa.UnOp:
			if x.Op != token.MUL {
				families(x.X, seen, out)
				return
			}
			if _, f, _ := loadedField(x); f != nil {
				if fam, isCounter := family[f]; isCounter {
					out[fam] = true
				}
				return
			}
			// a local cell (saved value captured by a deferred closure): follow the stores into it
			switch cell := x.X.(type) {
			case *ssa.Alloc:
				for _, r := range *cell.Referrers() {
					if st, isS := r.(*ssa.Store); isS && st.Addr == ssa.Value(cell) {
						families(st.Val, seen, out)
					}
				}
			case *ssa.FreeVar:
				fn := cell.Parent()
				if fn.Parent() != nil {
					for i, fv := range fn.FreeVars {
						if fv != cell {
							continue
						}
						for _, r := range *fn.Referrers() {
							if mc, isMC := r.(*ssa.MakeClosure); isMC && i < len(mc.Bindings) {
								if a, isA := mc.Bindings[i].(*ssa.Alloc); isA {
									for _, r2 := range *a.Referrers() {
										if st, isS := r2.(*ssa.Store); isS && st.Addr == ssa.Value(a) {
											families(st.Val, seen, out)
										}
									}
								}
							}
						}
					}
				}
			}
		}
	}
	var obs []Obligation
	errAt := c.Fn("yang.(*lexer).ErrorfAt")
	for _, fn := range c.Funcs {
		if fn.Pkg == nil || shortPkg(fn.Pkg.Pkg.Path()) != "yang" || fn.Blocks == nil {
			continue
		}
		n := map[string]int{}
		name := func(base string) string {
			n[base]++
			if n[base] > 1 {
				return fmt.Sprintf("%s #%d", base, n[base])
			}
			return base
		}
		eachInstr(fn, func(in ssa.Instruction) {
			switch x := in.(type) {
			case *ssa.Store:
				_, f, _ := fieldOf(x.Addr)
				want, isCounter := family[f]
				if !isCounter {
					return
				}
				got := map[string]bool{}
				families(x.Val, map[ssa.Value]bool{}, got)
				if len(got) == 0 {
					return // constants, parameters, rune counts: POS.COL / LEX.TCOL decide those
				}
				con := name(fmt.Sprintf("%s: lexer.%s is written from %s values only", c.FnName(fn), recordedFieldName(f), want))
				var wrong []string
				for g := range got {
					if g != want {
						wrong = append(wrong, g)
					}
				}
				sort.Strings(wrong)
				if len(wrong) == 0 {
					obs = append(obs, ok(R, con, c.InstrPos(x), "same counter family"))
				} else {
					obs = append(obs, bad(R, con, c.InstrPos(x), "the value stored is computed from lexer."+strings.Join(wrong, ", lexer.")+": a line number lands in a column (or a tab-expanded column in a character column), and every position reported afterwards is off"))
				}
			case *ssa.MakeInterface:
				// boxed for a variadic formatting call
				got := map[string]bool{}
				families(x.X, map[ssa.Value]bool{}, got)
				if got["tcol"] {
					obs = append(obs, bad(R, name(fmt.Sprintf("%s: the tab-expanded column is not handed to a call", c.FnName(fn))), c.InstrPos(x), "lexer.tcol (a tab counts up to 8) is boxed as an argument of a formatting call: positions in messages are character columns"))
				}
			case ssa.CallInstruction:
				cal := x.Common().StaticCallee()
				if cal == nil {
					return
				}
				if errAt != nil && cal == errAt && len(x.Common().Args) >= 3 {
					for i, want := range []string{"line", "col"} {
						got := map[string]bool{}
						families(x.Common().Args[i+1], map[ssa.Value]bool{}, got)
						con := name(fmt.Sprintf("%s: the %s argument of ErrorfAt is a %s value", c.FnName(fn), want, want))
						okArg := true
						for g := range got {
							if g != want {
								okArg = false
							}
						}
						if okArg {
							obs = append(obs, ok(R, con, c.InstrPos(x), "same counter family (or a saved local / constant)"))
						} else {
							obs = append(obs, bad(R, con, c.InstrPos(x), "the argument is computed from another counter: the error is reported at a position that is not where it is"))
						}
					}
					return
				}
				// tcol must not leave the lexer's own arithmetic: not an argument of any call — other than a call of
				// that arithmetic itself
				if pureIntArith(c, cal) {
					return
				}
				for _, a := range x.Common().Args {
					got := map[string]bool{}
					families(a, map[ssa.Value]bool{}, got)
					if got["tcol"] {
						obs = append(obs, bad(R, name(fmt.Sprintf("%s: the tab-expanded column is not handed to a call", c.FnName(fn))), c.InstrPos(x), "lexer.tcol (a tab counts up to 8) is passed to "+c.FnName(cal)+": positions in messages are character columns"))
					}
				}
			}
		})
	}
	return obs
}

func init() {
	register(&Rule{Name: "ERR.PREFIX", Props: []string{"C16", "C04", "C05"}, Floor: 20,
		Doc: "in a message whose format begins with `%s:` and that carries a source position, the position is the first argument (the error sort and every reader take the text before the first colon for the location)",
		Run: ruleErrPrefix})
}

func ruleErrPrefix(c *Ctx) []Obligation {
	const R = "ERR.PREFIX"
	var obs []Obligation
	src := c.Fn("yang.Source")
	// v is a source position: the result of Source(), or of a Location method, directly or through a local
	isPos := func(v ssa.Value) bool {
		return derivesFrom(v, func(x ssa.Value) bool {
			call, isC := x.(*ssa.Call)
			if !isC || call.Call.StaticCallee() == nil {
				return false
			}
			cal := call.Call.StaticCallee()
			return cal == src || baseName(cal) == "Location"
		})
	}
	// ordered variadic elements: index → value
	ordered := func(v ssa.Value) map[int64]ssa.Value {
		out := map[int64]ssa.Value{}
		sl, ok := v.(*ssa.Slice)
		if !ok {
			return out
		}
		a, ok := sl.X.(*ssa.Alloc)
		if !ok {
			return out
		}
		for _, r := range *a.Referrers() {
			if ia, oki := r.(*ssa.IndexAddr); oki {
				k, okk := constInt(ia.Index)
				if !okk {
					continue
				}
				for _, rr := range *ia.Referrers() {
					if st, oks := rr.(*ssa.Store); oks && st.Addr == ia {
						out[k] = st.Val
					}
				}
			}
		}
		return out
	}
	for _, fn := range c.Funcs {
		if fn.Blocks == nil || !c.isRepoFn(fn) {
			continue
		}
		if root := rootFn(fn); root.Pkg == nil || shortPkg(root.Pkg.Pkg.Path()) == "main" {
			continue
		}
		n, nf := 0, 0
		eachInstr(fn, func(in ssa.Instruction) {
			ci, isC := in.(ssa.CallInstruction)
			if !isC || ci.Common().StaticCallee() == nil {
				return
			}
			sig := ci.Common().StaticCallee().Signature
			if !sig.Variadic() || len(ci.Common().Args) < 2 || sig.Params().Len() < 2 {
				return
			}
			args := ci.Common().Args
			// a printf-like callee: a string parameter directly before the variadic ...interface{}
			ps := sig.Params()
			if st, isSl := ps.At(ps.Len() - 1).Type().(*types.Slice); !isSl || !types.IsInterface(st.Elem()) {
				return
			}
			if b, isB := ps.At(ps.Len() - 2).Type().Underlying().(*types.Basic); !isB || b.Kind() != types.String {
				return
			}
			fa := args[len(args)-2]
			format, isS := constString(fa)
			if !isS {
				// the format is a constant, a constant prefix glued to the caller's own format, or the caller's own
				// format parameter handed on; a position or a name in the format slot is two arguments exchanged
				okForm := false
				switch x := fa.(type) {
				case *ssa.Parameter:
					okForm = true
				case *ssa.BinOp:
					// a constant text with something appended ("%s: "+format, `… \`+string(c))
					_, lk := x.X.(*ssa.Const)
					okForm = lk && x.Op == token.ADD
				}
				nf++
				conF := fmt.Sprintf("%s: the format of printf-like call #%d is a constant", c.FnName(fn), nf)
				if okForm {
					o := ok(R, conF, c.InstrPos(in), "the wrapper's own format parameter")
					o.Trivial = true
					obs = append(obs, o)
				} else {
					obs = append(obs, bad(R, conF, c.InstrPos(in), "the format argument is a computed string (a position, a name): the intended format has slipped into the argument list and is printed as data after `%!(EXTRA`, and a `%` in the computed string is interpreted"))
				}
				return
			}
			if !strings.HasPrefix(format, "%s:") {
				return
			}
			elems := ordered(args[len(args)-1])
			if len(elems) < 2 {
				return
			}
			anyPos := false
			for _, e := range elems {
				if isPos(e) {
					anyPos = true
				}
			}
			if !anyPos {
				return
			}
			n++
			con := fmt.Sprintf("%s: message #%d leads with its position", c.FnName(fn), n)
			if first, has := elems[0]; has && isPos(first) {
				obs = append(obs, ok(R, con, c.InstrPos(in), "argument #0 is the Source()/Location() of a node"))
			} else {
				obs = append(obs, bad(R, con, c.InstrPos(in), "the format starts with `%s:` and one of the arguments is a source position, but it is not the first: the message is filed (and sorted) under whatever text comes first, and the position shows up in the middle of the sentence"))
			}
		})
	}
	return obs
}

func init() {
	register(&Rule{Name: "PROC.BOTHMAPS", Props: []string{"C04", "C07", "C08", "C13"}, Floor: 3,
		Doc: "each per-module phase of Process (implicit cases, augments, deviations) visits the modules AND the submodules",
		Run: ruleProcBothMaps})
}

func ruleProcBothMaps(c *Ctx) []Obligation {
	const R = "PROC.BOTHMAPS"
	proc := c.Fn("yang.(*Modules).Process")
	if proc == nil {
		return []Obligation{undecided(R, "Process", "-", "(*Modules).Process not found")}
	}
	mods := c.MustNamed("yang", "Modules")
	fM, fS := FieldVar(mods, "Modules"), FieldVar(mods, "SubModules")
	// which of the two tables can the module handed to a phase come from
	var tables func(v ssa.Value, seen map[ssa.Value]bool, out map[*types.Var]bool)
	tables = func(v ssa.Value, seen map[ssa.Value]bool, out map[*types.Var]bool) {
		if v == nil || seen[v] {
			return
		}
		seen[v] = true
		if _, f, _ := loadedField(v); f == fM || f == fS {
			out[f] = true
			return
		}
		switch x := v.(type) {
		case *ssa.Parameter, *ssa.FreeVar:
			// a private helper's parameter is the argument at its call site (inline.go)
			if r := resolveArg(v); r != v {
				tables(r, seen, out)
			}
		case *ssa.Phi:
			for _, e := range x.Edges {
				tables(e, seen, out)
			}
		case *ssa.Extract:
			tables(x.Tuple, seen, out)
		case *ssa.Next:
			tables(x.Iter, seen, out)
		case *ssa.Range:
			tables(x.X, seen, out)
		case *ssa.UnOp:
			tables(x.X, seen, out)
		case *ssa.IndexAddr:
			tables(x.X, seen, out)
		case *ssa.Index:
			tables(x.X, seen, out)
		case *ssa.Lookup:
			tables(x.X, seen, out)
		case *ssa.Slice:
			tables(x.X, seen, out)
		case *ssa.MakeInterface:
			tables(x.X, seen, out)
		case *ssa.Alloc:
			for _, r := range *x.Referrers() {
				switch y := r.(type) {
				case *ssa.Store:
					if y.Addr == ssa.Value(x) {
						tables(y.Val, seen, out)
					}
				case *ssa.IndexAddr:
					for _, rr := range *y.Referrers() {
						if st, isS := rr.(*ssa.Store); isS && st.Addr == ssa.Value(y) {
							tables(st.Val, seen, out)
						}
					}
				}
			}
		case *ssa.Call:
			for _, a := range x.Call.Args {
				tables(a, seen, out)
			}
			// a helper that builds the list: what it returns
			if cal := x.Call.StaticCallee(); cal != nil && c.isRepoFn(cal) && cal.Blocks != nil && len(seen) < 400 {
				for _, b := range cal.Blocks {
					if r, isR := b.Instrs[len(b.Instrs)-1].(*ssa.Return); isR {
						for _, rv := range r.Results {
							tables(rv, seen, out)
						}
					}
				}
			}
		}
	}
	var obs []Obligation
	for _, ph := range []struct{ fn, what string }{
		{"yang.(*Entry).FixChoice", "implicit cases are inserted"},
		{"yang.(*Entry).Augment", "augments are applied"},
		{"yang.(*Entry).ApplyDeviate", "deviations are applied"},
	} {
		callee := c.Fn(ph.fn)
		con := fmt.Sprintf("Process: %s in the trees of the modules and of the submodules", ph.what)
		if callee == nil {
			obs = append(obs, undecided(R, con, "-", ph.fn+" not found"))
			continue
		}
		got := map[*types.Var]bool{}
		var at ssa.Instruction
		for _, ci := range c.callsToDeep(proc, callee) {
			if len(ci.Common().Args) == 0 {
				continue
			}
			at = ci
			tables(ci.Common().Args[0], map[ssa.Value]bool{}, got)
		}
		switch {
		case at == nil:
			obs = append(obs, bad(R, con, c.Pos(proc.Pos()), "Process never calls "+ph.fn))
		case got[fM] && got[fS]:
			obs = append(obs, ok(R, con, c.InstrPos(at), "the entries come from Modules.Modules and Modules.SubModules"))
		default:
			missing := "Modules.SubModules"
			if !got[fM] {
				missing = "Modules.Modules"
			}
			obs = append(obs, bad(R, con, c.InstrPos(at), "no call of the phase takes its entry from "+missing+": the trees filed there skip the phase (a table was visited twice, or one was left out)"))
		}
	}
	// … and every single pass does: the calls of one phase that no call of another phase separates form a pass, and
	// each pass takes its entries from both tables (Process runs FixChoice twice and Augment twice)
	type site struct {
		at     ssa.Instruction // as Process sees it
		callee *ssa.Function
		from   map[*types.Var]bool
	}
	var sites []site
	phaseFns := map[*ssa.Function]string{}
	for _, n := range []string{"yang.(*Entry).FixChoice", "yang.(*Entry).Augment", "yang.(*Entry).ApplyDeviate"} {
		if f := c.Fn(n); f != nil {
			phaseFns[f] = n
		}
	}
	for f := range phaseFns {
		for _, ci := range c.callsToDeep(proc, f) {
			if len(ci.Common().Args) == 0 {
				continue
			}
			l := liftTo(ci.(ssa.Instruction), proc)
			if l == nil {
				continue
			}
			from := map[*types.Var]bool{}
			tables(ci.Common().Args[0], map[ssa.Value]bool{}, from)
			sites = append(sites, site{l, f, from})
		}
	}
	sort.Slice(sites, func(i, j int) bool { return sites[i].at.Pos() < sites[j].at.Pos() })
	between := func(a, x, b ssa.Instruction) bool {
		return reaches(a, x) && reaches(x, b) && !reaches(x, a)
	}
	perCallee := map[*ssa.Function]int{}
	for i, s := range sites {
		perCallee[s.callee]++
		got := map[*types.Var]bool{}
		for j, t := range sites {
			if t.callee != s.callee {
				continue
			}
			separated := false
			if i != j {
				for _, x := range sites {
					if x.callee == s.callee {
						continue
					}
					if between(s.at, x.at, t.at) || between(t.at, x.at, s.at) {
						separated = true
					}
				}
			}
			if !separated {
				for f := range t.from {
					got[f] = true
				}
			}
		}
		short := strings.TrimPrefix(phaseFns[s.callee], "yang.(*Entry).")
		con := fmt.Sprintf("Process: the pass of %s call #%d covers the modules and the submodules", short, perCallee[s.callee])
		if got[fM] && got[fS] {
			obs = append(obs, ok(R, con, c.InstrPos(s.at), "this call and its neighbours of the same pass take entries from both tables"))
		} else {
			missing := "Modules.SubModules"
			if !got[fM] {
				missing = "Modules.Modules"
			}
			obs = append(obs, bad(R, con, c.InstrPos(s.at), "no call of this pass takes its entry from "+missing+": the trees filed there skip this pass, which a later pass of the same phase does not make up for (what ran in between saw them unprepared)"))
		}
	}
	return obs
}

func init() {
	register(&Rule{Name: "ERR.LIVE", Props: []string{"C04", "C15"}, Floor: 15,
		Doc: "a library function with an error result can fail: some return carries a non-nil error (a result that is nil on every path means a rejection was lost); the checked int64 conversion never answers a constant with a nil error",
		Run: ruleErrLive})
}

var errLiveJustified = map[string]string{}

func ruleErrLive(c *Ctx) []Obligation {
	const R = "ERR.LIVE"
	var obs []Obligation
	reach := c.Reach(c.libraryRoots(), nil)
	for _, fn := range c.Funcs {
		if fn.Blocks == nil || !reach[fn] || !c.isRepoFn(fn) || fn.Synthetic != "" {
			continue
		}
		if root := rootFn(fn); root.Pkg == nil || shortPkg(root.Pkg.Pkg.Path()) == "main" {
			continue
		}
		res := fn.Signature.Results()
		idx := -1
		for i := 0; i < res.Len(); i++ {
			if isErrorType(res.At(i).Type()) || isErrorSlice(res.At(i).Type()) {
				idx = i
			}
		}
		if idx < 0 {
			continue
		}
		// methods that implement an interface of another package (io.Writer, sort.Interface, …) or closures stored in
		// tables keep their signature whether or not they can fail
		if fn.Parent() != nil {
			continue
		}
		canFail := false
		rets := 0
		for _, b := range fn.Blocks {
			r, isR := b.Instrs[len(b.Instrs)-1].(*ssa.Return)
			if !isR || b == fn.Recover || idx >= len(r.Results) {
				continue
			}
			rets++
			v := resolveSpill(r.Results[idx], r)
			nilOnly := true
			backSlice(v, func(x ssa.Value) bool {
				switch y := x.(type) {
				case *ssa.Phi:
					return true
				case *ssa.Const:
					if y.Value != nil || !isNilConst(y) {
						nilOnly = false
					}
					return false
				default:
					nilOnly = false
					return false
				}
			})
			if !nilOnly {
				canFail = true
			}
		}
		if rets == 0 {
			continue
		}
		// premise: somebody handles the error (a call site in the repo uses that result); a method that only
		// satisfies an interface and never fails is not a finding
		handled := false
		for _, f2 := range c.Funcs {
			if handled || f2.Blocks == nil {
				continue
			}
			for _, ci := range c.callsTo(f2, fn) {
				call, isCall := ci.(*ssa.Call)
				if !isCall {
					continue
				}
				if res.Len() == 1 {
					handled = handled || len(*call.Referrers()) > 0
					continue
				}
				for _, r := range *call.Referrers() {
					if ex, isE := r.(*ssa.Extract); isE && ex.Index == idx && len(*ex.Referrers()) > 0 {
						handled = true
					}
				}
			}
		}
		if !handled {
			continue
		}
		con := fmt.Sprintf("%s: the error result is not nil on every path", c.FnName(fn))
		switch {
		case canFail:
			o := ok(R, con, c.Pos(fn.Pos()), "some return carries an error value")
			obs = append(obs, o)
		default:
			if why, okj := jget("errLiveJustified", errLiveJustified, c.FnName(fn)); okj {
				obs = append(obs, just(R, con, c.Pos(fn.Pos()), why))
			} else {
				obs = append(obs, bad(R, con, c.Pos(fn.Pos()), "every return of this function answers a nil error: whatever it was meant to reject is accepted silently, and its callers' error handling is dead code"))
			}
		}
	}
	// the checked conversion: no (constant, nil) answer
	if fn := c.Fn("yang.(Number).Int"); fn != nil {
		n := 0
		for _, b := range fn.Blocks {
			r, isR := b.Instrs[len(b.Instrs)-1].(*ssa.Return)
			if !isR || len(r.Results) != 2 {
				continue
			}
			if !isNilConst(resolveSpill(r.Results[1], r)) {
				continue
			}
			n++
			con := fmt.Sprintf("Number.Int: nil-error return #%d answers a converted value, not a constant", n)
			if _, isK := resolveSpill(r.Results[0], r).(*ssa.Const); isK {
				obs = append(obs, bad(R, con, c.InstrPos(r), "a constant is returned together with a nil error: on this path the conversion reports success with a value that is not the number's"))
			} else {
				obs = append(obs, ok(R, con, c.InstrPos(r), "the value is computed from the number"))
			}
		}
	}
	return obs
}

func init() {
	register(&Rule{Name: "MEMO.PAIR", Props: []string{"C13", "C01", "C18", "C06"}, Floor: 2,
		Doc: "a key that a function files in one set-valued table of the module set is tested in that same table (not in a same-typed sibling table)",
		Run: ruleMemoPair})
	register(&Rule{Name: "NS.DUPKEY", Props: []string{"C12"}, Floor: 1,
		Doc: "the namespace lookup, which walks a table that holds every module under two keys, reports a clash only for a module other than the one already found",
		Run: ruleNsDupKey})
}

func ruleMemoPair(c *Ctx) []Obligation {
	const R = "MEMO.PAIR"
	var obs []Obligation
	mods := c.MustNamed("yang", "Modules")
	for _, fn := range c.Funcs {
		if fn.Blocks == nil || !c.isRepoFn(fn) {
			continue
		}
		type use struct {
			f   *types.Var
			key ssa.Value
			in  ssa.Instruction
		}
		var writes, reads []use
		eachInstr(fn, func(in ssa.Instruction) {
			switch x := in.(type) {
			case *ssa.MapUpdate:
				if owner, f, _ := loadedField(x.Map); f != nil && owner == mods {
					if mt, isM := f.Type().Underlying().(*types.Map); isM && isBoolType(mt.Elem()) {
						writes = append(writes, use{f, x.Key, in})
					}
				}
			case *ssa.Lookup:
				if owner, f, _ := loadedField(x.X); f != nil && owner == mods {
					if mt, isM := f.Type().Underlying().(*types.Map); isM && isBoolType(mt.Elem()) {
						reads = append(reads, use{f, x.Index, in})
					}
				}
			}
		})
		// what is filed: the object itself, a path, or a composed string — never the bare Name of a statement, which
		// statements of other modules and scopes share
		for i, w := range writes {
			con := fmt.Sprintf("%s: key filed #%d in Modules.%s identifies what it stands for", c.FnName(fn), i+1, recordedFieldName(w.f))
			if owner, kf, _ := loadedField(w.key); kf != nil && kf.Name() == "Name" && owner != nil && isBasic(kf.Type()) {
				obs = append(obs, bad(R, con, c.InstrPos(w.in), "the set is keyed by the bare "+objName(owner.Obj())+".Name: two different "+strings.ToLower(objName(owner.Obj()))+" statements of the same name (in different modules or scopes) are taken for one, so the second is reported as already in progress / already done"))
			} else if names, others := keyIngredients(w.key); names >= 2 && others == 0 && recordedFieldName(w.f) == "expandingGrouping" {
				// a string put together from names only (module name and statement name) still does not tell two
				// statements of one name in sibling scopes of one module apart
				obs = append(obs, bad(R, con, c.InstrPos(w.in), "the set is keyed by a text made of names only: two different statements of the same name in different scopes of one module are taken for one, so the second is reported as already in progress"))
			} else {
				obs = append(obs, ok(R, con, c.InstrPos(w.in), "keyed by an object, a path or a composed string"))
			}
		}
		n := 0
		for _, r := range reads {
			for _, w := range writes {
				if r.key != w.key && !sameExpr(r.key, w.key) {
					continue
				}
				n++
				con := fmt.Sprintf("%s: key tested #%d is tested in the table it is filed in", c.FnName(fn), n)
				if r.f == w.f {
					obs = append(obs, ok(R, con, c.InstrPos(r.in), "Modules."+recordedFieldName(r.f)))
				} else if types.Identical(r.f.Type(), w.f.Type()) {
					obs = append(obs, bad(R, con, c.InstrPos(r.in), "the key is looked up in Modules."+recordedFieldName(r.f)+" but filed in Modules."+recordedFieldName(w.f)+" ("+c.InstrPos(w.in)+"): the test never sees what was filed, so the work it guards is repeated (or never done)"))
				}
				break
			}
		}
	}
	obs = append(obs, c.memoLocalPairs(R)...)
	return obs
}

// memoLocalPairs: test-and-set on local set-valued maps: `if !seenA[k] { seenB[k] = true … }` with two different maps of
// one type is the slip MEMO.PAIR looks for on the module set's fields.
func (c *Ctx) memoLocalPairs(R string) []Obligation {
	var obs []Obligation
	for _, fn := range c.Funcs {
		if fn.Blocks == nil || !c.isRepoFn(fn) {
			continue
		}
		n := 0
		eachInstr(fn, func(in ssa.Instruction) {
			mu, isMU := in.(*ssa.MapUpdate)
			if !isMU {
				return
			}
			mk, isMk := mu.Map.(*ssa.MakeMap)
			if !isMk {
				return
			}
			if mt, isM := mk.Type().Underlying().(*types.Map); !isM || !isBoolType(mt.Elem()) {
				return
			}
			for _, g := range guardsAt(mu.Block()) {
				cond, _ := stripNot(g.Cond, g.Branch)
				l, isL := cond.(*ssa.Lookup)
				if !isL || l.CommaOk {
					continue
				}
				if l.Index != mu.Key && !sameLoadExpr(l.Index, mu.Key) && !sameExpr(l.Index, mu.Key) {
					continue
				}
				mk2, isMk2 := l.X.(*ssa.MakeMap)
				if !isMk2 || !types.Identical(mk2.Type(), mk.Type()) {
					continue
				}
				n++
				con := fmt.Sprintf("%s: local test-and-set #%d tests the set it files in", c.FnName(fn), n)
				if mk2 == mk {
					obs = append(obs, ok(R, con, c.InstrPos(mu), "same map"))
				} else {
					obs = append(obs, bad(R, con, c.InstrPos(mu), "the key is tested in one local set and filed in another of the same type: what the test was to prevent (a duplicate) is not prevented, and the other set wrongly suppresses a later, unrelated key"))
				}
			}
		})
	}
	return obs
}

func ruleNsDupKey(c *Ctx) []Obligation {
	const R = "NS.DUPKEY"
	fn := c.Fn("yang.(*Modules).FindModuleByNamespace")
	if fn == nil {
		return []Obligation{undecided(R, "namespace lookup", "-", "(*Modules).FindModuleByNamespace not found")}
	}
	var obs []Obligation
	n := 0
	bodies := loopBodies(fn)
	for _, b := range fn.Blocks {
		r, isR := b.Instrs[len(b.Instrs)-1].(*ssa.Return)
		if !isR || len(r.Results) != 2 {
			continue
		}
		inLoop := false
		for _, body := range bodies {
			if body.Dominates(b) {
				inLoop = true
			}
		}
		if !inLoop {
			continue
		}
		if isNilConst(resolveSpill(r.Results[1], r)) {
			continue
		}
		// a failure from inside the loop over the table
		n++
		con := fmt.Sprintf("FindModuleByNamespace: failure #%d inside the table walk is about a different module", n)
		differs := false
		for _, g := range guardsAt(b) {
			bo, isB := g.Cond.(*ssa.BinOp)
			if !isB || (bo.Op != token.EQL && bo.Op != token.NEQ) {
				continue
			}
			if isNilConst(bo.X) || isNilConst(bo.Y) {
				continue
			}
			_, xPtr := bo.X.Type().Underlying().(*types.Pointer)
			_, yPtr := bo.Y.Type().Underlying().(*types.Pointer)
			if xPtr && yPtr && (bo.Op == token.NEQ) == g.Branch {
				differs = true
			}
		}
		// … and of a different NAME: two revisions of one module share their namespace and both sit in the table
		otherName := false
		namesDiffer := func(g Guard) bool {
			bo, isB := g.Cond.(*ssa.BinOp)
			if !isB || (bo.Op != token.EQL && bo.Op != token.NEQ) {
				return false
			}
			_, fx, _ := loadedField(bo.X)
			_, fy, _ := loadedField(bo.Y)
			return fx != nil && fx == fy && fx.Name() == "Name" && (bo.Op == token.NEQ) == g.Branch
		}
		gs := guardsAt(b)
		// `case found != nil && sameName: … case found != nil: fail`: the conjunction was false and the failing arm's
		// own test says its first conjunct is true, so the second conjunct was false. (In the SSA form the checker
		// builds, a && b is a phi: false on the edge where a is false, b on the other.)
		sameCond := func(a, b ssa.Value) bool {
			x, ok1 := a.(*ssa.BinOp)
			y, ok2 := b.(*ssa.BinOp)
			if !ok1 || !ok2 || x.Op != y.Op {
				return a == b
			}
			same := func(u, v ssa.Value) bool { return u == v || isNilConst(u) && isNilConst(v) || sameExpr(u, v) }
			return same(x.X, y.X) && same(x.Y, y.Y)
		}
		for _, g := range append([]Guard{}, gs...) {
			phi, isPhi := g.Cond.(*ssa.Phi)
			if !isPhi || g.Branch || len(phi.Edges) != 2 {
				continue
			}
			for i, e := range phi.Edges {
				k, isK := e.(*ssa.Const)
				if !isK || k.Value == nil || k.Value.String() != "false" {
					continue
				}
				p := phi.Block().Preds[i]
				pif, isPif := p.Instrs[len(p.Instrs)-1].(*ssa.If)
				if !isPif {
					continue
				}
				// the first conjunct: false on the edge p → phi block
				aFalseOnEdge := p.Succs[1] == phi.Block()
				if !aFalseOnEdge {
					continue
				}
				for _, g2 := range gs {
					if g2.Branch && sameCond(g2.Cond, pif.Cond) {
						gs = append(gs, Guard{Cond: phi.Edges[1-i], Branch: false, If: g.If})
					}
				}
			}
		}
		for _, g := range gs {
			if namesDiffer(g) {
				otherName = true
			}
		}
		if differs && !otherName {
			obs = append(obs, bad(R, con, c.InstrPos(r), "the clash is reported for any second module object with the namespace, also for another REVISION of the module already found (same name): with two revisions loaded every node of the module has no instantiating module"))
			continue
		}
		if differs {
			obs = append(obs, ok(R, con, c.InstrPos(r), "under `this module != the one found` and `its name differs`"))
		} else {
			obs = append(obs, bad(R, con, c.InstrPos(r), "the table holds every module with a revision under two keys (name and name@revision); without a test that the second match is a different module, the namespace of any such module `matches two or more modules` and its nodes cannot be attributed"))
		}
	}
	if n == 0 {
		o := ok(R, "FindModuleByNamespace: no failure inside the table walk", c.Pos(fn.Pos()), "ambiguity is not reported from inside the loop; not decided here")
		o.Trivial = true
		obs = append(obs, o)
	}
	return obs
}

func init() {
	register(&Rule{Name: "CMP.SELF", Props: []string{"C05", "C09", "C10", "C15", "C11"}, Floor: 1,
		Doc: "no comparison (==, !=, <, >, Equal, Less, cmp.Equal) has the same expression on both sides",
		Run: ruleCmpSelf})
	register(&Rule{Name: "APPEND.USE", Props: []string{"C04", "C08", "C11", "C03"}, Floor: 15,
		Doc: "the result of append is used, and where it is stored into the field it was read from it is stored on the same object",
		Run: ruleAppendUse})
}

func ruleCmpSelf(c *Ctx) []Obligation {
	const R = "CMP.SELF"
	var obs []Obligation
	n := 0
	isFloat := func(t types.Type) bool {
		b, ok := t.Underlying().(*types.Basic)
		return ok && b.Info()&types.IsFloat != 0
	}
	for _, fn := range c.Funcs {
		if fn.Blocks == nil || !c.isRepoFn(fn) {
			continue
		}
		if root := rootFn(fn); root.Pkg == nil || shortPkg(root.Pkg.Pkg.Path()) == "main" {
			continue
		}
		k := 0
		eachInstr(fn, func(in ssa.Instruction) {
			var a, b ssa.Value
			what := ""
			switch x := in.(type) {
			case *ssa.BinOp:
				switch x.Op {
				case token.EQL, token.NEQ, token.LSS, token.GTR, token.LEQ, token.GEQ:
					a, b, what = x.X, x.Y, x.Op.String()
				}
			case *ssa.Call:
				cal := x.Call.StaticCallee()
				if cal == nil || len(x.Call.Args) < 2 {
					return
				}
				nm := cal.Name()
				if (nm == "Equal" || nm == "Less" || nm == "ssEqual" || nm == "tsEqual") && (c.isRepoFn(cal) || cal.Pkg != nil && strings.HasSuffix(cal.Pkg.Pkg.Path(), "go-cmp/cmp")) {
					a, b, what = x.Call.Args[0], x.Call.Args[1], nm
				}
			}
			if a == nil {
				return
			}
			n++
			if isFloat(a.Type()) {
				return
			}
			if _, isK := a.(*ssa.Const); isK {
				return
			}
			strip := func(v ssa.Value) ssa.Value {
				if mi, isMI := v.(*ssa.MakeInterface); isMI {
					return mi.X
				}
				return v
			}
			a, b = strip(a), strip(b)
			if a == b || sameLoadExpr(a, b) && evaluatedTogether(in, a, b) {
				k++
				obs = append(obs, bad(R, fmt.Sprintf("%s: comparison #%d has two different operands", c.FnName(fn), k), c.InstrPos(in), "both sides of `"+what+"` are the same expression: the test is constant, whatever it was meant to tell apart (two elements, two types, two numbers) is not compared at all"))
			}
		})
	}
	obs = append(obs, ok(R, "comparisons in the library enumerated", "-", fmt.Sprintf("%d comparisons; none has identical operands unless reported", n)))
	return obs
}

func ruleAppendUse(c *Ctx) []Obligation {
	const R = "APPEND.USE"
	var obs []Obligation
	n := 0
	for _, fn := range c.Funcs {
		if fn.Blocks == nil || !c.isRepoFn(fn) {
			continue
		}
		if root := rootFn(fn); root.Pkg == nil || shortPkg(root.Pkg.Pkg.Path()) == "main" {
			continue
		}
		k := 0
		eachInstr(fn, func(in ssa.Instruction) {
			call, isC := in.(*ssa.Call)
			if !isC {
				return
			}
			bi, isB := call.Call.Value.(*ssa.Builtin)
			if !isB || bi.Name() != "append" {
				return
			}
			n++
			used := false
			for _, r := range *call.Referrers() {
				if _, isD := r.(*ssa.DebugRef); !isD {
					used = true
				}
			}
			if !used {
				k++
				obs = append(obs, bad(R, fmt.Sprintf("%s: result of append #%d is used", c.FnName(fn), k), c.InstrPos(call), "the slice returned by append goes nowhere: it was assigned to a variable that is not read again (the wrong one of two lists), so what was appended is lost"))
				return
			}
			// x.F = append(y.F, …): same field ⇒ same object
			_, srcF, srcBase := loadedField(call.Call.Args[0])
			var srcKey ssa.Value
			if srcF == nil {
				// x.F[k] = append(y.F[k], …)
				if l, isL := call.Call.Args[0].(*ssa.Lookup); isL {
					_, srcF, srcBase = loadedField(l.X)
					srcKey = l.Index
				}
			}
			if srcF == nil {
				return
			}
			for _, r := range *call.Referrers() {
				var dstF *types.Var
				var dstBase ssa.Value
				switch x := r.(type) {
				case *ssa.Store:
					if x.Val != ssa.Value(call) {
						continue
					}
					_, dstF, dstBase = fieldOf(x.Addr)
				case *ssa.MapUpdate:
					if x.Value != ssa.Value(call) {
						continue
					}
					_, dstF, dstBase = loadedField(x.Map)
					// x.F[k] = append(x.F[k2], …): the list extended is the one stored back
					if dstF == srcF && srcKey != nil && x.Key != srcKey && !sameExpr(x.Key, srcKey) {
						k++
						obs = append(obs, bad(R, fmt.Sprintf("%s: append #%d onto an element of %s is stored back under the key it was read from", c.FnName(fn), k, recordedFieldName(srcF)), c.InstrPos(call), "the list read under one key is extended and stored under another: the list under the stored key is replaced instead of extended (every earlier element filed under it is lost)"))
						continue
					}
				default:
					continue
				}
				if dstF != srcF || dstBase == nil || srcBase == nil {
					continue
				}
				k++
				con := fmt.Sprintf("%s: append #%d onto %s is stored back on the same object", c.FnName(fn), k, recordedFieldName(srcF))
				if resolveArg(rootOf(dstBase)) == resolveArg(rootOf(srcBase)) || AccessPath(dstBase) == AccessPath(srcBase) {
					o := ok(R, con, c.InstrPos(call), "x."+recordedFieldName(srcF)+" = append(x."+recordedFieldName(srcF)+", …)")
					o.Trivial = true
					obs = append(obs, o)
				} else {
					obs = append(obs, bad(R, con, c.InstrPos(call), "the list read from one object is extended and stored into the same field of ANOTHER object: the first object does not get the element, the second gets a list that is not its own"))
				}
			}
		})
	}
	obs = append(obs, ok(R, "append calls in the library enumerated", "-", fmt.Sprintf("%d appends; every result is used unless reported", n)))
	return obs
}

// evaluatedTogether: the two operand expressions of the comparison `at` are evaluated in its own block with nothing in
// between that could change what they read: every store, map update and call between the first of their instructions
// and the comparison belongs to one of the two expressions. (Two loads of the same place at different times are not
// the same value: `indent := l.tcol … l.tcol <= indent`.)
func evaluatedTogether(at ssa.Instruction, a, b ssa.Value) bool {
	part := map[ssa.Instruction]bool{}
	var collect func(v ssa.Value, d int)
	collect = func(v ssa.Value, d int) {
		in, isI := v.(ssa.Instruction)
		if !isI || part[in] || d > 10 {
			return
		}
		if _, isAlloc := v.(*ssa.Alloc); isAlloc {
			return // a variable's cell is where things are read from, not part of the reading
		}
		part[in] = true
		for _, op := range in.Operands(nil) {
			if *op != nil {
				collect(*op, d+1)
			}
		}
	}
	collect(a, 0)
	collect(b, 0)
	blk := at.Block()
	started := false
	for _, in := range blk.Instrs {
		if in == at {
			break
		}
		if part[in] {
			started = true
			continue
		}
		if !started {
			continue
		}
		switch in.(type) {
		case *ssa.Store, *ssa.MapUpdate, *ssa.Call, *ssa.Send:
			return false
		}
	}
	for in := range part {
		if in.Block() != blk {
			if _, isPhi := in.(*ssa.Phi); isPhi {
				continue
			}
			switch in.(type) {
			case *ssa.UnOp, *ssa.Call, *ssa.Lookup:
				return false // read or computed somewhere else, at another time
			}
		}
	}
	return true
}

func init() {
	register(&Rule{Name: "SCHEMA.EXTFORM", Props: []string{"C03"}, Floor: 1,
		Doc: "an unknown keyword is handed to the extension slot only when it has exactly one colon (prefix:name); anything else is an unknown statement",
		Run: ruleSchemaExtForm})
}

func ruleSchemaExtForm(c *Ctx) []Obligation {
	const R = "SCHEMA.EXTFORM"
	build := c.Fn("yang.build")
	ys := c.Named("yang", "yangStatement")
	if build == nil || ys == nil {
		return []Obligation{undecided(R, "AST builder", "-", "yang.build / yangStatement not found")}
	}
	fAddext := FieldByType(ys, "func(*Statement, reflect.Value, reflect.Value) error")
	var obs []Obligation
	n := 0
	eachInstr(build, func(in ssa.Instruction) {
		call, isC := in.(*ssa.Call)
		if !isC || call.Call.StaticCallee() != nil || call.Call.IsInvoke() {
			return
		}
		if _, f, _ := loadedField(call.Call.Value); f != fAddext || f == nil {
			return
		}
		n++
		con := fmt.Sprintf("build: extension hand-over #%d is made for a keyword of the form prefix:name", n)
		exact, loose := false, ""
		nonEmpty := 0
		piecesSeen := map[int64]bool{}
		colon := func(v ssa.Value) bool { s, isS := constString(v); return isS && s == ":" }
		for _, g := range guardsAt(call.Block()) {
			if !g.Branch {
				continue
			}
			if u, isU := g.Cond.(*ssa.UnOp); isU && u.Op == token.NOT {
				continue
			}
			// the test as written, or inside a private predicate it calls (backSliceCond follows its result and
			// the conditions that select it)
			backSliceCond(g.Cond, func(v ssa.Value) {
				switch x := v.(type) {
				case *ssa.BinOp:
					if k, okk := constInt(x.Y); okk && x.Op == token.EQL {
						if ln, isLn := x.X.(*ssa.Call); isLn && isLenOf(ln) {
							if sp, isSp := ln.Call.Args[0].(*ssa.Call); isSp && calleeIs(sp, "strings", "Split") && colon(sp.Call.Args[1]) && k == 2 {
								exact = true
							}
						}
						if cnt, isCnt := x.X.(*ssa.Call); isCnt && calleeIs(cnt, "strings", "Count") && colon(cnt.Call.Args[1]) && k == 1 {
							exact = true
						}
					}
					if sv, isS := constString(x.Y); isS && sv == "" && x.Op == token.NEQ {
						// a piece of the split keyword is not empty
						if ld, isL := x.X.(*ssa.UnOp); isL {
							if ia, isIA := ld.X.(*ssa.IndexAddr); isIA {
								if sp, isSp := ia.X.(*ssa.Call); isSp && calleeIs(sp, "strings", "Split") {
									// the two sides of the colon: pieces 0 and 1, each once
									if k, isK := constInt(ia.Index); isK && !piecesSeen[k] {
										piecesSeen[k] = true
										nonEmpty++
									}
								}
							}
						}
					}
				case *ssa.Call:
					if calleeIs(x, "strings", "Contains") || calleeIs(x, "strings", "ContainsRune") {
						loose = c.InstrPos(x)
					}
				}
			})
		}
		switch {
		case exact && nonEmpty >= 2:
			obs = append(obs, ok(R, con, c.InstrPos(call), "under `exactly one colon, with something on both sides`"))
		case exact:
			obs = append(obs, bad(R, con, c.InstrPos(call), "the arm is entered for a keyword with one colon and nothing before or after it: `:foo x;` and `foo: x;` are filed as extensions although they have no prefix or no name"))
		case loose != "":
			obs = append(obs, bad(R, con, c.InstrPos(call), "the arm is entered for any keyword that merely contains a colon ("+loose+"): `a:b:c` or `ex::ext` is filed as an extension instead of failing the build as an unknown statement"))
		default:
			obs = append(obs, undecided(R, con, c.InstrPos(call), "the form test has a shape this rule does not know"))
		}
	})
	if n == 0 {
		obs = append(obs, undecided(R, "build: extension hand-over", c.Pos(build.Pos()), "no call through the extension slot found"))
	}
	return obs
}

func init() {
	register(&Rule{Name: "ERR.IMPORTSELF", Props: []string{"C04", "C08"}, Floor: 3,
		Doc: "errors are imported into the collecting entry: no call imports an entry's errors into itself, and the collector's recursion keeps its receiver",
		Run: ruleErrImportSelf})
	register(&Rule{Name: "RANGE.COALESCE", Props: []string{"C10"}, Floor: 2,
		Doc: "while merging sorted parts, the part that is tested for adjacency / extension and the part that is extended are the same element of the output list",
		Run: ruleRangeCoalesce})
}

func ruleErrImportSelf(c *Ctx) []Obligation {
	const R = "ERR.IMPORTSELF"
	imp := c.Fn("yang.(*Entry).importErrors")
	if imp == nil {
		return []Obligation{undecided(R, "error importer", "-", "(*Entry).importErrors not found")}
	}
	var obs []Obligation
	for _, fn := range c.Funcs {
		if fn.Blocks == nil || !c.isRepoFn(fn) {
			continue
		}
		n := 0
		for _, ci := range c.callsTo(fn, imp) {
			args := ci.Common().Args
			if len(args) < 2 {
				continue
			}
			n++
			con := fmt.Sprintf("%s: import of errors #%d goes from one entry into another", c.FnName(fn), n)
			switch {
			case args[0] == args[1] || sameLoadExpr(args[0], args[1]):
				obs = append(obs, bad(R, con, c.InstrPos(ci), "an entry's errors are imported into the entry itself: the entry that was to collect them gets nothing, and whatever was recorded while converting the other entry is never reported"))
			case fn == imp && !isParamN(fn, args[0], 0):
				obs = append(obs, bad(R, con, c.InstrPos(ci), "the collector's recursion changes its receiver: errors found deeper in the tree are imported into the entry that was passed in (or one of its children) instead of the collecting entry"))
			default:
				obs = append(obs, ok(R, con, c.InstrPos(ci), "receiver and argument differ; the recursion keeps the collector"))
			}
		}
	}
	return obs
}

func ruleRangeCoalesce(c *Ctx) []Obligation {
	const R = "RANGE.COALESCE"
	fn := c.Fn("yang.coalesce")
	if fn == nil {
		return []Obligation{undecided(R, "coalescing", "-", "yang.coalesce not found")}
	}
	yr := c.MustNamed("yang", "YRange")
	fMax := FieldVar(yr, "Max")
	// the output list: the slice made in the function
	var out ssa.Value
	eachInstr(fn, func(in ssa.Instruction) {
		if mk, isMk := in.(*ssa.MakeSlice); isMk && out == nil {
			out = mk
		}
	})
	if out == nil {
		o := ok(R, "coalesce: output list", c.Pos(fn.Pos()), "no list is made in the function: another shape, not decided")
		o.Trivial = true
		return []Obligation{o}
	}
	_ = out
	// every read or write of a .Max of an indexed element inside the merging loop is on the output list
	var obs []Obligation
	n := 0
	eachInstr(fn, func(in ssa.Instruction) {
		fa, isFA := in.(*ssa.FieldAddr)
		if !isFA || loopHeaderOf(fa.Block()) == nil {
			return
		}
		if _, f, _ := fieldOf(fa); f != fMax {
			return
		}
		ia, isIA := fa.X.(*ssa.IndexAddr)
		if !isIA {
			return
		}
		n++
		con := fmt.Sprintf("coalesce: upper bound access #%d through an index is on the list being built", n)
		if ia.X == out {
			obs = append(obs, ok(R, con, c.InstrPos(fa), "the made list"))
		} else {
			obs = append(obs, bad(R, con, c.InstrPos(fa), "the merging loop reads or writes the upper bound of an indexed element of the INPUT list: the part compared with the next one is not the part that was extended so far, so overlapping or adjacent parts stay separate (or separate ones are merged)"))
		}
	})
	if n == 0 {
		o := ok(R, "coalesce: indexed upper-bound accesses", c.Pos(fn.Pos()), "none in a loop: another shape, not decided")
		o.Trivial = true
		obs = append(obs, o)
	}
	// nothing derived from the part being built is carried round the loop past a change of that part: a loop-carried
	// value computed from x.Max (say max + one quantum, cached) must be renewed on every path that stores x.Max
	for _, h := range fn.Blocks {
		if !isLoopHeader(h) {
			continue
		}
		for _, in := range h.Instrs {
			phi, isPhi := in.(*ssa.Phi)
			if !isPhi {
				continue
			}
			// which cells' .Max does the phi depend on
			dep := map[*ssa.Alloc]bool{}
			for _, e := range phi.Edges {
				var walk func(v ssa.Value, d int)
				walk = func(v ssa.Value, d int) {
					if d > 6 {
						return
					}
					switch x := v.(type) {
					case *ssa.Call:
						for _, a := range x.Call.Args {
							walk(a, d+1)
						}
					case *ssa.UnOp:
						if fa, isFA := x.X.(*ssa.FieldAddr); isFA {
							if _, f, _ := fieldOf(fa); f == fMax {
								if a, isA := fa.X.(*ssa.Alloc); isA {
									dep[a] = true
								}
							}
						}
					case *ssa.BinOp:
						walk(x.X, d+1)
						walk(x.Y, d+1)
					}
				}
				walk(e, 0)
			}
			for a := range dep {
				for i, e := range phi.Edges {
					p := h.Preds[i]
					if !h.Dominates(p) || e != ssa.Value(phi) {
						continue // entry edge, or renewed on this edge
					}
					// a store to a.Max on a path header → p
					eachInstr(fn, func(in2 ssa.Instruction) {
						st, isS := in2.(*ssa.Store)
						if !isS {
							return
						}
						fa, isFA := st.Addr.(*ssa.FieldAddr)
						if !isFA || fa.X != ssa.Value(a) {
							return
						}
						if _, f, _ := fieldOf(fa); f != fMax {
							return
						}
						b := st.Block()
						if h.Dominates(b) && (b == p || blockReaches(b, p, map[*ssa.BasicBlock]bool{h: true})) {
							obs = append(obs, bad(R, "coalesce: what is derived from the current part's upper bound is renewed when the bound grows", c.InstrPos(st), "a value computed from the upper bound of the part being built is carried into the next iteration unchanged on the path that extends that bound: the next part is compared with the bound as it was, so a part that abuts only the extension starts a new part (uncoalesced, overlapping output)"))
						}
					})
				}
			}
		}
	}
	// equality of two parts looks at both bounds of both
	if eq := c.Fn("yang.(YRange).Equal"); eq != nil {
		fMin := FieldVar(yr, "Min")
		got := map[string]bool{}
		eachInstr(eq, func(in ssa.Instruction) {
			fa, isFA := in.(*ssa.FieldAddr)
			if !isFA {
				return
			}
			_, f, base := fieldOf(fa)
			if f != fMin && f != fMax {
				return
			}
			for i := range eq.Params {
				if isParamN(eq, base, i) || isParamN(eq, resolveArg(rootOf(base)), i) {
					got[fmt.Sprintf("%d.%s", i, f.Name())] = true
				}
				if a, isA := base.(*ssa.Alloc); isA {
					for _, r := range *a.Referrers() {
						if st, isS := r.(*ssa.Store); isS && st.Addr == ssa.Value(a) && st.Val == ssa.Value(eq.Params[i]) {
							got[fmt.Sprintf("%d.%s", i, f.Name())] = true
						}
					}
				}
			}
		})
		con := "YRange.Equal compares the lower and the upper bound of both parts"
		if got["0.Min"] && got["0.Max"] && got["1.Min"] && got["1.Max"] {
			obs = append(obs, ok(R, con, c.Pos(eq.Pos()), "Min and Max of receiver and argument are read"))
		} else {
			obs = append(obs, bad(R, con, c.Pos(eq.Pos()), "a bound of one of the two parts is never read: parts that differ in that bound compare equal, and a restriction that changes only that bound is taken for `unchanged`"))
		}
	}
	return obs
}

func init() {
	register(&Rule{Name: "CMP.PARALLEL", Props: []string{"C05", "C11", "C09"}, Floor: 1,
		Doc: "the comparator handed to sort.Slice / sort.SliceStable indexes nothing but the slice that is being sorted (a parallel slice of keys is not permuted with it)",
		Run: ruleCmpParallel})
}

func ruleCmpParallel(c *Ctx) []Obligation {
	const R = "CMP.PARALLEL"
	var obs []Obligation
	for _, fn := range c.Funcs {
		if fn.Blocks == nil || !c.isRepoFn(fn) {
			continue
		}
		n := 0
		eachInstr(fn, func(in ssa.Instruction) {
			call, isC := in.(*ssa.Call)
			if !isC || !(calleeIs(call, "sort", "Slice") || calleeIs(call, "sort", "SliceStable")) || len(call.Call.Args) != 2 {
				return
			}
			mc, isMC := call.Call.Args[1].(*ssa.MakeClosure)
			if !isMC {
				return
			}
			less, _ := mc.Fn.(*ssa.Function)
			if less == nil || len(less.Params) != 2 {
				return
			}
			sorted := call.Call.Args[0]
			if mi, isMI := sorted.(*ssa.MakeInterface); isMI {
				sorted = mi.X
			}
			// the cell (or value) the sorted slice is read from
			cellOf := func(v ssa.Value) ssa.Value {
				if u, isU := v.(*ssa.UnOp); isU && u.Op == token.MUL {
					return u.X
				}
				return v
			}
			sortedCell := cellOf(sorted)
			n++
			con := fmt.Sprintf("%s: comparator of sort call #%d indexes only the slice being sorted", c.FnName(fn), n)
			foreign := ""
			eachInstr(less, func(in2 ssa.Instruction) {
				var base, idx ssa.Value
				switch x := in2.(type) {
				case *ssa.IndexAddr:
					base, idx = x.X, x.Index
				case *ssa.Index:
					base, idx = x.X, x.Index
				default:
					return
				}
				if idx != ssa.Value(less.Params[0]) && idx != ssa.Value(less.Params[1]) {
					return
				}
				// resolve a free variable to what the closure was made with
				b := cellOf(base)
				if fv, isFV := b.(*ssa.FreeVar); isFV {
					for i, f := range less.FreeVars {
						if f == fv && i < len(mc.Bindings) {
							b = mc.Bindings[i]
						}
					}
				}
				if b != sortedCell && b != sorted {
					foreign = c.InstrPos(in2)
				}
			})
			if foreign == "" {
				obs = append(obs, ok(R, con, c.InstrPos(call), "less(i, j) reads x[i] and x[j] of the sorted x only"))
			} else {
				obs = append(obs, bad(R, con, foreign, "the comparator indexes another slice with the positions it is given: the sort permutes only the slice it sorts, so after the first swap the keys no longer belong to the elements they are compared for, and the result depends on the input (map) order"))
			}
		})
	}
	return obs
}

func init() {
	register(&Rule{Name: "ERR.FANOUT", Props: []string{"C01"}, Floor: 1,
		Doc: "a resolver does not concatenate, inside a loop, the whole error list that a recursive call of itself returns (memoised lists are shared: two members naming one typedef double the list at every level of a chain)",
		Run: ruleErrFanout})
}

func ruleErrFanout(c *Ctx) []Obligation {
	const R = "ERR.FANOUT"
	var obs []Obligation
	n := 0
	for _, name := range []string{"yang.(*Type).resolve", "yang.(*Typedef).resolve"} {
		fn := c.Fn(name)
		if fn == nil {
			continue
		}
		// functions from which fn is reachable again (its recursive cycle)
		back := c.Reach([]*ssa.Function{fn}, nil)
		eachInstr(fn, func(in ssa.Instruction) {
			call, isC := in.(*ssa.Call)
			if !isC {
				return
			}
			bi, isB := call.Call.Value.(*ssa.Builtin)
			if !isB || bi.Name() != "append" || len(call.Call.Args) != 2 || !isErrorSlice(call.Type()) {
				return
			}
			src, isSrc := call.Call.Args[1].(*ssa.Call)
			if !isSrc || src.Call.StaticCallee() == nil || !c.isRepoFn(src.Call.StaticCallee()) {
				return
			}
			cal := src.Call.StaticCallee()
			if !back[cal] || !c.Reach([]*ssa.Function{cal}, nil)[fn] {
				return // not on a cycle with fn
			}
			n++
			con := fmt.Sprintf("%s: wholesale append #%d of a recursive result is not in a loop", c.FnName(fn), n)
			if loopHeaderOf(call.Block()) == nil {
				obs = append(obs, ok(R, con, c.InstrPos(call), "one call, one list"))
			} else {
				obs = append(obs, bad(R, con, c.InstrPos(call), "inside a loop the whole list a recursive call returns is appended: the callee's list is memoised and shared, so members that lead to the same typedef contribute it once each, and the list doubles with every level of a chain of unions (the run does not end for a few dozen levels)"))
			}
		})
	}
	if n == 0 {
		obs = append(obs, ok(R, "no wholesale append of a recursive error list", "-", "the resolvers take recursive results element by element or not in a loop"))
	}
	obs = append(obs, errFanoutMerge(c)...)
	obs = append(obs, errFanoutOnce(c)...)
	return obs
}

func init() {
	register(&Rule{Name: "RANGE.IMMUTABLE", Props: []string{"C19", "C10", "C09"}, Floor: 1,
		Doc: "the parts of a range list are written only in a list the function made itself: range lists are shared by value between derived types and with the built-in tables",
		Run: ruleRangeImmutable})
}

func ruleRangeImmutable(c *Ctx) []Obligation {
	const R = "RANGE.IMMUTABLE"
	yrT := c.Named("yang", "YangRange")
	if yrT == nil {
		return []Obligation{undecided(R, "range list type", "-", "yang.YangRange not found")}
	}
	var obs []Obligation
	n := 0
	for _, fn := range c.Funcs {
		if fn.Blocks == nil || !c.isRepoFn(fn) {
			continue
		}
		if root := rootFn(fn); root.Pkg == nil || shortPkg(root.Pkg.Pkg.Path()) == "main" {
			continue
		}
		k := 0
		isFresh := func(list ssa.Value) bool {
			fresh := false
			backSlice(list, func(x ssa.Value) bool {
				switch y := x.(type) {
				case *ssa.MakeSlice:
					fresh = true
					return false
				case *ssa.Call:
					if bi, isB := y.Call.Value.(*ssa.Builtin); isB && bi.Name() == "append" && len(y.Call.Args) > 0 && isNilConst(y.Call.Args[0]) {
						fresh = true
					}
					return false
				}
				return true
			})
			return fresh
		}
		// the element swaps of sort.Interface happen on whatever list is handed to the sort: decided at the call
		if fn.Signature.Recv() != nil && namedOf(fn.Signature.Recv().Type()) == yrT && (fn.Name() == "Swap") {
			continue
		}
		eachInstr(fn, func(in ssa.Instruction) {
			if call, isC := in.(*ssa.Call); isC {
				var sorted ssa.Value
				if calleeIs(call, "sort", "Sort") || calleeIs(call, "sort", "Stable") {
					if mi, isMI := call.Call.Args[0].(*ssa.MakeInterface); isMI && namedOf(mi.X.Type()) == yrT {
						sorted = mi.X
					}
				}
				if sorted != nil && fn.Signature.Recv() != nil && namedOf(fn.Signature.Recv().Type()) == yrT && isParamN(fn, sorted, 0) {
					return // (YangRange).Sort: decided where Sort is called
				}
				if cal := call.Call.StaticCallee(); cal != nil && cal.Name() == "Sort" && cal.Signature.Recv() != nil && namedOf(cal.Signature.Recv().Type()) == yrT && len(call.Call.Args) > 0 {
					sorted = call.Call.Args[0]
				}
				if sorted != nil {
					n++
					k++
					con := fmt.Sprintf("%s: list sorted in place #%d was made here", c.FnName(fn), k)
					if isFresh(sorted) {
						obs = append(obs, ok(R, con, c.InstrPos(call), "the list was made by make / append(nil, …) in this function"))
					} else {
						obs = append(obs, bad(R, con, c.InstrPos(call), "a range list that came from outside is sorted in place: its parts are shared with other types (and with the process-wide tables of the built-in types)"))
					}
				}
				return
			}
			st, isS := in.(*ssa.Store)
			if !isS {
				return
			}
			// walk the address down to an element of a YangRange
			var list ssa.Value
			for v, d := st.Addr, 0; d < 8; d++ {
				switch x := v.(type) {
				case *ssa.FieldAddr:
					v = x.X
					continue
				case *ssa.IndexAddr:
					if namedOf(x.X.Type()) == yrT {
						list = x.X
					}
					v = x.X
					continue
				case *ssa.Phi:
					// a pointer chosen between two elements (bound := &y[0].Min; if … { bound = &y[n].Max })
					for _, e := range x.Edges {
						for w, d2 := e, 0; d2 < 6; d2++ {
							switch y := w.(type) {
							case *ssa.FieldAddr:
								w = y.X
								continue
							case *ssa.IndexAddr:
								if namedOf(y.X.Type()) == yrT {
									list = y.X
								}
							}
							break
						}
					}
				}
				break
			}
			if list == nil {
				return
			}
			n++
			k++
			con := fmt.Sprintf("%s: part written #%d belongs to a list made here", c.FnName(fn), k)
			if isFresh(list) {
				obs = append(obs, ok(R, con, c.InstrPos(st), "the list was made by make / append(nil, …) in this function"))
			} else {
				obs = append(obs, bad(R, con, c.InstrPos(st), "a part of a range list that came from outside (a parameter, a receiver, a field) is written in place: derived types share their parent's list by value, and the lists of the built-in types are process-wide tables, so the write shows up in other types and races with independent module sets"))
			}
		})
	}
	if n == 0 {
		obs = append(obs, ok(R, "no store into a part of a range list outside its maker", "-", "nothing to decide"))
	}
	return obs
}

func init() {
	register(&Rule{Name: "FILE.ONEPASS", Props: []string{"C13"}, Floor: 1,
		Doc: "the search path is walked once: the first directory that holds a candidate decides, whatever the form of the candidate's name",
		Run: ruleFileOnePass})
	register(&Rule{Name: "ORDER.SORTEDALL", Props: []string{"C05", "C13", "C11"}, Floor: 1,
		Doc: "the helper that returns a table's values in key order returns one value per key (no value is skipped because it was seen under another key)",
		Run: ruleOrderSortedAll})
}

func ruleFileOnePass(c *Ctx) []Obligation {
	const R = "FILE.ONEPASS"
	fn := c.Fn("yang.(*Modules).findFile")
	if fn == nil {
		return []Obligation{undecided(R, "file finder", "-", "(*Modules).findFile not found")}
	}
	mods := c.MustNamed("yang", "Modules")
	fPath := FieldVar(mods, "Path")
	con := "findFile opens files found under the search path in one walk over it"
	// loops over Modules.Path that contain a successful return (a file was opened)
	var walks []string
	for _, h := range fn.Blocks {
		if !isLoopHeader(h) {
			continue
		}
		overPath := false
		for _, b := range fn.Blocks {
			for _, in := range b.Instrs {
				switch x := in.(type) {
				case *ssa.Range:
					if _, f, _ := loadedField(x.X); f == fPath && b.Dominates(h) && len(h.Preds) > 0 {
						// the range feeding this header: its Next sits in h
						for _, hin := range h.Instrs {
							if nx, isN := hin.(*ssa.Next); isN && nx.Iter == ssa.Value(x) {
								overPath = true
							}
						}
					}
				}
			}
		}
		// a range over a slice is an index loop: the element load indexes the loaded Path
		for _, b := range fn.Blocks {
			if !h.Dominates(b) {
				continue
			}
			for _, in := range b.Instrs {
				if ia, isIA := in.(*ssa.IndexAddr); isIA && loopHeaderOf(b) == h {
					if _, f, _ := loadedField(ia.X); f == fPath {
						overPath = true
					}
				}
			}
		}
		if !overPath {
			continue
		}
		returns := false
		for _, b := range fn.Blocks {
			if !h.Dominates(b) || b == h {
				continue
			}
			if r, isR := b.Instrs[len(b.Instrs)-1].(*ssa.Return); isR && len(r.Results) == 3 && isNilConst(resolveSpill(r.Results[2], r)) {
				// inside the loop body (not after it)
				for _, body := range loopBodies(fn) {
					if body.Dominates(b) && h.Dominates(body) {
						returns = true
					}
				}
			}
		}
		if returns {
			walks = append(walks, c.InstrPos(h.Instrs[0]))
		}
	}
	switch len(walks) {
	case 1:
		return []Obligation{ok(R, con, walks[0], "one loop over Modules.Path returns the file it opened")}
	case 0:
		o := ok(R, con, c.Pos(fn.Pos()), "no loop over Modules.Path returns a file: another shape, not decided")
		o.Trivial = true
		return []Obligation{o}
	default:
		return []Obligation{bad(R, con, walks[1], fmt.Sprintf("%d separate walks over the search path each open and return a file (%s): a candidate of the form tried in the first walk wins even when an earlier directory holds a candidate of the other form, so the first directory holding a candidate no longer decides", len(walks), strings.Join(walks, ", ")))}
	}
}

func ruleOrderSortedAll(c *Ctx) []Obligation {
	const R = "ORDER.SORTEDALL"
	var obs []Obligation
	for _, fn := range c.Funcs {
		if fn.Blocks == nil || !c.isRepoFn(fn) || fn.Signature.Params().Len() != 1 || fn.Signature.Results().Len() != 1 {
			continue
		}
		if _, isMap := fn.Signature.Params().At(0).Type().Underlying().(*types.Map); !isMap {
			continue
		}
		if _, isSl := fn.Signature.Results().At(0).Type().Underlying().(*types.Slice); !isSl {
			continue
		}
		hasSort := false
		eachInstr(fn, func(in ssa.Instruction) {
			if cl, isC := in.(*ssa.Call); isC && (calleeIs(cl, "sort", "Strings") || calleeIs(cl, "sort", "Slice") || calleeIs(cl, "sort", "SliceStable")) {
				hasSort = true
			}
		})
		if !hasSort {
			continue
		}
		// the appends of looked-up values: m[k] appended to the result
		n := 0
		eachInstr(fn, func(in ssa.Instruction) {
			call, isC := in.(*ssa.Call)
			if !isC {
				return
			}
			bi, isB := call.Call.Value.(*ssa.Builtin)
			if !isB || bi.Name() != "append" || len(call.Call.Args) != 2 {
				return
			}
			fromLookup := false
			for _, e := range variadicElems(call.Call.Args[1]) {
				if l, isL := e.(*ssa.Lookup); isL && isParamN(fn, l.X, 0) {
					fromLookup = true
				}
			}
			if !fromLookup {
				return
			}
			n++
			con := fmt.Sprintf("%s: value append #%d is made for every key", c.FnName(fn), n)
			skip := ""
			for _, g := range guardsAt(call.Block()) {
				if isLoopHeader(g.If.Block()) {
					continue
				}
				skip = c.InstrPos(g.If)
			}
			if skip == "" {
				obs = append(obs, ok(R, con, c.InstrPos(call), "unconditional inside the loop over the sorted keys"))
			} else {
				obs = append(obs, bad(R, con, c.InstrPos(call), "the value of a key is appended only under a further condition ("+skip+"): callers walk the result to visit every filing of the table in key order (a module is filed under its bare name and under name@revision, and which filing comes last decides whose identities and links stay) — a value skipped under its second key changes that order"))
			}
		})
	}
	if len(obs) == 0 {
		obs = append(obs, undecided(R, "sorted-values helper", "-", "no function of the shape (map) → values in key order found"))
	}
	return obs
}

func init() {
	register(&Rule{Name: "REC.SEARCHSET", Props: []string{"C01"}, Floor: 1,
		Doc: "the visited set of the grouping search over the include graph only grows: a submodule reachable along several include paths is searched once, not once per path",
		Run: ruleRecSearchSet})
}

func ruleRecSearchSet(c *Ctx) []Obligation {
	const R = "REC.SEARCHSET"
	fn := c.Fn("yang.FindGrouping")
	if fn == nil {
		return []Obligation{undecided(R, "grouping search", "-", "FindGrouping not found")}
	}
	con := "FindGrouping never removes a submodule from its visited set"
	// the set: a map[…]bool parameter
	var set *ssa.Parameter
	for _, p := range fn.Params {
		if mt, isM := p.Type().Underlying().(*types.Map); isM && isBoolType(mt.Elem()) {
			set = p
		}
	}
	if set == nil {
		o := ok(R, con, c.Pos(fn.Pos()), "the search carries no visited-set parameter: another shape (REC decides termination)")
		o.Trivial = true
		return []Obligation{o}
	}
	var obs []Obligation
	undone := ""
	c.eachInstrDeep(fn, func(in ssa.Instruction) {
		switch x := in.(type) {
		case *ssa.Call:
			if bi, isB := x.Call.Value.(*ssa.Builtin); isB && bi.Name() == "delete" && len(x.Call.Args) > 0 && resolveArg(x.Call.Args[0]) == ssa.Value(set) {
				undone = c.InstrPos(x)
			}
		case *ssa.Defer:
			if bi, isB := x.Call.Value.(*ssa.Builtin); isB && bi.Name() == "delete" && len(x.Call.Args) > 0 && resolveArg(x.Call.Args[0]) == ssa.Value(set) {
				undone = c.InstrPos(x)
			}
		case *ssa.MapUpdate:
			if resolveArg(x.Map) == ssa.Value(set) {
				if k, isK := x.Value.(*ssa.Const); isK && k.Value != nil && k.Value.String() == "false" {
					undone = c.InstrPos(x)
				}
			}
		}
	})
	if undone == "" {
		obs = append(obs, ok(R, con, c.Pos(fn.Pos()), "the set is only added to"))
	} else {
		obs = append(obs, bad(R, con, undone, "the search un-marks a submodule after searching it, so the set holds the current include chain only: what a name denotes does not depend on the path by which a submodule is reached, but now every path searches it again — exponential in the depth of a lattice of includes (the run does not end)"))
	}
	return obs
}

func init() {
	register(&Rule{Name: "TYPE.BUILTIN", Props: []string{"C09"}, Floor: 30,
		Doc: "the tables of the built-in types agree: name→kind and kind→name are inverse, and each built-in type is filed under its own name with the kind that name denotes",
		Run: ruleTypeBuiltin})
}

func ruleTypeBuiltin(c *Ctx) []Obligation {
	const R = "TYPE.BUILTIN"
	pkg := c.YangSSAPkg()
	if pkg == nil {
		return []Obligation{undecided(R, "package yang", "-", "SSA package not found")}
	}
	initFn := pkg.Func("init")
	if initFn == nil {
		return []Obligation{undecided(R, "package initialiser", "-", "yang.init not found")}
	}
	fromName := map[string]int64{}
	toName := map[int64]string{}
	type base struct {
		key, name string
		kind      int64
		hasKind   bool
		pos       string
	}
	var bases []base
	yt := c.MustNamed("yang", "YangType")
	fName, fKind := FieldVar(yt, "Name"), FieldVar(yt, "Kind")
	// the map literals are built in a temporary and then stored into the global
	tableOf := map[ssa.Value]string{}
	eachInstr(initFn, func(in ssa.Instruction) {
		if st, isS := in.(*ssa.Store); isS {
			if g, isG := st.Addr.(*ssa.Global); isG {
				tableOf[st.Val] = g.Name()
			}
		}
	})
	eachInstr(initFn, func(in ssa.Instruction) {
		mu, isMU := in.(*ssa.MapUpdate)
		if !isMU {
			return
		}
		gname, known := tableOf[mu.Map]
		if !known {
			if ld, isLd := mu.Map.(*ssa.UnOp); isLd {
				if g, isG := ld.X.(*ssa.Global); isG {
					gname, known = g.Name(), true
				}
			}
		}
		if !known {
			return
		}
		switch gname {
		case "TypeKindFromName":
			if ks, okS := constString(mu.Key); okS {
				if kv, okI := constInt(mu.Value); okI {
					fromName[ks] = kv
				}
			}
		case "TypeKindToName":
			if kv, okI := constInt(mu.Key); okI {
				if ks, okS := constString(mu.Value); okS {
					toName[kv] = ks
				}
			}
		case "baseTypes":
			ks, okS := constString(mu.Key)
			al, isA := mu.Value.(*ssa.Alloc)
			if !okS || !isA {
				return
			}
			b := base{key: ks, pos: c.InstrPos(mu)}
			for _, r := range *al.Referrers() {
				fa, isFA := r.(*ssa.FieldAddr)
				if !isFA {
					continue
				}
				_, f, _ := fieldOf(fa)
				for _, rr := range *fa.Referrers() {
					st, isS := rr.(*ssa.Store)
					if !isS || st.Addr != ssa.Value(fa) {
						continue
					}
					if f == fName {
						b.name, _ = constString(st.Val)
					}
					if f == fKind {
						if kv, okI := constInt(st.Val); okI {
							b.kind, b.hasKind = kv, true
						}
					}
				}
			}
			bases = append(bases, b)
		}
	})
	var obs []Obligation
	var names []string
	for n := range fromName {
		names = append(names, n)
	}
	sort.Strings(names)
	for _, n := range names {
		k := fromName[n]
		con := fmt.Sprintf("built-in name %q: kind→name gives the name back", n)
		if back, has := toName[k]; has && back == n {
			obs = append(obs, ok(R, con, "-", fmt.Sprintf("kind %d ↔ %q", k, n)))
		} else if !has {
			obs = append(obs, bad(R, con, "-", fmt.Sprintf("kind %d has no entry in TypeKindToName: the kind prints as unknown-type-%d", k, k)))
		} else {
			obs = append(obs, bad(R, con, "-", fmt.Sprintf("TypeKindFromName[%q] = %d but TypeKindToName[%d] = %q: the two tables name different types by one kind", n, k, k, back)))
		}
	}
	sort.Slice(bases, func(i, j int) bool { return bases[i].key < bases[j].key })
	for _, b := range bases {
		con := fmt.Sprintf("built-in type %q is filed under its own name with the kind the name denotes", b.key)
		want, known := fromName[b.key]
		switch {
		case b.name != b.key:
			obs = append(obs, bad(R, con, b.pos, fmt.Sprintf("filed under %q but named %q", b.key, b.name)))
		case !known:
			obs = append(obs, bad(R, con, b.pos, "TypeKindFromName has no entry for this name"))
		case !b.hasKind && want != 0 || b.hasKind && b.kind != want:
			obs = append(obs, bad(R, con, b.pos, fmt.Sprintf("its Kind is %d (%s) but the name denotes kind %d: a leaf of type %s is resolved as a %s", b.kind, toName[b.kind], want, b.key, toName[b.kind])))
		default:
			obs = append(obs, ok(R, con, b.pos, fmt.Sprintf("Kind %d", b.kind)))
		}
	}
	return obs
}

// YangSSAPkg: the SSA package of pkg/yang.
func (c *Ctx) YangSSAPkg() *ssa.Package {
	for _, fn := range c.Funcs {
		if fn.Pkg != nil && fn.Pkg.Pkg == c.YangPkg() {
			return fn.Pkg
		}
	}
	return nil
}

// errFanoutMerge: the function that links the children of one entry under another (merge) does not also collect, into
// the target, the errors of the subtree whose children it links: they stay on the linked children, and collecting them
// as well doubles every error at each level of nested uses (hunt/h3/C01/finding1: 2^40 copies of one error).
func errFanoutMerge(c *Ctx) []Obligation {
	const R = "ERR.FANOUT"
	con := "the link function does not collect the errors of the subtree whose children it links"
	merge := c.mergeFn()
	entry := c.MustNamed("yang", "Entry")
	fDir, fErrs := FieldVar(entry, "Dir"), FieldVar(entry, "Errors")
	if merge == nil || fDir == nil || fErrs == nil {
		return []Obligation{undecided(R, con, "-", "the link function / Entry.Dir / Entry.Errors not found")}
	}
	// the entries whose child maps are ranged over and linked: bases of a range over X.Dir in merge
	var sources []ssa.Value
	c.eachInstrDeep(merge, func(in ssa.Instruction) {
		if r, isR := in.(*ssa.Range); isR {
			if _, f, base := loadedField(r.X); f == fDir && base != nil {
				sources = append(sources, base)
			}
		}
	})
	if len(sources) == 0 {
		return []Obligation{undecided(R, con, c.Pos(merge.Pos()), "the link function ranges over no child map")}
	}
	// recursive collectors: repo methods on *Entry that call themselves and append to Entry.Errors (directly or through
	// a helper)
	collector := func(fn *ssa.Function) bool {
		if fn == nil || !c.isRepoFn(fn) || len(c.callsTo(fn, fn)) == 0 {
			return false
		}
		writes := false
		for f := range c.Reach([]*ssa.Function{fn}, nil) {
			if len(storesToField(f, fErrs)) > 0 {
				writes = true
			}
		}
		return writes
	}
	var obs []Obligation
	bad1 := ""
	c.eachInstrDeep(merge, func(in ssa.Instruction) {
		call, isC := in.(*ssa.Call)
		if !isC || bad1 != "" {
			return
		}
		cal := call.Call.StaticCallee()
		if !collector(cal) {
			return
		}
		for _, a := range call.Call.Args {
			for _, src := range sources {
				if sameObject(resolveArg(a), resolveArg(src)) {
					bad1 = c.InstrPos(call)
				}
			}
		}
	})
	if bad1 != "" {
		obs = append(obs, bad(R, con, bad1, "the whole subtree's errors are collected into the target and the children, which still carry them, are linked as well: every level of nested uses doubles the count — one unknown type under 40 nested groupings is held 2^40 times and Process runs out of memory before the duplicates can be removed"))
	} else {
		obs = append(obs, ok(R, con, c.Pos(merge.Pos()), "only the merged entry's own errors (and those of a child that is not linked) are taken over"))
	}
	return obs
}

// pureIntArith: a repo function from integers to integers whose body calls nothing and stores nothing.
func pureIntArith(c *Ctx, fn *ssa.Function) bool {
	if fn == nil || !c.isRepoFn(fn) || fn.Blocks == nil || fn.Signature.Recv() != nil {
		return false
	}
	sig := fn.Signature
	if sig.Params().Len() == 0 || sig.Results().Len() != 1 {
		return false
	}
	for i := 0; i < sig.Params().Len(); i++ {
		if !isIntType(sig.Params().At(i).Type()) {
			return false
		}
	}
	if !isIntType(sig.Results().At(0).Type()) {
		return false
	}
	pure := true
	eachInstr(fn, func(in ssa.Instruction) {
		switch in.(type) {
		case ssa.CallInstruction, *ssa.Store, *ssa.MapUpdate, *ssa.Send:
			pure = false
		}
	})
	return pure
}

// errFanoutOnce: the function through which errors are added to an entry holds a value once. The errors of a
// grouping reach the entry that defines it (an unused grouping is checked too) and, again, every entry that uses it:
// without this, one mistake inside k nested grouping definitions is held 2^k times (hunt/h4/C01/finding1).
func errFanoutOnce(c *Ctx) []Obligation {
	const R = "ERR.FANOUT"
	con := "an entry holds an error value once: the adder skips a value that is already there"
	entry := c.MustNamed("yang", "Entry")
	fErrs := FieldVar(entry, "Errors")
	// the adders: repo methods on *Entry with an error parameter that store append(e.Errors, <that parameter>)
	var obs []Obligation
	n := 0
	for _, fn := range c.Funcs {
		if !c.isRepoFn(fn) || fn.Parent() != nil || fn.Signature.Recv() == nil || len(fn.Params) != 2 || !isErrorType(fn.Params[1].Type()) {
			continue
		}
		var app *ssa.Store
		for _, st := range storesToField(fn, fErrs) {
			fromParam := false
			operandClosure(st.Val, func(x ssa.Value) {
				if x == ssa.Value(fn.Params[1]) {
					fromParam = true
				}
			})
			if fromParam {
				app = st
			}
		}
		if app == nil {
			continue
		}
		n++
		// a comparison of an element of e.Errors with the parameter whose equal branch leaves without appending
		skips := false
		eachInstr(fn, func(in ssa.Instruction) {
			bo, isB := in.(*ssa.BinOp)
			if !isB || bo.Op != token.EQL && bo.Op != token.NEQ || skips {
				return
			}
			var other ssa.Value
			switch {
			case bo.X == ssa.Value(fn.Params[1]):
				other = bo.Y
			case bo.Y == ssa.Value(fn.Params[1]):
				other = bo.X
			default:
				return
			}
			elem := false
			operandClosure(other, func(x ssa.Value) {
				if _, f, _ := loadedField(x); f == fErrs {
					elem = true
				}
			})
			if !elem {
				return
			}
			// a test whether the value can be compared at all may stand in front of the scan — taken the right way
			for _, g := range guardsAt(bo.Block()) {
				gc, gb := stripNot(g.Cond, g.Branch)
				if call, isC := gc.(*ssa.Call); isC && call.Call.IsInvoke() && call.Call.Method.Name() == "Comparable" && !gb {
					return
				}
			}
			for _, r := range refsOf(bo) {
				ifi, isIf := r.(*ssa.If)
				if !isIf {
					continue
				}
				eq := ifi.Block().Succs[0]
				if bo.Op == token.NEQ {
					eq = ifi.Block().Succs[1]
				}
				if eq != app.Block() && !blockReaches(eq, app.Block(), nil) {
					skips = true
				}
			}
		})
		c2 := fmt.Sprintf("%s (%s)", con, c.FnName(fn))
		if skips {
			obs = append(obs, ok(R, c2, c.InstrPos(app), "the list is scanned for the value; a hit leaves without appending"))
		} else {
			obs = append(obs, bad(R, c2, c.InstrPos(app), "every call appends: the errors of a grouping are imported where it is defined and come again with each use, so one mistake inside k nested grouping definitions is held 2^k times — a 1.6 kB module passes 1 GiB in seconds, for one error in the result"))
		}
	}
	if n == 0 {
		obs = append(obs, undecided(R, con, "-", "no method adds an error parameter to Entry.Errors"))
	}
	return obs
}

// keyIngredients: the fields a composed key is made of — how many are a bare Name of something, how many are anything
// else (a position, a revision, a path, an object).
func keyIngredients(key ssa.Value) (names, others int) {
	seen := map[*types.Var]bool{}
	visit := func(x ssa.Value) {
		_, f, _ := loadedField(x)
		if f == nil || seen[f] {
			return
		}
		if !isBasic(f.Type()) {
			return
		}
		seen[f] = true
		if f.Name() == "Name" {
			names++
		} else {
			others++
		}
	}
	operandClosureDeep(key, visit)
	// through the argument list of a formatting call
	operandClosureDeep(key, func(x ssa.Value) {
		if call, isC := x.(*ssa.Call); isC && len(call.Call.Args) > 0 {
			for _, e := range variadicElems(call.Call.Args[len(call.Call.Args)-1]) {
				operandClosureDeep(e, visit)
				visit(e)
			}
		}
	})
	if _, isPtr := key.Type().Underlying().(*types.Pointer); isPtr {
		others++
	}
	return names, others
}

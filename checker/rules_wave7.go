package main

// rules_wave7.go: rules and clauses added after the syntactic mutation sweep (tools/mutation_sweep.sh): each decides a
// structural necessary condition that a surviving mutant of pkg/yang broke while the unit tests stayed green.
// RANGE.FORALL, NUM.LESS.FRAC, ENUM.DOMAIN, KIND.RPC, FIND.LAZY, RO.ROOT.

import (
	"fmt"
	"go/token"
	"go/types"
	"strings"

	"golang.org/x/tools/go/ssa"
)

func init() {
	register(&Rule{Name: "RANGE.FORALL", Props: []string{"C10"}, Floor: 2,
		Doc: "the subset test quantifies over every part of its argument: no exit from inside its loops accepts",
		Run: ruleRangeForall})
	register(&Rule{Name: "NUM.LESS.FRAC", Props: []string{"C10", "C15"}, Floor: 1,
		Doc: "when the integer parts of two numbers are equal, the ordering is decided by a strict comparison of their fractional parts",
		Run: ruleNumLessFrac})
	register(&Rule{Name: "ENUM.DOMAIN", Props: []string{"C14"}, Floor: 4,
		Doc: "the constructors give enumerations the int32 range and bit sets the uint32 range",
		Run: ruleEnumDomain})
}

// loopBodies: for every loop header of fn, the successor through which the header is reached again.
func loopBodies(fn *ssa.Function) []*ssa.BasicBlock {
	var out []*ssa.BasicBlock
	for _, h := range fn.Blocks {
		if !isLoopHeader(h) {
			continue
		}
		for _, s := range h.Succs {
			if len(s.Preds) != 1 {
				continue
			}
			// s is a body entry when some back edge into h comes from a block s dominates
			for _, p := range h.Preds {
				if s.Dominates(p) {
					out = append(out, s)
					break
				}
			}
		}
	}
	return out
}

func ruleRangeForall(c *Ctx) []Obligation {
	const R = "RANGE.FORALL"
	fn := c.Fn("yang.(YangRange).Contains")
	if fn == nil {
		return []Obligation{undecided(R, "subset test", "-", "(YangRange).Contains not found")}
	}
	var obs []Obligation
	bodies := loopBodies(fn)
	if len(bodies) == 0 {
		return []Obligation{undecided(R, "Contains: loops over the parts of its argument", c.Pos(fn.Pos()), "no loop found: the subset test has another shape than the one this rule was written for")}
	}
	n, after := 0, 0
	for _, b := range fn.Blocks {
		r, isR := b.Instrs[len(b.Instrs)-1].(*ssa.Return)
		if !isR || len(r.Results) != 1 {
			continue
		}
		inside := false
		for _, body := range bodies {
			if body.Dominates(b) {
				inside = true
			}
		}
		if !inside {
			after++
			continue
		}
		n++
		con := fmt.Sprintf("Contains: exit #%d from inside the loops rejects", n)
		if k, isK := r.Results[0].(*ssa.Const); isK && k.Value != nil && k.Value.String() == "false" {
			obs = append(obs, ok(R, con, c.InstrPos(r), "return false"))
		} else {
			obs = append(obs, bad(R, con, c.InstrPos(r), "the subset test returns something other than false before every part of its argument has been examined: a restriction with a part outside its parent's set would be accepted"))
		}
	}
	if n == 0 {
		obs = append(obs, bad(R, "Contains: a part that is not covered is rejected", c.Pos(fn.Pos()), "no exit inside the loops: nothing rejects an uncovered part"))
	}
	return obs
}

func ruleNumLessFrac(c *Ctx) []Obligation {
	const R = "NUM.LESS.FRAC"
	fn := c.Fn("yang.(Number).Less")
	if fn == nil {
		return []Obligation{undecided(R, "number ordering", "-", "(Number).Less not found")}
	}
	con := "Less: equal integer parts are ordered by their fractional parts"
	calls := func(v ssa.Value, name string) bool {
		call, isC := v.(*ssa.Call)
		return isC && call.Call.StaticCallee() != nil && baseName(call.Call.StaticCallee()) == name
	}
	usesTrunc := false
	var fracCmp *ssa.BinOp
	eachInstr(fn, func(in ssa.Instruction) {
		bo, isB := in.(*ssa.BinOp)
		if !isB {
			return
		}
		if calls(bo.X, "Trunc") && calls(bo.Y, "Trunc") {
			usesTrunc = true
		}
		if calls(bo.X, "frac") && calls(bo.Y, "frac") && (bo.Op == token.LSS || bo.Op == token.GTR) {
			fracCmp = bo
		}
	})
	if !usesTrunc {
		o := ok(R, con, c.Pos(fn.Pos()), "Less does not split numbers into integer and fractional parts; nothing to pair")
		o.Trivial = true
		return []Obligation{o}
	}
	if fracCmp == nil {
		return []Obligation{bad(R, con, c.Pos(fn.Pos()), "the integer parts are compared but no strict comparison of the two fractional parts exists: 1.2 and 1.5 would compare as equal")}
	}
	// the comparison must reach a return
	reaches := false
	seen := map[ssa.Value]bool{}
	var walk func(v ssa.Value)
	walk = func(v ssa.Value) {
		if seen[v] {
			return
		}
		seen[v] = true
		for _, r := range *v.Referrers() {
			switch x := r.(type) {
			case *ssa.Return:
				reaches = true
			case *ssa.Phi:
				walk(x)
			case *ssa.UnOp:
				walk(x)
			}
		}
	}
	walk(fracCmp)
	if !reaches {
		return []Obligation{bad(R, con, c.InstrPos(fracCmp), "the comparison of the fractional parts does not reach a return")}
	}
	return []Obligation{ok(R, con, c.InstrPos(fracCmp), "nf < mf flows to the result")}
}

func ruleEnumDomain(c *Ctx) []Obligation {
	const R = "ENUM.DOMAIN"
	var obs []Obligation
	et := c.MustNamed("yang", "EnumType")
	fMin, fMax, fUnique := FieldVar(et, "min"), FieldVar(et, "max"), FieldVar(et, "unique")
	for _, fn := range c.Funcs {
		if fn.Signature.Recv() != nil || fn.Signature.Results().Len() != 1 || namedOf(fn.Signature.Results().At(0).Type()) != et || fn.Blocks == nil {
			continue
		}
		vals := map[*types.Var]int64{}
		has := map[*types.Var]bool{}
		unique := false
		eachInstr(fn, func(in ssa.Instruction) {
			st, isS := in.(*ssa.Store)
			if !isS {
				return
			}
			_, f, _ := fieldOf(st.Addr)
			if f == fUnique {
				if k, isK := st.Val.(*ssa.Const); isK && k.Value != nil && k.Value.String() == "true" {
					unique = true
				}
			}
			if f == fMin || f == fMax {
				if k, okk := constInt(st.Val); okk {
					vals[f], has[f] = k, true
				}
			}
		})
		wantMin, wantMax, what := int64(0), int64(1<<32-1), "bit positions: [0, 2^32-1]"
		if unique {
			wantMin, wantMax, what = -1<<31, 1<<31-1, "enum values: [-2^31, 2^31-1]"
		}
		for _, f := range []*types.Var{fMin, fMax} {
			want := wantMin
			if f == fMax {
				want = wantMax
			}
			con := fmt.Sprintf("%s: %s bound of the domain (%s)", c.FnName(fn), recordedFieldName(f), what)
			got := vals[f] // an unset field is zero
			if !has[f] && want != 0 {
				obs = append(obs, bad(R, con, c.Pos(fn.Pos()), "the bound is not set by a constant store"))
			} else if got != want {
				obs = append(obs, bad(R, con, c.Pos(fn.Pos()), fmt.Sprintf("the bound is %d, RFC 7950 says %d: values outside the range are accepted, or legal ones refused", got, want)))
			} else {
				obs = append(obs, ok(R, con, c.Pos(fn.Pos()), fmt.Sprintf("%d", got)))
			}
		}
	}
	return obs
}

func init() {
	register(&Rule{Name: "FIND.LAZY", Props: []string{"C17", "C07"}, Floor: 1,
		Doc: "where the path lookup creates an rpc's missing input/output on demand it does so only when the slot is empty, never over an existing subtree",
		Run: ruleFindLazy})
}

func ruleFindLazy(c *Ctx) []Obligation {
	const R = "FIND.LAZY"
	fn := c.Fn("yang.(*Entry).Find")
	if fn == nil {
		return []Obligation{undecided(R, "path lookup", "-", "(*Entry).Find not found")}
	}
	m := c.entryModel()
	var obs []Obligation
	n := 0
	for _, f := range []*types.Var{m.fIn, m.fOut} {
		for _, st := range c.storesToFieldDeep(fn, f) {
			n++
			con := fmt.Sprintf("Find: store #%d to RPCEntry.%s happens only into an empty slot", n, recordedFieldName(f))
			path := AccessPath(st.Addr)
			guarded := false
			for _, g := range guardsAt(st.Block()) {
				x, isEq, okn := nilTest(g.Cond)
				if !okn || isEq != g.Branch {
					continue
				}
				if _, gf, _ := loadedField(x); gf == f && AccessPath(x) == path {
					guarded = true
				}
			}
			if guarded {
				obs = append(obs, ok(R, con, c.InstrPos(st), "under `slot == nil`"))
			} else {
				obs = append(obs, bad(R, con, c.InstrPos(st), "the lookup overwrites the rpc's "+recordedFieldName(f)+" subtree without knowing the slot is empty: an existing input/output with all its children is replaced by an empty one, and the path that names a node inside it no longer finds it"))
			}
		}
	}
	if n == 0 {
		o := ok(R, "Find: no on-demand creation of rpc input/output", c.Pos(fn.Pos()), "the lookup does not write the slots")
		o.Trivial = true
		obs = append(obs, o)
	}
	return obs
}

func isBoolType(t types.Type) bool {
	b, ok := t.Underlying().(*types.Basic)
	return ok && b.Kind() == types.Bool
}

func init() {
	register(&Rule{Name: "CMP.ANTISYM", Props: []string{"C05", "C04"}, Floor: 4,
		Doc: "a comparator that decides one direction of a strict comparison with a constant result decides the mirrored comparison with the opposite result; a three-way comparator answers 0 only when neither holds",
		Run: ruleCmpAntisym})
}

// comparatorFns: Less methods of sort.Interface implementations, and functions of two same-typed parameters whose every
// result is an integer constant (three-way comparators), in the library packages.
func (c *Ctx) comparatorFns() []*ssa.Function {
	var out []*ssa.Function
	for _, fn := range c.Funcs {
		if fn.Blocks == nil || !c.isRepoFn(fn) || fn.Signature.Results().Len() != 1 {
			continue
		}
		if root := rootFn(fn); root.Pkg == nil || shortPkg(root.Pkg.Pkg.Path()) == "main" {
			continue
		}
		res := fn.Signature.Results().At(0).Type()
		switch {
		case fn.Signature.Recv() != nil && baseName(fn) == "Less" && isBoolType(res):
			out = append(out, fn)
		case fn.Signature.Recv() == nil && fn.Signature.Params().Len() == 2 && types.Identical(fn.Signature.Params().At(0).Type(), fn.Signature.Params().At(1).Type()):
			if b, isB := res.Underlying().(*types.Basic); isB && b.Kind() == types.Int {
				allConst := true
				eachInstr(fn, func(in ssa.Instruction) {
					if r, isR := in.(*ssa.Return); isR {
						if _, isK := r.Results[0].(*ssa.Const); !isK {
							allConst = false
						}
					}
				})
				if allConst {
					out = append(out, fn)
				}
			}
		}
	}
	return out
}

func ruleCmpAntisym(c *Ctx) []Obligation {
	const R = "CMP.ANTISYM"
	var obs []Obligation
	type decided struct {
		ret  *ssa.Return
		k    string // constant returned
		op   token.Token
		x, y ssa.Value
	}
	sameOperand := func(a, b ssa.Value) bool {
		if a == b {
			return true
		}
		ka, ok1 := a.(*ssa.Const)
		kb, ok2 := b.(*ssa.Const)
		if ok1 && ok2 {
			return ka.Value != nil && kb.Value != nil && ka.Value.ExactString() == kb.Value.ExactString()
		}
		// loads of the same element / field
		ua, ok1 := a.(*ssa.UnOp)
		ub, ok2 := b.(*ssa.UnOp)
		if ok1 && ok2 && ua.Op == token.MUL && ub.Op == token.MUL {
			ia, ok1 := ua.X.(*ssa.IndexAddr)
			ib, ok2 := ub.X.(*ssa.IndexAddr)
			if ok1 && ok2 {
				if ia.X != ib.X {
					return false
				}
				if ia.Index == ib.Index {
					return true
				}
				k1, okk1 := constInt(ia.Index)
				k2, okk2 := constInt(ib.Index)
				return okk1 && okk2 && k1 == k2
			}
			pa := AccessPath(a)
			return pa != "" && pa == AccessPath(b) && !strings.HasPrefix(pa, "t")
		}
		return false
	}
	for _, fn := range c.comparatorFns() {
		isInt := !isBoolType(fn.Signature.Results().At(0).Type())
		var ds []decided
		var plain []*ssa.Return // constant returns not directly under a strict comparison
		for _, b := range fn.Blocks {
			r, isR := b.Instrs[len(b.Instrs)-1].(*ssa.Return)
			if !isR {
				continue
			}
			k, isK := r.Results[0].(*ssa.Const)
			if !isK || k.Value == nil {
				continue
			}
			found := false
			for _, g := range guardsAt(b) {
				idx := 1
				if g.Branch {
					idx = 0
				}
				if g.If.Block().Succs[idx] != b {
					continue
				}
				bo, isB := g.Cond.(*ssa.BinOp)
				if !isB {
					continue
				}
				op := bo.Op
				if !g.Branch {
					op = map[token.Token]token.Token{token.LSS: token.GEQ, token.GTR: token.LEQ, token.LEQ: token.GTR, token.GEQ: token.LSS, token.EQL: token.NEQ, token.NEQ: token.EQL}[op]
				}
				switch op {
				case token.LSS, token.GTR:
					ds = append(ds, decided{r, k.Value.ExactString(), op, bo.X, bo.Y})
					found = true
				case token.EQL:
					// switch on a three-way result: `case -1: … case 1: …`
					if kk, okk := constInt(bo.Y); okk && kk != 0 {
						ds = append(ds, decided{r, k.Value.ExactString(), token.EQL, bo.X, bo.Y})
						found = true
					}
				}
			}
			if !found {
				plain = append(plain, r)
			}
		}
		if len(ds) == 0 {
			continue
		}
		opposite := func(k string) string {
			switch k {
			case "true":
				return "false"
			case "false":
				return "true"
			}
			if strings.HasPrefix(k, "-") {
				return k[1:]
			}
			return "-" + k
		}
		for i, d := range ds {
			con := fmt.Sprintf("%s: decision #%d has its mirror image", c.FnName(fn), i+1)
			mirrored, clash := false, ""
			for j, e := range ds {
				if i == j {
					continue
				}
				var mirror, same bool
				switch {
				case d.op == token.EQL && e.op == token.EQL:
					k1, _ := constInt(d.y)
					k2, _ := constInt(e.y)
					mirror = sameOperand(d.x, e.x) && k1 == -k2
					same = sameOperand(d.x, e.x) && k1 == k2
				case d.op != token.EQL && e.op != token.EQL:
					mirror = (d.op != e.op && sameOperand(d.x, e.x) && sameOperand(d.y, e.y)) || (d.op == e.op && sameOperand(d.x, e.y) && sameOperand(d.y, e.x))
					same = (d.op == e.op && sameOperand(d.x, e.x) && sameOperand(d.y, e.y)) || (d.op != e.op && sameOperand(d.x, e.y) && sameOperand(d.y, e.x))
				}
				if mirror && e.k == opposite(d.k) {
					mirrored = true
				}
				if same && e.k != d.k {
					clash = c.InstrPos(e.ret)
				}
			}
			switch {
			case clash != "":
				obs = append(obs, bad(R, con, c.InstrPos(d.ret), "the same comparison is decided a second time with a different result at "+clash+": one of the two is dead code, and the mirrored direction is not decided at all"))
			case mirrored:
				obs = append(obs, ok(R, con, c.InstrPos(d.ret), fmt.Sprintf("%s ↔ %s", d.k, opposite(d.k))))
			default:
				obs = append(obs, bad(R, con, c.InstrPos(d.ret), fmt.Sprintf("the comparison answers %s in one direction, but the mirrored comparison does not answer %s: less(a,b) and less(b,a) can both hold (or neither, with later fields deciding differently), so the sorted order depends on the input order", d.k, opposite(d.k))))
			}
		}
		if isInt {
			for i, r := range plain {
				con := fmt.Sprintf("%s: fall-through answer #%d is `equal`", c.FnName(fn), i+1)
				if k, _ := constInt(r.Results[0]); k == 0 {
					obs = append(obs, ok(R, con, c.InstrPos(r), "0"))
				} else {
					obs = append(obs, bad(R, con, c.InstrPos(r), "a three-way comparator answers non-zero where neither operand was found smaller: equal keys are reported as ordered, so the caller stops comparing at this field"))
				}
			}
			for _, d := range ds {
				if d.k != "-1" && d.k != "1" {
					obs = append(obs, bad(R, fmt.Sprintf("%s: answers are -1, 0 or 1", c.FnName(fn)), c.InstrPos(d.ret), "answer "+d.k+": callers switch on -1 and 1"))
				}
			}
		}
	}
	return obs
}

func init() {
	register(&Rule{Name: "INDEX.SENTINEL", Props: []string{"C02"}, Floor: 1,
		Doc: "in the lexer, the result of a substring search is tested against the not-found sentinel only (found at offset 0 is found)",
		Run: ruleIndexSentinel})
}

func ruleIndexSentinel(c *Ctx) []Obligation {
	const R = "INDEX.SENTINEL"
	lx := c.Named("yang", "lexer")
	if lx == nil {
		return []Obligation{undecided(R, "lexer type", "-", "type yang.lexer not found")}
	}
	takesLexer := func(fn *ssa.Function) bool {
		for _, p := range fn.Params {
			if pt, isP := p.Type().(*types.Pointer); isP && namedOf(pt.Elem()) == lx {
				return true
			}
		}
		return false
	}
	var obs []Obligation
	n := 0
	for _, fn := range c.Funcs {
		if fn.Blocks == nil || !takesLexer(rootFn(fn)) {
			continue
		}
		seen := 0
		eachInstr(fn, func(in ssa.Instruction) {
			call, isC := in.(*ssa.Call)
			if !isC {
				return
			}
			cal := call.Call.StaticCallee()
			if cal == nil || cal.Pkg == nil || cal.Pkg.Pkg.Path() != "strings" || !strings.Contains(cal.Name(), "Index") {
				return
			}
			for _, r := range *call.Referrers() {
				bo, isB := r.(*ssa.BinOp)
				if !isB {
					continue
				}
				switch bo.Op {
				case token.LSS, token.GTR, token.LEQ, token.GEQ, token.EQL, token.NEQ:
				default:
					continue // arithmetic on the offset (s[i+1:]) is not a found-test
				}
				var k int64
				var okk bool
				op := bo.Op
				if bo.X == ssa.Value(call) {
					k, okk = constInt(bo.Y)
				} else {
					k, okk = constInt(bo.X)
					op = map[token.Token]token.Token{token.LSS: token.GTR, token.GTR: token.LSS, token.LEQ: token.GEQ, token.GEQ: token.LEQ, token.EQL: token.EQL, token.NEQ: token.NEQ}[op]
				}
				if !okk {
					continue
				}
				n++
				seen++
				con := fmt.Sprintf("%s: search result test #%d separates found from not found", c.FnName(fn), seen)
				// the tests that split exactly {-1} from {0, 1, …}
				exact := op == token.GEQ && k == 0 || op == token.LSS && k == 0 || op == token.GTR && k == -1 || op == token.LEQ && k == -1 || (op == token.EQL || op == token.NEQ) && k == -1
				if exact {
					obs = append(obs, ok(R, con, c.InstrPos(bo), fmt.Sprintf("%s %s %d", cal.Name(), op, k)))
				} else {
					obs = append(obs, bad(R, con, c.InstrPos(bo), fmt.Sprintf("the result of strings.%s is tested with `%s %d`: a match at the very start of the remaining input (offset 0) is treated like no match, e.g. the empty comment /**/ becomes unterminated", cal.Name(), op, k)))
				}
			}
		})
	}
	if n == 0 {
		o := ok(R, "no substring search in the lexer is tested against a constant", "-", "nothing to decide")
		o.Trivial = true
		obs = append(obs, o)
	}
	return obs
}

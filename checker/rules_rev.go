package main

// rules_rev.go: REV.ORDER, REV.LOOKUP, FILE.REGEX, INCL.SIBLING, SCOPE.LEX, ID.KEY.

import (
	"fmt"
	"go/token"
	"go/types"
	"regexp"
	"strings"

	"golang.org/x/tools/go/ssa"
)

func init() {
	register(&Rule{Name: "REV.ORDER", Props: []string{"C13", "C05"}, Floor: 3,
		Doc: "lookup order exact revision → bare name → disk; duplicate test before stores; bare name re-pointed only when absent or older",
		Run: ruleRevOrder})
	register(&Rule{Name: "REV.LOOKUP", Props: []string{"C13", "C09"}, Floor: 1,
		Doc: "an import/include is mapped to its module only through the revision-aware lookup (or its link field), never by bare name",
		Run: ruleRevLookup})
	register(&Rule{Name: "FILE.REGEX", Props: []string{"C13"}, Floor: 3,
		Doc: "the revision-suffix pattern denotes exactly @DDDD-DD-DD.yang; exact name wins; dated candidates are sorted before the last is taken",
		Run: ruleFileRegex})
	register(&Rule{Name: "INCL.SIBLING", Props: []string{"C09", "C13"}, Floor: 2,
		Doc: "every module-scope typedef lookup also consults the module's included submodules",
		Run: ruleInclSibling})
	register(&Rule{Name: "SCOPE.LEX", Props: []string{"C06", "C09"}, Floor: 3,
		Doc: "grouping lookup starts at the uses node; typedef lookup walks ancestors from the type node; a foreign prefix resolves in that module only",
		Run: ruleScopeLex})
	register(&Rule{Name: "ID.KEY", Props: []string{"C11"}, Floor: 2,
		Doc: "writer and readers of the identity dictionary agree on the owner-module:name key",
		Run: ruleIDKey})
}

func ruleRevOrder(c *Ctx) []Obligation {
	const R = "REV.ORDER"
	var obs []Obligation
	fm := c.MustFn("yang.(*Modules).FindModule")
	read := c.MustFn("yang.(*Modules).Read")
	// lookups in FindModule before the first Read
	var looks []*ssa.Lookup
	eachInstr(fm, func(in ssa.Instruction) {
		if l, ok := in.(*ssa.Lookup); ok {
			if _, isMap := l.X.Type().Underlying().(*types.Map); isMap {
				looks = append(looks, l)
			}
		}
	})
	reads := c.callsTo(fm, read)
	con := "FindModule: exact revision is looked up before the bare name, both before reading from disk"
	isRevKey := func(v ssa.Value) bool {
		return derivesFromAll(v, func(x ssa.Value) bool {
			_, f, _ := fieldOf(x)
			return f != nil && f.Name() == "RevisionDate"
		})
	}
	// the two lookups may sit in a helper that is handed the table and both keys and answers with the exact
	// revision if it is filed, with the bare name otherwise (called once before and once after the disk read)
	if len(looks) < 2 && len(reads) > 0 {
		if dobs := c.revOrderDelegate(fm, reads, isRevKey); dobs != nil {
			obs = append(obs, dobs...)
			return c.revOrderAdd(obs)
		}
	}
	var first, second *ssa.Lookup
	for _, l := range looks {
		if len(reads) > 0 && !dominates(l, reads[0]) {
			continue
		}
		if first == nil {
			first = l
		} else if second == nil {
			second = l
		}
	}
	switch {
	case first == nil || second == nil || len(reads) == 0:
		obs = append(obs, bad(R, con, c.Pos(fm.Pos()), "fewer than two map lookups before the disk read"))
	case isRevKey(first.Index) && !isRevKey(second.Index) && dominates(first, second):
		// each must return when found
		// the value found by a lookup (the lookup itself, or the first component of a comma-ok lookup)
		// is returned before any later lookup or disk read is made
		ret := func(l *ssa.Lookup, later ...ssa.Instruction) bool {
			vals := map[ssa.Value]bool{l: true}
			for _, r := range *l.Referrers() {
				if ex, isE := r.(*ssa.Extract); isE && ex.Index == 0 {
					vals[ex] = true
				}
			}
			for _, blk := range fm.Blocks {
				rt, isR := blk.Instrs[len(blk.Instrs)-1].(*ssa.Return)
				if !isR || len(rt.Results) != 1 || !vals[rt.Results[0]] {
					continue
				}
				early := true
				for _, x := range later {
					if dominates(x, rt) {
						early = false
					}
				}
				if early {
					return true
				}
			}
			return false
		}
		if ret(first, second, reads[0]) && ret(second, reads[0]) {
			obs = append(obs, ok(R, con, c.InstrPos(first), "m[name@rev] → return; m[name] → return; then Read"))
		} else {
			obs = append(obs, bad(R, con, c.InstrPos(first), "a found module is not returned at once"))
		}
	default:
		obs = append(obs, bad(R, con, c.InstrPos(first), "the bare name is consulted before the exact revision: an import with revision-date would bind to the latest revision"))
	}
	// per kind of referring statement: the key carries that statement's own revision-date
	if first != nil {
		for _, tn := range []string{"Include", "Import"} {
			named := c.Named("yang", tn)
			con := fmt.Sprintf("FindModule: the exact-revision key of an *%s is built from its own revision-date", tn)
			if named == nil {
				obs = append(obs, undecided(R, con, "-", "type not found"))
				continue
			}
			built := false
			backSliceAll(first.Index, func(x ssa.Value) {
				bo, isB := x.(*ssa.BinOp)
				if !isB || bo.Op != token.ADD {
					return
				}
				if derivesFrom(bo.Y, func(y ssa.Value) bool {
					owner, f, _ := fieldOf(y)
					return f != nil && recordedFieldName(f) == "RevisionDate" && owner == named
				}) {
					built = true
				}
			})
			if built {
				obs = append(obs, ok(R, con, c.InstrPos(first), "name + \"@\" + RevisionDate.Name reaches the first lookup"))
			} else {
				obs = append(obs, bad(R, con, c.InstrPos(first), "no key built from the revision-date of an *"+tn+" reaches the exact-revision lookup: the statement's revision-date is ignored and it binds to whatever revision the bare name denotes"))
			}
		}
	}
	// what is read from disk: the exact revision first, the bare name only as the fall-back of a failed first read
	if len(reads) > 0 {
		con := "FindModule: the disk is asked for the exact revision first, for the bare name only when that fails"
		var firstRead ssa.CallInstruction
		for _, r := range reads {
			if firstRead == nil || dominates(r, firstRead) {
				firstRead = r
			}
		}
		arg := firstRead.Common().Args[len(firstRead.Common().Args)-1]
		switch {
		case !isRevKey(arg):
			obs = append(obs, bad(R, con, c.InstrPos(firstRead), "the first read from disk does not ask for name@revision-date: an import with a revision-date loads whatever file the bare name finds, although the dated file is there"))
		default:
			okFall := true
			for _, r := range reads {
				if r == firstRead {
					continue
				}
				// a later read is a fall-back: under `first read failed`
				under := false
				for _, g := range guardsAt(r.Block()) {
					if x, isEq, okn := nilTest(g.Cond); okn && x == firstRead.Value() && isEq != g.Branch {
						under = true
					}
				}
				if !under || isRevKey(r.Common().Args[len(r.Common().Args)-1]) {
					okFall = false
				}
			}
			if okFall {
				obs = append(obs, ok(R, con, c.InstrPos(firstRead), "Read(name@rev); on error Read(name)"))
			} else {
				obs = append(obs, bad(R, con, c.InstrPos(firstRead), "a second read is not the bare-name fall-back of a failed exact read"))
			}
		}
	}
	// after the disk read the exact revision is preferred again
	if len(reads) > 0 {
		con := "FindModule: after reading from disk the exact revision is returned when it is there, the bare name only otherwise"
		var post *ssa.Lookup
		for _, l := range looks {
			if isRevKey(l.Index) && !dominates(l, reads[0]) && first != nil && l != first {
				post = l
			}
		}
		if post == nil {
			obs = append(obs, bad(R, con, c.Pos(fm.Pos()), "no lookup of the exact-revision key after the disk read: a module just read for an import with revision-date is looked up by bare name, which may denote a newer revision loaded earlier"))
		} else {
			okPost := false
			for _, blk := range fm.Blocks {
				rt, isR := blk.Instrs[len(blk.Instrs)-1].(*ssa.Return)
				if !isR || len(rt.Results) != 1 || rt.Results[0] != ssa.Value(post) {
					continue
				}
				for _, g := range guardsAt(blk) {
					if x, isEq, okn := nilTest(g.Cond); okn && x == ssa.Value(post) && isEq != g.Branch {
						okPost = true
					}
				}
			}
			if okPost {
				obs = append(obs, ok(R, con, c.InstrPos(post), "if n := m[name@rev]; n != nil { return n }"))
			} else {
				obs = append(obs, bad(R, con, c.InstrPos(post), "the exact-revision entry found after the read is not returned under `!= nil`: the import binds to the bare name's revision, or to nothing"))
			}
		}
	}
	return c.revOrderAdd(obs)
}

// revOrderAdd: the clauses of REV.ORDER about Modules.add.
func (c *Ctx) revOrderAdd(obs []Obligation) []Obligation {
	const R = "REV.ORDER"
	var con string
	// add
	add := c.MustFn("yang.(*Modules).add")
	var full, bare *ssa.MapUpdate
	var fullKey, bareKey ssa.Value
	eachInstr(add, func(in ssa.Instruction) {
		mu, ok := in.(*ssa.MapUpdate)
		if !ok {
			return
		}
		if call, okc := mu.Key.(*ssa.Call); okc {
			if cal := call.Call.StaticCallee(); cal != nil && cal.Name() == "FullName" {
				full, fullKey = mu, mu.Key
				return
			}
		}
		bare, bareKey = mu, mu.Key
	})
	con = "add: loading the same name and revision twice is rejected before anything is stored"
	if full == nil || bare == nil {
		obs = append(obs, bad(R, con, c.Pos(add.Pos()), "add does not file the module under both its full and its bare name"))
		return obs
	}
	dupOK := false
	c.eachInstrDeep(add, func(in ssa.Instruction) {
		l, ok := in.(*ssa.Lookup)
		if !ok || !sameKey(resolveArg(l.Index), fullKey) {
			return
		}
		for _, r := range *l.Referrers() {
			if bo, okb := r.(*ssa.BinOp); okb {
				if _, isEq, okn := nilTest(bo); okn {
					for _, rr := range *bo.Referrers() {
						if ifi, oki := rr.(*ssa.If); oki {
							s := ifi.Block().Succs[0]
							if isEq {
								s = ifi.Block().Succs[1]
							}
							passedOn := ifi.Parent() == add
							if h := helperOf(ifi.Parent()); !passedOn && h != nil {
								passedOn = errorPropagated(h.site)
							}
							if blockReturnsError(s) && passedOn && dominates(ifi, full) && dominates(ifi, bare) {
								dupOK = true
							}
						}
					}
				}
			}
		}
	})
	if dupOK {
		obs = append(obs, ok(R, con, c.InstrPos(full), "if m[fullName] != nil { return error } dominates both stores"))
	} else {
		obs = append(obs, bad(R, con, c.InstrPos(full), "no duplicate test with an error exit dominating the stores"))
	}
	// a module without a revision is filed under the bare name as its FULL name: a revision that arrives later must
	// not take that key over silently (nothing else reaches the first module)
	con = "add: a module without a revision is never displaced from the bare name by a revision loaded after it"
	guarded := false
	eachInstr(add, func(in ssa.Instruction) {
		ifi, isIf := in.(*ssa.If)
		if !isIf || guarded {
			return
		}
		// cond (possibly the second half of `o != nil && …`): holder.FullName() == bare name
		var cmp *ssa.BinOp
		backSlice(ifi.Cond, func(x ssa.Value) bool {
			if bo, isB := x.(*ssa.BinOp); isB && bo.Op == token.EQL && cmp == nil {
				if lc, isC := bo.X.(*ssa.Call); isC && lc.Call.StaticCallee() != nil && lc.Call.StaticCallee().Name() == "FullName" && len(lc.Call.Args) > 0 {
					rv := lc.Call.Args[0]
					if ex, isE := rv.(*ssa.Extract); isE {
						rv = ex.Tuple
					}
					if l, isL := rv.(*ssa.Lookup); isL && sameKey(l.Index, bareKey) && sameKey(bo.Y, bareKey) {
						cmp = bo
					}
				}
			}
			return true
		})
		if cmp == nil {
			return
		}
		// the true side leaves with an error, and the test — or, when it is the second half of `o != nil && …`,
		// the nil test in front of it — dominates the bare-name store
		if !blockReturnsError(ifi.Block().Succs[0]) {
			return
		}
		if dominates(ifi, bare) {
			guarded = true
			return
		}
		for _, g := range guardsAt(ifi.Block()) {
			if x, isEq, okn := nilTest(g.Cond); okn && isEq != g.Branch && dominates(g.If, bare) {
				if l, isL := x.(*ssa.Lookup); isL && sameKey(l.Index, bareKey) {
					guarded = true
				}
			}
		}
	})
	if guarded {
		obs = append(obs, ok(R, con, c.InstrPos(bare), "if o := m[name]; o != nil && o.FullName() == name { return error } dominates the store"))
	} else {
		obs = append(obs, bad(R, con, c.InstrPos(bare), "the bare name is re-pointed to a revision although its holder may be a module WITHOUT a revision (whose only key it is): that module silently drops out of the set in one load order, while the other order is rejected as a duplicate"))
	}
	con = "add: the bare name is re-pointed only when it is absent or holds an older revision"
	absent, older := false, false
	other := false
	for _, p := range bare.Block().Preds {
		ifi, ok := p.Instrs[len(p.Instrs)-1].(*ssa.If)
		if !ok {
			// unconditional edge: look one block up
			other = true
			continue
		}
		taken := p.Succs[0] == bare.Block()
		cond, br := stripNot(ifi.Cond, taken)
		if x, isEq, okn := nilTest(cond); okn {
			if l, okl := x.(*ssa.Lookup); okl && sameKey(l.Index, bareKey) && isEq == br {
				absent = true
				continue
			}
		}
		if ex, okx := cond.(*ssa.Extract); okx && ex.Index == 1 && !br {
			if l, okl := ex.Tuple.(*ssa.Lookup); okl && sameKey(l.Index, bareKey) {
				absent = true
				continue
			}
		}
		if bo, okb := cond.(*ssa.BinOp); okb && bo.Op == token.LSS && br {
			lc, okc := bo.X.(*ssa.Call)
			if okc && lc.Call.StaticCallee() != nil && lc.Call.StaticCallee().Name() == "FullName" && bo.Y == fullKey {
				// it is the holder of the bare name whose revision is compared, not the module being added (whose
				// full name is the other operand: that comparison is constant)
				holder := false
				if len(lc.Call.Args) > 0 {
					rv := lc.Call.Args[0]
					if ex, isE := rv.(*ssa.Extract); isE {
						rv = ex.Tuple
					}
					if l, isL := rv.(*ssa.Lookup); isL && sameKey(l.Index, bareKey) {
						holder = true
					}
				}
				if holder {
					older = true
					continue
				}
			}
		}
		if bo, okb := cond.(*ssa.BinOp); okb && bo.Op == token.GTR && br && bo.X == fullKey {
			older = true
			continue
		}
		other = true
	}
	switch {
	case absent && older && !other:
		obs = append(obs, ok(R, con, c.InstrPos(bare), "o == nil || o.FullName() < fullName"))
	case absent && !older:
		obs = append(obs, bad(R, con, c.InstrPos(bare), "the bare name keeps the first revision loaded: which revision a bare import binds to depends on load order"))
	default:
		obs = append(obs, bad(R, con, c.InstrPos(bare), fmt.Sprintf("guard of the bare-name store not recognised (absent=%v older=%v other=%v)", absent, older, other)))
	}
	return obs
}

// derivesFromAll is derivesFrom that also looks through string concatenation and call arguments.
func derivesFromAll(v ssa.Value, pred func(ssa.Value) bool) bool {
	found := false
	backSliceAll(v, func(x ssa.Value) {
		if found {
			return
		}
		if pred(x) {
			found = true
			return
		}
		// loads of fields: backSliceAll does not descend through FieldAddr; do it here
		if u, ok := x.(*ssa.UnOp); ok {
			if derivesFrom(u, pred) {
				found = true
			}
		}
		if phi, ok := x.(*ssa.Phi); ok {
			_ = phi
		}
	})
	return found
}

func ruleRevLookup(c *Ctx) []Obligation {
	const R = "REV.LOOKUP"
	var obs []Obligation
	mods := c.MustNamed("yang", "Modules")
	fMods, fSub := FieldVar(mods, "Modules"), FieldVar(mods, "SubModules")
	fm := c.MustFn("yang.(*Modules).FindModule")
	imp, inc := c.MustNamed("yang", "Import"), c.MustNamed("yang", "Include")
	n := 0
	for _, fn := range c.Funcs {
		if fn == fm {
			continue
		}
		eachInstr(fn, func(in ssa.Instruction) {
			l, isL := in.(*ssa.Lookup)
			if !isL {
				return
			}
			if _, f, _ := loadedField(l.X); f != fMods && f != fSub {
				return
			}
			n++
			// key derived from the Name of an *Import / *Include
			viaStmt := derivesFromAll(l.Index, func(x ssa.Value) bool {
				owner, f, _ := fieldOf(x)
				return f != nil && f.Name() == "Name" && (owner == imp || owner == inc)
			})
			con := fmt.Sprintf("%s: module map lookup is not keyed by an import/include statement's bare name", c.FnName(fn))
			if viaStmt {
				obs = append(obs, bad(R, con, c.InstrPos(l), "an import or include is resolved by bare name, bypassing FindModule: a revision-date on the statement is ignored and the latest revision is bound"))
			} else {
				o := ok(R, con, c.InstrPos(l), "key is a module's own name / belongs-to name / caller-supplied name")
				o.Trivial = true
				obs = append(obs, o)
			}
		})
	}
	// FindModuleByPrefix must go through FindModule (or the link field)
	fbp := c.MustFn("yang.FindModuleByPrefix")
	con := "FindModuleByPrefix resolves the matching import through FindModule"
	if len(c.callsTo(fbp, fm)) > 0 {
		obs = append(obs, ok(R, con, c.Pos(fbp.Pos()), "mod.Modules.FindModule(i)"))
	} else {
		linkOK := false
		eachInstr(fbp, func(in ssa.Instruction) {
			if r, isr := in.(*ssa.Return); isr && len(r.Results) == 1 {
				if owner, f, _ := loadedField(r.Results[0]); f != nil && f.Name() == "Module" && owner == imp {
					linkOK = true
				}
			}
		})
		if linkOK {
			obs = append(obs, ok(R, con, c.Pos(fbp.Pos()), "returns i.Module (set by the revision-aware linker)"))
		} else {
			obs = append(obs, bad(R, con, c.Pos(fbp.Pos()), "the import is not resolved through the revision-aware lookup"))
		}
	}
	return obs
}

func ruleFileRegex(c *Ctx) []Obligation {
	const R = "FILE.REGEX"
	var obs []Obligation
	// the constant pattern: regexp.MustCompile(const) in the package initialiser storing to a global
	var pattern string
	var at ssa.Instruction
	initFn := c.SSA[modPath+"/pkg/yang"].Func("init")
	var scan func(fn *ssa.Function)
	scan = func(fn *ssa.Function) {
		eachInstr(fn, func(in ssa.Instruction) {
			call, ok := in.(*ssa.Call)
			if !ok {
				return
			}
			if calleeIs(call, "regexp", "MustCompile") || calleeIs(call, "regexp", "Compile") {
				if s, oks := constString(call.Call.Args[0]); oks {
					for _, r := range *call.Referrers() {
						if st, okst := r.(*ssa.Store); okst {
							if g, okg := st.Addr.(*ssa.Global); okg && strings.Contains(strings.ToLower(g.Name()), "revision") {
								pattern, at = s, in
							}
						}
					}
				}
			}
		})
	}
	if initFn != nil {
		scan(initFn)
	}
	con := "revision-date file suffix pattern denotes exactly @DDDD-DD-DD.yang"
	if pattern == "" {
		obs = append(obs, undecided(R, con, "-", "no constant revision pattern found in the package initialiser"))
	} else {
		re, err := regexp.Compile(pattern)
		if err != nil {
			obs = append(obs, bad(R, con, c.InstrPos(at), "pattern does not compile"))
		} else {
			must := []string{"@2020-01-02.yang", "@0000-00-00.yang", "@9999-12-31.yang"}
			mustNot := []string{"", "@2020-1-02.yang", "@2020-01-2.yang", "x@2020-01-02.yang", "@2020-01-02.yang.bak", "@2020-01-02.yang ", "@2020-01-02Xyang",
				"@20200-01-02.yang", "@2020-01-02.yan", "@abcd-ef-gh.yang", "2020-01-02.yang", "@2020-01-02", "-extra@2020-01-02.yang", "@2020_01_02.yang", "@2020-01-02.YANG", "\n@2020-01-02.yang", "@2020-01-02.yang\n"}
			var wrong []string
			for _, s := range must {
				if !re.MatchString(s) {
					wrong = append(wrong, "rejects "+fmt.Sprintf("%q", s))
				}
			}
			for _, s := range mustNot {
				if re.MatchString(s) {
					wrong = append(wrong, "accepts "+fmt.Sprintf("%q", s))
				}
			}
			if len(wrong) == 0 {
				obs = append(obs, ok(R, con, c.InstrPos(at), fmt.Sprintf("constant %q evaluated on %d anchoring/shape witnesses", pattern, len(must)+len(mustNot))))
			} else {
				obs = append(obs, bad(R, con, c.InstrPos(at), fmt.Sprintf("constant %q %s: a file of another module or a mis-dated file can be chosen", pattern, strings.Join(wrong, ", "))))
			}
		}
	}
	fid := c.Fn("yang.findInDir")
	if fid == nil {
		obs = append(obs, undecided(R, "directory scan", "-", "findInDir not found"))
		return obs
	}
	// exact match returns immediately
	con = "an exact file name match wins over dated candidates"
	exact := false
	eachInstr(fid, func(in ssa.Instruction) {
		bo, ok := in.(*ssa.BinOp)
		if !ok || bo.Op != token.EQL {
			return
		}
		if _, isP := bo.Y.(*ssa.Parameter); !isP {
			return
		}
		for _, r := range *bo.Referrers() {
			if ifi, oki := r.(*ssa.If); oki {
				if rt := terminalReturn(ifi.Block().Succs[0]); rt != nil && loopHeaderOf(ifi.Block()) != nil {
					exact = true
				}
			}
		}
	})
	if exact {
		obs = append(obs, ok(R, con, c.Pos(fid.Pos()), "if fn == name { return } inside the scan"))
	} else {
		obs = append(obs, bad(R, con, c.Pos(fid.Pos()), "no immediate return on an exact name match"))
	}
	// candidates: guarded by HasPrefix(fn, mname) and the pattern on the remainder
	con = "a dated candidate must start with the module name and continue with exactly the revision suffix"
	candOK := false
	var candApp *ssa.Call
	eachInstr(fid, func(in ssa.Instruction) {
		call, ok := in.(*ssa.Call)
		if !ok {
			return
		}
		if bi, okb := call.Call.Value.(*ssa.Builtin); !okb || bi.Name() != "append" {
			return
		}
		if loopHeaderOf(call.Block()) == nil {
			return
		}
		candApp = call
		hasPrefix, matches := false, false
		for _, g := range guardsAt(call.Block()) {
			backSliceCond(g.Cond, func(x ssa.Value) {
				if cl, okc := x.(*ssa.Call); okc && g.Branch {
					if calleeIs(cl, "strings", "HasPrefix") {
						hasPrefix = true
					}
					if calleeIs(cl, "regexp", "MatchString") {
						// argument: TrimPrefix(fn, mname)
						if tp, okt := cl.Call.Args[len(cl.Call.Args)-1].(*ssa.Call); okt && calleeIs(tp, "strings", "TrimPrefix") {
							matches = true
						}
					}
				}
			})
		}
		if hasPrefix && matches {
			candOK = true
		}
	})
	// … or no list is kept: the greatest candidate so far is carried round the scan (`if fn > latest { latest = fn }`)
	var runMax *ssa.BinOp
	runMaxRight := false
	if candApp == nil {
		eachInstr(fid, func(in ssa.Instruction) {
			bo, isB := in.(*ssa.BinOp)
			if !isB || !isStringType(bo.X.Type()) || loopHeaderOf(bo.Block()) == nil {
				return
			}
			var cand, cur ssa.Value
			switch bo.Op {
			case token.GTR, token.GEQ:
				cand, cur = bo.X, bo.Y
			case token.LSS, token.LEQ:
				cand, cur = bo.Y, bo.X
			default:
				return
			}
			phi, isPhi := cur.(*ssa.Phi)
			if !isPhi || phi.Block() != loopHeaderOf(bo.Block()) {
				// the other way round (`latest > fn`): the smallest is carried, not the greatest
				if p2, isP2 := cand.(*ssa.Phi); isP2 && p2.Block() == loopHeaderOf(bo.Block()) {
					runMax, runMaxRight = bo, false
				}
				return
			}
			// the candidate is what the carried value becomes when the comparison holds
			carried := false
			var walk func(v ssa.Value, d int)
			seenV := map[ssa.Value]bool{}
			walk = func(v ssa.Value, d int) {
				if seenV[v] || d > 6 {
					return
				}
				seenV[v] = true
				if v == cand {
					carried = true
				}
				if p, isP := v.(*ssa.Phi); isP {
					for _, e := range p.Edges {
						walk(e, d+1)
					}
				}
			}
			for _, e := range phi.Edges {
				walk(e, 0)
			}
			if !carried {
				return
			}
			runMax, runMaxRight = bo, true
			hasPrefix, matches := false, false
			for _, g := range guardsAt(bo.Block()) {
				backSliceCond(g.Cond, func(x ssa.Value) {
					if cl, okc := x.(*ssa.Call); okc && g.Branch {
						if calleeIs(cl, "strings", "HasPrefix") {
							hasPrefix = true
						}
						if calleeIs(cl, "regexp", "MatchString") {
							if tp, okt := cl.Call.Args[len(cl.Call.Args)-1].(*ssa.Call); okt && calleeIs(tp, "strings", "TrimPrefix") {
								matches = true
							}
						}
					}
				})
			}
			if hasPrefix && matches {
				candOK = true
			}
		})
	}
	if candOK && runMax != nil {
		obs = append(obs, ok(R, con, c.InstrPos(runMax), "HasPrefix(fn, mname) && pattern.MatchString(TrimPrefix(fn, mname)) in front of the comparison with the greatest so far"))
	} else if candOK {
		obs = append(obs, ok(R, con, c.InstrPos(candApp), "HasPrefix(fn, mname) && pattern.MatchString(TrimPrefix(fn, mname))"))
	} else {
		obs = append(obs, bad(R, con, c.Pos(fid.Pos()), "the candidate filter does not require both the name prefix and the anchored suffix"))
	}
	con = "dated candidates are sorted before the latest is taken"
	sorted := false
	eachInstr(fid, func(in ssa.Instruction) {
		call, ok := in.(*ssa.Call)
		if ok && calleeIs(call, "sort", "Strings") {
			// an index at len-1 after it
			eachInstr(fid, func(in2 ssa.Instruction) {
				if ia, oki := in2.(*ssa.IndexAddr); oki && dominates(call, in2) {
					if bo, okb := ia.Index.(*ssa.BinOp); okb && bo.Op == token.SUB {
						sorted = true
					}
				}
			})
		}
	})
	if runMax != nil && candApp == nil {
		if runMaxRight {
			obs = append(obs, ok(R, con, c.InstrPos(runMax), "no list: the greatest name so far is carried round the scan and returned"))
		} else {
			obs = append(obs, bad(R, con, c.InstrPos(runMax), "the smallest candidate is carried round the scan, not the greatest: the oldest revision is chosen"))
		}
	} else if sorted {
		obs = append(obs, ok(R, con, c.Pos(fid.Pos()), "sort.Strings(revisions); revisions[len-1]"))
	} else {
		obs = append(obs, bad(R, con, c.Pos(fid.Pos()), "the last candidate is taken without sorting: the chosen revision depends on directory order"))
	}
	return obs
}

func ruleInclSibling(c *Ctx) []Obligation {
	const R = "INCL.SIBLING"
	var obs []Obligation
	find := c.Fn("yang.(*typeDictionary).find")
	moduleT := c.MustNamed("yang", "Module")
	if find == nil {
		return []Obligation{undecided(R, "typedef lookup", "-", "(*typeDictionary).find not found")}
	}
	fInclude := FieldVar(moduleT, "Include")
	for _, fn := range c.Funcs {
		calls := c.callsTo(fn, find)
		if len(calls) == 0 {
			continue
		}
		// does this function look a name up at module scope? i.e. pass a *Module-typed node
		var modScope []ssa.CallInstruction
		viaInclude := false
		for _, ci := range calls {
			arg := ci.Common().Args[1]
			if mi, ok := arg.(*ssa.MakeInterface); ok {
				arg = mi.X
			}
			if namedOf(arg.Type()) == moduleT {
				if derivesFrom(arg, func(x ssa.Value) bool { return isFieldRef(x, fInclude) }) {
					viaInclude = true
				} else {
					modScope = append(modScope, ci)
				}
			}
		}
		// the ancestor walk in Type.resolve reaches the module as a Node (interface), not as *Module: it is a
		// module-scope lookup as well when the walked value starts at a node and follows ParentNode()
		walks := false
		for _, ci := range calls {
			arg := ci.Common().Args[1]
			if derivesFrom(arg, func(x ssa.Value) bool {
				call, ok := x.(*ssa.Call)
				return ok && invokeName(call) == "ParentNode"
			}) {
				walks = true
			}
		}
		if len(modScope) == 0 && !walks {
			continue
		}
		// the walk over the includes may sit in a function of its own that this one calls (a shared helper)
		if !viaInclude {
			eachInstr(fn, func(in ssa.Instruction) {
				ci, isC := in.(ssa.CallInstruction)
				if !isC {
					return
				}
				w := ci.Common().StaticCallee()
				if w == nil || w == fn || !c.isRepoFn(w) {
					return
				}
				for _, wc := range c.callsTo(w, find) {
					arg := wc.Common().Args[1]
					if mi, ok := arg.(*ssa.MakeInterface); ok {
						arg = mi.X
					}
					if namedOf(arg.Type()) == moduleT && derivesFrom(arg, func(x ssa.Value) bool { return isFieldRef(x, fInclude) }) {
						viaInclude = true
					}
				}
			})
		}
		con := fmt.Sprintf("%s: module-scope typedef lookup also consults included submodules", c.FnName(fn))
		if viaInclude {
			obs = append(obs, ok(R, con, c.Pos(fn.Pos()), "loops over Module.Include and looks the name up in each in.Module"))
		} else {
			obs = append(obs, bad(R, con, c.Pos(fn.Pos()), "typedefs written in an included submodule are invisible to this lookup: a typedef exported through an imported module's submodule is 'unknown type'"))
		}
	}
	return obs
}

func ruleScopeLex(c *Ctx) []Obligation {
	const R = "SCOPE.LEX"
	var obs []Obligation
	toEntry := c.MustFn("yang.ToEntry")
	fg := c.MustFn("yang.FindGrouping")
	usesT := c.MustNamed("yang", "Uses")
	con := "a uses statement resolves its grouping starting from the uses node itself"
	okU := false
	var at ssa.Instruction
	for _, ci := range c.callsTo(toEntry, fg) {
		args := ci.Common().Args
		at = ci
		a0 := args[0]
		if mi, ok := a0.(*ssa.MakeInterface); ok {
			a0 = mi.X
		}
		_, nf, nbase := loadedField(args[1])
		if namedOf(a0.Type()) == usesT && nf != nil && nf.Name() == "Name" && nbase == a0 {
			okU = true
		}
	}
	if okU {
		obs = append(obs, ok(R, con, c.InstrPos(at), "FindGrouping(s, s.Name, …) with s the *Uses being converted"))
	} else {
		obs = append(obs, bad(R, con, c.Pos(toEntry.Pos()), "the lookup does not start at the uses node: nearer groupings would not shadow outer ones"))
	}
	// typedef walk
	res := c.MustFn("yang.(*Type).resolve")
	find := c.Fn("yang.(*typeDictionary).find")
	con = "a type reference walks the ancestors of the type statement, nearest first"
	okW := false
	if find != nil {
		for _, ci := range c.callsToDeep(res, find) {
			arg := ci.Common().Args[1]
			phi, isPhi := arg.(*ssa.Phi)
			if !isPhi {
				continue
			}
			startsAtT, stepsUp := false, false
			for _, e := range phi.Edges {
				// the type node itself — in a private helper, the parameter that stands for it (inline.go)
				if mi, ok := e.(*ssa.MakeInterface); ok && isParamN(res, resolveArg(mi.X), 0) {
					startsAtT = true
				}
				if call, ok := e.(*ssa.Call); ok && invokeName(call) == "ParentNode" && call.Call.Value == ssa.Value(phi) {
					stepsUp = true
				}
			}
			if startsAtT && stepsUp {
				okW = true
				at = ci
			}
		}
	}
	if okW {
		obs = append(obs, ok(R, con, c.InstrPos(at), "for n := Node(t); n != nil; n = n.ParentNode() { d.find(n, name) }"))
	} else {
		obs = append(obs, bad(R, con, c.Pos(res.Pos()), "the lookup loop does not start at the type node and step through ParentNode()"))
	}
	// foreign prefix: module chosen by FindModuleByPrefix on the same node, name looked up in that module only
	fe := c.Fn("yang.(*typeDictionary).findExternal")
	fbp := c.MustFn("yang.FindModuleByPrefix")
	con = "a foreign prefix resolves through the import table of the referencing node to that module only"
	okF := false
	if fe != nil && find != nil {
		var modv ssa.Value
		for _, ci := range c.callsTo(fe, fbp) {
			if isParamN(fe, ci.Common().Args[0], 1) {
				modv = ci.Value()
			}
		}
		if modv != nil {
			all := true
			n := 0
			for _, ci := range c.callsTo(fe, find) {
				n++
				arg := ci.Common().Args[1]
				if !derivesFrom(arg, func(x ssa.Value) bool { return x == modv }) {
					all = false
				}
			}
			okF = all && n > 0
		}
	}
	if okF {
		obs = append(obs, ok(R, con, c.Pos(fe.Pos()), "root := FindModuleByPrefix(n, prefix); every lookup is in root (or root's includes)"))
	} else {
		obs = append(obs, bad(R, con, "-", "the external lookup searches somewhere other than the module imported under the prefix"))
	}
	// own prefix: a name written with the module's own prefix is a local name and must take the
	// lexical route, so the external lookup is reached only when the prefix differs from it.
	con = "a name carrying the module's own prefix is resolved lexically, like an unprefixed one"
	if fe != nil {
		sites := c.callsTo(res, fe)
		for _, ci := range sites {
			pfx := ci.Common().Args[2]
			guarded := false
			for _, g := range guardsAt(ci.Block()) {
				bo, isB := binop(g.Cond, token.EQL, token.NEQ)
				if !isB {
					continue
				}
				var other ssa.Value
				switch {
				case bo.X == pfx:
					other = bo.Y
				case bo.Y == pfx:
					other = bo.X
				default:
					continue
				}
				if _, isK := other.(*ssa.Const); isK {
					continue
				}
				differs := (bo.Op == token.EQL) != g.Branch
				if differs && derivesFrom(other, func(x ssa.Value) bool {
					call, isC := x.(*ssa.Call)
					return isC && (invokeName(call) == "GetPrefix" || strings.Contains(strings.ToLower(calleeName(call)), "prefix"))
				}) {
					guarded = true
				}
			}
			if guarded {
				obs = append(obs, ok(R, con, c.InstrPos(ci), "findExternal is reached only where prefix != the root's own prefix"))
			} else {
				obs = append(obs, bad(R, con, c.InstrPos(ci), "the external (module-level) lookup is reached for the module's own prefix too: an own-prefixed reference no longer sees typedefs of enclosing containers, lists, groupings or rpc bodies, and no longer honours shadowing"))
			}
		}
		if len(sites) == 0 {
			obs = append(obs, undecided(R, con, c.Pos(res.Pos()), "resolve no longer calls findExternal: the routing of prefixed names could not be identified"))
		}
	}
	return obs
}

func ruleIDKey(c *Ctx) []Obligation {
	const R = "ID.KEY"
	var obs []Obligation
	idd := c.MustNamed("yang", "identityDictionary")
	fDict := FieldVar(idd, "dict")
	if fDict == nil {
		fDict = FieldByType(idd, "map[string]resolvedIdentity")
	}
	moduleFn := c.Fn("yang.module")
	if fDict == nil || moduleFn == nil {
		return []Obligation{undecided(R, "identity dictionary", "-", "dict field or module() not found")}
	}
	// key shape: Sprintf("%s:%s", module(X).Name, name) or a call to a function that returns exactly that
	var goodKey func(v ssa.Value, depth int) bool
	goodKey = func(v ssa.Value, depth int) bool {
		if depth > 3 {
			return false
		}
		switch x := v.(type) {
		case *ssa.Call:
			if calleeIs(x, "fmt", "Sprintf") {
				if s, ok := constString(x.Call.Args[0]); !ok || s != "%s:%s" {
					return false
				}
				elems := variadicElems(x.Call.Args[1])
				if len(elems) != 2 {
					return false
				}
				// the first element is module(…).Name
				for _, e := range elems {
					if derivesFrom(e, func(y ssa.Value) bool {
						call, ok := y.(*ssa.Call)
						return ok && call.Call.StaticCallee() == moduleFn
					}) {
						return true
					}
				}
				return false
			}
			if cal := x.Call.StaticCallee(); cal != nil && c.isRepoFn(cal) {
				// a helper whose every return is a good key
				all := true
				n := 0
				eachInstr(cal, func(in ssa.Instruction) {
					if r, isr := in.(*ssa.Return); isr && len(r.Results) >= 1 {
						n++
						if !goodKey(r.Results[0], depth+1) {
							all = false
						}
					}
				})
				return all && n > 0
			}
		case *ssa.Extract:
			if call, ok := x.Tuple.(*ssa.Call); ok {
				if cal := call.Call.StaticCallee(); cal != nil && c.isRepoFn(cal) {
					all := true
					n := 0
					eachInstr(cal, func(in ssa.Instruction) {
						if r, isr := in.(*ssa.Return); isr && len(r.Results) > x.Index {
							n++
							if !goodKey(r.Results[x.Index], depth+1) {
								all = false
							}
						}
					})
					return all && n > 0
				}
			}
		case *ssa.Phi:
			for _, e := range x.Edges {
				if !goodKey(e, depth+1) {
					return false
				}
			}
			return len(x.Edges) > 0
		}
		return false
	}
	nW, nR := 0, 0
	for _, fn := range c.Funcs {
		eachInstr(fn, func(in ssa.Instruction) {
			var key ssa.Value
			kind := ""
			switch x := in.(type) {
			case *ssa.MapUpdate:
				if _, f, _ := loadedField(x.Map); f == fDict {
					key, kind = x.Key, "write"
					nW++
				}
			case *ssa.Lookup:
				if _, f, _ := loadedField(x.X); f == fDict {
					key, kind = x.Index, "read"
					nR++
				}
			}
			if key == nil {
				return
			}
			con := fmt.Sprintf("%s: identity dictionary %s is keyed owner-module:name", c.FnName(fn), kind)
			if goodKey(key, 0) {
				obs = append(obs, ok(R, con, c.InstrPos(in), `Sprintf("%s:%s", module(x).Name, name)`))
			} else {
				obs = append(obs, bad(R, con, c.InstrPos(in), "the key is not built from the owning module's name (module() maps a submodule to its owner): writer and reader would disagree for identities defined in submodules"))
			}
		})
	}
	if nW == 0 || nR == 0 {
		obs = append(obs, undecided(R, "identity dictionary accesses", "-", fmt.Sprintf("%d writes, %d reads found", nW, nR)))
	}
	return obs
}

// revOrderDelegate: FindModule looks modules up through a helper H(table, exactKey, bareKey) that returns
// table[exactKey] when it is there and table[bareKey] otherwise. The clauses of REV.ORDER about the order of lookups
// are then: H prefers the exact key; a call of H stands in front of the disk read with the exact key built from the
// statement's revision-date and its non-nil answer is returned at once; another call follows the read and its answer
// is what FindModule returns.
func (c *Ctx) revOrderDelegate(fm *ssa.Function, reads []ssa.CallInstruction, isRevKey func(ssa.Value) bool) []Obligation {
	const R = "REV.ORDER"
	var helper *ssa.Function
	var sites []*ssa.Call
	eachInstr(fm, func(in ssa.Instruction) {
		call, isC := in.(*ssa.Call)
		if !isC {
			return
		}
		cal := call.Call.StaticCallee()
		if cal == nil || !c.isRepoFn(cal) || cal.Blocks == nil || cal == fm {
			return
		}
		var lks []*ssa.Lookup
		eachInstr(cal, func(in2 ssa.Instruction) {
			if l, isL := in2.(*ssa.Lookup); isL {
				if _, isMap := l.X.Type().Underlying().(*types.Map); isMap {
					lks = append(lks, l)
				}
			}
		})
		if len(lks) != 2 {
			return
		}
		if helper == nil || helper == cal {
			helper = cal
			sites = append(sites, call)
		}
	})
	if helper == nil || len(sites) < 2 {
		return nil
	}
	var lks []*ssa.Lookup
	eachInstr(helper, func(in ssa.Instruction) {
		if l, isL := in.(*ssa.Lookup); isL {
			lks = append(lks, l)
		}
	})
	p1, isP1 := lks[0].Index.(*ssa.Parameter)
	p2, isP2 := lks[1].Index.(*ssa.Parameter)
	if !isP1 || !isP2 || !dominates(lks[0], lks[1]) {
		return nil
	}
	i1, i2 := paramIndex(helper, p1), paramIndex(helper, p2)
	// H returns the first answer when it is non-nil, the second otherwise
	firstReturned, secondLast := false, false
	for _, b := range helper.Blocks {
		rt, isR := b.Instrs[len(b.Instrs)-1].(*ssa.Return)
		if !isR || len(rt.Results) != 1 {
			continue
		}
		switch rt.Results[0] {
		case ssa.Value(lks[0]):
			for _, g := range guardsAt(b) {
				if x, isEq, okn := nilTest(g.Cond); okn && x == ssa.Value(lks[0]) && isEq != g.Branch {
					firstReturned = true
				}
			}
		case ssa.Value(lks[1]):
			secondLast = true
		}
	}
	var obs []Obligation
	con := "FindModule: exact revision is looked up before the bare name, both before reading from disk"
	var pre, post *ssa.Call
	for _, sc := range sites {
		if dominates(sc, reads[0].(ssa.Instruction)) {
			pre = sc
		} else {
			post = sc
		}
	}
	switch {
	case pre == nil || post == nil || i1 < 0 || i2 < 0:
		return nil
	case !firstReturned || !secondLast:
		obs = append(obs, bad(R, con, c.Pos(helper.Pos()), c.FnName(helper)+" does not answer with the entry under its first key when it is there and with the one under its second key otherwise"))
	case !isRevKey(pre.Call.Args[i1]) || isRevKey(pre.Call.Args[i2]):
		obs = append(obs, bad(R, con, c.InstrPos(pre), "the lookup helper is not handed the exact-revision key first and the bare name second: an import with revision-date would bind to the latest revision"))
	default:
		// the answer of the call in front of the read is returned at once when it is there
		early := false
		for _, b := range fm.Blocks {
			rt, isR := b.Instrs[len(b.Instrs)-1].(*ssa.Return)
			if isR && len(rt.Results) == 1 && rt.Results[0] == ssa.Value(pre) && !dominates(reads[0].(ssa.Instruction), rt) {
				early = true
			}
		}
		if early {
			obs = append(obs, ok(R, con, c.InstrPos(pre), c.FnName(helper)+"(m, name@rev, name) → return when found; then Read"))
		} else {
			obs = append(obs, bad(R, con, c.InstrPos(pre), "a found module is not returned at once"))
		}
	}
	for _, tn := range []string{"Include", "Import"} {
		named := c.Named("yang", tn)
		con := fmt.Sprintf("FindModule: the exact-revision key of an *%s is built from its own revision-date", tn)
		built := false
		backSliceAll(pre.Call.Args[i1], func(x ssa.Value) {
			bo, isB := x.(*ssa.BinOp)
			if !isB || bo.Op != token.ADD {
				return
			}
			if derivesFrom(bo.Y, func(y ssa.Value) bool {
				owner, f, _ := fieldOf(y)
				return f != nil && recordedFieldName(f) == "RevisionDate" && owner == named
			}) {
				built = true
			}
		})
		if built {
			obs = append(obs, ok(R, con, c.InstrPos(pre), "name + \"@\" + RevisionDate.Name reaches the exact-revision key"))
		} else {
			obs = append(obs, bad(R, con, c.InstrPos(pre), "no key built from the revision-date of an *"+tn+" reaches the exact-revision lookup"))
		}
	}
	// the disk read order
	{
		con := "FindModule: the disk is asked for the exact revision first, for the bare name only when that fails"
		var firstRead ssa.CallInstruction
		for _, r := range reads {
			if firstRead == nil || dominates(r.(ssa.Instruction), firstRead.(ssa.Instruction)) {
				firstRead = r
			}
		}
		arg := firstRead.Common().Args[len(firstRead.Common().Args)-1]
		if !isRevKey(arg) {
			obs = append(obs, bad(R, con, c.InstrPos(firstRead.(ssa.Instruction)), "the first read from disk does not ask for name@revision-date"))
		} else {
			okFall := true
			for _, r := range reads {
				if r == firstRead {
					continue
				}
				under := false
				for _, g := range guardsAt(r.Block()) {
					if x, isEq, okn := nilTest(g.Cond); okn && x == firstRead.Value() && isEq != g.Branch {
						under = true
					}
				}
				if !under || isRevKey(r.Common().Args[len(r.Common().Args)-1]) {
					okFall = false
				}
			}
			if okFall {
				obs = append(obs, ok(R, con, c.InstrPos(firstRead.(ssa.Instruction)), "Read(name@rev); on error Read(name)"))
			} else {
				obs = append(obs, bad(R, con, c.InstrPos(firstRead.(ssa.Instruction)), "a second read is not the bare-name fall-back of a failed exact read"))
			}
		}
	}
	con = "FindModule: after reading from disk the exact revision is returned when it is there, the bare name only otherwise"
	postReturned := false
	for _, r := range refsOf(post) {
		if _, isR := r.(*ssa.Return); isR {
			postReturned = true
		}
	}
	if postReturned && isRevKey(post.Call.Args[i1]) && !isRevKey(post.Call.Args[i2]) {
		obs = append(obs, ok(R, con, c.InstrPos(post), "return "+c.FnName(helper)+"(m, name@rev, name)"))
	} else {
		obs = append(obs, bad(R, con, c.InstrPos(post), "the lookup after the disk read is not the exact-then-bare lookup, or its answer is not what FindModule returns"))
	}
	return obs
}

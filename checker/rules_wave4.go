package main

// rules_wave4.go: rules added after the fourth wave of independently seeded changes:
// RANGE.POST, SCOPE.GROUPWALK, ID.CLOSURE, SCOPE.PREFIXCTX.

import (
	"fmt"
	"go/token"
	"go/types"
	"sort"
	"strings"

	"golang.org/x/tools/go/ssa"
)

func init() {
	register(&Rule{Name: "RANGE.POST", Props: []string{"C01", "C15", "C10"}, Floor: 1,
		Doc: "the bounded-integer reader returns a value inside [min, max] or zero: every non-constant value it returns is dominated by both bound tests (callers convert and use the value without re-checking)",
		Run: ruleRangePost})
	register(&Rule{Name: "SCOPE.GROUPWALK", Props: []string{"C06"}, Floor: 1,
		Doc: "the grouping lookup walks the ancestors of the node it is given, nearest first: its cursor is only ever the parameter or the cursor's ParentNode()",
		Run: ruleScopeGroupWalk})
	register(&Rule{Name: "ID.CLOSURE", Props: []string{"C11", "C05"}, Floor: 1,
		Doc: "the value list finally stored on an identity is the result of the de-duplicating closure walk, never the accumulated direct-children list itself",
		Run: ruleIDClosure})
	register(&Rule{Name: "SCOPE.PREFIXCTX", Props: []string{"C11", "C09", "C06", "C13"}, Floor: 3,
		Doc: "a prefix is resolved against the import table of the (sub)module it is written in: the node handed to the prefix lookup is not replaced by the owning module of a submodule",
		Run: ruleScopePrefixCtx})
}

// ---------------------------------------------------------------- RANGE.POST

func ruleRangePost(c *Ctx) []Obligation {
	const R = "RANGE.POST"
	fn := c.Fn("yang.(*Value).asRangeInt")
	if fn == nil {
		return []Obligation{undecided(R, "bounded-integer reader", "-", "(*Value).asRangeInt not found")}
	}
	if len(fn.Params) < 3 {
		return []Obligation{undecided(R, "bounded-integer reader", c.Pos(fn.Pos()), "expected (receiver, min, max)")}
	}
	var obs []Obligation
	n := 0
	for _, b := range fn.Blocks {
		r, isR := b.Instrs[len(b.Instrs)-1].(*ssa.Return)
		if !isR || len(r.Results) == 0 {
			continue
		}
		v := resolveSpill(r.Results[0], r)
		if _, isK := v.(*ssa.Const); isK {
			continue
		}
		n++
		con := fmt.Sprintf("%s: a returned value lies inside [min, max]", c.FnName(fn))
		if n > 1 {
			con = fmt.Sprintf("%s #%d", con, n)
		}
		lo, hi := false, false
		for _, g := range guardsAt(b) {
			bo, isB := g.Cond.(*ssa.BinOp)
			if !isB {
				continue
			}
			x, y, op := bo.X, bo.Y, bo.Op
			if y == v { // normalise to v op other
				x, y = y, x
				op = map[token.Token]token.Token{token.LSS: token.GTR, token.LEQ: token.GEQ, token.GTR: token.LSS, token.GEQ: token.LEQ, token.EQL: token.EQL, token.NEQ: token.NEQ}[op]
			}
			if x != v {
				continue
			}
			if !g.Branch {
				op = map[token.Token]token.Token{token.LSS: token.GEQ, token.LEQ: token.GTR, token.GTR: token.LEQ, token.GEQ: token.LSS, token.EQL: token.NEQ, token.NEQ: token.EQL}[op]
			}
			switch {
			case isParamN(fn, y, 1) && (op == token.GEQ):
				lo = true
			case isParamN(fn, y, 2) && (op == token.LEQ):
				hi = true
			}
		}
		if lo && hi {
			obs = append(obs, ok(R, con, c.InstrPos(r), "dominated by v >= min and v <= max"))
		} else {
			obs = append(obs, bad(R, con, c.InstrPos(r), "a value is returned on a path where it was not shown to lie inside [min, max] (e.g. together with the out-of-range error): callers narrow it to uint8/int and use it as a digit count, so a huge count reaches pow10 (overflow to 0 → division by zero) and slice bounds"))
		}
	}
	if n == 0 {
		obs = append(obs, undecided(R, "bounded-integer reader", c.Pos(fn.Pos()), "no non-constant return found"))
	}
	return obs
}

// ---------------------------------------------------------------- SCOPE.GROUPWALK

func ruleScopeGroupWalk(c *Ctx) []Obligation {
	const R = "SCOPE.GROUPWALK"
	fn := c.Fn("yang.FindGrouping")
	if fn == nil {
		return []Obligation{undecided(R, "grouping lookup", "-", "FindGrouping not found")}
	}
	con := "the grouping lookup visits the given node and then its ancestors one by one"
	// the cursor: phis of Node type in loop headers
	var obs []Obligation
	found := false
	for _, b := range fn.Blocks {
		if !isLoopHeader(b) {
			continue
		}
		for _, in := range b.Instrs {
			phi, isP := in.(*ssa.Phi)
			if !isP {
				continue
			}
			if _, isI := phi.Type().Underlying().(*types.Interface); !isI {
				continue
			}
			found = true
			bad1 := ""
			var check func(v ssa.Value, depth int)
			seen := map[ssa.Value]bool{}
			check = func(v ssa.Value, depth int) {
				if seen[v] || depth > 8 {
					return
				}
				seen[v] = true
				switch x := v.(type) {
				case *ssa.Parameter:
					if !isParamN(fn, x, 0) {
						bad1 = "a parameter other than the start node"
					}
				case *ssa.Phi:
					for _, e := range x.Edges {
						check(e, depth+1)
					}
				case *ssa.Call:
					switch calleeName(x) {
					case "ParentNode":
						// must be the parent of the cursor itself
					default:
						bad1 = "the result of " + calleeName(x) + "()"
					}
				case *ssa.MakeInterface:
					check(x.X, depth+1)
				case *ssa.ChangeInterface:
					check(x.X, depth+1)
				case *ssa.UnOp:
					if al, isA := x.X.(*ssa.Alloc); isA {
						for _, r := range refsOf(al) {
							if st, isS := r.(*ssa.Store); isS && st.Addr == ssa.Value(al) {
								check(st.Val, depth+1)
							}
						}
					} else {
						bad1 = "a loaded value"
					}
				default:
					bad1 = fmt.Sprintf("a %T", v)
				}
			}
			check(phi, 0)
			if bad1 == "" {
				obs = append(obs, ok(R, con, c.InstrPos(phi), "cursor ∈ {n, cursor.ParentNode()}"))
			} else {
				obs = append(obs, bad(R, con, c.InstrPos(phi), "the cursor is also set from "+bad1+": scopes between the uses statement and that node are skipped, so a grouping defined in an enclosing container, list or grouping is not found (or an outer one is found instead of the nearer one)"))
			}
		}
	}
	if !found {
		obs = append(obs, undecided(R, con, c.Pos(fn.Pos()), "no loop-carried Node cursor in FindGrouping"))
	}
	// a remembered answer is remembered for the place it was asked from: what a name denotes depends on the node the
	// uses statement sits under, so a table that short-cuts the walk is keyed by that node, not by something coarser
	// computed from it (its module, its root)
	con2 := "an answer taken from a table instead of the walk is keyed by the node the lookup starts from"
	k := 0
	memoLookup := func(v ssa.Value) (key ssa.Value, at ssa.Instruction) {
		switch x := v.(type) {
		case *ssa.Lookup:
			if _, f, _ := loadedField(x.X); f != nil {
				return x.Index, x
			}
		case *ssa.Extract:
			if l, isL := x.Tuple.(*ssa.Lookup); isL {
				if _, f, _ := loadedField(l.X); f != nil {
					return l.Index, l
				}
			}
		case *ssa.Call:
			// a small getter: one parameter besides the receiver, returns table[param]
			cal := x.Call.StaticCallee()
			if cal == nil || !c.isRepoFn(cal) || cal.Blocks == nil || len(x.Call.Args) != 2 {
				return nil, nil
			}
			isGetter := false
			eachInstr(cal, func(in ssa.Instruction) {
				if l, isL := in.(*ssa.Lookup); isL {
					if _, f, _ := loadedField(l.X); f != nil && (l.Index == ssa.Value(cal.Params[1]) || isParamN(cal, l.Index, 1)) {
						isGetter = true
					}
				}
			})
			if isGetter {
				return x.Call.Args[1], x
			}
		}
		return nil, nil
	}
	for _, b := range fn.Blocks {
		r, isR := b.Instrs[len(b.Instrs)-1].(*ssa.Return)
		if !isR || len(r.Results) != 1 {
			continue
		}
		var key ssa.Value
		var at ssa.Instruction
		backSlice(resolveSpill(r.Results[0], r), func(x ssa.Value) bool {
			if kk, a := memoLookup(x); kk != nil && key == nil {
				key, at = kk, a
				return false
			}
			return true
		})
		if key == nil {
			continue
		}
		k++
		// does the key contain the start node itself?
		direct := false
		var walk func(v ssa.Value, d int)
		walk = func(v ssa.Value, d int) {
			if d > 6 || direct {
				return
			}
			switch x := v.(type) {
			case *ssa.Parameter:
				if isParamN(fn, x, 0) {
					direct = true
				}
			case *ssa.MakeInterface:
				walk(x.X, d+1)
			case *ssa.ChangeInterface:
				walk(x.X, d+1)
			case *ssa.UnOp:
				if al, isA := x.X.(*ssa.Alloc); isA {
					for _, rr := range refsOf(al) {
						switch y := rr.(type) {
						case *ssa.Store:
							if y.Addr == ssa.Value(al) {
								walk(y.Val, d+1)
							}
						case *ssa.FieldAddr:
							for _, r3 := range *y.Referrers() {
								if st, isS := r3.(*ssa.Store); isS && st.Addr == ssa.Value(y) {
									walk(st.Val, d+1)
								}
							}
						}
					}
				}
			case *ssa.Phi:
				for _, e := range x.Edges {
					walk(e, d+1)
				}
			}
		}
		walk(key, 0)
		con3 := con2
		if k > 1 {
			con3 = fmt.Sprintf("%s #%d", con2, k)
		}
		if direct {
			obs = append(obs, ok(R, con3, c.InstrPos(at), "the key holds the start node"))
		} else {
			obs = append(obs, bad(R, con3, c.InstrPos(at), "the lookup returns what a table holds under a key that does not contain the node it was asked from (only something computed from it, such as its module): two uses of one name in different scopes of that module get the same grouping, whichever was resolved first"))
		}
	}
	return obs
}

// ---------------------------------------------------------------- ID.CLOSURE

func ruleIDClosure(c *Ctx) []Obligation {
	const R = "ID.CLOSURE"
	fn := c.Fn("yang.(*Modules).resolveIdentities")
	idT := c.Named("yang", "Identity")
	if fn == nil || idT == nil {
		return []Obligation{undecided(R, "identity resolver", "-", "resolveIdentities / Identity not found")}
	}
	fValues := FieldVar(idT, "Values")
	var obs []Obligation
	n := 0
	isValuesLoad := func(x ssa.Value) bool { _, f, _ := loadedField(x); return f == fValues }
	for _, st := range storesToField(fn, fValues) {
		if isNilConst(st.Val) {
			continue
		}
		// accumulation: append(x.Values, …) stored back
		if call, isC := st.Val.(*ssa.Call); isC {
			if b, isB := call.Call.Value.(*ssa.Builtin); isB && b.Name() == "append" && len(call.Call.Args) > 0 && isValuesLoad(call.Call.Args[0]) {
				continue
			}
		}
		n++
		con := "the list stored on an identity at the end is the closure, computed afresh"
		if n > 1 {
			con = fmt.Sprintf("%s #%d", con, n)
		}
		if sliceIsOneOf(c, st.Val, isValuesLoad) {
			obs = append(obs, bad(R, con, c.InstrPos(st), "on some path the list stored is the accumulated direct-children list itself, not the result of the closure walk: that list has one entry per base statement, so an identity naming the same base twice (or through two prefixes) is listed twice, and nothing removes the duplicates"))
		} else {
			obs = append(obs, ok(R, con, c.InstrPos(st), "the stored list is built from a fresh slice through the de-duplicating walk on every path"))
		}
	}
	if n == 0 {
		obs = append(obs, undecided(R, "closure store", c.Pos(fn.Pos()), "no final store to Identity.Values found"))
	}
	// a derivation cycle is an error: the identity whose closure is computed is looked up in the walk's visited set,
	// and finding it there records an error
	con := "an identity that turns up among its own derivations is reported"
	var test *ssa.Lookup
	anyReports, onlySilent, hadLookup := false, false, false
	_ = hadLookup
	eachInstr(fn, func(in ssa.Instruction) {
		l, isL := in.(*ssa.Lookup)
		if !isL || l.CommaOk {
			return
		}
		mt, isM := l.X.Type().Underlying().(*types.Map)
		if !isM || !isBoolType(mt.Elem()) {
			return
		}
		if pt, isP := mt.Key().(*types.Pointer); !isP || namedOf(pt.Elem()) != idT {
			return
		}
		if _, local := l.X.(*ssa.MakeMap); !local {
			return
		}
		// of several such lookups, the one whose hit makes an error
		reports := false
		for _, r := range *l.Referrers() {
			if ifi, isIf := r.(*ssa.If); isIf && errorMadeFrom(ifi.Block().Succs[0], map[*ssa.BasicBlock]bool{ifi.Block(): true}) {
				reports = true
			}
		}
		if test == nil || reports {
			test = l
		}
		if !reports && !anyReports {
			onlySilent = true
		}
		if reports {
			anyReports = true
		}
	})
	if test != nil && !anyReports && onlySilent {
		test = nil // none of the lookups is the cycle test: look for the scan form below
		hadLookup = true
	}
	// … or the finished list is scanned for the identity itself: a comparison of an element of an identity list
	// with an identity, whose equal branch makes an error
	scanned := ""
	if test == nil {
		eachInstr(fn, func(in ssa.Instruction) {
			bo, isB := in.(*ssa.BinOp)
			if !isB || bo.Op != token.EQL || scanned != "" {
				return
			}
			pt, isP := bo.X.Type().(*types.Pointer)
			if !isP || namedOf(pt.Elem()) != idT {
				return
			}
			elem := false
			for _, side := range []ssa.Value{bo.X, bo.Y} {
				operandClosure(side, func(x ssa.Value) {
					switch y := x.(type) {
					case *ssa.IndexAddr:
						if _, f, _ := loadedField(y.X); f == nil {
							elem = true // an element of a local list
						}
					case *ssa.Next:
						elem = true
					}
				})
			}
			if !elem {
				return
			}
			for _, r := range refsOf(bo) {
				if ifi, isIf := r.(*ssa.If); isIf && errorMadeFrom(ifi.Block().Succs[0], map[*ssa.BasicBlock]bool{ifi.Block(): true}) {
					scanned = c.InstrPos(bo)
				}
			}
		})
	}
	switch {
	case test == nil && scanned != "":
		obs = append(obs, ok(R, con, scanned, "the finished list is scanned for the identity itself; a hit makes an error"))
	case test == nil && hadLookup:
		obs = append(obs, bad(R, con, c.Pos(fn.Pos()), "finding the identity in its own closure records nothing: a derivation cycle is accepted silently"))
	case test == nil:
		obs = append(obs, bad(R, con, c.Pos(fn.Pos()), "the visited set of the closure walk is never consulted for the identity itself: a derivation cycle (a derived from b, b from a) is accepted silently and every identity on it lists itself"))
	default:
		reported := false
		for _, r := range *test.Referrers() {
			ifi, isIf := r.(*ssa.If)
			if !isIf {
				continue
			}
			yes := ifi.Block().Succs[0]
			for _, b := range fn.Blocks {
				if !(b == yes || yes.Dominates(b)) || len(yes.Preds) != 1 {
					continue
				}
				for _, in := range b.Instrs {
					if call, isC := in.(*ssa.Call); isC {
						if cal := call.Call.StaticCallee(); cal != nil && (cal.String() == "fmt.Errorf" || cal.String() == "errors.New") {
							reported = true
						}
					}
				}
			}
		}
		if reported {
			obs = append(obs, ok(R, con, c.InstrPos(test), "if seen[identity] { errs = append(errs, …) }"))
		} else {
			obs = append(obs, bad(R, con, c.InstrPos(test), "finding the identity in its own closure records nothing: a derivation cycle is accepted silently"))
		}
	}
	obs = append(obs, idClosureOnce(c, fn, idT)...)
	return obs
}

// idClosureOnce: the closure walk lists each derived identity once. Either the walker adds an identity through a
// membership scan of the list, or the visited set it consults lives exactly as long as the list it fills: a set
// made anew for every direct derivation forgets what the previous one listed (a diamond — d derived from b and c,
// both derived from a — then lists d twice under a).
func idClosureOnce(c *Ctx, fn *ssa.Function, idT *types.Named) []Obligation {
	const R = "ID.CLOSURE"
	con := "the closure walk lists each derived identity once"
	isIDSlice := func(t types.Type) bool {
		sl, ok := t.Underlying().(*types.Slice)
		if !ok {
			return false
		}
		pt, ok := sl.Elem().(*types.Pointer)
		return ok && namedOf(pt.Elem()) == idT
	}
	isIDSet := func(t types.Type) bool {
		mt, ok := t.Underlying().(*types.Map)
		if !ok {
			return false
		}
		pt, ok := mt.Key().(*types.Pointer)
		return ok && namedOf(pt.Elem()) == idT
	}
	type rootCall struct {
		site       ssa.CallInstruction
		list, seen ssa.Value
	}
	var walker *ssa.Function
	var roots []rootCall
	for _, ci := range c.callsInDeep(fn, func(ci ssa.CallInstruction) bool { return true }) {
		cal := ci.Common().StaticCallee()
		if cal == nil || !c.isRepoFn(cal) {
			continue // (the walker may recurse or keep a work list of its own)
		}
		var l, sn ssa.Value
		for _, a := range ci.Common().Args {
			if isIDSlice(a.Type()) {
				l = a
			}
			if isIDSet(a.Type()) {
				sn = a
			}
		}
		if l != nil && sn != nil {
			walker = cal
			roots = append(roots, rootCall{ci, l, sn})
		}
	}
	if walker == nil {
		return []Obligation{undecided(R, con, c.Pos(fn.Pos()), "no walker taking an identity list and a visited set is called")}
	}
	// how the walker adds to the list
	scan := false
	plain := false
	eachInstr(walker, func(in ssa.Instruction) {
		call, isC := in.(*ssa.Call)
		if !isC || !isIDSlice(call.Type()) {
			return
		}
		if b, isB := call.Call.Value.(*ssa.Builtin); isB && b.Name() == "append" {
			plain = true
			return
		}
		cal := call.Call.StaticCallee()
		if cal == nil || cal == walker || !c.isRepoFn(cal) {
			return
		}
		// a membership scan: compares identities and hands the list back unchanged on a match
		cmp, same := false, false
		eachInstr(cal, func(in2 ssa.Instruction) {
			if bo, isB := in2.(*ssa.BinOp); isB && bo.Op == token.EQL {
				if pt, isP := bo.X.Type().(*types.Pointer); isP && namedOf(pt.Elem()) == idT {
					cmp = true
				}
			}
			if r, isR := in2.(*ssa.Return); isR && len(r.Results) == 1 && len(cal.Params) > 0 && r.Results[0] == ssa.Value(cal.Params[0]) {
				same = true
			}
		})
		if cmp && same {
			scan = true
		} else {
			plain = true
		}
	})
	if scan && !plain {
		return []Obligation{ok(R, con, c.Pos(walker.Pos()), "the walker adds an identity through a membership scan of the list")}
	}
	// the visited set and the list are made at the same loop level
	var obs []Obligation
	for _, rc := range roots {
		var mk *ssa.MakeMap
		operandClosure(rc.seen, func(x ssa.Value) {
			if m, isM := x.(*ssa.MakeMap); isM && mk == nil {
				mk = m
			}
		})
		var init ssa.Instruction
		seenV := map[ssa.Value]bool{}
		var leaves func(x ssa.Value)
		leaves = func(x ssa.Value) {
			if x == nil || seenV[x] {
				return
			}
			seenV[x] = true
			switch y := x.(type) {
			case *ssa.Phi:
				for _, e := range y.Edges {
					leaves(e)
				}
			case *ssa.Call:
				// the list handed back by an earlier walk
			case *ssa.Extract:
			case *ssa.UnOp:
				// a variable that lives in a cell (it is captured by a closure): what is stored there
				if al, isA := y.X.(*ssa.Alloc); isA && y.Op == token.MUL {
					for _, r := range *al.Referrers() {
						if st, isS := r.(*ssa.Store); isS && st.Addr == ssa.Value(al) {
							leaves(st.Val)
						}
					}
				} else if init == nil {
					init = y
				}
			case ssa.Instruction:
				if init == nil {
					init = y
				}
			}
		}
		leaves(rc.list)
		switch {
		case mk == nil || init == nil:
			obs = append(obs, undecided(R, con, c.InstrPos(rc.site.(ssa.Instruction)), "cannot tell where the visited set or the list of this walk is made"))
		case mk.Parent() != init.Parent():
			obs = append(obs, undecided(R, con, c.InstrPos(rc.site.(ssa.Instruction)), "the visited set and the list are made in different functions"))
		case loopHeaderOf(mk.Block()) == loopHeaderOf(init.Block()):
			obs = append(obs, ok(R, con, c.InstrPos(mk), "the walker appends what its visited set has not seen, and the set is made together with the list it fills"))
		default:
			obs = append(obs, bad(R, con, c.InstrPos(mk), "the visited set is made anew inside the loop that fills one list, and the walker appends without looking at the list: an identity reachable through two direct derivations (a diamond of bases, YANG 1.1) is listed twice"))
		}
	}
	return obs
}

// ---------------------------------------------------------------- SCOPE.PREFIXCTX

func ruleScopePrefixCtx(c *Ctx) []Obligation {
	const R = "SCOPE.PREFIXCTX"
	fbp := c.MustFn("yang.FindModuleByPrefix")
	var obs []Obligation
	for _, fn := range c.Funcs {
		if fn.Pkg == nil || c.Types[fn.Pkg.Pkg.Path()] == nil || fn == fbp {
			continue
		}
		n := 0
		for _, ci := range c.callsTo(fn, fbp) {
			n++
			con := fmt.Sprintf("%s: the prefix is looked up in the import table of the node's own (sub)module", c.FnName(fn))
			if n > 1 {
				con = fmt.Sprintf("%s #%d", con, n)
			}
			arg := ci.Common().Args[0]
			widened := ""
			backSlice(arg, func(x ssa.Value) bool {
				if call, isC := x.(*ssa.Call); isC {
					switch calleeName(call) {
					case "module", "belongingModule":
						widened = calleeName(call)
					}
					return false
				}
				return true
			})
			if widened != "" {
				obs = append(obs, bad(R, con, c.InstrPos(ci), "the node was replaced by the result of "+widened+"(): for a submodule that is the module it belongs to, whose imports and prefixes are not the submodule's — a prefix the submodule binds itself resolves to a different module, or to none"))
			} else {
				obs = append(obs, ok(R, con, c.InstrPos(ci), "the node handed to FindModuleByPrefix is the referencing node (or derived from it without an owner lookup)"))
			}
		}
	}
	return obs
}

// ---------------------------------------------------------------- LEX.TCOL

func init() {
	register(&Rule{Name: "LEX.TCOL", Props: []string{"C02", "C16"}, Floor: 3,
		Doc: "the tab-expanded column that indentation stripping is measured against moves with the character column: every lexer function that advances or resets col also advances or resets tcol",
		Run: ruleLexTcol})
}

func ruleLexTcol(c *Ctx) []Obligation {
	const R = "LEX.TCOL"
	lx := c.Named("yang", "lexer")
	if lx == nil {
		return []Obligation{undecided(R, "lexer type", "-", "type yang.lexer not found")}
	}
	fCol, fTcol := FieldVar(lx, "col"), FieldVar(lx, "tcol")
	if fCol == nil || fTcol == nil {
		return []Obligation{undecided(R, "lexer counters", "-", "lexer.col / lexer.tcol not found")}
	}
	var obs []Obligation
	for _, fn := range c.Funcs {
		if fn.Pkg == nil || shortPkg(fn.Pkg.Pkg.Path()) != "yang" {
			continue
		}
		moves := 0
		var first *ssa.Store
		for _, st := range storesToField(fn, fCol) {
			// a move: constant reset or arithmetic on the old value; not a save/restore copy
			var leaves []ssa.Value
			arith := false
			additiveLeaves(st.Val, &leaves, &arith)
			_, isK := st.Val.(*ssa.Const)
			if arith || isK {
				moves++
				if first == nil {
					first = st
				}
			}
		}
		if moves == 0 {
			continue
		}
		con := fmt.Sprintf("%s moves tcol together with col", c.FnName(fn))
		nT := len(storesToField(fn, fTcol))
		if nT > 0 {
			obs = append(obs, ok(R, con, c.InstrPos(first), fmt.Sprintf("%d write(s) of col, %d of tcol", moves, nT)))
		} else {
			obs = append(obs, bad(R, con, c.InstrPos(first), "the function moves the character column but leaves the tab-expanded column where it was: a double-quoted string that starts later on the same line measures its indentation against a stale column, so too little (or too much) is stripped from its continuation lines"))
		}
	}
	// sibling agreement: every function that advances tcol treats the three character classes (newline, tab, any
	// other) the way its siblings do. The rune-at-a-time reader and the bulk cursor update are two implementations
	// of one counter; a double-quoted string measures its indentation with whichever ran last.
	type classMap map[string]string
	classOf := func(st *ssa.Store) string {
		cls := ""
		for _, g := range guardsAt(st.Block()) {
			bo, isB := g.Cond.(*ssa.BinOp)
			if !isB {
				continue
			}
			k, okk := constInt(bo.Y)
			if !okk {
				continue
			}
			switch {
			case bo.Op == token.EQL && k == 9 && g.Branch:
				return "tab"
			case bo.Op == token.EQL && k == 10 && g.Branch:
				return "newline"
			case bo.Op == token.GTR && k == 0 && g.Branch:
				if call, isC := bo.X.(*ssa.Call); isC && calleeIs(call, "strings", "Count") {
					return "newline"
				}
			case bo.Op == token.EQL && k == 9 && !g.Branch:
				cls = "other"
			}
		}
		return cls
	}
	maps := map[*ssa.Function]classMap{}
	var movers []*ssa.Function
	for _, fn := range c.Funcs {
		if fn.Pkg == nil || shortPkg(fn.Pkg.Pkg.Path()) != "yang" || fn.Blocks == nil {
			continue
		}
		if helperOf(fn) != nil {
			continue // a private helper's stores happen in its caller (inline.go)
		}
		cm := classMap{}
		forward := false
		for _, st := range c.storesToFieldDeep(fn, fTcol) {
			fp := exprFP(st.Val, 5)
			if strings.Contains(fp, "+") {
				forward = true
			}
			if cls := classOf(st); cls != "" {
				if old, dup := cm[cls]; dup && old != fp {
					fp = old + " | " + fp
				}
				cm[cls] = fp
			}
		}
		if forward {
			maps[fn] = cm
			movers = append(movers, fn)
		}
	}
	// a function that moves over a whole text at once resets tcol at a line break and then walks the text AFTER the
	// last line break; walking the whole text would add the columns of the earlier lines as well
	for _, fn := range movers {
		if _, hasNL := maps[fn]["newline"]; !hasNL {
			continue
		}
		for _, st := range c.storesToFieldDeep(fn, fTcol) {
			h := loopHeaderOf(st.Block())
			if h == nil || st.Parent() == nil {
				continue
			}
			var rng *ssa.Range
			for _, b := range st.Parent().Blocks {
				for _, in := range b.Instrs {
					if r, isR := in.(*ssa.Range); isR && b.Dominates(h) {
						if bt, isB := r.X.Type().Underlying().(*types.Basic); isB && bt.Info()&types.IsString != 0 {
							rng = r
						}
					}
				}
			}
			if rng == nil {
				continue
			}
			con := fmt.Sprintf("%s: the per-character tcol loop walks the text after the last line break", c.FnName(fn))
			v := resolveArg(rng.X)
			// … unless the loop itself starts the column again at each line break it meets
			resets := false
			for _, st2 := range c.storesToFieldDeep(fn, fTcol) {
				if k, isK := constInt(st2.Val); isK && k == 0 && classOf(st2) == "newline" {
					if h2 := loopHeaderOf(liftBlock(st2, st.Parent())); h2 == h {
						resets = true
					}
				}
			}
			if resets {
				obs = append(obs, ok(R, con, c.InstrPos(rng), "the loop walks the whole text and resets tcol at each line break in it"))
			} else if w := afterLastBreak(v); w == "" {
				obs = append(obs, ok(R, con, c.InstrPos(rng), "range over text[LastIndex(text, \"\\n\")+1:]"))
			} else {
				obs = append(obs, bad(R, con, c.InstrPos(rng), "the loop that steps tcol "+w+": after a comment or string that spans lines the tab-expanded column includes the earlier lines, and a double-quoted string that starts on the same line strips too much"))
			}
			break
		}
	}
	sort.Slice(movers, func(i, j int) bool { return c.FnName(movers[i]) < c.FnName(movers[j]) })
	if len(movers) == 1 {
		// one implementation of the counter: nothing to disagree with, but each class must be provided for
		for _, cls := range []string{"newline", "tab", "other"} {
			con := fmt.Sprintf("every function that advances tcol treats a %s character alike", cls)
			if fp, has := maps[movers[0]][cls]; has {
				obs = append(obs, ok(R, con, c.Pos(movers[0].Pos()), fmt.Sprintf("one function advances tcol (%s): %s", c.FnName(movers[0]), fp)))
			} else {
				obs = append(obs, bad(R, con, c.Pos(movers[0].Pos()), fmt.Sprintf("%s, the one function that advances tcol, has no update for this class", c.FnName(movers[0]))))
			}
		}
	}
	if len(movers) >= 2 {
		for _, cls := range []string{"newline", "tab", "other"} {
			con := fmt.Sprintf("every function that advances tcol treats a %s character alike", cls)
			ref, diff := "", ""
			for _, fn := range movers {
				fp, has := maps[fn][cls]
				if !has {
					diff = fmt.Sprintf("%s has no tcol update for this class", c.FnName(fn))
					break
				}
				if ref == "" {
					ref = fp
				} else if fp != ref {
					diff = fmt.Sprintf("%s: %s, %s: %s", c.FnName(movers[0]), ref, c.FnName(fn), fp)
					break
				}
			}
			if diff == "" {
				obs = append(obs, ok(R, con, c.Pos(movers[0].Pos()), fmt.Sprintf("%d functions: %s", len(movers), ref)))
			} else {
				obs = append(obs, bad(R, con, c.Pos(movers[len(movers)-1].Pos()), "the siblings disagree ("+diff+"): the tab-expanded column depends on which of them moved the cursor last, and the indentation stripped from a double-quoted string's continuation lines with it"))
			}
		}
	}
	return obs
}

// ---------------------------------------------------------------- TYPE.POST, FLAG.IMPLIES
// Two facts that NIL used to take on trust (reasoned exceptions) and that are cheap to decide.

func init() {
	register(&Rule{Name: "TYPE.POST", Props: []string{"C01", "C09"}, Floor: 2,
		Doc: "post-condition of (*Type).resolve: a return that can carry an empty error list is reached only after the resolved type has been stored (callers dereference it when no error came back)",
		Run: ruleTypePost})
	register(&Rule{Name: "FLAG.IMPLIES", Props: []string{"C01", "C08"}, Floor: 2,
		Doc: "a presence flag for min/max-elements is set only on an entry whose list attributes have been allocated on the same path (the deviation applier reads them under the flag)",
		Run: ruleFlagImplies})
}

func definitelyNonEmptySlice(v ssa.Value, at *ssa.BasicBlock) bool {
	switch x := v.(type) {
	case *ssa.Slice:
		if al, isA := x.X.(*ssa.Alloc); isA {
			if pt, isP := al.Type().(*types.Pointer); isP {
				if arr, isArr := pt.Elem().Underlying().(*types.Array); isArr && arr.Len() >= 1 {
					return true
				}
			}
		}
	case *ssa.Call:
		if b, isB := x.Call.Value.(*ssa.Builtin); isB && b.Name() == "append" && len(x.Call.Args) == 2 {
			if len(variadicElems(x.Call.Args[1])) >= 1 {
				return true
			}
			if definitelyNonEmptySlice(x.Call.Args[1], at) || definitelyNonEmptySlice(x.Call.Args[0], at) {
				return true
			}
		}
	case *ssa.Phi:
		for _, e := range x.Edges {
			if !definitelyNonEmptySlice(e, at) {
				return false
			}
		}
		return len(x.Edges) > 0
	}
	// under a dominating len(v) != 0 test
	if at != nil && nonEmptyGuard(at, func(y ssa.Value) bool { return y == v || sameExpr(y, v) }) {
		return true
	}
	return false
}

func ruleTypePost(c *Ctx) []Obligation {
	const R = "TYPE.POST"
	var obs []Obligation
	for _, site := range []struct{ fn, owner string }{
		{"yang.(*Type).resolve", "Type"},
		{"yang.(*Typedef).resolve", "Typedef"},
	} {
		fn := c.Fn(site.fn)
		tT := c.Named("yang", site.owner)
		if fn == nil || tT == nil {
			obs = append(obs, undecided(R, site.owner+" resolver", "-", site.fn+" not found"))
			continue
		}
		fYT := FieldVar(tT, "YangType")
		fParent := FieldVar(tT, "Parent")
		var stores []*ssa.Store
		for _, st := range storesToField(fn, fYT) {
			_, _, base := fieldOf(st.Addr)
			if isParamN(fn, base, 0) && !isNilConst(st.Val) {
				stores = append(stores, st)
			}
		}
		// evidence on a set of guards that the receiver is resolved: its memo is non-nil, or (typedefs) it has no
		// parent statement, i.e. it is one of the built-in typedefs, which are made with their type
		resolved := func(gs []Guard) bool {
			for _, g := range gs {
				x, isEq, isT := nilTest(g.Cond)
				if !isT {
					continue
				}
				_, f, base := loadedField(x)
				if !isParamN(fn, base, 0) && !isParamN(fn, resolveArg(rootOf(base)), 0) {
					continue
				}
				if f == fYT && isEq != g.Branch {
					return true
				}
				if site.owner == "Typedef" && f == fParent && fParent != nil && isEq == g.Branch {
					return true
				}
			}
			return false
		}
		n := 0
		for _, b := range fn.Blocks {
			r, isR := b.Instrs[len(b.Instrs)-1].(*ssa.Return)
			if !isR || len(r.Results) != 1 || b == fn.Recover {
				continue // the recover block only runs after a panic, which this rule does not model
			}
			v := resolveSpill(r.Results[0], r)
			if definitelyNonEmptySlice(v, b) {
				continue
			}
			n++
			con := fmt.Sprintf("%s: a return that may carry no error happens only with the resolved type stored", c.FnName(fn))
			if n > 1 {
				con = fmt.Sprintf("%s #%d", con, n)
			}
			set := false
			for _, st := range stores {
				if dominates(st, r) {
					set = true
				}
			}
			if !set && resolved(guardsAt(b)) {
				set = true
			}
			if !set && len(b.Preds) > 1 {
				// `if a || b { return nil }`: every way into the return carries its own evidence
				all := true
				for _, p := range b.Preds {
					gs := guardsAt(p)
					if ifi, isIf := p.Instrs[len(p.Instrs)-1].(*ssa.If); isIf && p.Succs[0] != p.Succs[1] {
						gs = append(gs, Guard{Cond: ifi.Cond, Branch: p.Succs[0] == b, If: ifi})
					}
					if !resolved(gs) {
						all = false
					}
				}
				set = all
			}
			if set {
				obs = append(obs, ok(R, con, c.InstrPos(r), "dominated by t.YangType = …, or reached only where t.YangType != nil (or, for a typedef, where it is a built-in)"))
			} else {
				obs = append(obs, bad(R, con, c.InstrPos(r), "the error list returned here can be empty although t.YangType was not stored on this path: the callers dereference the resolved type whenever no error came back (nil dereference while processing)"))
			}
		}
		if n == 0 {
			obs = append(obs, undecided(R, site.owner+" resolver returns", c.Pos(fn.Pos()), "no return that may carry an empty list found"))
		}
	}
	return obs
}

func ruleFlagImplies(c *Ctx) []Obligation {
	const R = "FLAG.IMPLIES"
	m := c.entryModel()
	fLA := FieldVar(m.entry, "ListAttr")
	fDP := FieldVar(m.entry, "deviatePresence")
	if fLA == nil || fDP == nil {
		return []Obligation{undecided(R, "presence flags", "-", "Entry.ListAttr / Entry.deviatePresence not found")}
	}
	var obs []Obligation
	n := 0
	for _, fn := range c.Funcs {
		if fn.Pkg == nil || shortPkg(fn.Pkg.Pkg.Path()) != "yang" {
			continue
		}
		eachInstr(fn, func(in ssa.Instruction) {
			st, isS := in.(*ssa.Store)
			if !isS || !isTrueConst(st.Val) {
				return
			}
			fa, isFA := st.Addr.(*ssa.FieldAddr)
			if !isFA {
				return
			}
			_, pf, entryBase := fieldOf(fa.X)
			if pf != fDP {
				return
			}
			_, flag, _ := fieldOf(fa)
			n++
			con := fmt.Sprintf("%s: %s is set only with ListAttr allocated", c.FnName(fn), flag.Name())
			path := AccessPath(entryBase)
			okA := false
			// a dominating store of a non-nil ListAttr on the same entry, or a dominating ListAttr != nil test
			for _, s2 := range storesToField(fn, fLA) {
				_, _, b2 := fieldOf(s2.Addr)
				if AccessPath(b2) == path && !isNilConst(s2.Val) {
					// the store sits in `if e.ListAttr == nil { e.ListAttr = new }`: after that If joins, ListAttr is non-nil
					if dominates(s2, st) {
						okA = true
					}
					for _, g := range guardsAt(s2.Block()) {
						if x, isEq, isT := nilTest(g.Cond); isT && isEq == g.Branch {
							// the store must be all that stands under the nil test (its block is the test's own successor)
							succ := g.If.Block().Succs[1]
							if g.Branch {
								succ = g.If.Block().Succs[0]
							}
							if _, f, b3 := loadedField(x); f == fLA && AccessPath(b3) == path && g.If.Block().Dominates(st.Block()) && succ == s2.Block() {
								okA = true
							}
						}
					}
				}
			}
			if !okA {
				// a dominating call of a helper that makes ListAttr non-nil on every path
				eachInstr(fn, func(in2 ssa.Instruction) {
					call, isC := in2.(*ssa.Call)
					if !isC || !dominates(call, st) {
						return
					}
					cal := call.Call.StaticCallee()
					if cal == nil || !c.isRepoFn(cal) {
						return
					}
					for _, ef := range c.ensuredFields(cal) {
						if ef.field == fLA.Name() && ef.param < len(call.Call.Args) && AccessPath(call.Call.Args[ef.param]) == path {
							okA = true
						}
					}
				})
			}
			if okA {
				obs = append(obs, ok(R, con, c.InstrPos(st), "if e.ListAttr == nil { e.ListAttr = … } (or a helper doing that) precedes the flag store on every path"))
			} else {
				obs = append(obs, bad(R, con, c.InstrPos(st), "the flag is set on a path where ListAttr may still be nil: applying the deviation reads devSpec.ListAttr.Min/MaxElements under this flag and dereferences nil"))
			}
		})
	}
	if n == 0 {
		obs = append(obs, undecided(R, "presence flags", "-", "no store of true into Entry.deviatePresence found"))
	}
	return obs
}

// ---------------------------------------------------------------- DEV.ORDER

func init() {
	register(&Rule{Name: "DEV.ORDER", Props: []string{"C08", "C05", "C01"}, Floor: 1,
		Doc: "the deviate statements of a deviation are handed to the applier in written order: the ordered list is appended to inside the walk over the deviation's AST list of deviate statements, one entry per statement",
		Run: ruleDevOrder})
}

func ruleDevOrder(c *Ctx) []Obligation {
	const R = "DEV.ORDER"
	devT := c.Named("yang", "Deviation")
	if devT == nil {
		return []Obligation{undecided(R, "deviation AST type", "-", "yang.Deviation not found")}
	}
	fDeviate := FieldVar(devT, "Deviate")
	apply := c.MustFn("yang.(*Entry).ApplyDeviate")
	con := "the list of deviate statements the applier walks is built statement by statement from the AST"
	// the function that produces the list the applier ranges over: a repo callee of ApplyDeviate that reads Deviation.Deviate
	var orderFn *ssa.Function
	for _, ci := range callsIn(apply, func(ssa.CallInstruction) bool { return true }) {
		cal := ci.Common().StaticCallee()
		if cal == nil || !c.isRepoFn(cal) {
			continue
		}
		reads := false
		eachInstr(cal, func(in ssa.Instruction) {
			if u, isU := in.(*ssa.UnOp); isU {
				if _, f, _ := loadedField(u); f == fDeviate && fDeviate != nil {
					reads = true
				}
			}
		})
		if reads {
			orderFn = cal
		}
	}
	if orderFn == nil {
		// the applier may walk the AST itself
		eachInstr(apply, func(in ssa.Instruction) {
			if u, isU := in.(*ssa.UnOp); isU {
				if _, f, _ := loadedField(u); f == fDeviate && fDeviate != nil {
					orderFn = apply
				}
			}
		})
	}
	if orderFn == nil {
		return []Obligation{bad(R, con, c.Pos(apply.Pos()), "the applier never consults the deviation's AST list of deviate statements: Entry.Deviate groups them by kind, so their written order is lost (delete-then-add and add-then-delete give different results)")}
	}
	if orderFn == apply {
		return []Obligation{ok(R, con, c.Pos(apply.Pos()), "the applier ranges over Deviation.Deviate itself")}
	}
	// the loop over the AST list
	var astBody []*ssa.BasicBlock
	var header *ssa.BasicBlock
	eachInstr(orderFn, func(in ssa.Instruction) {
		ia, isI := in.(*ssa.IndexAddr)
		if !isI {
			return
		}
		if _, f, _ := loadedField(ia.X); f == fDeviate {
			header = loopHeaderOf(ia.Block())
		}
	})
	if header == nil {
		return []Obligation{bad(R, con, c.Pos(orderFn.Pos()), "the AST list of deviate statements is read but not walked element by element")}
	}
	for _, b := range orderFn.Blocks {
		if b != header && header.Dominates(b) && blockReaches(b, header, nil) {
			astBody = append(astBody, b)
		}
	}
	inAST := map[*ssa.BasicBlock]bool{}
	for _, b := range astBody {
		inAST[b] = true
	}
	// appends whose result can be what is returned on the path through the AST loop
	okAppend, badAppend := false, ""
	nested := false
	for _, b := range orderFn.Blocks {
		r, isR := b.Instrs[len(b.Instrs)-1].(*ssa.Return)
		if !isR || len(r.Results) != 1 || !header.Dominates(b) && !blockReaches(header, b, nil) {
			continue
		}
		if !blockReaches(header, b, nil) {
			continue // the fallback without an AST node
		}
		backSlice(resolveSpill(r.Results[0], r), func(x ssa.Value) bool {
			call, isC := x.(*ssa.Call)
			if !isC {
				return true
			}
			if bi, isB := call.Call.Value.(*ssa.Builtin); isB && bi.Name() == "append" {
				if inAST[call.Block()] {
					okAppend = true
					// one entry per statement: the append is an iteration of the walk itself, not of a loop nested in it
					if lh := loopHeaderOf(call.Block()); lh != nil && lh != header {
						badAppend = c.InstrPos(call)
						nested = true
					}
				} else if blockReaches(header, call.Block(), nil) && !inAST[call.Block()] {
					// an append after the AST loop (grouped by kind) on the path with an AST node
					if loopHeaderOf(call.Block()) != nil {
						badAppend = c.InstrPos(call)
					}
				}
			}
			return true
		})
	}
	switch {
	case okAppend && badAppend == "":
		obs := []Obligation{ok(R, con, c.InstrPos(header.Instrs[0]), "every entry of the returned list is appended inside the walk over Deviation.Deviate")}
		return append(obs, c.devOrderCursor(R, orderFn, inAST)...)
	case badAppend != "" && nested:
		return []Obligation{bad(R, con, badAppend, "entries are appended in a loop nested inside the walk over the AST's deviate statements: a whole group of statements of one kind is emitted where its first member stands, so a kind that recurs after another kind (add, delete, add) is applied out of its written order")}
	case badAppend != "":
		return []Obligation{bad(R, con, badAppend, "entries are appended to the returned list in a loop other than the walk over the AST's deviate statements: statements of one kind are pulled together, so interleaved add/delete/replace statements are applied out of their written order")}
	default:
		return []Obligation{bad(R, con, c.InstrPos(header.Instrs[0]), "nothing is appended to the returned list inside the walk over the AST's deviate statements")}
	}
}

// devOrderCursor: where the walk picks the entry of a deviate statement out of its kind's group with a per-kind cursor
// kept in a local map (group[cursor[kind]]), the pick must be bounded by the group's length and the cursor must advance
// in the same iteration; otherwise the second statement of a kind re-applies the first one's entry, or the pick runs
// off the end of the group.
func (c *Ctx) devOrderCursor(R string, fn *ssa.Function, body map[*ssa.BasicBlock]bool) []Obligation {
	sameVal := func(a, b ssa.Value) bool {
		if a == b {
			return true
		}
		pa := AccessPath(a)
		return pa == AccessPath(b) && pa != "" && !strings.HasPrefix(pa, "t")
	}
	lookupEq := func(a, b ssa.Value) bool {
		la, ok1 := a.(*ssa.Lookup)
		lb, ok2 := b.(*ssa.Lookup)
		return ok1 && ok2 && !la.CommaOk && !lb.CommaOk && sameVal(la.X, lb.X) && sameVal(la.Index, lb.Index)
	}
	var obs []Obligation
	n := 0
	for _, b := range fn.Blocks {
		if !body[b] {
			continue
		}
		for _, in := range b.Instrs {
			ia, isI := in.(*ssa.IndexAddr)
			if !isI {
				continue
			}
			cur, isL := ia.Index.(*ssa.Lookup)
			if !isL || cur.CommaOk {
				continue
			}
			if _, local := cur.X.(*ssa.MakeMap); !local {
				continue
			}
			n++
			// bounded
			con := fmt.Sprintf("the cursor pick #%d stays inside its kind's group", n)
			bounded := false
			for _, g := range guardsAtPS(b) {
				bo, isB := g.Cond.(*ssa.BinOp)
				if !isB {
					continue
				}
				ln, isC := bo.Y.(*ssa.Call)
				if !isC {
					continue
				}
				if bi, isBI := ln.Call.Value.(*ssa.Builtin); !isBI || bi.Name() != "len" {
					continue
				}
				if !lookupEq(bo.X, cur) && bo.X != ssa.Value(cur) {
					continue
				}
				if !(ln.Call.Args[0] == ia.X || lookupEq(ln.Call.Args[0], ia.X) || sameVal(ln.Call.Args[0], ia.X)) {
					continue
				}
				if bo.Op == token.GEQ && !g.Branch || bo.Op == token.LSS && g.Branch {
					bounded = true
				}
			}
			if bounded {
				obs = append(obs, ok(R, con, c.InstrPos(ia), "dominated by cursor < len(group)"))
			} else {
				obs = append(obs, bad(R, con, c.InstrPos(ia), "the entry is picked at the cursor without a dominating test that the cursor is below the length of the group: a deviation whose AST lists more deviate statements of a kind than were converted indexes past the end (panic)"))
			}
			// advanced
			con = fmt.Sprintf("the cursor of pick #%d advances in the same iteration", n)
			adv := false
			for _, b2 := range fn.Blocks {
				if !body[b2] || !(b2 == b || b.Dominates(b2)) {
					continue
				}
				for _, in2 := range b2.Instrs {
					mu, isM := in2.(*ssa.MapUpdate)
					if !isM || mu.Map != cur.X || !sameVal(mu.Key, cur.Index) {
						continue
					}
					if bo, isB := mu.Value.(*ssa.BinOp); isB && bo.Op == token.ADD && lookupEq(bo.X, cur) {
						if k, okk := constInt(bo.Y); okk && k == 1 {
							adv = true
						}
					}
				}
			}
			if adv {
				obs = append(obs, ok(R, con, c.InstrPos(ia), "cursor[kind]++ after the pick"))
			} else {
				obs = append(obs, bad(R, con, c.InstrPos(ia), "the per-kind cursor is not advanced after the pick: every later deviate statement of the same kind applies the first statement's arguments again and its own never"))
			}
		}
	}
	return obs
}

// sliceIsOneOf: the slice value v can be (a re-slice or an append-extension of) a slice for which pred holds —
// followed through phis, re-slicing, the first operand of append, and the results of repo functions with their
// parameters replaced by the arguments. What is *put into* a slice (the other operands of append, element loads) is
// not followed: the question is which list this is, not where its members come from.
func sliceIsOneOf(c *Ctx, v ssa.Value, pred func(ssa.Value) bool) bool {
	type frame map[*ssa.Parameter]ssa.Value
	seen := map[ssa.Value]bool{}
	var walk func(x ssa.Value, env []frame, d int) bool
	walk = func(x ssa.Value, env []frame, d int) bool {
		if x == nil || d > 24 {
			return false
		}
		if pred(x) {
			return true
		}
		if seen[x] && len(env) == 0 {
			return false
		}
		seen[x] = true
		switch y := x.(type) {
		case *ssa.Phi:
			for _, e := range y.Edges {
				if walk(e, env, d+1) {
					return true
				}
			}
		case *ssa.Slice:
			return walk(y.X, env, d+1)
		case *ssa.ChangeType:
			return walk(y.X, env, d+1)
		case *ssa.UnOp:
			// a variable kept in a cell: what is stored there
			if al, isA := y.X.(*ssa.Alloc); isA && y.Op == token.MUL {
				for _, r := range *al.Referrers() {
					if st, isS := r.(*ssa.Store); isS && st.Addr == ssa.Value(al) {
						if walk(st.Val, env, d+1) {
							return true
						}
					}
				}
			}
		case *ssa.Parameter:
			for i := len(env) - 1; i >= 0; i-- {
				if a, has := env[i][y]; has {
					return walk(a, env[:i], d+1)
				}
			}
		case *ssa.Call:
			if b, isB := y.Call.Value.(*ssa.Builtin); isB && b.Name() == "append" && len(y.Call.Args) > 0 {
				return walk(y.Call.Args[0], env, d+1)
			}
			cal := y.Call.StaticCallee()
			if cal == nil || !c.isRepoFn(cal) || cal.Blocks == nil || len(env) > 4 {
				return false
			}
			fr := frame{}
			for i, p := range cal.Params {
				if i < len(y.Call.Args) {
					fr[p] = y.Call.Args[i]
				}
			}
			for _, b := range cal.Blocks {
				if r, isR := b.Instrs[len(b.Instrs)-1].(*ssa.Return); isR && b != cal.Recover {
					for _, res := range r.Results {
						if _, isSl := res.Type().Underlying().(*types.Slice); isSl {
							if walk(resolveSpill(res, r), append(append([]frame{}, env...), fr), d+1) {
								return true
							}
						}
					}
				}
			}
		}
		return false
	}
	return walk(v, nil, 0)
}

// liftBlock: the block of in as seen from fn — its own block when it sits in fn, the block of the call that reaches it
// when it sits in a private helper of fn.
func liftBlock(in ssa.Instruction, fn *ssa.Function) *ssa.BasicBlock {
	if in.Parent() == fn {
		return in.Block()
	}
	if l := liftTo(in, fn); l != nil {
		return l.Block()
	}
	return in.Block()
}

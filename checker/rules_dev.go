package main

// rules_dev.go: DEV.FIELDS / DEV.FRAME / DEV.TARGET — the deviation applier writes exactly the named fields of the target.

import (
	"fmt"
	"go/token"
	"go/types"
	"sort"
	"strings"

	"golang.org/x/tools/go/ssa"
)

func init() {
	register(&Rule{Name: "DEV.FIELDS", Props: []string{"C08"}, Floor: 4,
		Doc: "per deviate kind the applier writes exactly the target fields RFC 7950 7.20.3 names, from the same-named deviate field or the RFC default",
		Run: ruleDevFields})
	register(&Rule{Name: "DEV.FRAME", Props: []string{"C08"}, Floor: 2,
		Doc: "the applier stores to nothing but the looked-up target; not-supported is one child removal under the option test",
		Run: ruleDevFrame})
	register(&Rule{Name: "DEV.TARGET", Props: []string{"C08"}, Floor: 1,
		Doc: "each deviation's target is looked up afresh (no memo of lookups across tree mutations)",
		Run: ruleDevTarget})
}

// RFC 7950 7.20.3.2: properties each deviate kind may change (as goyang models them).
var specDeviateFields = map[string][]string{
	"add":     {"Config", "Default", "ListAttr.MaxElements", "ListAttr.MinElements", "Mandatory", "Type", "Units"},
	"replace": {"Config", "Default", "ListAttr.MaxElements", "ListAttr.MinElements", "Mandatory", "Type", "Units"},
	"delete":  {"Config", "Default", "ListAttr.MaxElements", "ListAttr.MinElements", "Mandatory"},
}

// values a delete writes: the RFC defaults
var specDeleteValues = map[string]string{
	"Config": "0", "Mandatory": "0", "Default": "nil", "ListAttr.MinElements": "0", "ListAttr.MaxElements": "18446744073709551615",
}

type devModel struct {
	fn      *ssa.Function
	target  ssa.Value        // the Find result
	kindVal map[int64]string // deviationType constant → keyword
	kinds   map[string]int64
	find    *ssa.Call
}

func (c *Ctx) devModel() (*devModel, string) {
	fn := c.MustFn("yang.(*Entry).ApplyDeviate")
	find := c.MustFn("yang.(*Entry).Find")
	finds := c.callsToLookup(fn, find)
	if len(finds) != 1 {
		return nil, fmt.Sprintf("%d Find calls in the deviation applier", len(finds))
	}
	m := &devModel{fn: fn, kindVal: map[int64]string{}, kinds: map[string]int64{}}
	m.find, _ = finds[0].(*ssa.Call)
	m.target = refinedTarget(finds[0].Value())
	// deviation kind constants from the package scope
	pkg := c.YangPkg()
	for name, kw := range map[string]string{"DeviationNotSupported": "not-supported", "DeviationAdd": "add", "DeviationReplace": "replace", "DeviationDelete": "delete"} {
		o, ok := pkg.Scope().Lookup(name).(*types.Const)
		if !ok {
			return nil, "constant " + name + " not found"
		}
		var v int64
		fmt.Sscanf(o.Val().ExactString(), "%d", &v)
		m.kindVal[v] = kw
		m.kinds[kw] = v
	}
	return m, ""
}

// kindsAt: the deviate kinds under which block b executes (from dominating `dt == K` guards); nil = unconstrained.
func (m *devModel) kindsAt(b *ssa.BasicBlock) map[string]bool {
	var out map[string]bool
	constrain := func(set map[string]bool) {
		if out == nil {
			out = set
			return
		}
		for k := range out {
			if !set[k] {
				delete(out, k)
			}
		}
	}
	// a switch with `case A, B:` reaches its body from two equality tests: collect the tests whose true edge
	// leads (through jumps) into a block that dominates b, grouped by that block
	entered := map[*ssa.BasicBlock]map[string]bool{}
	for _, blk := range m.fn.Blocks {
		if len(blk.Instrs) == 0 {
			continue
		}
		ifi, ok := blk.Instrs[len(blk.Instrs)-1].(*ssa.If)
		if !ok {
			continue
		}
		bo, okb := ifi.Cond.(*ssa.BinOp)
		if !okb || bo.Op != token.EQL {
			continue
		}
		k, okk := constInt(bo.Y)
		if !okk {
			continue
		}
		kw, known := m.kindVal[k]
		if !known || !isKindValue(bo.X) {
			continue
		}
		t := blk.Succs[0]
		if entered[t] == nil {
			entered[t] = map[string]bool{}
		}
		entered[t][kw] = true
	}
	for t, set := range entered {
		if t.Dominates(b) {
			// all predecessors of t must be such tests (otherwise other kinds fall in)
			pure := true
			for _, p := range t.Preds {
				ifi, ok := p.Instrs[len(p.Instrs)-1].(*ssa.If)
				if !ok || p.Succs[0] != t {
					pure = false
					continue
				}
				bo, okb := ifi.Cond.(*ssa.BinOp)
				if !okb || !isKindValue(bo.X) {
					pure = false
				}
			}
			if pure {
				cp := map[string]bool{}
				for k := range set {
					cp[k] = true
				}
				constrain(cp)
			}
		}
	}
	return out
}

func isKindValue(v ssa.Value) bool {
	n := namedOf(v.Type())
	return n != nil && objName(n.Obj()) == "deviationType"
}

// targetFieldPath: if addr is a field path rooted at the target, return "Config", "ListAttr.MinElements", …
func (m *devModel) targetFieldPath(addr ssa.Value) (string, bool) {
	var parts []string
	v := addr
	for d := 0; d < 8; d++ {
		switch x := v.(type) {
		case *ssa.FieldAddr:
			_, f, base := fieldOf(x)
			parts = append([]string{f.Name()}, parts...)
			v = base
			continue
		case *ssa.UnOp:
			v = x.X
			continue
		}
		break
	}
	if resolveArg(v) == m.target && len(parts) > 0 {
		return strings.Join(parts, "."), true
	}
	return "", false
}

func ruleDevFields(c *Ctx) []Obligation {
	const R = "DEV.FIELDS"
	m, why := c.devModel()
	if m == nil {
		return []Obligation{undecided(R, "deviation applier model", "-", why)}
	}
	var obs []Obligation
	written := map[string]map[string][]*ssa.Store{} // kind → field → stores
	c.eachInstrDeep(m.fn, func(in ssa.Instruction) {
		st, ok := in.(*ssa.Store)
		if !ok {
			return
		}
		fp, isT := m.targetFieldPath(st.Addr)
		if !isT {
			return
		}
		// a store in a private helper happens in the arm that calls the helper
		at := st.Block()
		if st.Parent() != m.fn {
			if l := liftAll(st, m.fn, 0); len(l) == 1 {
				at = l[0].Block()
			}
		}
		kinds := m.kindsAt(at)
		if kinds == nil {
			kinds = map[string]bool{"(any)": true}
		}
		for k := range kinds {
			if written[k] == nil {
				written[k] = map[string][]*ssa.Store{}
			}
			written[k][fp] = append(written[k][fp], st)
		}
	})
	for _, kind := range []string{"add", "replace", "delete"} {
		var got []string
		for f := range written[kind] {
			got = append(got, f)
		}
		sort.Strings(got)
		want := specDeviateFields[kind]
		con := fmt.Sprintf("deviate %s writes exactly the RFC 7950 7.20.3.2 properties", kind)
		if strings.Join(got, ",") == strings.Join(want, ",") {
			obs = append(obs, ok(R, con, c.Pos(m.fn.Pos()), strings.Join(got, ", ")))
		} else {
			obs = append(obs, bad(R, con, c.Pos(m.fn.Pos()), fmt.Sprintf("writes {%s}, the RFC names {%s}", strings.Join(got, ", "), strings.Join(want, ", "))))
		}
		// value provenance
		for _, f := range got {
			for i, st := range written[kind][f] {
				con := fmt.Sprintf("deviate %s: target.%s takes the right value", kind, f)
				if i > 0 {
					con = fmt.Sprintf("%s #%d", con, i+1)
				}
				pos := c.InstrPos(st)
				if kind == "delete" {
					wantV := specDeleteValues[f]
					gotV := ""
					if k, okk := st.Val.(*ssa.Const); okk {
						if k.Value == nil {
							gotV = "nil"
						} else {
							gotV = k.Value.ExactString()
						}
					}
					if gotV == wantV {
						obs = append(obs, ok(R, con, pos, "RFC default "+wantV))
					} else {
						obs = append(obs, bad(R, con, pos, fmt.Sprintf("delete must restore the default %s, the code stores %q", wantV, gotV)))
					}
					continue
				}
				// add/replace: derives from the same-named field of the deviate entry (not of the target alone)
				leaf := f
				if k := strings.LastIndex(f, "."); k >= 0 {
					leaf = f[k+1:]
				}
				fromSpec := derivesFrom(st.Val, func(x ssa.Value) bool {
					_, fl, base := fieldOf(x)
					if fl == nil || fl.Name() != leaf {
						return false
					}
					return resolveArg(rootOf(base)) != m.target
				})
				if fromSpec {
					obs = append(obs, ok(R, con, pos, "derived from devSpec."+f))
				} else {
					obs = append(obs, bad(R, con, pos, "the stored value does not come from the deviate statement's own "+f))
				}
			}
		}
	}
	// presence: a property is changed only when the deviate statement carries it. Each store sits under a test that
	// the deviate entry's same-named property is set (or its recorded presence flag is).
	entryT := c.MustNamed("yang", "Entry")
	specField := func(v ssa.Value, leaf string) bool {
		// v loads (or is len of) field `leaf`, or a presence flag has<leaf>, of an Entry other than the target
		_, fl, base := loadedField(v)
		if fl == nil {
			return false
		}
		nm := recordedFieldName(fl)
		if nm != leaf && !strings.EqualFold(nm, "has"+leaf) {
			return false
		}
		root := resolveArg(rootOf(base))
		if root == m.target {
			return false
		}
		for b := base; ; {
			if pt, isP := b.Type().Underlying().(*types.Pointer); isP && namedOf(pt.Elem()) == entryT || namedOf(b.Type()) == entryT {
				return true
			}
			_, _, up := fieldOf(b)
			if up == nil {
				if u, isU := b.(*ssa.UnOp); isU {
					b = u.X
					continue
				}
				return false
			}
			b = up
		}
	}
	presenceTest := func(g Guard, leaf string) bool {
		if specField(g.Cond, leaf) && isBoolType(g.Cond.Type()) {
			return g.Branch
		}
		bo, isB := g.Cond.(*ssa.BinOp)
		if !isB {
			return false
		}
		x, y, op := bo.X, bo.Y, bo.Op
		if _, isK := x.(*ssa.Const); isK {
			x, y = y, x
			op = map[token.Token]token.Token{token.LSS: token.GTR, token.GTR: token.LSS, token.LEQ: token.GEQ, token.GEQ: token.LEQ, token.EQL: token.EQL, token.NEQ: token.NEQ}[op]
		}
		if !g.Branch {
			op = map[token.Token]token.Token{token.LSS: token.GEQ, token.GTR: token.LEQ, token.LEQ: token.GTR, token.GEQ: token.LSS, token.EQL: token.NEQ, token.NEQ: token.EQL}[op]
		}
		k, isK := y.(*ssa.Const)
		if !isK {
			return false
		}
		zero := k.Value == nil || k.Value.ExactString() == "0" || k.Value.ExactString() == `""`
		one := k.Value != nil && k.Value.ExactString() == "1"
		if call, isC := x.(*ssa.Call); isC {
			if bi, isBI := call.Call.Value.(*ssa.Builtin); isBI && bi.Name() == "len" && specField(call.Call.Args[0], leaf) {
				return zero && (op == token.GTR || op == token.NEQ) || one && op == token.GEQ
			}
			return false
		}
		return specField(x, leaf) && zero && op == token.NEQ
	}
	for _, kind := range []string{"add", "replace", "delete"} {
		var fields []string
		for f := range written[kind] {
			fields = append(fields, f)
		}
		sort.Strings(fields)
		for _, f := range fields {
			leaf := f
			if k := strings.LastIndex(f, "."); k >= 0 {
				leaf = f[k+1:]
			}
			for i, st := range written[kind][f] {
				con := fmt.Sprintf("deviate %s: target.%s is written only when the statement carries %s", kind, f, leaf)
				if i > 0 {
					con = fmt.Sprintf("%s #%d", con, i+1)
				}
				at := st.Block()
				if st.Parent() != m.fn {
					if l := liftAll(st, m.fn, 0); len(l) == 1 {
						at = l[0].Block()
					}
				}
				present := false
				gs := guardsAt(at)
				if at != st.Block() {
					gs = append(gs, guardsAt(st.Block())...)
				}
				for _, g := range gs {
					if presenceTest(g, leaf) {
						present = true
					}
				}
				if present {
					obs = append(obs, ok(R, con, c.InstrPos(st), "under a presence test of the deviate entry's "+leaf))
				} else {
					obs = append(obs, bad(R, con, c.InstrPos(st), "no dominating test that the deviate statement carries "+leaf+": a deviate that names other properties only would reset or overwrite this one (or be refused because of it)"))
				}
			}
		}
	}
	// no target store outside the three writing kinds
	for k, fs := range written {
		if k == "add" || k == "replace" || k == "delete" {
			continue
		}
		for f, sts := range fs {
			obs = append(obs, bad(R, fmt.Sprintf("deviate %s: writes target.%s", k, f), c.InstrPos(sts[0]), "a target field is written outside the add/replace/delete arms"))
		}
	}
	return obs
}

func ruleDevFrame(c *Ctx) []Obligation {
	const R = "DEV.FRAME"
	m, why := c.devModel()
	if m == nil {
		return []Obligation{undecided(R, "deviation applier model", "-", why)}
	}
	var obs []Obligation
	entryT := c.MustNamed("yang", "Entry")
	// every store through an *Entry-rooted path must be rooted at the target
	nOther := 0
	c.eachInstrDeep(m.fn, func(in ssa.Instruction) {
		var addr ssa.Value
		switch x := in.(type) {
		case *ssa.Store:
			addr = x.Addr
		case *ssa.MapUpdate:
			addr = x.Map
		default:
			return
		}
		if _, isAlloc := addr.(*ssa.Alloc); isAlloc {
			return
		}
		root := resolveArg(rootOf(addr))
		if a, ok := root.(*ssa.Alloc); ok {
			_ = a
			return // local aggregates (varargs arrays, closures' cells)
		}
		if root == m.target {
			return
		}
		// does the address pass through an Entry?
		through := false
		for v := addr; ; {
			fa, ok := v.(*ssa.FieldAddr)
			if !ok {
				if u, oku := v.(*ssa.UnOp); oku {
					v = u.X
					continue
				}
				if ia, oki := v.(*ssa.IndexAddr); oki {
					v = ia.X
					continue
				}
				break
			}
			if owner, _, _ := fieldOf(fa); owner == entryT {
				through = true
			}
			v = fa.X
		}
		if through {
			nOther++
			obs = append(obs, bad(R, fmt.Sprintf("%s: store to an entry other than the target", c.FnName(m.fn)), c.InstrPos(in), "frame condition: a deviation may change its target only"))
		}
	})
	if nOther == 0 {
		obs = append(obs, ok(R, "the applier stores only through the looked-up target", c.Pos(m.fn.Pos()), "all entry-rooted stores have the Find result as root"))
	}
	// calls that mutate entries: only delete(target.Name) on target.Parent under !ignore, in the not-supported arm
	del := c.Fn("yang.(*Entry).delete")
	con := "not-supported removes exactly the target from its parent, unless the ignore option is set"
	if del == nil {
		obs = append(obs, undecided(R, con, "-", "(*Entry).delete not found"))
		return obs
	}
	dels := c.callsTo(m.fn, del)
	if len(dels) != 1 {
		obs = append(obs, bad(R, con, c.Pos(m.fn.Pos()), fmt.Sprintf("%d child removals in the applier", len(dels))))
		return obs
	}
	d := dels[0]
	args := d.Common().Args
	recvOK, keyOK, optOK, kindOK := false, false, false, false
	if _, f, base := loadedField(args[0]); f != nil && f.Name() == "Parent" && base == m.target {
		recvOK = true
	}
	if _, f, base := loadedField(args[1]); f != nil && f.Name() == "Name" && base == m.target {
		keyOK = true
	}
	for _, g := range guardsAt(d.Block()) {
		cond, br := stripNot(g.Cond, g.Branch)
		if call, ok := cond.(*ssa.Call); ok && !br {
			if cal := call.Call.StaticCallee(); cal != nil && strings.Contains(cal.Name(), "IgnoreDeviateNotSupported") {
				optOK = true
			}
		}
	}
	if ks := m.kindsAt(d.Block()); len(ks) == 1 && ks["not-supported"] {
		kindOK = true
	}
	if recvOK && keyOK && optOK && kindOK {
		obs = append(obs, ok(R, con, c.InstrPos(d), "target.Parent.delete(target.Name) under !hasIgnore… in the not-supported arm"))
	} else {
		obs = append(obs, bad(R, con, c.InstrPos(d), fmt.Sprintf("receiver is target.Parent: %v, key is target.Name: %v, under the option test: %v, in the not-supported arm only: %v", recvOK, keyOK, optOK, kindOK)))
	}
	// other repo calls with the target (or another entry) as a mutated argument
	c.ensureEffects()
	eachInstr(m.fn, func(in ssa.Instruction) {
		ci, ok := in.(ssa.CallInstruction)
		if !ok || ci == d {
			return
		}
		cal := ci.Common().StaticCallee()
		if cal == nil || !c.isRepoFn(cal) {
			return
		}
		if h := helperOf(cal); h != nil && cal.Parent() == nil && c.inlineRoot(cal) == m.fn {
			return // a private helper of the applier: its stores were judged above as the applier's own
		}
		for _, w := range c.WritesOf(cal) {
			if !strings.HasPrefix(w.Root, "p") || !strings.HasPrefix(w.Field, "Entry.") && !strings.HasPrefix(w.Field, "map:Entry.") {
				continue
			}
			if w.Field == "Entry.Errors" {
				continue
			}
			var idx int
			fmt.Sscanf(w.Root, "p%d", &idx)
			if cal.Name() == "Find" && (strings.HasPrefix(w.Field, "Entry.RPC") || w.Field == "RPCEntry.Input" || w.Field == "RPCEntry.Output") {
				continue // lazily created rpc input/output: recorded under READ.PURE
			}
			obs = append(obs, bad(R, fmt.Sprintf("%s: call to %s mutates %s", c.FnName(m.fn), c.FnName(cal), w.Field), c.InstrPos(in), "frame condition: only the named properties of the target may change"))
		}
	})
	return obs
}

func ruleDevTarget(c *Ctx) []Obligation {
	const R = "DEV.TARGET"
	m, why := c.devModel()
	if m == nil {
		return []Obligation{undecided(R, "deviation applier model", "-", why)}
	}
	con := "the target of each deviation is the direct result of a fresh path lookup"
	// every use of the target in the arms must be the Find call value itself, not a phi / map lookup that can carry
	// a result from an earlier iteration (earlier deviations may have removed or replaced nodes)
	h := loopHeaderOf(m.find.Block())
	if h == nil {
		return []Obligation{undecided(R, con, c.InstrPos(m.find), "the lookup is not inside the per-deviation loop")}
	}
	stale := ""
	eachInstr(m.fn, func(in ssa.Instruction) {
		if stale != "" {
			return
		}
		// a local map holding entries, written or read inside the loop
		switch x := in.(type) {
		case *ssa.MapUpdate:
			if isEntryPtr(c, x.Value.Type()) && h.Dominates(in.Block()) {
				if _, isMake := x.Map.(*ssa.MakeMap); isMake {
					stale = "lookup results are stored in a map @ " + c.InstrPos(in)
				}
			}
		case *ssa.Phi:
			if isEntryPtr(c, x.Type()) && x.Block() != h {
				for _, e := range x.Edges {
					if e == m.target {
						for _, e2 := range x.Edges {
							if _, isLookup := e2.(*ssa.Extract); isLookup {
								stale = "the target may come from a cache instead of the lookup @ " + c.InstrPos(in)
							}
							if _, isLookup := e2.(*ssa.Lookup); isLookup {
								stale = "the target may come from a cache instead of the lookup @ " + c.InstrPos(in)
							}
						}
					}
				}
			}
		}
	})
	// the lookup argument is this deviation's own path
	pathOK := false
	if len(m.find.Call.Args) == 2 {
		if _, f, _ := loadedField(m.find.Call.Args[1]); f != nil && f.Name() == "DeviatedPath" {
			pathOK = true
		}
	}
	switch {
	case stale != "":
		return []Obligation{bad(R, con, c.InstrPos(m.find), stale+": an earlier not-supported may already have removed the node, and the stale entry would be deviated silently")}
	case !pathOK:
		return []Obligation{bad(R, con, c.InstrPos(m.find), "the lookup does not use the deviation's own DeviatedPath")}
	}
	return []Obligation{ok(R, con, c.InstrPos(m.find), "e.Find(d.DeviatedPath) in every iteration; no entry-valued memo in the loop")}
}

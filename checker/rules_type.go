package main

// rules_type.go: TYPE.COPY, ALIAS.APPEND.

import (
	"fmt"
	"go/token"
	"go/types"
	"sort"
	"strings"

	"golang.org/x/tools/go/ssa"
)

func init() {
	register(&Rule{Name: "TYPE.COPY", Props: []string{"C09"}, Floor: 3,
		Doc: "a resolved type starts as a whole-struct copy of its parent's resolved type and overlays only the listed attributes",
		Run: ruleTypeCopy})
	register(&Rule{Name: "ALIAS.APPEND", Props: []string{"C09", "C06", "C08", "C19"}, Floor: 2,
		Doc: "after a whole-struct copy, slice fields still alias the original's backing array: appending or storing into them writes shared storage",
		Run: ruleAliasAppend})
}

// Attributes a derivation step may overlay on the inherited type (property C09 and DESIGN.md §3.7).
var specTypedefOverlay = []string{"Base", "Default", "HasDefault", "IdentityBase", "Name", "Root", "Units"}
var specTypeUseOverlay = []string{"Base", "Bit", "Enum", "FractionDigits", "IdentityBase", "Length", "OptionalInstance", "POSIXPattern", "Path", "Pattern", "Range", "Root", "Type"}

// structCopies: allocations `y := *p` of named struct type (the alloc receives a Store whose value is a load through a pointer).
type structCopy struct {
	fn    *ssa.Function
	alloc *ssa.Alloc
	from  ssa.Value // the pointer loaded
	named *types.Named
	store *ssa.Store
}

func (c *Ctx) structCopies() []structCopy {
	var out []structCopy
	for _, fn := range c.Funcs {
		eachInstr(fn, func(in ssa.Instruction) {
			st, ok := in.(*ssa.Store)
			if !ok {
				return
			}
			a, ok := st.Addr.(*ssa.Alloc)
			if !ok {
				return
			}
			n := namedOf(a.Type())
			if n == nil {
				return
			}
			if _, isStruct := n.Underlying().(*types.Struct); !isStruct {
				return
			}
			u, ok := st.Val.(*ssa.UnOp)
			if !ok || u.Op != token.MUL {
				return
			}
			if _, isPtr := u.X.Type().Underlying().(*types.Pointer); !isPtr {
				return
			}
			if _, isAlloc := u.X.(*ssa.Alloc); isAlloc {
				return
			}
			out = append(out, structCopy{fn, a, u.X, n, st})
		})
	}
	return out
}

func ruleTypeCopy(c *Ctx) []Obligation {
	const R = "TYPE.COPY"
	var obs []Obligation
	yt := c.MustNamed("yang", "YangType")
	typeT := c.MustNamed("yang", "Type")
	typedefT := c.MustNamed("yang", "Typedef")
	fTypeYT, fTdYT := FieldVar(typeT, "YangType"), FieldVar(typedefT, "YangType")
	copies := c.structCopies()
	for _, site := range []struct {
		fnName   string
		field    *types.Var
		overlay  []string
		what     string
		required []string
	}{
		{"yang.(*Typedef).resolve", fTdYT, specTypedefOverlay, "typedef", []string{"Base", "Default", "HasDefault", "Name", "Units"}},
		{"yang.(*Type).resolve", fTypeYT, specTypeUseOverlay, "type use", []string{"Base", "Bit", "Enum", "FractionDigits", "Length", "Path", "Pattern", "Range", "Type"}},
	} {
		fn := c.Fn(site.fnName)
		if fn == nil {
			obs = append(obs, undecided(R, site.what+" resolver", "-", site.fnName+" not found"))
			continue
		}
		sts := storesToField(fn, site.field)
		con := fmt.Sprintf("%s: the resolved type is a whole-struct copy of the parent's resolved type", site.what)
		if len(sts) == 0 {
			obs = append(obs, bad(R, con, c.Pos(fn.Pos()), "the resolver never stores a YangType"))
			continue
		}
		for _, st := range sts {
			a, isA := st.Val.(*ssa.Alloc)
			var cp *structCopy
			for i := range copies {
				if isA && copies[i].alloc == a {
					cp = &copies[i]
				}
			}
			if cp == nil || cp.named != yt {
				obs = append(obs, bad(R, con, c.InstrPos(st), "the stored type is built from scratch: units, default, fraction-digits, patterns, enum/bit sets, path and union members of the derivation chain are dropped"))
				continue
			}
			// the copied pointer is the parent's resolved type: a load of a YangType field of Typedef/Type
			_, pf, _ := loadedField(cp.from)
			if pf != fTypeYT && pf != fTdYT {
				obs = append(obs, bad(R, con, c.InstrPos(cp.store), "the copy is not taken from the parent's resolved YangType"))
				continue
			}
			obs = append(obs, ok(R, con, c.InstrPos(cp.store), "y := *parent.YangType"))
			// overlay set
			got := map[string]bool{}
			for _, r := range *cp.alloc.Referrers() {
				if fa, okf := r.(*ssa.FieldAddr); okf {
					_, f, _ := fieldOf(fa)
					for _, rr := range *fa.Referrers() {
						if s2, oks := rr.(*ssa.Store); oks && s2.Addr == fa {
							got[f.Name()] = true
						}
					}
				}
			}
			var extra []string
			allowed := map[string]bool{}
			for _, f := range site.overlay {
				allowed[f] = true
			}
			for f := range got {
				if !allowed[f] {
					extra = append(extra, f)
				}
			}
			sort.Strings(extra)
			con2 := fmt.Sprintf("%s: only the listed attributes are overlaid on the inherited type", site.what)
			if len(extra) == 0 {
				var gl []string
				for f := range got {
					gl = append(gl, f)
				}
				sort.Strings(gl)
				obs = append(obs, ok(R, con2, c.InstrPos(cp.store), "overlays "+strings.Join(gl, ", ")))
			} else {
				obs = append(obs, bad(R, con2, c.InstrPos(cp.store), "the derivation step also overwrites "+strings.Join(extra, ", ")+", which should be inherited (nearest definition wins only for the listed attributes)"))
			}
			// the attributes the nearest definition must win for are overlaid at all
			var missing []string
			for _, f := range site.required {
				if !got[f] {
					missing = append(missing, f)
				}
			}
			con3 := fmt.Sprintf("%s: every attribute the statement can restate is overlaid", site.what)
			if len(missing) == 0 {
				obs = append(obs, ok(R, con3, c.InstrPos(cp.store), strings.Join(site.required, ", ")))
			} else {
				obs = append(obs, bad(R, con3, c.InstrPos(cp.store), "the derivation step never writes "+strings.Join(missing, ", ")+" of the copy: what the statement says about it is ignored and the parent's value (or none) is kept"))
			}
			// inside the arm that handles one restriction (under `statement.Range != nil`) the same-typed sibling of
			// the copy (Length) is not touched, and vice versa
			for _, pair := range [][2]string{{"Range", "Length"}, {"Length", "Range"}} {
				fStmt := FieldVar(namedOf(fn.Params[0].Type().(*types.Pointer).Elem()), pair[0])
				if fStmt == nil {
					continue
				}
				for _, r := range *cp.alloc.Referrers() {
					fa, okf := r.(*ssa.FieldAddr)
					if !okf {
						continue
					}
					if _, f, _ := fieldOf(fa); f == nil || f.Name() != pair[1] {
						continue
					}
					inArm := false
					for _, g := range guardsAt(fa.Block()) {
						x, isEq, okn := nilTest(g.Cond)
						if !okn || isEq == g.Branch {
							continue
						}
						if _, gf, base := loadedField(x); gf == fStmt && (isParamN(fn, base, 0) || isParamN(fn, resolveArg(rootOf(base)), 0)) {
							inArm = true
						}
					}
					if inArm {
						obs = append(obs, bad(R, fmt.Sprintf("%s: the %s arm leaves the inherited %s alone", site.what, strings.ToLower(pair[0]), pair[1]), c.InstrPos(fa),
							"the arm that applies the statement's "+strings.ToLower(pair[0])+" restriction reads or writes the copy's "+pair[1]+": the two restrictions are the same Go type, and one is being taken for the other"))
					}
				}
			}
			// an attribute taken from an optional substatement is overlaid on the branch where the statement has it
			for _, r := range *cp.alloc.Referrers() {
				fa, okf := r.(*ssa.FieldAddr)
				if !okf {
					continue
				}
				_, f, _ := fieldOf(fa)
				for _, rr := range *fa.Referrers() {
					s2, oks := rr.(*ssa.Store)
					if !oks || s2.Addr != fa {
						continue
					}
					// `copy.F = statement.G != nil`: computed presence stored unconditionally replaces the inherited
					// value by false whenever the statement does not restate the substatement
					if x, _, okn := nilTest(s2.Val); okn {
						if _, gf, base := loadedField(x); gf != nil && (isParamN(fn, base, 0) || isParamN(fn, resolveArg(rootOf(base)), 0)) {
							obs = append(obs, bad(R, fmt.Sprintf("%s: %s is overlaid where the statement carries it", site.what, f.Name()), c.InstrPos(s2),
								"the attribute is set to `statement."+recordedFieldName(gf)+" != nil` on every path: a derivation step that does not restate "+recordedFieldName(gf)+" clears what the chain above it established"))
						}
					}
					for _, g := range guardsAt(s2.Block()) {
						// list-valued substatements (enum, bit, …): the test is `the statement has at least one`
						if bo, isB := g.Cond.(*ssa.BinOp); isB && isLenOf(bo.X) {
							if _, lf, lbase := loadedField(bo.X.(*ssa.Call).Call.Args[0]); lf != nil && recordedFieldName(lf) == f.Name() && (isParamN(fn, lbase, 0) || isParamN(fn, resolveArg(rootOf(lbase)), 0)) {
								if k, okk := constInt(bo.Y); okk {
									op := bo.Op
									if !g.Branch {
										op = map[token.Token]token.Token{token.LSS: token.GEQ, token.GTR: token.LEQ, token.LEQ: token.GTR, token.GEQ: token.LSS, token.EQL: token.NEQ, token.NEQ: token.EQL}[op]
									}
									con4 := fmt.Sprintf("%s: %s is overlaid where the statement carries it", site.what, f.Name())
									if k == 0 && (op == token.GTR || op == token.NEQ) || k == 1 && op == token.GEQ {
										obs = append(obs, ok(R, con4, c.InstrPos(s2), "under `len(statement."+f.Name()+") > 0`"))
									} else {
										obs = append(obs, bad(R, con4, c.InstrPos(s2), fmt.Sprintf("the overlay is made under `len(statement.%s) %s %d`, which is not `the statement has at least one`: a statement with a single member keeps the inherited set, or one without members replaces it by an empty set", f.Name(), op, k)))
									}
								}
							}
							continue
						}
						x, isEq, okn := nilTest(g.Cond)
						if !okn {
							continue
						}
						_, gf, base := loadedField(x)
						if gf == nil || recordedFieldName(gf) != f.Name() || !(isParamN(fn, base, 0) || isParamN(fn, resolveArg(rootOf(base)), 0)) {
							continue
						}
						con4 := fmt.Sprintf("%s: %s is overlaid where the statement carries it", site.what, f.Name())
						if isEq != g.Branch {
							obs = append(obs, ok(R, con4, c.InstrPos(s2), "under `statement."+f.Name()+" != nil`"))
						} else {
							obs = append(obs, bad(R, con4, c.InstrPos(s2), "the overlay happens on the branch where the statement does NOT have a "+f.Name()+" substatement: a statement that has one keeps the inherited value, one that has none overwrites it"))
						}
					}
				}
			}
		}
	}
	return obs
}

// sharedCopyTypes: struct types that are whole-struct copied somewhere while the original stays reachable.
func (c *Ctx) sharedCopyTypes() map[*types.Named]bool {
	out := map[*types.Named]bool{}
	for _, cp := range c.structCopies() {
		out[cp.named] = true
	}
	return out
}

func ruleAliasAppend(c *Ctx) []Obligation {
	const R = "ALIAS.APPEND"
	var obs []Obligation
	copies := c.structCopies()
	// (A) inside a function that makes a copy: appends / element stores on slice fields of the copy that were not re-allocated first
	for _, cp := range copies {
		st := cp.named.Underlying().(*types.Struct)
		for i := 0; i < st.NumFields(); i++ {
			f := st.Field(i)
			if _, isSlice := f.Type().Underlying().(*types.Slice); !isSlice {
				continue
			}
			// uses of copy.f as append destination / element store base
			for _, r := range *cp.alloc.Referrers() {
				fa, okf := r.(*ssa.FieldAddr)
				if !okf {
					continue
				}
				if _, ff, _ := fieldOf(fa); ff != f {
					continue
				}
				for _, rr := range *fa.Referrers() {
					ld, okl := rr.(*ssa.UnOp)
					if !okl {
						continue
					}
					for _, use := range *ld.Referrers() {
						hazard := ""
						var at ssa.Instruction
						switch x := use.(type) {
						case *ssa.Call:
							if bi, okb := x.Call.Value.(*ssa.Builtin); okb && bi.Name() == "append" && x.Call.Args[0] == ssa.Value(ld) {
								hazard = "append"
								at = x
							}
						case *ssa.IndexAddr:
							for _, u2 := range *x.Referrers() {
								if s2, oks := u2.(*ssa.Store); oks && s2.Addr == x {
									hazard = "element store"
									at = s2
								}
							}
						}
						if hazard == "" {
							continue
						}
						con := fmt.Sprintf("%s: %s on %s.%s of a struct copy", c.FnName(cp.fn), hazard, objName(cp.named.Obj()), f.Name())
						// re-allocated before? a store of a fresh slice to copy.f dominating this use
						realloc := false
						for _, s3 := range storesToField(cp.fn, f) {
							if rootOf(s3.Addr) != ssa.Value(cp.alloc) || !dominates(s3, at) {
								continue
							}
							if isFreshSlice(s3.Val) {
								realloc = true
							}
						}
						if realloc {
							obs = append(obs, ok(R, con, c.InstrPos(at), "the slice was re-allocated (clipped or copied) before being extended"))
						} else {
							obs = append(obs, bad(R, con, c.InstrPos(at), "the slice still shares its backing array with the original: two values derived from one original overwrite each other's appended element"))
						}
					}
				}
			}
		}
	}
	// (B) anywhere: append onto a re-slice x.F[:n] of a field of a type that is struct-copied (explicit storage reuse)
	shared := c.sharedCopyTypes()
	for _, fn := range c.Funcs {
		eachInstr(fn, func(in ssa.Instruction) {
			call, ok := in.(*ssa.Call)
			if !ok {
				return
			}
			bi, okb := call.Call.Value.(*ssa.Builtin)
			if !okb || bi.Name() != "append" {
				return
			}
			sl, oks := call.Call.Args[0].(*ssa.Slice)
			if !oks {
				return
			}
			owner, f, base := loadedField(sl.X)
			if f == nil || !shared[owner] {
				return
			}
			if c.freshRootAt(base, in, 0) {
				return
			}
			con := fmt.Sprintf("%s: append onto a re-slice of %s (storage reuse)", c.FnName(fn), fieldKey(owner, f))
			obs = append(obs, bad(R, con, c.InstrPos(in), "values of type "+objName(owner.Obj())+" are copied by value elsewhere, so this field's backing array may be shared with other copies; writing into it in place changes them too"))
		})
	}
	obs = append(obs, ok(R, "struct copies enumerated", "-", fmt.Sprintf("%d whole-struct copies in %d functions", len(copies), len(c.Funcs))))
	return obs
}

// isFreshSlice: v is a newly allocated slice: make, a composite literal, append(nil/[]T{}, …), x[:len:len] (clip), slices.Clone.
func isFreshSlice(v ssa.Value) bool {
	switch x := v.(type) {
	case *ssa.MakeSlice:
		return true
	case *ssa.Slice:
		if x.Max != nil {
			// a three-index slice clips the capacity only if it ends where its length ends (s[:n:n]), and it keeps
			// the content only if n is the length of the very slice it cuts
			if x.High == nil || !sameExpr(x.High, x.Max) {
				return false
			}
			if call, isC := x.Max.(*ssa.Call); isC && isLenOf(call) && !sameExpr(call.Call.Args[0], x.X) {
				return false
			}
			return true
		}
		_, isAlloc := x.X.(*ssa.Alloc)
		return isAlloc
	case *ssa.Call:
		if bi, ok := x.Call.Value.(*ssa.Builtin); ok && bi.Name() == "append" {
			a0 := x.Call.Args[0]
			if isNilConst(a0) {
				return true
			}
			return isFreshSlice(a0)
		}
		if calleeIs(x, "slices", "Clone") || calleeIs(x, "slices", "Clip") {
			return true
		}
	case *ssa.Const:
		return x.Value == nil
	}
	return false
}

package main

import (
	"go/token"
	"go/types"

	"golang.org/x/tools/go/ssa"
)

// reflectFieldName: the name of the structure field the reflect.Value v stands for, when the code says so: v is
// FieldByName("X"); or FieldByIndex(p) where p is the Index that FieldByName("X") gave, remembered in a structure field
// or in a map under the key "X"; or the result of a private function that is handed the name and answers with one of
// these for it. env binds string parameters of such a function to the constants it was called with.
func reflectFieldName(v ssa.Value, env map[*ssa.Parameter]string, depth int) (string, bool) {
	if depth > 3 {
		return "", false
	}
	strOf := func(x ssa.Value) (string, bool) {
		if s, isK := constString(x); isK {
			return s, true
		}
		if p, isP := x.(*ssa.Parameter); isP {
			s, has := env[p]
			return s, has
		}
		return "", false
	}
	if phi, isPhi := v.(*ssa.Phi); isPhi {
		name := ""
		for _, e := range phi.Edges {
			n, okn := reflectFieldName(e, env, depth)
			if !okn || name != "" && n != name {
				return "", false
			}
			name = n
		}
		return name, name != ""
	}
	call, isC := v.(*ssa.Call)
	if !isC {
		return "", false
	}
	switch {
	case calleeIs(call, "reflect", "FieldByName") && len(call.Call.Args) >= 2:
		return strOf(call.Call.Args[1])
	case calleeIs(call, "reflect", "FieldByIndex") && len(call.Call.Args) >= 2:
		return indexPathName(call.Call.Args[1], strOf)
	}
	cal := call.Call.StaticCallee()
	if cal == nil || cal.Blocks == nil || cal.Pkg == nil || call.Parent().Pkg != cal.Pkg {
		return "", false
	}
	env2 := map[*ssa.Parameter]string{}
	for i, a := range call.Call.Args {
		if i < len(cal.Params) {
			if s, oks := strOf(a); oks {
				env2[cal.Params[i]] = s
			}
		}
	}
	name := ""
	for _, b := range cal.Blocks {
		rt, isR := b.Instrs[len(b.Instrs)-1].(*ssa.Return)
		if !isR || len(rt.Results) != 1 {
			continue
		}
		res := rt.Results[0]
		// the zero Value (no such field) answers IsValid with false and is not asserted on
		if isZeroStructValue(res) {
			continue
		}
		n, okn := reflectFieldName(res, env2, depth+1)
		if !okn || name != "" && n != name {
			return "", false
		}
		name = n
	}
	return name, name != ""
}

func isZeroStructValue(v ssa.Value) bool {
	switch x := v.(type) {
	case *ssa.Const:
		return x.Value == nil
	case *ssa.UnOp:
		if a, isA := x.X.(*ssa.Alloc); isA && x.Op == token.MUL {
			for _, r := range *a.Referrers() {
				if r != ssa.Instruction(x) {
					if _, isDbg := r.(*ssa.DebugRef); !isDbg {
						return false
					}
				}
			}
			return true
		}
	}
	return false
}

// indexPathName: p is the Index of the StructField that FieldByName(X) answered with — directly, through a structure
// field every store into which is such an Index for one and the same X, or through a map whose entries are all filed
// under the name they were looked up with and which is asked for the key X.
func indexPathName(p ssa.Value, strOf func(ssa.Value) (string, bool)) (string, bool) {
	fromLookup := func(x ssa.Value) ssa.Value {
		// the name handed to the FieldByName call whose StructField's Index x is
		var arg ssa.Value
		operandClosure(x, func(y ssa.Value) {
			if call, isC := y.(*ssa.Call); isC && arg == nil {
				if call.Call.IsInvoke() && call.Call.Method.Name() == "FieldByName" && len(call.Call.Args) == 1 {
					arg = call.Call.Args[0]
				}
			}
		})
		return arg
	}
	if ex, isE := p.(*ssa.Extract); isE {
		p = ex.Tuple
	}
	switch x := p.(type) {
	case *ssa.Lookup:
		if _, isMap := x.X.Type().Underlying().(*types.Map); !isMap {
			return "", false
		}
		key, okk := strOf(x.Index)
		if !okk {
			return "", false
		}
		// every entry of the maps of this type that the package files is filed under its own name
		n := 0
		okAll := true
		for _, f := range curCtx.Funcs {
			if f.Pkg != x.Parent().Pkg {
				continue
			}
			eachInstr(f, func(in ssa.Instruction) {
				mu, isMU := in.(*ssa.MapUpdate)
				if !isMU || !types.Identical(mu.Map.Type(), x.X.Type()) {
					return
				}
				n++
				if arg := fromLookup(mu.Value); arg == nil || arg != mu.Key {
					okAll = false
				}
			})
		}
		return key, okAll && n > 0
	case *ssa.UnOp:
		_, f, _ := loadedField(x)
		if f == nil {
			return "", false
		}
		name := ""
		n := 0
		okAll := true
		for _, fn := range curCtx.Funcs {
			if fn.Pkg != x.Parent().Pkg {
				continue
			}
			eachInstr(fn, func(in ssa.Instruction) {
				st, isS := in.(*ssa.Store)
				if !isS {
					return
				}
				if _, f2, _ := fieldOf(st.Addr); f2 != f {
					return
				}
				n++
				arg := fromLookup(st.Val)
				if arg == nil {
					okAll = false
					return
				}
				s, oks := constString(arg)
				if !oks || name != "" && s != name {
					okAll = false
				}
				name = s
			})
		}
		return name, okAll && n > 0
	}
	if arg := fromLookup(p); arg != nil {
		return strOf(arg)
	}
	return "", false
}

package main

// rules_h2.go: rules written from the second bug-hunt wave (hunt/h2, DESIGN §5.2a): ID.DUPNAME (C11/finding3),
// SCHEMA.EXTPARENT (C03/finding3), SCHEMA.LEAFSTMT (C03/finding2, recorded finding).

import (
	"fmt"
	"go/types"
	"sort"
	"strings"

	"golang.org/x/tools/go/ssa"
)

func init() {
	register(&Rule{Name: "ID.DUPNAME", Props: []string{"C11"}, Floor: 2,
		Doc: "an identity is filed only after its name was looked up in a table that spans the module and all its submodules; a name that is taken is reported, not overwritten",
		Run: ruleIDDupName})
	register(&Rule{Name: "SCHEMA.EXTPARENT", Props: []string{"C03"}, Floor: 2,
		Doc: "a prefixed substatement filed in an extension list records the node it was filed under, and ParentNode of a statement returns that record",
		Run: ruleSchemaExtParent})
	register(&Rule{Name: "SCHEMA.LEAFSTMT", Props: []string{"C03"}, Floor: 1,
		Doc: "the node type shared by the argument-only statements has no substatement slot that RFC 7950 denies to one of the keywords built with it",
		Run: ruleSchemaLeafStmt})
}

// ---------------------------------------------------------------- ID.DUPNAME

func ruleIDDupName(c *Ctx) []Obligation {
	const R = "ID.DUPNAME"
	fn := c.Fn("yang.(*Modules).resolveIdentities")
	dictT := c.Named("yang", "identityDictionary")
	idT := c.Named("yang", "Identity")
	if fn == nil || dictT == nil || idT == nil {
		return []Obligation{undecided(R, "identity filing", "-", "resolveIdentities / identityDictionary / Identity not found")}
	}
	fDict, fName := FieldVar(dictT, "dict"), FieldVar(idT, "Name")
	if fDict == nil || fName == nil {
		return []Obligation{undecided(R, "identity filing", "-", "identityDictionary.dict / Identity.Name not found")}
	}
	ups := c.mapUpdatesOnFieldDeep(fn, fDict)
	if len(ups) == 0 {
		return []Obligation{undecided(R, "identity filing", c.Pos(fn.Pos()), "no insertion into the identity dictionary found")}
	}
	sort.Slice(ups, func(i, j int) bool { return ups[i].Pos() < ups[j].Pos() })
	var obs []Obligation
	for n, mu := range ups {
		suffix := ""
		if len(ups) > 1 {
			suffix = fmt.Sprintf(" #%d", n+1)
		}
		con := "resolveIdentities: an identity is filed only when its name is not yet taken in its module" + suffix
		con2 := "resolveIdentities: the table of taken names spans a module and all its submodules, and nothing else" + suffix
		// a lookup whose key is the identity's name (or the key it is filed under) on every path to the filing, and
		// a test of its outcome one branch of which skips the filing (until the next lookup) and makes an error
		var lks []*ssa.Lookup
		c.eachInstrDeep(fn, func(in ssa.Instruction) {
			lk, isL := in.(*ssa.Lookup)
			if !isL {
				return
			}
			if _, isMap := lk.X.Type().Underlying().(*types.Map); !isMap {
				return
			}
			byName := lk.Index == mu.Key
			operandClosure(lk.Index, func(y ssa.Value) {
				if _, f, _ := loadedField(y); f == fName {
					byName = true
				}
			})
			if byName {
				lks = append(lks, lk)
			}
		})
		var table ssa.Value
		var testAt *ssa.If
		silent := false
		for _, lk := range lks {
			// the filing as seen from the function that holds the lookup
			sites := liftAll(mu, lk.Parent(), 0)
			if len(sites) == 0 || testAt != nil {
				continue
			}
			okAll := true
			for _, site := range sites {
				if !dominates(lk, site) {
					okAll = false
				}
			}
			if !okAll {
				continue
			}
			avoid := map[*ssa.BasicBlock]bool{lk.Block(): true}
			for _, b := range lk.Parent().Blocks {
				ifi, isIf := b.Instrs[len(b.Instrs)-1].(*ssa.If)
				if !isIf || testAt != nil {
					continue
				}
				fromLk := false
				operandClosureDeep(ifi.Cond, func(x ssa.Value) {
					if x == ssa.Value(lk) {
						fromLk = true
					}
				})
				if !fromLk || !(b == lk.Block() || blockReaches(lk.Block(), b, nil)) {
					continue
				}
				for _, s := range b.Succs {
					skips := true
					for _, site := range sites {
						if s == site.Block() || blockReaches(s, site.Block(), avoid) {
							skips = false
						}
					}
					if !skips {
						continue
					}
					// an error value is made on the skipping branch
					made := false
					seen := map[*ssa.BasicBlock]bool{}
					stack := []*ssa.BasicBlock{s}
					for len(stack) > 0 && !made {
						x := stack[len(stack)-1]
						stack = stack[:len(stack)-1]
						if seen[x] || avoid[x] {
							continue
						}
						seen[x] = true
						for _, in := range x.Instrs {
							if v, isV := in.(ssa.Value); isV && isErrorType(v.Type()) {
								switch in.(type) {
								case *ssa.Call, *ssa.MakeInterface:
									made = true
								}
							}
						}
						stack = append(stack, x.Succs...)
					}
					if made {
						testAt, table = ifi, lk.X
					} else {
						silent = true
					}
				}
			}
		}
		switch {
		case testAt != nil:
			obs = append(obs, ok(R, con, c.InstrPos(mu), "a lookup by the identity's name precedes the filing, and the branch of "+c.InstrPos(testAt)+" that skips the filing makes an error"))
		case silent:
			obs = append(obs, bad(R, con, c.InstrPos(mu), "the branch that finds the name taken makes no error: the duplicate is dropped silently"))
			continue
		default:
			obs = append(obs, bad(R, con, c.InstrPos(mu), "the insertion is not under a test of a lookup by the identity's name: a second identity of the same name in the module or one of its submodules silently takes the place of the first, whose derivations vanish from every list (and whose undefined base or cycle goes unreported)"))
			continue
		}
		// the table: the dictionary itself (reset per run, STATE.RESET), or a map made once per module visit —
		// before every filing site of that module, inside the loop over the modules
		if _, f, _ := loadedField(table); f == fDict {
			obs = append(obs, ok(R, con2, c.InstrPos(mu), "the lookup is on the dictionary itself"))
			continue
		}
		var mks []*ssa.MakeMap
		operandClosure(table, func(x ssa.Value) {
			if m, isM := x.(*ssa.MakeMap); isM {
				mks = append(mks, m)
			}
		})
		if len(mks) == 0 {
			obs = append(obs, undecided(R, con2, c.InstrPos(mu), "cannot tell where the table of taken names is made"))
			continue
		}
		sort.Slice(mks, func(i, j int) bool { return mks[i].Pos() < mks[j].Pos() })
		verdict := ok(R, con2, c.InstrPos(mks[0]), "made inside the loop over the modules, before all filing sites")
		for _, mk := range mks {
			sites := liftAll(mu, mk.Parent(), 0)
			if len(sites) == 0 {
				verdict = undecided(R, con2, c.InstrPos(mk), "the table is made in a function the filing is not inlined into")
				break
			}
			if loopHeaderOf(mk.Block()) == nil {
				verdict = bad(R, con2, c.InstrPos(mk), "the table is made once for all modules: two loaded revisions of one module, or two modules that define the same identity name, are reported as duplicates of each other")
				break
			}
			all := true
			for _, s := range sites {
				if !dominates(mk, s) {
					all = false
				}
			}
			if !all {
				verdict = bad(R, con2, c.InstrPos(mk), "the table is made anew between two filing sites of one module (per submodule, say): the same name in the module and in a submodule is not noticed")
				break
			}
		}
		obs = append(obs, verdict)
	}
	return obs
}

// ---------------------------------------------------------------- SCHEMA.EXTPARENT

func ruleSchemaExtParent(c *Ctx) []Obligation {
	const R = "SCHEMA.EXTPARENT"
	stT := c.Named("yang", "Statement")
	it := c.Fn("yang.initTypes")
	pn := c.Fn("yang.(*Statement).ParentNode")
	con1 := "(*Statement).ParentNode returns the node recorded in the statement"
	con2 := "the extension filer records the enclosing node in the statement it files"
	if stT == nil || it == nil || pn == nil {
		return []Obligation{undecided(R, con1, "-", "Statement / initTypes / (*Statement).ParentNode not found")}
	}
	var obs []Obligation
	// (1) the field ParentNode returns
	var link *types.Var
	constNil := true
	eachInstr(pn, func(in ssa.Instruction) {
		r, isR := in.(*ssa.Return)
		if !isR || len(r.Results) != 1 {
			return
		}
		v := resolveSpill(r.Results[0], r)
		if isNilConst(v) {
			return
		}
		constNil = false
		operandClosure(v, func(x ssa.Value) {
			if _, f, base := loadedField(x); f != nil && link == nil && base != nil && isParamN(pn, rootOf(base), 0) {
				link = f
			}
		})
	})
	switch {
	case link != nil:
		obs = append(obs, ok(R, con1, c.Pos(pn.Pos()), "returns Statement."+recordedFieldName(link)))
	case constNil:
		obs = append(obs, bad(R, con1, c.Pos(pn.Pos()), "ParentNode is the constant nil: a prefixed substatement kept in an extension list has no link to its enclosing node — NodePath, RootNode and FindModuleByPrefix cannot be used on it, the prefix of its own keyword cannot be resolved from it"))
		return obs
	default:
		obs = append(obs, undecided(R, con1, c.Pos(pn.Pos()), "ParentNode returns something that is not a field of the statement"))
		return obs
	}
	// (2) the filer: the closure of initTypes that appends its statement parameter to a field through reflection
	found := false
	for _, cl := range it.AnonFuncs {
		if len(cl.Params) < 2 || namedOf(cl.Params[0].Type()) != stT {
			continue
		}
		// the filer appends the statement itself; the builders of list-valued slots append the node built from it
		appends, builds := false, false
		eachInstr(cl, func(in ssa.Instruction) {
			if call, isC := in.(*ssa.Call); isC {
				if cal := call.Call.StaticCallee(); cal != nil && cal.Name() == "Append" && cal.Pkg != nil && cal.Pkg.Pkg.Path() == "reflect" {
					appends = true
				}
				if cal := call.Call.StaticCallee(); cal != nil && cal == c.Fn("yang.build") {
					builds = true
				}
			}
		})
		if !appends || builds {
			continue
		}
		found = true
		var st *ssa.Store
		for _, s := range storesToField(cl, link) {
			if _, _, base := fieldOf(s.Addr); base != nil && rootOf(base) == ssa.Value(cl.Params[0]) {
				st = s
			}
		}
		if st == nil {
			obs = append(obs, bad(R, con2, c.Pos(cl.Pos()), "the statement is appended to the extension list without Statement."+recordedFieldName(link)+" being set: ParentNode of an extension statement stays nil"))
			continue
		}
		fromNode := false
		operandClosure(st.Val, func(x ssa.Value) {
			if x == ssa.Value(cl.Params[1]) {
				fromNode = true
			}
		})
		if fromNode {
			obs = append(obs, ok(R, con2, c.InstrPos(st), "set from the node under construction (the filer's second parameter)"))
		} else {
			obs = append(obs, bad(R, con2, c.InstrPos(st), "the recorded value does not come from the node under construction (the builder's parent argument is the enclosing node's own parent: the link would skip a level)"))
		}
	}
	if !found {
		obs = append(obs, undecided(R, con2, c.Pos(it.Pos()), "no closure of initTypes appends a statement to a list through reflection"))
	}
	return obs
}

// ---------------------------------------------------------------- SCHEMA.LEAFSTMT

// RFC 7950: of the statements goyang builds as a bare Value, only these take substatements at all.
var specLeafStmtSubs = map[string][]string{
	"when": {"description", "reference"},
}

func ruleSchemaLeafStmt(c *Ctx) []Obligation {
	const R = "SCHEMA.LEAFSTMT"
	s := c.Schema()
	valT := c.Named("yang", "Value")
	if valT == nil || s.Types[valT] == nil {
		return []Obligation{undecided(R, "Value", "-", "yang.Value not found in the schema")}
	}
	nt := s.Types[valT]
	kws := append([]string(nil), nt.Keywords...)
	sort.Strings(kws)
	var obs []Obligation
	for _, f := range nt.Fields {
		switch f.Keyword {
		case "Name", "Statement", "Parent", "Ext":
			continue
		}
		con := fmt.Sprintf("Value: substatement %q is allowed by RFC 7950 under every keyword built as a Value", f.Keyword)
		var deny []string
		for _, kw := range kws {
			allowed := false
			for _, a := range specLeafStmtSubs[kw] {
				if a == f.Keyword {
					allowed = true
				}
			}
			if !allowed {
				deny = append(deny, kw)
			}
		}
		if len(deny) == 0 {
			obs = append(obs, ok(R, con, c.Pos(f.Var.Pos()), fmt.Sprintf("%d keyword(s)", len(kws))))
		} else {
			obs = append(obs, bad(R, con, c.Pos(f.Var.Pos()), fmt.Sprintf("the slot is shared by all %d keywords built as a Value, and RFC 7950 gives %d of them no such substatement (%s): `prefix m { %s \"d\"; }` is accepted, recursively, where any other keyword is refused as unknown", len(kws), len(deny), strings.Join(deny, ", "), f.Keyword)))
		}
	}
	if len(obs) == 0 {
		o := ok(R, "Value: no substatement slots", c.Pos(valT.Obj().Pos()), "the shared type has no slot besides name, statement, parent and extensions")
		obs = append(obs, o)
	}
	return obs
}

// operandClosureDeep: operandClosure that also enters the returned values of private helpers (inline.go).
func operandClosureDeep(v ssa.Value, visit func(ssa.Value)) {
	seenCall := map[*ssa.Call]bool{}
	var outer func(ssa.Value)
	outer = func(v ssa.Value) {
		operandClosure(v, func(x ssa.Value) {
			visit(x)
			call, isC := x.(*ssa.Call)
			if !isC || seenCall[call] {
				return
			}
			seenCall[call] = true
			cal := call.Call.StaticCallee()
			if cal == nil || exactHelper(cal) == nil {
				return
			}
			for _, b := range cal.Blocks {
				if r, isR := b.Instrs[len(b.Instrs)-1].(*ssa.Return); isR && b != cal.Recover {
					for _, res := range r.Results {
						outer(resolveSpill(res, r))
					}
				}
			}
		})
	}
	outer(v)
}

// ---------------------------------------------------------------- NUM.ERRVALUE (seeded C15-w10-1)

func init() {
	register(&Rule{Name: "NUM.ERRVALUE", Props: []string{"C15", "C14", "C10"}, Floor: 4,
		Doc: "the number a parser or conversion hands back together with an error is never used: every use of the value lies on the branch where the error was found nil, or passes value and error on together",
		Run: ruleNumErrValue})
}

func ruleNumErrValue(c *Ctx) []Obligation {
	const R = "NUM.ERRVALUE"
	numT := c.Named("yang", "Number")
	if numT == nil {
		return []Obligation{undecided(R, "Number", "-", "yang.Number not found")}
	}
	// the producers: repo functions of pkg/yang whose results are (number-like, error)
	isNumLike := func(t types.Type) bool {
		if namedOf(t) == numT {
			return true
		}
		if b, ok := t.Underlying().(*types.Basic); ok && b.Info()&types.IsInteger != 0 {
			return true
		}
		return false
	}
	producer := func(fn *ssa.Function) bool {
		if fn == nil || !c.isRepoFn(fn) || fn.Pkg == nil || shortPkg(fn.Pkg.Pkg.Path()) != "yang" {
			return false
		}
		res := fn.Signature.Results()
		if res.Len() != 2 || !isErrorType(res.At(1).Type()) || !isNumLike(res.At(0).Type()) {
			return false
		}
		// number-like in and out: a parser (string → Number) or a conversion (Number → int64)
		if namedOf(res.At(0).Type()) == numT {
			return true
		}
		return fn.Signature.Recv() != nil && namedOf(fn.Signature.Recv().Type()) == numT
	}
	var obs []Obligation
	for _, fn := range c.Funcs {
		if !c.isRepoFn(fn) {
			continue
		}
		seen := map[string]int{}
		eachInstr(fn, func(in ssa.Instruction) {
			call, isC := in.(*ssa.Call)
			if !isC {
				return
			}
			cal := call.Call.StaticCallee()
			if !producer(cal) {
				return
			}
			var val, errv *ssa.Extract
			for _, r := range refsOf(call) {
				if ex, isE := r.(*ssa.Extract); isE {
					if ex.Index == 0 {
						val = ex
					} else {
						errv = ex
					}
				}
			}
			base := fmt.Sprintf("%s: the value of %s is used only where its error is nil", c.FnName(c.inlineRoot(fn)), c.FnName(cal))
			seen[base]++
			con := base
			if seen[base] > 1 {
				con = fmt.Sprintf("%s #%d", base, seen[base])
			}
			pos := c.InstrPos(call)
			if val == nil {
				o := ok(R, con, pos, "the value is not used (or value and error are handed on as a pair)")
				o.Trivial = true
				obs = append(obs, o)
				return
			}
			if errv == nil {
				obs = append(obs, bad(R, con, pos, "the error result is never looked at, the value is used"))
				return
			}
			errNil := func(b *ssa.BasicBlock) bool {
				for _, g := range guardsAtDeep(b) {
					if x, isEq, isT := nilTest(g.Cond); isT && x == ssa.Value(errv) && isEq == g.Branch {
						return true
					}
				}
				return false
			}
			var offending ssa.Instruction
			var walk func(v ssa.Value, depth int)
			visited := map[ssa.Value]bool{}
			walk = func(v ssa.Value, depth int) {
				if visited[v] || depth > 6 {
					return
				}
				visited[v] = true
				for _, r := range refsOf(v) {
					switch u := r.(type) {
					case *ssa.Return:
						// handed on together with the error
						pair := false
						for _, res := range u.Results {
							if resolveSpill(res, u) == ssa.Value(errv) || res == ssa.Value(errv) {
								pair = true
							}
						}
						if pair || errNil(u.Block()) {
							continue
						}
						if offending == nil {
							offending = u
						}
					case *ssa.Phi:
						// merged with other values: fine if it arrives only from where the error is nil
						safe := true
						for i, e := range u.Edges {
							if e != v || i >= len(u.Block().Preds) {
								continue
							}
							pred := u.Block().Preds[i]
							edgeOK := errNil(pred)
							if ifi, isIf := pred.Instrs[len(pred.Instrs)-1].(*ssa.If); isIf && !edgeOK {
								// the edge itself is the branch of the test
								if x, isEq, isT := nilTest(ifi.Cond); isT && x == ssa.Value(errv) {
									for k, sc := range pred.Succs {
										if sc == u.Block() && (k == 0) == isEq {
											edgeOK = true
										}
									}
								}
							}
							if !edgeOK {
								safe = false
							}
						}
						if !safe {
							walk(u, depth+1)
						}
					case *ssa.Store:
						// kept in a variable: its loads are uses
						if al, isA := u.Addr.(*ssa.Alloc); isA && u.Val == v {
							for _, rr := range *al.Referrers() {
								if ld, isL := rr.(*ssa.UnOp); isL && ld.X == ssa.Value(al) {
									walk(ld, depth+1)
								}
							}
							continue
						}
						if !errNil(u.Block()) && offending == nil {
							offending = u
						}
					case *ssa.DebugRef:
					default:
						if !errNil(r.Block()) && offending == nil {
							offending = r
						}
					}
				}
			}
			walk(val, 0)
			if offending == nil {
				obs = append(obs, ok(R, con, pos, "every use is on the branch where the error is nil, or hands value and error on together"))
			} else {
				obs = append(obs, bad(R, con, c.InstrPos(offending), "the value is used on a path where the error may be non-nil: what a failed parse or conversion leaves in the value (zero, a saturated magnitude) is taken for the number that was written"))
			}
		})
	}
	return obs
}
